/-
Lemmas for C12 (response keys): legality, agreement with the runtime's key function, and
injectivity of the alias encoding on the tight argument class.
-/
import IsoVerif.Model.Core.Alias
import IsoVerif.Lemmas.PrintersAliasInj

namespace IsoVerif.Core

/-! helper lemmas live in their own namespace (no clashes with `PrintersAliasInj`) -/
namespace AliasA

/-! ### the partial alias function on list-free arguments -/

mutual
theorem aliasChunk_eq_T : (v : Value) → v.hasList = false → aliasChunk v = some (aliasChunkT v)
  | .var _, _ => by simp only [aliasChunk, aliasChunkT]
  | .int _, _ => by simp only [aliasChunk, aliasChunkT]
  | .bool _, _ => by simp only [aliasChunk, aliasChunkT]
  | .str _, _ => by simp only [aliasChunk, aliasChunkT]
  | .float _, _ => by simp only [aliasChunk, aliasChunkT]
  | .null, _ => by simp only [aliasChunk, aliasChunkT]
  | .enum _, _ => by simp only [aliasChunk, aliasChunkT]
  | .list _, h => by simp [Value.hasList] at h
  | .obj fields, h => by
      have := aliasFields_eq_T fields (by simpa only [Value.hasList] using h)
      simp only [aliasChunk, aliasChunkT, this, Option.map_some]
theorem aliasFields_eq_T : (fs : List (Str × Value)) → Value.fieldsHaveList fs = false →
    aliasFields fs = some (aliasFieldsT fs)
  | [], _ => by simp only [aliasFields, aliasFieldsT]
  | (k, v) :: rest, h => by
      simp only [Value.fieldsHaveList, Bool.or_eq_false_iff] at h
      simp only [aliasFields, aliasFieldsT, aliasChunk_eq_T v h.1, aliasFields_eq_T rest h.2]
end

theorem aliasArgs_eq_T : (a : Args) → argsHaveList a = false → aliasArgs a = some (aliasArgsT a)
  | [], _ => by simp only [aliasArgs, aliasArgsT]
  | (k, v) :: rest, h => by
      simp only [argsHaveList, List.any_cons, Bool.or_eq_false_iff] at h
      have h2 := aliasArgs_eq_T rest h.2
      simp only [aliasArgs, aliasArgsT, aliasArg, aliasChunk_eq_T v h.1, h2, Option.map_some,
        List.append_assoc]

/-! ### collapse -/
theorem isWordChar_95 : isWordChar 95 = true := by decide

theorem collapseStr_idem (s : Str) : collapseStr (collapseStr s) = collapseStr s := by
  unfold collapseStr
  rw [List.map_map]
  apply List.map_congr_left
  intro c _
  simp only [Function.comp]
  by_cases h : isWordChar c = true
  · simp only [h, if_true]
  · simp [h, isWordChar_95]

mutual
theorem aliasChunkT_collapse : (v : Value) → aliasChunkT v.collapse = aliasChunkT v
  | .var _ => by simp only [Value.collapse]
  | .int _ => by simp only [Value.collapse]
  | .bool _ => by simp only [Value.collapse]
  | .str s => by simp only [Value.collapse, aliasChunkT, collapseStr_idem]
  | .float _ => by simp only [Value.collapse]
  | .null => by simp only [Value.collapse]
  | .enum _ => by simp only [Value.collapse]
  | .list _ => by simp only [Value.collapse]
  | .obj fields => by simp only [Value.collapse, aliasChunkT, aliasFieldsT_collapse fields]
theorem aliasFieldsT_collapse : (fs : List (Str × Value)) →
    aliasFieldsT (Value.collapseFields fs) = aliasFieldsT fs
  | [] => by simp only [Value.collapseFields]
  | (k, v) :: rest => by
      simp only [Value.collapseFields, aliasFieldsT, aliasChunkT_collapse v, aliasFieldsT_collapse rest]
end

theorem aliasArgsT_collapse : (a : Args) → aliasArgsT (collapseArgs a) = aliasArgsT a
  | [] => by simp only [collapseArgs, Value.collapseFields]
  | (k, v) :: rest => by
      have h := aliasArgsT_collapse rest
      simp only [collapseArgs] at h
      simp only [collapseArgs, Value.collapseFields, aliasArgsT, aliasChunkT_collapse v, h]


/-! ### word strings -/

theorem isWordChar_iff (c : Nat) : isWordChar c = true ↔
    (65 ≤ c ∧ c ≤ 90) ∨ (97 ≤ c ∧ c ≤ 122) ∨ (48 ≤ c ∧ c ≤ 57) ∨ c = 95 := by
  simp only [isWordChar, Bool.or_eq_true, Bool.and_eq_true, decide_eq_true_eq, beq_iff_eq]
  omega

theorem isNameStart_word {c : Nat} (h : isNameStart c = true) : isWordChar c = true := by
  rw [isWordChar_iff]
  simp only [isNameStart, Bool.or_eq_true, Bool.and_eq_true, decide_eq_true_eq, beq_iff_eq] at h
  omega

theorem gqlName_word {s : Str} (h : isGqlName s = true) : s.all isWordChar = true := by
  cases s with
  | nil => simp [isGqlName] at h
  | cons c rest =>
    simp only [isGqlName, Bool.and_eq_true] at h
    simp only [List.all_cons, Bool.and_eq_true]
    exact ⟨isNameStart_word h.1, h.2⟩

theorem digit_word {n : Nat} (h : n < 10) : isWordChar (48 + n) = true := by
  rw [isWordChar_iff]; omega

theorem digitsAux_word : ∀ (fuel n : Nat) (acc : Str), acc.all isWordChar = true →
    (digitsAux fuel n acc).all isWordChar = true
  | 0, _, acc, h => by simpa only [digitsAux] using h
  | fuel + 1, n, acc, h => by
    simp only [digitsAux]
    split
    · next hn => simp only [List.all_cons, Bool.and_eq_true]; exact ⟨digit_word hn, h⟩
    · apply digitsAux_word
      simp only [List.all_cons, Bool.and_eq_true]
      exact ⟨digit_word (Nat.mod_lt _ (by decide)), h⟩

theorem showNat_word (n : Nat) : (showNat n).all isWordChar = true :=
  digitsAux_word _ _ _ rfl

theorem showInt_word {i : Int} (h : 0 ≤ i) : (showInt i).all isWordChar = true := by
  cases i with
  | ofNat n => exact showNat_word n
  | negSucc n => exact absurd h (by omega)

theorem showBool_word (b : Bool) : (showBool b).all isWordChar = true := by
  cases b <;> decide

theorem joinStr_word : ∀ (xs : List Str), (∀ x ∈ xs, x.all isWordChar = true) →
    (joinStr [95] xs).all isWordChar = true
  | [], _ => rfl
  | [x], h => by simpa only [joinStr] using h x (List.mem_singleton.2 rfl)
  | x :: y :: rest, h => by
    simp only [joinStr, List.all_append, Bool.and_eq_true]
    refine ⟨⟨h x (List.mem_cons_self ..), by decide⟩, joinStr_word (y :: rest) ?_⟩
    intro z hz
    exact h z (List.mem_cons_of_mem _ hz)

theorem collapseStr_word {s : Str} (h : s.all isWordChar = true) : collapseStr s = s := by
  unfold collapseStr
  induction s with
  | nil => rfl
  | cons c rest ih =>
    simp only [List.all_cons, Bool.and_eq_true] at h
    simp only [List.map_cons, h.1, if_true, ih h.2]

mutual
theorem aliasChunkT_word : (v : Value) → v.safe = true → (aliasChunkT v).all isWordChar = true
  | .var n, h => by
      simp only [Value.safe] at h
      simp only [aliasChunkT, List.all_append, gqlName_word h, Bool.and_true]; decide
  | .int i, h => by
      simp only [Value.safe, Bool.and_eq_true, decide_eq_true_eq] at h
      simp only [aliasChunkT, List.all_append, showInt_word h.1, Bool.and_true]; decide
  | .bool b, _ => by
      simp only [aliasChunkT, List.all_append, showBool_word b, Bool.and_true]; decide
  | .str s, h => by
      simp only [Value.safe, isWordStr] at h
      simp only [aliasChunkT, List.all_append, collapseStr_word h, h, Bool.and_true]; decide
  | .float _, h => by simp [Value.safe] at h
  | .null, _ => by simp only [aliasChunkT]; decide
  | .enum e, h => by
      simp only [Value.safe] at h
      simp only [aliasChunkT, List.all_append, gqlName_word h, Bool.and_true]; decide
  | .list _, h => by simp [Value.safe] at h
  | .obj fields, h => by
      simp only [Value.safe] at h
      have := joinStr_word _ (aliasFieldsT_word fields h)
      simp only [aliasChunkT, List.all_append, this, Bool.and_true]; decide
theorem aliasFieldsT_word : (fs : List (Str × Value)) → Value.safeFields fs = true →
    ∀ x ∈ aliasFieldsT fs, x.all isWordChar = true
  | [], _ => by intro x hx; simp [aliasFieldsT] at hx
  | (k, v) :: rest, h => by
      simp only [Value.safeFields, Bool.and_eq_true] at h
      intro x hx
      simp only [aliasFieldsT, List.mem_cons] at hx
      rcases hx with rfl | hx
      · simp only [List.all_append, gqlName_word h.1.1, aliasChunkT_word v h.1.2, Bool.and_true,
          Bool.true_and]; decide
      · exact aliasFieldsT_word rest h.2 x hx
end

theorem aliasArgsT_word : (a : Args) → safeArgs a = true → (aliasArgsT a).all isWordChar = true
  | [], _ => rfl
  | (k, v) :: rest, h => by
      simp only [safeArgs, Value.safeFields, Bool.and_eq_true] at h
      have h2 := aliasArgsT_word rest h.2
      simp only [aliasArgsT, List.all_append, gqlName_word h.1.1, aliasChunkT_word v h.1.2, h2,
        Bool.and_true]; decide

theorem isGqlName_append {f r : Str} (hf : isGqlName f = true) (hr : r.all isWordChar = true) :
    isGqlName (f ++ r) = true := by
  cases f with
  | nil => simp [isGqlName] at hf
  | cons c rest =>
    simp only [isGqlName, Bool.and_eq_true] at hf
    simp only [List.cons_append, isGqlName, List.all_append, Bool.and_eq_true]
    exact ⟨hf.1, hf.2, hr⟩



/-! ### JavaScript side on word strings -/

theorem utf16Char_word {c : Nat} (h : isWordChar c = true) : utf16Char c = [c] := by
  rw [isWordChar_iff] at h
  unfold utf16Char
  rw [if_pos (by omega)]

theorem utf16_word : ∀ {s : Str}, s.all isWordChar = true → utf16 s = s
  | [], _ => rfl
  | c :: rest, h => by
    simp only [List.all_cons, Bool.and_eq_true] at h
    have ih : utf16 rest = rest := utf16_word h.2
    simp only [utf16] at ih ⊢
    simp only [List.flatMap_cons, utf16Char_word h.1, ih, List.singleton_append]

theorem jsCollapse_word {s : Str} (h : s.all isWordChar = true) : jsCollapse s = s := by
  unfold jsCollapse isJsWordUnit
  induction s with
  | nil => rfl
  | cons c rest ih =>
    simp only [List.all_cons, Bool.and_eq_true] at h
    simp only [List.map_cons, h.1, if_true, ih h.2]

theorem jsStringBody_word : ∀ (fuel : Nat) (s : Str), s.length < fuel → s.all isWordChar = true →
    jsStringBody fuel s = some s
  | 0, _, hl, _ => absurd hl (Nat.not_lt_zero _)
  | fuel + 1, [], _, _ => by simp only [jsStringBody]
  | fuel + 1, c :: rest, hl, h => by
    simp only [List.all_cons, Bool.and_eq_true] at h
    have ih := jsStringBody_word fuel rest (by simpa using hl) h.2
    have hc := (isWordChar_iff c).1 h.1
    have h34 : (c == 34) = false := by simp only [beq_eq_false_iff_ne]; omega
    have h10 : (c == 10) = false := by simp only [beq_eq_false_iff_ne]; omega
    have h13 : (c == 13) = false := by simp only [beq_eq_false_iff_ne]; omega
    have h92 : (c != 92) = true := by simp only [bne_iff_ne]; omega
    simp only [jsStringBody, h34, h10, h13, h92, Bool.false_eq_true, if_false, if_true,
      Bool.or_self, ih, Option.map_some, utf16Char_word h.1, List.singleton_append]

theorem jsStringValue_word {s : Str} (h : s.all isWordChar = true) : jsStringValue s = some s :=
  jsStringBody_word _ _ (Nat.lt_succ_self _) h

/-! ### integers below 2^53 -/

theorem bitLen_le : ∀ (fuel n k : Nat), n < 2 ^ k → bitLen fuel n ≤ k
  | 0, _, _, _ => by simp only [bitLen]; omega
  | fuel + 1, n, k, h => by
    simp only [bitLen]
    split
    · omega
    · next hn =>
      have hn' : n ≠ 0 := by simpa using hn
      cases k with
      | zero => simp at h; omega
      | succ k =>
        have := bitLen_le fuel (n / 2) k (by rw [Nat.pow_succ] at h; omega)
        omega

theorem jsNatString_small {n : Nat} (h : n < 9007199254740992) : jsNatString n = showNat n := by
  have hb : bitLen (n + 1) n ≤ 53 := bitLen_le _ _ 53 (by simpa using h)
  have hr : roundToDouble n = n := by
    unfold roundToDouble
    simp only [hb, if_true]
  unfold jsNatString
  simp only [hr, hb, if_true]

theorem jsIntString_small {i : Int} (h0 : 0 ≤ i) (h1 : i < 9007199254740992) :
    jsIntString i = showInt i := by
  cases i with
  | ofNat n =>
    simp only [jsIntString, showInt]
    exact jsNatString_small (by simp only [Int.ofNat_eq_natCast] at h1; omega)
  | negSucc n => exact absurd h0 (by omega)


/-! ### the runtime key on `SafeArgs` -/

mutual
theorem jsChunk_eq : (v : Value) → v.safe = true → jsChunk v = some (aliasChunkT v)
  | .var n, h => by
      simp only [Value.safe] at h
      simp only [jsChunk, aliasChunkT, jsStringValue_word (gqlName_word h), Option.map_some,
        utf16_word (s := cs!"v_") (by decide)]
  | .int i, h => by
      have hw := aliasChunkT_word (.int i) h
      simp only [Value.safe, Bool.and_eq_true, decide_eq_true_eq] at h
      simp only [aliasChunkT] at hw
      simp only [jsChunk, aliasChunkT, jsIntString_small h.1 h.2, utf16_word hw]
  | .bool b, h => by
      have hw := aliasChunkT_word (.bool b) h
      simp only [aliasChunkT] at hw
      simp only [jsChunk, aliasChunkT, utf16_word hw]
  | .str s, h => by
      simp only [Value.safe, isWordStr] at h
      simp only [jsChunk, aliasChunkT, jsStringValue_word h, Option.map_some, jsCollapse_word h,
        collapseStr_word h, utf16_word (s := cs!"s_") (by decide)]
  | .float _, h => by simp [Value.safe] at h
  | .null, _ => by
      simp only [jsChunk, aliasChunkT, utf16_word (s := cs!"l_null") (by decide)]
  | .enum e, h => by
      simp only [Value.safe] at h
      simp only [jsChunk, aliasChunkT, jsStringValue_word (gqlName_word h), Option.map_some,
        utf16_word (s := cs!"e_") (by decide)]
  | .list _, h => by simp [Value.safe] at h
  | .obj fields, h => by
      simp only [Value.safe] at h
      simp only [jsChunk, aliasChunkT, jsFields_eq fields h, Option.map_some,
        utf16_word (s := cs!"o_") (by decide), utf16_word (s := cs!"_c") (by decide)]
theorem jsFields_eq : (fs : List (Str × Value)) → Value.safeFields fs = true →
    jsFields fs = some (aliasFieldsT fs)
  | [], _ => by simp only [jsFields, aliasFieldsT]
  | (k, v) :: rest, h => by
      simp only [Value.safeFields, Bool.and_eq_true] at h
      simp only [jsFields, aliasFieldsT, jsStringValue_word (gqlName_word h.1.1),
        jsChunk_eq v h.1.2, jsFields_eq rest h.2, utf16_word (s := cs!"__") (by decide)]
end

theorem jsArgs_eq : (a : Args) → safeArgs a = true → jsArgs a = some (aliasArgsT a)
  | [], _ => by simp only [jsArgs, aliasArgsT]
  | (k, v) :: rest, h => by
      simp only [safeArgs, Value.safeFields, Bool.and_eq_true] at h
      have h2 := jsArgs_eq rest h.2
      simp only [jsArgs, aliasArgsT, jsStringValue_word (gqlName_word h.1.1),
        jsChunk_eq v h.1.2, h2, utf16_word (s := cs!"____") (by decide),
        utf16_word (s := cs!"___") (by decide)]
end AliasA

open AliasA

/-! ### the four lemmas used by `Props/C12.lean` -/

/-- on list-free arguments the partial alias function (explicit panic) is the total one -/
theorem aliasOf_eq_aliasT (f : Str) (a : Args) (h : argsHaveList a = false) :
    aliasOf f a = some (aliasT f a) := by
  simp only [aliasOf, aliasT, aliasArgs_eq_T a h, Option.map_some]

/-- the alias only sees the collapse of the string arguments -/
theorem aliasT_collapse (f : Str) (a : Args) : aliasT f a = aliasT f (collapseArgs a) := by
  simp only [aliasT, aliasArgsT_collapse]

/-- legality on `SafeArgs` -/
theorem aliasT_legal (f : Str) (a : Args) (hf : isGqlName f = true) (ha : safeArgs a = true) :
    isGqlName (aliasT f a) = true :=
  isGqlName_append hf (aliasArgsT_word a ha)

/-- the runtime computes the compiler's key on `SafeArgs` -/
theorem networkResponseKey_eq_alias (f : Str) (a : Args) (hf : isGqlName f = true) (ha : safeArgs a = true) :
    networkResponseKey f a = some (utf16 (aliasT f a)) := by
  have hw : (aliasT f a).all isWordChar = true := by
    simp only [aliasT, List.all_append, gqlName_word hf, aliasArgsT_word a ha, Bool.and_true]
  rw [utf16_word hw]
  simp only [networkResponseKey, jsStringValue_word (gqlName_word hf), jsArgs_eq a ha, aliasT]

end IsoVerif.Core
