/-
Basic facts about the M-WATCH model: path prefixes, association-list maps, reading files and folders.
-/
import IsoVerif.Model.Watch

namespace IsoVerif.Watch

theorem isPrefix_refl (p : Path) : isPrefix p p = true := by
  induction p with
  | nil => simp [isPrefix]
  | cons a as ih => simp [isPrefix, ih]

theorem isPrefix_trans {a b c : Path} (h₁ : isPrefix a b = true) (h₂ : isPrefix b c = true) :
    isPrefix a c = true := by
  induction a generalizing b c with
  | nil => simp [isPrefix]
  | cons x xs ih =>
    cases b with
    | nil => simp [isPrefix] at h₁
    | cons y ys =>
      cases c with
      | nil => simp [isPrefix] at h₂
      | cons z zs =>
        simp only [isPrefix, Bool.and_eq_true, decide_eq_true_eq] at h₁ h₂ ⊢
        exact ⟨h₁.1.trans h₂.1, ih h₁.2 h₂.2⟩

theorem AMap.get_filter_key (m : AMap) (g : Path → Bool) (q : Path) :
    AMap.get (m.filter (fun kv => g kv.1)) q = if g q = true then AMap.get m q else none := by
  induction m with
  | nil => simp [AMap.get]
  | cons kv rest ih =>
    obtain ⟨k, c⟩ := kv
    by_cases hk : k = q
    · subst hk
      cases hg : g k
      · simp only [List.filter, hg] at ih ⊢
        simpa using ih
      · simp [List.filter, hg, AMap.get]
    · cases hg : g k
      · simp only [List.filter, hg, AMap.get, if_neg hk]
        exact ih
      · simp only [List.filter, hg, AMap.get, if_neg hk]
        exact ih

theorem AMap.get_remove (m : AMap) (p q : Path) :
    AMap.get (m.remove p) q = if p = q then none else AMap.get m q := by
  have h := AMap.get_filter_key m (fun k => !decide (k = p)) q
  unfold AMap.remove
  rw [h]
  by_cases hpq : p = q
  · subst hpq; simp
  · have : ¬ q = p := fun e => hpq e.symm
    simp [hpq, this]

theorem AMap.get_insert (m : AMap) (p : Path) (c : Content) (q : Path) :
    AMap.get (m.insert p c) q = if p = q then some c else AMap.get m q := by
  unfold AMap.insert
  by_cases hpq : p = q
  · simp [AMap.get, hpq]
  · simp only [AMap.get, if_neg hpq]
    rw [AMap.get_remove, if_neg hpq]

theorem get_removeFromPath_components (F : Facts) (hF : F.prefixByComponents = true) (m : AMap)
    (d q : Path) :
    AMap.get (removeFromPath F m d) q = if isPrefix d q = true then none else AMap.get m q := by
  have h := AMap.get_filter_key m (fun k => !isPrefix d k) q
  unfold removeFromPath
  simp only [hF, if_true]
  rw [h]
  cases isPrefix d q <;> simp

/-- inserting a list whose contents are a function of the path -/
theorem get_insertAll (m : AMap) (l : List (Path × Content)) (g : Path → Option Content)
    (hg : ∀ p c, (p, c) ∈ l → g p = some c) (q : Path) :
    AMap.get (insertAll m l) q = if q ∈ l.map (·.1) then g q else AMap.get m q := by
  induction l generalizing m with
  | nil => simp [insertAll]
  | cons pc rest ih =>
    obtain ⟨p, c⟩ := pc
    have hg' : ∀ p c, (p, c) ∈ rest → g p = some c := fun p' c' h' =>
      hg p' c' (List.mem_cons_of_mem _ h')
    simp only [insertAll]
    rw [ih (m.insert p c) hg', AMap.get_insert]
    by_cases hq : q ∈ rest.map (·.1)
    · simp [hq]
    · by_cases hpq : p = q
      · subst hpq
        simp [hg p c (List.mem_cons_self ..)]
      · have : ¬ q = p := fun e => hpq e.symm
        simp [hq, hpq, this]

theorem readFile_file (F : Facts) (hF : F.nonUtf8Skipped = true) (fs : Fs) (p : Path) (c : Content)
    (h : fs.get p = some (.file c)) :
    readFile F fs p = .ok (if c.utf8 = true then some c else none) := by
  unfold readFile
  rw [h]
  cases hu : c.utf8 <;> simp [hF, hu]

theorem readFolder_not_dir (F : Facts) (fs : Fs) (d : Path) (hd : isDir fs d = false) :
    readFolder F fs d = .error .traverse := by
  unfold readFolder
  simp [hd]

theorem Fs.get_mem {fs : Fs} {p : Path} {n : Node} (h : Fs.get fs p = some n) : (p, n) ∈ fs := by
  induction fs with
  | nil => simp [Fs.get] at h
  | cons qn rest ih =>
    obtain ⟨q, n'⟩ := qn
    by_cases hq : q = p
    · simp only [Fs.get, if_pos hq, Option.some.injEq] at h
      subst hq; subst h
      exact List.mem_cons_self ..
    · simp only [Fs.get, if_neg hq] at h
      exact List.mem_cons_of_mem _ (ih h)

theorem isFile_eq_true {fs : Fs} {p : Path} :
    isFile fs p = true ↔ ∃ c, Fs.get fs p = some (.file c) := by
  unfold isFile
  split
  · next c h => simp [h]
  · next h =>
    constructor
    · intro h'; cases h'
    · rintro ⟨c, hc⟩; exact absurd hc (h c)

theorem readAll_ok (F : Facts) (hF : F.nonUtf8Skipped = true) (fs : Fs) (ps : List Path)
    (hps : ∀ p ∈ ps, isFile fs p = true) :
    ∃ l, readAll F fs ps = .ok l ∧
      ∀ p c, (p, c) ∈ l ↔ (p ∈ ps ∧ Fs.get fs p = some (.file c) ∧ c.utf8 = true) := by
  induction ps with
  | nil => exact ⟨[], by simp [readAll]⟩
  | cons p rest ih =>
    obtain ⟨l, hl, hmem⟩ := ih (fun p' h' => hps p' (List.mem_cons_of_mem _ h'))
    obtain ⟨c0, hc0⟩ := isFile_eq_true.mp (hps p (List.mem_cons_self ..))
    have hr := readFile_file F hF fs p c0 hc0
    cases hu : c0.utf8
    · refine ⟨l, by simp [readAll, hr, hu, hl], ?_⟩
      intro p' c
      rw [hmem]
      constructor
      · rintro ⟨h1, h2, h3⟩
        exact ⟨List.mem_cons_of_mem _ h1, h2, h3⟩
      · rintro ⟨h1, h2, h3⟩
        rcases List.mem_cons.mp h1 with h1 | h1
        · subst h1
          rw [hc0] at h2
          simp only [Option.some.injEq, Node.file.injEq] at h2
          subst h2
          rw [hu] at h3; cases h3
        · exact ⟨h1, h2, h3⟩
    · refine ⟨(p, c0) :: l, by simp [readAll, hr, hu, hl], ?_⟩
      intro p' c
      rw [List.mem_cons, hmem]
      constructor
      · rintro (h | ⟨h1, h2, h3⟩)
        · simp only [Prod.mk.injEq] at h
          obtain ⟨rfl, rfl⟩ := h
          exact ⟨List.mem_cons_self .., hc0, hu⟩
        · exact ⟨List.mem_cons_of_mem _ h1, h2, h3⟩
      · rintro ⟨h1, h2, h3⟩
        rcases List.mem_cons.mp h1 with h1 | h1
        · subst h1
          rw [hc0] at h2
          simp only [Option.some.injEq, Node.file.injEq] at h2
          subst h2
          exact Or.inl rfl
        · exact Or.inr ⟨h1, h2, h3⟩

theorem mem_candidates {fs : Fs} {d p : Path} :
    p ∈ candidates fs d ↔
      ((∃ n, (p, n) ∈ fs) ∧ isPrefix d p = true ∧ isFile fs p = true ∧ passesFilter p = true) := by
  unfold candidates
  simp only [List.mem_map, List.mem_filter, Bool.and_eq_true]
  constructor
  · rintro ⟨⟨q, n⟩, ⟨hmem, ⟨h1, h2⟩, h3⟩, rfl⟩
    exact ⟨⟨n, hmem⟩, h1, h2, h3⟩
  · rintro ⟨⟨n, hmem⟩, h1, h2, h3⟩
    exact ⟨(p, n), ⟨hmem, ⟨h1, h2⟩, h3⟩, rfl⟩

/-- with non-UTF-8 files skipped, reading an existing folder cannot fail, and yields exactly the
UTF-8 files below it whose path passes the filter -/
theorem readFolder_dir (F : Facts) (hF : F.nonUtf8Skipped = true) (fs : Fs) (d : Path)
    (hd : isDir fs d = true) :
    ∃ l, readFolder F fs d = .ok l ∧
      ∀ p c, (p, c) ∈ l ↔
        (isPrefix d p = true ∧ passesFilter p = true ∧ fs.get p = some (.file c) ∧ c.utf8 = true) := by
  obtain ⟨l, hl, hmem⟩ := readAll_ok F hF fs (candidates fs d)
    (fun p hp => (mem_candidates.mp hp).2.2.1)
  refine ⟨l, by simp [readFolder, hd, hl], ?_⟩
  intro p c
  rw [hmem, mem_candidates]
  constructor
  · rintro ⟨⟨_, h1, _, h3⟩, h4, h5⟩
    exact ⟨h1, h3, h4, h5⟩
  · rintro ⟨h1, h3, h4, h5⟩
    exact ⟨⟨⟨_, Fs.get_mem h4⟩, h1, isFile_eq_true.mpr ⟨c, h4⟩, h3⟩, h4, h5⟩

end IsoVerif.Watch
