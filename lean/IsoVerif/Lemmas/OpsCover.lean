import IsoVerif.Model.Core.OpsCover

/-!
C10, compiler side (after the repairs of F12b — the compiler substitutes variables inside objects too —
and of the default values — the reader's Resolver node carries the default of every variable that is
not passed): for validated selections (`selsSafe`: used variables are declared, defaults are
constants) of a program whose client fields declare DISTINCT variable names (`progDistinct`) the keys
the runtime reads are exactly the keys of the merged selection map (`read_eq_merge`, hence
`merge_covers`).  Before the repairs they were not: `f12b_not_covered_before_repair` (old compiler
functions `cSubstOld`, `cChildCtxOld`, `mergeKeysOld`), `default_not_covered_before_repair` (old
reader `readKeysOld`).  `progDistinct` is needed: `dup_not_covered`.
-/
namespace IsoVerif.Ops.Cover

/-! ### small helpers -/

theorem argsSafe_mem {declared : List Nat} {args : Args} (h : argsSafe declared args = true)
    {p : Nat × V} (hm : p ∈ args) : V.varsIn declared p.2 = true := by
  unfold argsSafe at h
  rw [List.all_eq_true] at h
  exact h p hm

/-- the compiler context and the runtime environment give the declared names the same values -/
def Agree (declared : List Nat) (c e : Ctx) : Prop := ∀ n ∈ declared, look c n = look e n

theorem look_nil (n : Nat) : look [] n = .null := rfl

theorem look_cons (x : Nat) (v : V) (c : Ctx) (n : Nat) :
    look ((x, v) :: c) n = if x = n then v else look c n := by
  unfold look
  rw [List.find?_cons]
  by_cases h : x = n
  · simp [h]
  · have : (x == n) = false := by simpa using h
    simp [h, this]

theorem look_identity (ds : List (Nat × Option V)) (m : Nat) (h : m ∈ ds.map (·.1)) :
    look (identityCtx ds) m = .var m := by
  induction ds with
  | nil => simp at h
  | cons p ds ih =>
    obtain ⟨x, d⟩ := p
    have hc : identityCtx ((x, d) :: ds) = (x, .var x) :: identityCtx ds := rfl
    rw [hc, look_cons]
    by_cases hx : x = m
    · simp [hx]
    · simp only [hx, if_false]
      apply ih
      simp only [List.map_cons, List.mem_cons] at h
      rcases h with h | h
      · exact absurd h.symm hx
      · exact h

/-! ### argument values -/

mutual
/-- (1) on a value whose variables are declared the two substitutions agree -/
theorem rSubst_eq_cSubst {declared : List Nat} {c e : Ctx} (hag : Agree declared c e) :
    ∀ (v : V), V.varsIn declared v = true → rSubst e v = cSubst c v
  | .var n, h => by
    simp only [V.varsIn, List.contains_iff_mem] at h
    simp only [rSubst, cSubst]
    exact (hag n h).symm
  | .lit _, _ => by simp [rSubst, cSubst]
  | .null, _ => by simp [rSubst, cSubst]
  | .obj fs, h => by
    simp only [V.varsIn] at h
    simp only [rSubst, cSubst, rSubstL_eq_cSubstL hag fs h]
theorem rSubstL_eq_cSubstL {declared : List Nat} {c e : Ctx} (hag : Agree declared c e) :
    ∀ (fs : VL), VL.varsIn declared fs = true → rSubstL e fs = cSubstL c fs
  | .nil, _ => by simp [rSubstL, cSubstL]
  | .cons k v r, h => by
    simp only [VL.varsIn, Bool.and_eq_true] at h
    simp only [rSubstL, cSubstL, rSubst_eq_cSubst hag v h.1, rSubstL_eq_cSubstL hag r h.2]
end

mutual
/-- the identity context fixes the values whose variables it declares -/
theorem cSubst_identity (ds : List (Nat × Option V)) :
    ∀ (v : V), V.varsIn (ds.map (·.1)) v = true → cSubst (identityCtx ds) v = v
  | .var n, h => by
    simp only [V.varsIn, List.contains_iff_mem] at h
    simp only [cSubst, look_identity ds n h]
  | .lit _, _ => by simp [cSubst]
  | .null, _ => by simp [cSubst]
  | .obj fs, h => by
    simp only [V.varsIn] at h
    simp only [cSubst, cSubstL_identity ds fs h]
theorem cSubstL_identity (ds : List (Nat × Option V)) :
    ∀ (fs : VL), VL.varsIn (ds.map (·.1)) fs = true → cSubstL (identityCtx ds) fs = fs
  | .nil, _ => by simp [cSubstL]
  | .cons k v r, h => by
    simp only [VL.varsIn, Bool.and_eq_true] at h
    simp only [cSubstL, cSubst_identity ds v h.1, cSubstL_identity ds r h.2]
end

/-! ### constants are fixed by both substitutions -/

theorem orElse_none {α : Type} {a : Option α} {b : Unit → Option α}
    (h : a.orElse b = none) : a = none ∧ b () = none := by
  cases a with
  | none => exact ⟨rfl, by simpa [Option.orElse] using h⟩
  | some x => simp [Option.orElse] at h

mutual
theorem rSubst_const (e : Ctx) : ∀ (v : V), V.firstVar v = none → rSubst e v = v
  | .var n, h => by simp [V.firstVar] at h
  | .lit _, _ => by simp [rSubst]
  | .null, _ => by simp [rSubst]
  | .obj fs, h => by
    simp only [V.firstVar] at h
    simp only [rSubst, rSubstL_const e fs h]
theorem rSubstL_const (e : Ctx) : ∀ (fs : VL), VL.firstVar fs = none → rSubstL e fs = fs
  | .nil, _ => by simp [rSubstL]
  | .cons k v r, h => by
    simp only [VL.firstVar] at h
    obtain ⟨h1, h2⟩ := orElse_none h
    simp only [rSubstL, rSubst_const e v h1, rSubstL_const e r h2]
end

mutual
theorem cSubst_const (c : Ctx) : ∀ (v : V), V.firstVar v = none → cSubst c v = v
  | .var n, h => by simp [V.firstVar] at h
  | .lit _, _ => by simp [cSubst]
  | .null, _ => by simp [cSubst]
  | .obj fs, h => by
    simp only [V.firstVar] at h
    simp only [cSubst, cSubstL_const c fs h]
theorem cSubstL_const (c : Ctx) : ∀ (fs : VL), VL.firstVar fs = none → cSubstL c fs = fs
  | .nil, _ => by simp [cSubstL]
  | .cons k v r, h => by
    simp only [VL.firstVar] at h
    obtain ⟨h1, h2⟩ := orElse_none h
    simp only [cSubstL, cSubst_const c v h1, cSubstL_const c r h2]
end

theorem defaultsConstant_mem {defs : List (Nat × Option V)} (h : defaultsConstant defs = true)
    {p : Nat × Option V} (hm : p ∈ defs) {d : V} (hd : p.2 = some d) : V.firstVar d = none := by
  unfold defaultsConstant at h
  rw [List.all_eq_true] at h
  have := h p hm
  obtain ⟨x, dflt⟩ := p
  simp only at hd
  subst hd
  simpa using this

/-! ### child contexts -/

def cChildVal (c : Ctx) (args : Args) (x : Nat) (dflt : Option V) : V :=
  match args.find? (·.1 == x) with
  | some p => cSubst c p.2
  | none => dflt.getD .null

theorem cChildCtx_cons (c : Ctx) (args : Args) (x : Nat) (dflt : Option V)
    (rest : List (Nat × Option V)) :
    cChildCtx c args ((x, dflt) :: rest) = (x, cChildVal c args x dflt) :: cChildCtx c args rest := by
  simp only [cChildCtx, List.map_cons, cChildVal]
  congr 1
  cases h : List.find? (fun x_1 => x_1.fst == x) args with
  | none => rfl
  | some p => rfl

theorem look_cChildCtx (c : Ctx) (args : Args) (defs : List (Nat × Option V)) (n : Nat) :
    look (cChildCtx c args defs) n =
      match defs.find? (·.1 == n) with
      | some p => cChildVal c args n p.2
      | none => .null := by
  induction defs with
  | nil => rfl
  | cons p defs ih =>
    obtain ⟨x, d⟩ := p
    rw [cChildCtx_cons, look_cons, List.find?_cons]
    by_cases hx : x = n
    · subst hx; simp
    · have : (x == n) = false := by simpa using hx
      simp only [hx, if_false, this, ih]

theorem look_rChildEnv (e : Ctx) (args : Args) (n : Nat) :
    look (rChildEnv e args) n =
      match args.find? (·.1 == n) with
      | some p => rSubst e p.2
      | none => .null := by
  induction args with
  | nil => rfl
  | cons p args ih =>
    obtain ⟨x, a⟩ := p
    have hc : rChildEnv e ((x, a) :: args) = (x, rSubst e a) :: rChildEnv e args := rfl
    rw [hc, look_cons, List.find?_cons]
    by_cases hx : x = n
    · subst hx; simp
    · have : (x == n) = false := by simpa using hx
      simp only [hx, if_false, this, ih]

/-! the defaults the Resolver node appends -/

def dfltArgs (args : Args) (defs : List (Nat × Option V)) : Args :=
  defs.filterMap fun (x, dflt) =>
    match dflt with
    | some d => if (args.find? (·.1 == x)).isSome then none else some (x, d)
    | none => none

theorem resolverArgs_eq (args : Args) (defs : List (Nat × Option V)) :
    resolverArgs args defs = args ++ dfltArgs args defs := rfl

theorem dfltArgs_cons_none (args : Args) (x : Nat) (rest : List (Nat × Option V)) :
    dfltArgs args ((x, none) :: rest) = dfltArgs args rest := by
  simp [dfltArgs]

theorem dfltArgs_cons_passed (args : Args) (x : Nat) (d : V) (rest : List (Nat × Option V))
    (h : (args.find? (·.1 == x)).isSome = true) :
    dfltArgs args ((x, some d) :: rest) = dfltArgs args rest := by
  simp only [dfltArgs, List.filterMap_cons, h, if_true]

theorem dfltArgs_cons_missing (args : Args) (x : Nat) (d : V) (rest : List (Nat × Option V))
    (h : args.find? (·.1 == x) = none) :
    dfltArgs args ((x, some d) :: rest) = (x, d) :: dfltArgs args rest := by
  simp [dfltArgs, h]

theorem dfltArgs_names (args : Args) (defs : List (Nat × Option V)) (q : Nat × V)
    (h : q ∈ dfltArgs args defs) : q.1 ∈ defs.map (·.1) := by
  induction defs with
  | nil => simp [dfltArgs] at h
  | cons p defs ih =>
    obtain ⟨x, dflt⟩ := p
    rw [List.map_cons, List.mem_cons]
    cases dflt with
    | none =>
      rw [dfltArgs_cons_none] at h
      exact Or.inr (ih h)
    | some d =>
      cases hq : args.find? (·.1 == x) with
      | some a =>
        rw [dfltArgs_cons_passed _ _ _ _ (by rw [hq]; rfl)] at h
        exact Or.inr (ih h)
      | none =>
        rw [dfltArgs_cons_missing _ _ _ _ hq, List.mem_cons] at h
        rcases h with h | h
        · exact Or.inl (by rw [h])
        · exact Or.inr (ih h)

theorem look_rChildEnv_notin (e : Ctx) (args : Args) (n : Nat)
    (h : ∀ q ∈ args, q.1 ≠ n) : look (rChildEnv e args) n = .null := by
  rw [look_rChildEnv]
  have : args.find? (·.1 == n) = none := by
    rw [List.find?_eq_none]
    intro q hq
    simpa using h q hq
  rw [this]

/-- the first (and, the names being distinct, only) declaration of `n` decides what the appended
defaults say about a variable `n` that is not passed -/
theorem look_dfltArgs (e : Ctx) (args : Args) (n : Nat) (hn : args.find? (·.1 == n) = none) :
    ∀ (defs : List (Nat × Option V)), (defs.map (·.1)).Nodup →
    look (rChildEnv e (dfltArgs args defs)) n =
      match defs.find? (·.1 == n) with
      | some p => (match p.2 with
                   | some d => rSubst e d
                   | none => .null)
      | none => .null
  | [], _ => rfl
  | (x, dflt) :: rest, hnd => by
    rw [List.map_cons, List.nodup_cons] at hnd
    rw [List.find?_cons]
    by_cases hx : x = n
    · subst hx
      simp only [beq_self_eq_true]
      cases dflt with
      | none =>
        rw [dfltArgs_cons_none]
        apply look_rChildEnv_notin
        intro q hq hqx
        exact hnd.1 (hqx ▸ dfltArgs_names args rest q hq)
      | some d =>
        rw [dfltArgs_cons_missing _ _ _ _ hn]
        have hc : rChildEnv e ((x, d) :: dfltArgs args rest) =
            (x, rSubst e d) :: rChildEnv e (dfltArgs args rest) := rfl
        rw [hc, look_cons]
        simp
    · have hb : (x == n) = false := by simpa using hx
      simp only [hb]
      cases dflt with
      | none =>
        rw [dfltArgs_cons_none]
        exact look_dfltArgs e args n hn rest hnd.2
      | some d =>
        cases hq : args.find? (·.1 == x) with
        | some a =>
          rw [dfltArgs_cons_passed _ _ _ _ (by rw [hq]; rfl)]
          exact look_dfltArgs e args n hn rest hnd.2
        | none =>
          rw [dfltArgs_cons_missing _ _ _ _ hq]
          have hc : rChildEnv e ((x, d) :: dfltArgs args rest) =
              (x, rSubst e d) :: rChildEnv e (dfltArgs args rest) := rfl
          rw [hc, look_cons]
          simp only [hx, if_false]
          exact look_dfltArgs e args n hn rest hnd.2

theorem look_resolver_passed (e : Ctx) (args : Args) (defs : List (Nat × Option V)) (n : Nat)
    {q : Nat × V} (hq : args.find? (·.1 == n) = some q) :
    look (rChildEnv e (resolverArgs args defs)) n = rSubst e q.2 := by
  rw [look_rChildEnv, resolverArgs_eq, List.find?_append, hq]
  rfl

theorem look_resolver_missing (e : Ctx) (args : Args) (defs : List (Nat × Option V)) (n : Nat)
    (hq : args.find? (·.1 == n) = none) :
    look (rChildEnv e (resolverArgs args defs)) n = look (rChildEnv e (dfltArgs args defs)) n := by
  rw [look_rChildEnv, look_rChildEnv, resolverArgs_eq, List.find?_append, hq]
  rfl

/-- (3) the compiler's child context and the runtime's child environment (built from the Resolver
node's arguments: the passed ones, then the defaults of the missing ones) agree on the callee's
variables, when these have distinct names -/
theorem child_agree {declared : List Nat} {c e : Ctx} (hag : Agree declared c e)
    {args : Args} (ha : argsSafe declared args = true)
    {defs : List (Nat × Option V)} (hc : defaultsConstant defs = true)
    (hnd : (defs.map (·.1)).Nodup) :
    Agree (defs.map (·.1)) (cChildCtx c args defs) (rChildEnv e (resolverArgs args defs)) := by
  intro n hn
  rw [look_cChildCtx]
  cases hf : defs.find? (·.1 == n) with
  | none =>
    rw [List.find?_eq_none] at hf
    simp only [List.mem_map] at hn
    obtain ⟨p, hp, rfl⟩ := hn
    exact absurd (by simp) (hf p hp)
  | some p =>
    have hpm := List.mem_of_find?_eq_some hf
    simp only [cChildVal]
    cases hq : args.find? (·.1 == n) with
    | none =>
      rw [look_resolver_missing e args defs n hq, look_dfltArgs e args n hq defs hnd, hf]
      simp only
      cases hd : p.2 with
      | none => rfl
      | some d =>
        simp only [Option.getD_some, rSubst_const e d (defaultsConstant_mem hc hpm hd)]
    | some q =>
      have hqm := List.mem_of_find?_eq_some hq
      rw [look_resolver_passed e args defs n hq]
      exact (rSubst_eq_cSubst hag q.2 (argsSafe_mem ha hqm)).symm

mutual
/-- (2) transforming with the caller's context composes with the child context built under the
caller's identity context — for every value, objects included -/
theorem cSubst_comp (c : Ctx) (ds : List (Nat × Option V)) {args : Args}
    (ha : argsSafe (ds.map (·.1)) args = true)
    {defs : List (Nat × Option V)} (hc : defaultsConstant defs = true) :
    ∀ (v : V),
      cSubst c (cSubst (cChildCtx (identityCtx ds) args defs) v) = cSubst (cChildCtx c args defs) v
  | .lit _ => by simp [cSubst]
  | .null => by simp [cSubst]
  | .obj fs => by simp only [cSubst, cSubstL_comp c ds ha hc fs]
  | .var m => by
    simp only [cSubst]
    rw [look_cChildCtx, look_cChildCtx]
    cases hf : defs.find? (·.1 == m) with
    | none => simp [cSubst]
    | some p =>
      have hpm := List.mem_of_find?_eq_some hf
      simp only [cChildVal]
      cases hq : args.find? (·.1 == m) with
      | none =>
        cases hd : p.2 with
        | none => simp [cSubst]
        | some d =>
          simp only [Option.getD_some, cSubst_const c d (defaultsConstant_mem hc hpm hd)]
      | some q =>
        have hqm := List.mem_of_find?_eq_some hq
        simp only [cSubst_identity ds q.2 (argsSafe_mem ha hqm)]
theorem cSubstL_comp (c : Ctx) (ds : List (Nat × Option V)) {args : Args}
    (ha : argsSafe (ds.map (·.1)) args = true)
    {defs : List (Nat × Option V)} (hc : defaultsConstant defs = true) :
    ∀ (fs : VL),
      cSubstL c (cSubstL (cChildCtx (identityCtx ds) args defs) fs) =
        cSubstL (cChildCtx c args defs) fs
  | .nil => by simp [cSubstL]
  | .cons k v r => by
    simp only [cSubstL, cSubst_comp c ds ha hc v, cSubstL_comp c ds ha hc r]
end

/-! ### keys -/

def KT (c : Ctx) (px : List Key × Key) : List Key × Key := (px.1.map (keyT c), keyT c px.2)
def pre (k : Key) (px : List Key × Key) : List Key × Key := (k :: px.1, px.2)

theorem keyT_comp (c : Ctx) (ds : List (Nat × Option V)) {args : Args}
    (ha : argsSafe (ds.map (·.1)) args = true)
    {defs : List (Nat × Option V)} (hc : defaultsConstant defs = true) (k : Key) :
    keyT c (keyT (cChildCtx (identityCtx ds) args defs) k) = keyT (cChildCtx c args defs) k := by
  simp only [keyT, List.map_map]
  congr 1
  apply List.map_congr_left
  intro p _
  obtain ⟨x, v⟩ := p
  simp only [Function.comp, cSubst_comp c ds ha hc v]

theorem KT_comp (c : Ctx) (ds : List (Nat × Option V)) {args : Args}
    (ha : argsSafe (ds.map (·.1)) args = true)
    {defs : List (Nat × Option V)} (hc : defaultsConstant defs = true) (px : List Key × Key) :
    KT c (KT (cChildCtx (identityCtx ds) args defs) px) = KT (cChildCtx c args defs) px := by
  simp only [KT, List.map_map, keyT_comp c ds ha hc]
  congr 1
  apply List.map_congr_left
  intro k _
  exact keyT_comp c ds ha hc k

theorem KT_pre (c : Ctx) (k : Key) (px : List Key × Key) :
    KT c (pre k px) = pre (keyT c k) (KT c px) := rfl

theorem keyT_keyC_identity (c : Ctx) (ds : List (Nat × Option V)) (n : Nat) {args : Args}
    (ha : argsSafe (ds.map (·.1)) args = true) :
    keyT c (keyC (identityCtx ds) n args) = keyC c n args := by
  simp only [keyT, keyC, List.map_map]
  congr 1
  apply List.map_congr_left
  intro p hp
  have hs := argsSafe_mem ha hp
  obtain ⟨x, v⟩ := p
  simp only [Function.comp, cSubst_identity ds v hs]

theorem keyR_eq_keyC {declared : List Nat} {c e : Ctx} (hag : Agree declared c e) (n : Nat)
    {args : Args} (ha : argsSafe declared args = true) : keyR e n args = keyC c n args := by
  simp only [keyR, keyC]
  congr 1
  apply List.map_congr_left
  intro p hp
  have hs := argsSafe_mem ha hp
  obtain ⟨x, v⟩ := p
  simp only [rSubst_eq_cSubst hag v hs]

/-! ### unfolding the two traversals -/

theorem mergeKeys_scalar (prog : Prog) (fuel : Nat) (c : Ctx) (n : Nat) (a : Args) (rest : List S) :
    mergeKeys prog (fuel + 1) c (.scalar n a :: rest) =
      ([], keyC c n a) :: mergeKeys prog fuel c rest := rfl

theorem mergeKeys_linked (prog : Prog) (fuel : Nat) (c : Ctx) (n : Nat) (a : Args) (kids rest : List S) :
    mergeKeys prog (fuel + 1) c (.linked n a kids :: rest) =
      ([], keyC c n a) ::
        ((mergeKeys prog fuel c kids).map (pre (keyC c n a)) ++ mergeKeys prog fuel c rest) := by
  simp only [mergeKeys, List.cons_append]
  congr 2

theorem mergeKeys_client_none (prog : Prog) (fuel : Nat) (c : Ctx) (i : Nat) (a : Args) (rest : List S)
    (h : prog[i]? = none) :
    mergeKeys prog (fuel + 1) c (.client i a :: rest) = mergeKeys prog fuel c rest := by
  simp only [mergeKeys, h, List.nil_append]

theorem mergeKeys_client_some (prog : Prog) (fuel : Nat) (c : Ctx) (i : Nat) (a : Args) (rest : List S)
    (d : ClientDef) (h : prog[i]? = some d) :
    mergeKeys prog (fuel + 1) c (.client i a :: rest) =
      (mergeKeys prog fuel (identityCtx d.vars) d.body).map (KT (cChildCtx c a d.vars)) ++
        mergeKeys prog fuel c rest := by
  simp only [mergeKeys, h]
  congr 1

theorem readKeys_scalar (prog : Prog) (fuel : Nat) (e : Ctx) (n : Nat) (a : Args) (rest : List S) :
    readKeys prog (fuel + 1) e (.scalar n a :: rest) =
      ([], keyR e n a) :: readKeys prog fuel e rest := rfl

theorem readKeys_linked (prog : Prog) (fuel : Nat) (e : Ctx) (n : Nat) (a : Args) (kids rest : List S) :
    readKeys prog (fuel + 1) e (.linked n a kids :: rest) =
      ([], keyR e n a) ::
        ((readKeys prog fuel e kids).map (pre (keyR e n a)) ++ readKeys prog fuel e rest) := by
  simp only [readKeys, List.cons_append]
  congr 2

theorem readKeys_client_none (prog : Prog) (fuel : Nat) (e : Ctx) (i : Nat) (a : Args) (rest : List S)
    (h : prog[i]? = none) :
    readKeys prog (fuel + 1) e (.client i a :: rest) = readKeys prog fuel e rest := by
  simp only [readKeys, h, List.nil_append]

theorem readKeys_client_some (prog : Prog) (fuel : Nat) (e : Ctx) (i : Nat) (a : Args) (rest : List S)
    (d : ClientDef) (h : prog[i]? = some d) :
    readKeys prog (fuel + 1) e (.client i a :: rest) =
      readKeys prog fuel (rChildEnv e (resolverArgs a d.vars)) d.body ++ readKeys prog fuel e rest := by
  simp only [readKeys, h]

theorem selsSafe_scalar (prog : Prog) (fuel : Nat) (dc : List Nat) (n : Nat) (a : Args) (rest : List S) :
    selsSafe prog (fuel + 1) dc (.scalar n a :: rest) =
      (argsSafe dc a && selsSafe prog fuel dc rest) := rfl

theorem selsSafe_linked (prog : Prog) (fuel : Nat) (dc : List Nat) (n : Nat) (a : Args)
    (kids rest : List S) :
    selsSafe prog (fuel + 1) dc (.linked n a kids :: rest) =
      (argsSafe dc a && selsSafe prog fuel dc kids && selsSafe prog fuel dc rest) := rfl

theorem selsSafe_client_none (prog : Prog) (fuel : Nat) (dc : List Nat) (i : Nat) (a : Args)
    (rest : List S) (h : prog[i]? = none) :
    selsSafe prog (fuel + 1) dc (.client i a :: rest) =
      (argsSafe dc a && selsSafe prog fuel dc rest) := by
  simp only [selsSafe, h, Bool.and_true]

theorem selsSafe_client_some (prog : Prog) (fuel : Nat) (dc : List Nat) (i : Nat) (a : Args)
    (rest : List S) (d : ClientDef) (h : prog[i]? = some d) :
    selsSafe prog (fuel + 1) dc (.client i a :: rest) =
      (argsSafe dc a && (defaultsConstant d.vars && selsSafe prog fuel (d.vars.map (·.1)) d.body) &&
        selsSafe prog fuel dc rest) := by
  simp only [selsSafe, h]

/-! ### the merged map under any context is the transformed map under the identity context -/

theorem merge_transform (prog : Prog) : ∀ (fuel : Nat) (c : Ctx) (ds : List (Nat × Option V))
    (sels : List S), selsSafe prog fuel (ds.map (·.1)) sels = true →
    mergeKeys prog fuel c sels = (mergeKeys prog fuel (identityCtx ds) sels).map (KT c)
  | 0, _, _, _, _ => rfl
  | _ + 1, _, _, [], _ => rfl
  | fuel + 1, c, ds, s :: rest, h => by
    cases s with
    | scalar n a =>
      rw [selsSafe_scalar, Bool.and_eq_true] at h
      rw [mergeKeys_scalar, mergeKeys_scalar, List.map_cons,
        ← merge_transform prog fuel c ds rest h.2]
      simp only [KT, List.map_nil, keyT_keyC_identity c ds n h.1]
    | linked n a kids =>
      rw [selsSafe_linked, Bool.and_eq_true, Bool.and_eq_true] at h
      rw [mergeKeys_linked, mergeKeys_linked, List.map_cons, List.map_append,
        ← merge_transform prog fuel c ds rest h.2, List.map_map,
        merge_transform prog fuel c ds kids h.1.2, List.map_map]
      have hk := keyT_keyC_identity c ds n h.1.1
      congr 1
      · simp only [KT, List.map_nil, hk]
      · congr 1
        apply List.map_congr_left
        intro px _
        simp only [Function.comp, KT_pre, hk]
    | client i a =>
      cases hp : prog[i]? with
      | none =>
        rw [selsSafe_client_none _ _ _ _ _ _ hp, Bool.and_eq_true] at h
        rw [mergeKeys_client_none _ _ _ _ _ _ hp, mergeKeys_client_none _ _ _ _ _ _ hp]
        exact merge_transform prog fuel c ds rest h.2
      | some d =>
        rw [selsSafe_client_some _ _ _ _ _ _ d hp, Bool.and_eq_true, Bool.and_eq_true,
          Bool.and_eq_true] at h
        rw [mergeKeys_client_some _ _ _ _ _ _ d hp, mergeKeys_client_some _ _ _ _ _ _ d hp,
          List.map_append, ← merge_transform prog fuel c ds rest h.2, List.map_map]
        congr 1
        apply List.map_congr_left
        intro px _
        exact (KT_comp c ds h.1.1 h.1.2.1 px).symm

/-! ### inside the envelope the reader reads exactly the keys of the merged map -/

/-- the variables a client field declares have distinct names (validation guarantees it; needed because
`cChildCtx` asks the FIRST declaration of a name for its default, the Resolver node's appended
defaults the first declaration of that name that HAS a default — see `dup_not_covered`) -/
def varsDistinct (defs : List (Nat × Option V)) : Bool := decide (defs.map (·.1)).Nodup
def progDistinct (prog : Prog) : Bool := prog.all fun d => varsDistinct d.vars

theorem progDistinct_get {prog : Prog} (h : progDistinct prog = true) {i : Nat} {d : ClientDef}
    (hp : prog[i]? = some d) : (d.vars.map (·.1)).Nodup := by
  unfold progDistinct at h
  rw [List.all_eq_true] at h
  have := h d (List.mem_of_getElem? hp)
  simpa [varsDistinct] using this

theorem read_eq_merge (prog : Prog) (hd : progDistinct prog = true) :
    ∀ (fuel : Nat) (declared : List Nat) (c e : Ctx)
    (sels : List S), selsSafe prog fuel declared sels = true → Agree declared c e →
    readKeys prog fuel e sels = mergeKeys prog fuel c sels
  | 0, _, _, _, _, _, _ => rfl
  | _ + 1, _, _, _, [], _, _ => rfl
  | fuel + 1, dc, c, e, s :: rest, h, hag => by
    cases s with
    | scalar n a =>
      rw [selsSafe_scalar, Bool.and_eq_true] at h
      rw [readKeys_scalar, mergeKeys_scalar, keyR_eq_keyC hag n h.1,
        read_eq_merge prog hd fuel dc c e rest h.2 hag]
    | linked n a kids =>
      rw [selsSafe_linked, Bool.and_eq_true, Bool.and_eq_true] at h
      rw [readKeys_linked, mergeKeys_linked, keyR_eq_keyC hag n h.1.1,
        read_eq_merge prog hd fuel dc c e rest h.2 hag,
        read_eq_merge prog hd fuel dc c e kids h.1.2 hag]
    | client i a =>
      cases hp : prog[i]? with
      | none =>
        rw [selsSafe_client_none _ _ _ _ _ _ hp, Bool.and_eq_true] at h
        rw [readKeys_client_none _ _ _ _ _ _ hp, mergeKeys_client_none _ _ _ _ _ _ hp]
        exact read_eq_merge prog hd fuel dc c e rest h.2 hag
      | some d =>
        rw [selsSafe_client_some _ _ _ _ _ _ d hp, Bool.and_eq_true, Bool.and_eq_true,
          Bool.and_eq_true] at h
        rw [readKeys_client_some _ _ _ _ _ _ d hp, mergeKeys_client_some _ _ _ _ _ _ d hp,
          read_eq_merge prog hd fuel dc c e rest h.2 hag,
          ← merge_transform prog fuel (cChildCtx c a d.vars) d.vars d.body h.1.2.2,
          read_eq_merge prog hd fuel (d.vars.map (·.1)) (cChildCtx c a d.vars)
            (rChildEnv e (resolverArgs a d.vars)) d.body
            h.1.2.2 (child_agree hag h.1.1 h.1.2.1 (progDistinct_get hd hp))]

/-- (A) inside the envelope the merged selection map of an entrypoint is the list of keys its reader
reads (with the readers of the client fields it reaches) -/
theorem read_eq_merge_entry (prog : Prog) (hd : progDistinct prog = true) (fuel : Nat)
    (vars : List (Nat × Option V)) (sels : List S)
    (hsafe : selsSafe prog fuel (vars.map (·.1)) sels = true) :
    readKeys prog fuel (identityCtx vars) sels = mergeKeys prog fuel (identityCtx vars) sels :=
  read_eq_merge prog hd fuel (vars.map (·.1)) (identityCtx vars) (identityCtx vars) sels hsafe
    (fun _ _ => rfl)

/-- (A) every key read is a key of the merged map -/
theorem merge_covers (prog : Prog) (hd : progDistinct prog = true) (fuel : Nat)
    (vars : List (Nat × Option V)) (sels : List S)
    (hsafe : selsSafe prog fuel (vars.map (·.1)) sels = true) :
    ∀ x ∈ readKeys prog fuel (identityCtx vars) sels, x ∈ mergeKeys prog fuel (identityCtx vars) sels := by
  intro x hx
  rw [read_eq_merge_entry prog hd fuel vars sels hsafe] at hx
  exact hx

/-! ### (B) F12b is inside the envelope now; it was a defect of the old compiler -/

/-- F12b: field 0 declares `$f` (7) and selects `friend(filter: $f) { name }` -/
def progF12b : Prog := [⟨[(7, none)], [.linked 1 [(2, .var 7)] [.scalar 3 []]]⟩]
/-- the entrypoint declares `$v` (9) and calls field 0 with `f: {k: $v}` -/
def selsF12b : List S := [.linked 4 [] [.client 0 [(7, .obj (.cons 5 (.var 9) .nil))]]]

theorem f12b_safe : selsSafe progF12b 5 ([(9, (none : Option V))].map (·.1)) selsF12b = true := by
  decide

theorem f12b_covered :
    ∀ x ∈ readKeys progF12b 5 (identityCtx [(9, none)]) selsF12b,
      x ∈ mergeKeys progF12b 5 (identityCtx [(9, none)]) selsF12b :=
  merge_covers progF12b (by decide) 5 [(9, none)] selsF12b f12b_safe

/-! the compiler before the repair: only a top-level variable was substituted, and a non-constant
argument of a client field was replaced by the caller's value of the first variable in it -/

def cSubstOld (c : Ctx) : V → V
  | .var n => look c n
  | v => v

def cChildCtxOld (c : Ctx) (args : Args) (defs : List (Nat × Option V)) : Ctx :=
  defs.map fun (x, dflt) =>
    match args.find? (·.1 == x) with
    | some (_, a) =>
      (match V.firstVar a with
       | none => (x, a)
       | some e => (x, look c e))
    | none => (x, dflt.getD .null)

def keyCOld (c : Ctx) (name : Nat) (args : Args) : Key :=
  (name, args.map fun (x, a) => (x, cSubstOld c a))
def keyTOld (c : Ctx) (k : Key) : Key := (k.1, k.2.map fun (x, a) => (x, cSubstOld c a))

def mergeKeysOld (prog : Prog) : Nat → Ctx → List S → List (List Key × Key)
  | 0, _, _ => []
  | _ + 1, _, [] => []
  | fuel + 1, c, s :: rest =>
    (match s with
     | .scalar n a => [([], keyCOld c n a)]
     | .linked n a kids =>
       let k := keyCOld c n a
       ([], k) :: (mergeKeysOld prog fuel c kids).map fun (p, x) => (k :: p, x)
     | .client i a =>
       match prog[i]? with
       | none => []
       | some d =>
         let cc := cChildCtxOld c a d.vars
         (mergeKeysOld prog fuel (identityCtx d.vars) d.body).map
           fun (p, x) => (p.map (keyTOld cc), keyTOld cc x)) ++
    mergeKeysOld prog fuel c rest

/-- F12b before the repair: the reader looks up `friend(filter: {k: $v})`, the merged map of the old
compiler holds `friend(filter: $v)` (the reader is the current `readKeys`) -/
theorem f12b_not_covered_before_repair :
    ¬ (∀ x ∈ readKeys progF12b 5 (identityCtx [(9, none)]) selsF12b,
        x ∈ mergeKeysOld progF12b 5 (identityCtx [(9, none)]) selsF12b) := by
  decide

/-! ### default values: inside the envelope now; a defect of the old reader -/

/-- field 0 declares `$f` (7) with the default `0` -/
def progDefault : Prog := [⟨[(7, some (.lit 0))], [.linked 1 [(2, .var 7)] [.scalar 3 []]]⟩]
/-- the entrypoint calls field 0 without arguments -/
def selsDefault : List S := [.linked 4 [] [.client 0 []]]

theorem default_safe :
    selsSafe progDefault 5 (([] : List (Nat × Option V)).map (·.1)) selsDefault = true := by
  decide

theorem default_covered :
    ∀ x ∈ readKeys progDefault 5 (identityCtx []) selsDefault,
      x ∈ mergeKeys progDefault 5 (identityCtx []) selsDefault :=
  merge_covers progDefault (by decide) 5 [] selsDefault default_safe

/-- the reader before the repair: the Resolver node carried the selection's arguments only -/
def readKeysOld (prog : Prog) : Nat → Ctx → List S → List (List Key × Key)
  | 0, _, _ => []
  | _ + 1, _, [] => []
  | fuel + 1, e, s :: rest =>
    (match s with
     | .scalar n a => [([], keyR e n a)]
     | .linked n a kids =>
       let k := keyR e n a
       ([], k) :: (readKeysOld prog fuel e kids).map fun (p, x) => (k :: p, x)
     | .client i a =>
       match prog[i]? with
       | none => []
       | some d => readKeysOld prog fuel (rChildEnv e a) d.body) ++
    readKeysOld prog fuel e rest

/-- before the repair: the compiler applied the default `0`, the old reader looked up `null` -/
theorem default_not_covered_before_repair :
    ¬ (∀ x ∈ readKeysOld progDefault 5 (identityCtx []) selsDefault,
        x ∈ mergeKeys progDefault 5 (identityCtx []) selsDefault) := by
  decide

/-! ### distinct variable names are needed -/

/-- field 0 declares `$f` (7) twice, the second time with a default -/
def progDup : Prog := [⟨[(7, none), (7, some (.lit 0))], [.scalar 3 [(2, .var 7)]]⟩]
def selsDup : List S := [.client 0 []]

theorem dup_safe : selsSafe progDup 5 (([] : List (Nat × Option V)).map (·.1)) selsDup = true := by
  decide

theorem dup_not_distinct : progDistinct progDup = false := by decide

/-- the compiler takes the first declaration (no default: `null`), the Resolver node carries the
default of the second one (`0`) -/
theorem dup_not_covered :
    ¬ (∀ x ∈ readKeys progDup 5 (identityCtx []) selsDup,
        x ∈ mergeKeys progDup 5 (identityCtx []) selsDup) := by
  decide

/-- a non-trivial program inside the envelope: field 1 declares 7, 8 (with a default, always passed)
and 5 (a constant object as default, never passed: the default on both sides) and selects nested linked fields; field 0
calls field 1 with its own variable and an object holding its variable; the entrypoint (variable 9)
selects a linked field with a constant object argument, under which it calls field 0 with an object
holding its variable (so field 1 sees an object nested in an object) and field 1 with a literal and
its variable. -/
def progOk : Prog :=
  [ ⟨[(6, none)],
      [.scalar 10 [],
       .linked 11 [(2, .var 6)]
         [.client 1 [(7, .var 6), (8, .obj (.cons 1 (.var 6) (.cons 2 (.lit 3) .nil)))], .scalar 12 []]]⟩,
    ⟨[(7, none), (8, some (.lit 1)), (5, some (.obj (.cons 1 (.lit 7) .nil)))],
      [.linked 1 [(2, .var 7), (3, .var 8)] [.linked 13 [(4, .var 5)] [.scalar 3 [(2, .null)]]]]⟩ ]
def selsOk : List S :=
  [ .linked 4 [(1, .obj (.cons 5 (.lit 2) .nil))]
      [.client 0 [(6, .obj (.cons 5 (.var 9) .nil))], .client 1 [(7, .lit 4), (8, .var 9)]],
    .scalar 14 [(1, .var 9)] ]

example : selsSafe progOk 8 ([(9, (none : Option V))].map (·.1)) selsOk = true := by decide

example : ∀ x ∈ readKeys progOk 8 (identityCtx [(9, none)]) selsOk,
    x ∈ mergeKeys progOk 8 (identityCtx [(9, none)]) selsOk :=
  merge_covers progOk (by decide) 8 [(9, none)] selsOk (by decide)

/-- neither the old compiler nor the old reader were right on this program -/
example : ¬ (∀ x ∈ readKeys progOk 8 (identityCtx [(9, none)]) selsOk,
    x ∈ mergeKeysOld progOk 8 (identityCtx [(9, none)]) selsOk) := by decide
example : ¬ (∀ x ∈ readKeysOld progOk 8 (identityCtx [(9, none)]) selsOk,
    x ∈ mergeKeys progOk 8 (identityCtx [(9, none)]) selsOk) := by decide

end IsoVerif.Ops.Cover
