import IsoVerif.Model.Core.OpsCover

/-!
C10, compiler side: inside the `SafeArgs` envelope (`selsSafe`) the keys the runtime reads are exactly
the keys of the merged selection map (`read_eq_merge`, hence `merge_covers`); outside of it they are
not (F12b: a variable inside an object argument of a client field; a default value of a client
field's variable).
-/
namespace IsoVerif.Ops.Cover

/-! ### small helpers -/

/-- a safe argument value: a declared variable, a literal, null, or a constant object -/
def vSafe (declared : List Nat) : V → Bool
  | .var n => declared.contains n
  | .obj fs => (VL.firstVar fs).isNone
  | _ => true

theorem argsSafe_mem {declared : List Nat} {args : Args} (h : argsSafe declared args = true)
    {p : Nat × V} (hm : p ∈ args) : vSafe declared p.2 = true := by
  unfold argsSafe at h
  rw [List.all_eq_true] at h
  have := h p hm
  obtain ⟨y, a⟩ := p
  cases a <;> first | exact this | rfl

/-- the compiler context and the runtime environment give the declared names the same values -/
def Agree (declared : List Nat) (c e : Ctx) : Prop := ∀ n ∈ declared, look c n = look e n

theorem look_nil (n : Nat) : look [] n = .null := rfl

theorem look_cons (x : Nat) (v : V) (c : Ctx) (n : Nat) :
    look ((x, v) :: c) n = if x = n then v else look c n := by
  unfold look
  rw [List.find?_cons]
  by_cases h : x = n
  · simp [h]
  · have : (x == n) = false := by simpa using h
    simp [h, this]

theorem look_identity (ds : List (Nat × Option V)) (m : Nat) (h : m ∈ ds.map (·.1)) :
    look (identityCtx ds) m = .var m := by
  induction ds with
  | nil => simp at h
  | cons p ds ih =>
    obtain ⟨x, d⟩ := p
    have hc : identityCtx ((x, d) :: ds) = (x, .var x) :: identityCtx ds := rfl
    rw [hc, look_cons]
    by_cases hx : x = m
    · simp [hx]
    · simp only [hx, if_false]
      apply ih
      simp only [List.map_cons, List.mem_cons] at h
      rcases h with h | h
      · exact absurd h.symm hx
      · exact h

/-! ### constants are fixed by the runtime substitution -/

theorem orElse_none {α : Type} {a : Option α} {b : Unit → Option α}
    (h : a.orElse b = none) : a = none ∧ b () = none := by
  cases a with
  | none => exact ⟨rfl, by simpa [Option.orElse] using h⟩
  | some x => simp [Option.orElse] at h

mutual
theorem rSubst_const (e : Ctx) : ∀ (v : V), V.firstVar v = none → rSubst e v = v
  | .var n, h => by simp [V.firstVar] at h
  | .lit _, _ => by simp [rSubst]
  | .null, _ => by simp [rSubst]
  | .obj fs, h => by
    simp only [V.firstVar] at h
    simp only [rSubst, rSubstL_const e fs h]
theorem rSubstL_const (e : Ctx) : ∀ (fs : VL), VL.firstVar fs = none → rSubstL e fs = fs
  | .nil, _ => by simp [rSubstL]
  | .cons k v r, h => by
    simp only [VL.firstVar] at h
    obtain ⟨h1, h2⟩ := orElse_none h
    simp only [rSubstL, rSubst_const e v h1, rSubstL_const e r h2]
end

/-! ### argument values -/

/-- the value `child_variable_context` gives a variable that is passed the argument `a` -/
def cArgVal (c : Ctx) (a : V) : V :=
  match V.firstVar a with
  | none => a
  | some w => look c w

/-- (1) on a safe argument the two substitutions agree -/
theorem rSubst_eq_cSubst {declared : List Nat} {c e : Ctx} (hag : Agree declared c e)
    {a : V} (ha : vSafe declared a = true) : rSubst e a = cSubst c a := by
  cases a with
  | var n =>
    simp only [vSafe, List.contains_iff_mem] at ha
    simp only [rSubst, cSubst]
    exact (hag n ha).symm
  | lit k => simp [rSubst, cSubst]
  | null => simp [rSubst, cSubst]
  | obj fs =>
    simp only [vSafe, Option.isNone_iff_eq_none] at ha
    simp only [rSubst, cSubst, rSubstL_const e fs ha]

theorem cArgVal_eq_rSubst {declared : List Nat} {c e : Ctx} (hag : Agree declared c e)
    {a : V} (ha : vSafe declared a = true) : cArgVal c a = rSubst e a := by
  cases a with
  | var n =>
    simp only [vSafe, List.contains_iff_mem] at ha
    simp only [cArgVal, V.firstVar, rSubst]
    exact hag n ha
  | lit k => simp [cArgVal, V.firstVar, rSubst]
  | null => simp [cArgVal, V.firstVar, rSubst]
  | obj fs =>
    simp only [vSafe, Option.isNone_iff_eq_none] at ha
    simp only [cArgVal, V.firstVar, ha, rSubst, rSubstL_const e fs ha]

/-- pushing the child's value of a passed variable through the caller's context -/
theorem cSubst_cArgVal_identity (c : Ctx) (ds : List (Nat × Option V)) {a : V}
    (ha : vSafe (ds.map (·.1)) a = true) :
    cSubst c (cArgVal (identityCtx ds) a) = cArgVal c a := by
  cases a with
  | var n =>
    simp only [vSafe, List.contains_iff_mem] at ha
    simp only [cArgVal, V.firstVar, look_identity ds n ha, cSubst]
  | lit k => simp [cArgVal, V.firstVar, cSubst]
  | null => simp [cArgVal, V.firstVar, cSubst]
  | obj fs =>
    simp only [vSafe, Option.isNone_iff_eq_none] at ha
    simp only [cArgVal, V.firstVar, ha, cSubst]

/-! ### child contexts -/

def cChildVal (c : Ctx) (args : Args) (x : Nat) (dflt : Option V) : V :=
  match args.find? (·.1 == x) with
  | some p => cArgVal c p.2
  | none => dflt.getD .null

theorem cChildCtx_cons (c : Ctx) (args : Args) (x : Nat) (dflt : Option V)
    (rest : List (Nat × Option V)) :
    cChildCtx c args ((x, dflt) :: rest) = (x, cChildVal c args x dflt) :: cChildCtx c args rest := by
  simp only [cChildCtx, List.map_cons, cChildVal, cArgVal]
  congr 1
  cases h : List.find? (fun x_1 => x_1.fst == x) args with
  | none => rfl
  | some p =>
    obtain ⟨y, a⟩ := p
    simp only
    cases V.firstVar a <;> rfl

theorem look_cChildCtx (c : Ctx) (args : Args) (defs : List (Nat × Option V)) (n : Nat) :
    look (cChildCtx c args defs) n =
      match defs.find? (·.1 == n) with
      | some p => cChildVal c args n p.2
      | none => .null := by
  induction defs with
  | nil => rfl
  | cons p defs ih =>
    obtain ⟨x, d⟩ := p
    rw [cChildCtx_cons, look_cons, List.find?_cons]
    by_cases hx : x = n
    · subst hx; simp
    · have : (x == n) = false := by simpa using hx
      simp only [hx, if_false, this, ih]

theorem look_rChildEnv (e : Ctx) (args : Args) (n : Nat) :
    look (rChildEnv e args) n =
      match args.find? (·.1 == n) with
      | some p => rSubst e p.2
      | none => .null := by
  induction args with
  | nil => rfl
  | cons p args ih =>
    obtain ⟨x, a⟩ := p
    have hc : rChildEnv e ((x, a) :: args) = (x, rSubst e a) :: rChildEnv e args := rfl
    rw [hc, look_cons, List.find?_cons]
    by_cases hx : x = n
    · subst hx; simp
    · have : (x == n) = false := by simpa using hx
      simp only [hx, if_false, this, ih]

theorem callSafe_mem {args : Args} {defs : List (Nat × Option V)} (h : callSafe args defs = true)
    {p : Nat × Option V} (hm : p ∈ defs) (hnone : args.find? (·.1 == p.1) = none) : p.2 = none := by
  unfold callSafe at h
  rw [List.all_eq_true] at h
  have := h p hm
  obtain ⟨x, d⟩ := p
  simp only at hnone
  simp only [hnone, Option.isSome_none, Bool.false_or, Option.isNone_iff_eq_none] at this
  exact this

/-- (3) the compiler's child context and the runtime's child environment agree on the callee's
variables -/
theorem child_agree {declared : List Nat} {c e : Ctx} (hag : Agree declared c e)
    {args : Args} (ha : argsSafe declared args = true)
    {defs : List (Nat × Option V)} (hc : callSafe args defs = true) :
    Agree (defs.map (·.1)) (cChildCtx c args defs) (rChildEnv e args) := by
  intro n hn
  rw [look_cChildCtx, look_rChildEnv]
  cases hf : defs.find? (·.1 == n) with
  | none =>
    rw [List.find?_eq_none] at hf
    simp only [List.mem_map] at hn
    obtain ⟨p, hp, rfl⟩ := hn
    exact absurd (by simp) (hf p hp)
  | some p =>
    have hpm := List.mem_of_find?_eq_some hf
    have hpn : p.1 = n := by simpa using List.find?_some hf
    simp only [cChildVal]
    cases hq : args.find? (·.1 == n) with
    | none =>
      have := callSafe_mem hc hpm (by rw [hpn]; exact hq)
      simp [this]
    | some q =>
      have hqm := List.mem_of_find?_eq_some hq
      exact cArgVal_eq_rSubst hag (argsSafe_mem ha hqm)

/-- (2) transforming with the caller's context composes with the child context built under the
caller's identity context -/
theorem cSubst_comp (c : Ctx) (ds : List (Nat × Option V)) {args : Args}
    (ha : argsSafe (ds.map (·.1)) args = true)
    {defs : List (Nat × Option V)} (hc : callSafe args defs = true) (v : V) :
    cSubst c (cSubst (cChildCtx (identityCtx ds) args defs) v) = cSubst (cChildCtx c args defs) v := by
  cases v with
  | lit k => rfl
  | null => rfl
  | obj fs => rfl
  | var m =>
    simp only [cSubst]
    rw [look_cChildCtx, look_cChildCtx]
    cases hf : defs.find? (·.1 == m) with
    | none => rfl
    | some p =>
      have hpm := List.mem_of_find?_eq_some hf
      have hpn : p.1 = m := by simpa using List.find?_some hf
      simp only [cChildVal]
      cases hq : args.find? (·.1 == m) with
      | none =>
        have := callSafe_mem hc hpm (by rw [hpn]; exact hq)
        simp [this]
      | some q =>
        have hqm := List.mem_of_find?_eq_some hq
        exact cSubst_cArgVal_identity c ds (argsSafe_mem ha hqm)

/-! ### keys -/

def KT (c : Ctx) (px : List Key × Key) : List Key × Key := (px.1.map (keyT c), keyT c px.2)
def pre (k : Key) (px : List Key × Key) : List Key × Key := (k :: px.1, px.2)

theorem keyT_comp (c : Ctx) (ds : List (Nat × Option V)) {args : Args}
    (ha : argsSafe (ds.map (·.1)) args = true)
    {defs : List (Nat × Option V)} (hc : callSafe args defs = true) (k : Key) :
    keyT c (keyT (cChildCtx (identityCtx ds) args defs) k) = keyT (cChildCtx c args defs) k := by
  simp only [keyT, List.map_map]
  congr 1
  apply List.map_congr_left
  intro p _
  obtain ⟨x, v⟩ := p
  simp only [Function.comp, cSubst_comp c ds ha hc v]

theorem KT_comp (c : Ctx) (ds : List (Nat × Option V)) {args : Args}
    (ha : argsSafe (ds.map (·.1)) args = true)
    {defs : List (Nat × Option V)} (hc : callSafe args defs = true) (px : List Key × Key) :
    KT c (KT (cChildCtx (identityCtx ds) args defs) px) = KT (cChildCtx c args defs) px := by
  simp only [KT, List.map_map, keyT_comp c ds ha hc]
  congr 1
  apply List.map_congr_left
  intro k _
  exact keyT_comp c ds ha hc k

theorem KT_pre (c : Ctx) (k : Key) (px : List Key × Key) :
    KT c (pre k px) = pre (keyT c k) (KT c px) := rfl

theorem keyT_keyC_identity (c : Ctx) (ds : List (Nat × Option V)) (n : Nat) {args : Args}
    (ha : argsSafe (ds.map (·.1)) args = true) :
    keyT c (keyC (identityCtx ds) n args) = keyC c n args := by
  simp only [keyT, keyC, List.map_map]
  congr 1
  apply List.map_congr_left
  intro p hp
  have hs := argsSafe_mem ha hp
  obtain ⟨x, v⟩ := p
  simp only [Function.comp]
  congr 1
  cases v with
  | lit k => rfl
  | null => rfl
  | obj fs => rfl
  | var m =>
    simp only [vSafe, List.contains_iff_mem] at hs
    simp only [cSubst, look_identity ds m hs]

theorem keyR_eq_keyC {declared : List Nat} {c e : Ctx} (hag : Agree declared c e) (n : Nat)
    {args : Args} (ha : argsSafe declared args = true) : keyR e n args = keyC c n args := by
  simp only [keyR, keyC]
  congr 1
  apply List.map_congr_left
  intro p hp
  have hs := argsSafe_mem ha hp
  obtain ⟨x, v⟩ := p
  simp only [rSubst_eq_cSubst hag hs]

/-! ### unfolding the two traversals -/

theorem mergeKeys_scalar (prog : Prog) (fuel : Nat) (c : Ctx) (n : Nat) (a : Args) (rest : List S) :
    mergeKeys prog (fuel + 1) c (.scalar n a :: rest) =
      ([], keyC c n a) :: mergeKeys prog fuel c rest := rfl

theorem mergeKeys_linked (prog : Prog) (fuel : Nat) (c : Ctx) (n : Nat) (a : Args) (kids rest : List S) :
    mergeKeys prog (fuel + 1) c (.linked n a kids :: rest) =
      ([], keyC c n a) ::
        ((mergeKeys prog fuel c kids).map (pre (keyC c n a)) ++ mergeKeys prog fuel c rest) := by
  simp only [mergeKeys, List.cons_append]
  congr 2

theorem mergeKeys_client_none (prog : Prog) (fuel : Nat) (c : Ctx) (i : Nat) (a : Args) (rest : List S)
    (h : prog[i]? = none) :
    mergeKeys prog (fuel + 1) c (.client i a :: rest) = mergeKeys prog fuel c rest := by
  simp only [mergeKeys, h, List.nil_append]

theorem mergeKeys_client_some (prog : Prog) (fuel : Nat) (c : Ctx) (i : Nat) (a : Args) (rest : List S)
    (d : ClientDef) (h : prog[i]? = some d) :
    mergeKeys prog (fuel + 1) c (.client i a :: rest) =
      (mergeKeys prog fuel (identityCtx d.vars) d.body).map (KT (cChildCtx c a d.vars)) ++
        mergeKeys prog fuel c rest := by
  simp only [mergeKeys, h]
  congr 1

theorem readKeys_scalar (prog : Prog) (fuel : Nat) (e : Ctx) (n : Nat) (a : Args) (rest : List S) :
    readKeys prog (fuel + 1) e (.scalar n a :: rest) =
      ([], keyR e n a) :: readKeys prog fuel e rest := rfl

theorem readKeys_linked (prog : Prog) (fuel : Nat) (e : Ctx) (n : Nat) (a : Args) (kids rest : List S) :
    readKeys prog (fuel + 1) e (.linked n a kids :: rest) =
      ([], keyR e n a) ::
        ((readKeys prog fuel e kids).map (pre (keyR e n a)) ++ readKeys prog fuel e rest) := by
  simp only [readKeys, List.cons_append]
  congr 2

theorem readKeys_client_none (prog : Prog) (fuel : Nat) (e : Ctx) (i : Nat) (a : Args) (rest : List S)
    (h : prog[i]? = none) :
    readKeys prog (fuel + 1) e (.client i a :: rest) = readKeys prog fuel e rest := by
  simp only [readKeys, h, List.nil_append]

theorem readKeys_client_some (prog : Prog) (fuel : Nat) (e : Ctx) (i : Nat) (a : Args) (rest : List S)
    (d : ClientDef) (h : prog[i]? = some d) :
    readKeys prog (fuel + 1) e (.client i a :: rest) =
      readKeys prog fuel (rChildEnv e a) d.body ++ readKeys prog fuel e rest := by
  simp only [readKeys, h]

theorem selsSafe_scalar (prog : Prog) (fuel : Nat) (dc : List Nat) (n : Nat) (a : Args) (rest : List S) :
    selsSafe prog (fuel + 1) dc (.scalar n a :: rest) =
      (argsSafe dc a && selsSafe prog fuel dc rest) := rfl

theorem selsSafe_linked (prog : Prog) (fuel : Nat) (dc : List Nat) (n : Nat) (a : Args)
    (kids rest : List S) :
    selsSafe prog (fuel + 1) dc (.linked n a kids :: rest) =
      (argsSafe dc a && selsSafe prog fuel dc kids && selsSafe prog fuel dc rest) := rfl

theorem selsSafe_client_none (prog : Prog) (fuel : Nat) (dc : List Nat) (i : Nat) (a : Args)
    (rest : List S) (h : prog[i]? = none) :
    selsSafe prog (fuel + 1) dc (.client i a :: rest) =
      (argsSafe dc a && selsSafe prog fuel dc rest) := by
  simp only [selsSafe, h, Bool.and_true]

theorem selsSafe_client_some (prog : Prog) (fuel : Nat) (dc : List Nat) (i : Nat) (a : Args)
    (rest : List S) (d : ClientDef) (h : prog[i]? = some d) :
    selsSafe prog (fuel + 1) dc (.client i a :: rest) =
      (argsSafe dc a && (callSafe a d.vars && selsSafe prog fuel (d.vars.map (·.1)) d.body) &&
        selsSafe prog fuel dc rest) := by
  simp only [selsSafe, h]

/-! ### the merged map under any context is the transformed map under the identity context -/

theorem merge_transform (prog : Prog) : ∀ (fuel : Nat) (c : Ctx) (ds : List (Nat × Option V))
    (sels : List S), selsSafe prog fuel (ds.map (·.1)) sels = true →
    mergeKeys prog fuel c sels = (mergeKeys prog fuel (identityCtx ds) sels).map (KT c)
  | 0, _, _, _, _ => rfl
  | _ + 1, _, _, [], _ => rfl
  | fuel + 1, c, ds, s :: rest, h => by
    cases s with
    | scalar n a =>
      rw [selsSafe_scalar, Bool.and_eq_true] at h
      rw [mergeKeys_scalar, mergeKeys_scalar, List.map_cons,
        ← merge_transform prog fuel c ds rest h.2]
      simp only [KT, List.map_nil, keyT_keyC_identity c ds n h.1]
    | linked n a kids =>
      rw [selsSafe_linked, Bool.and_eq_true, Bool.and_eq_true] at h
      rw [mergeKeys_linked, mergeKeys_linked, List.map_cons, List.map_append,
        ← merge_transform prog fuel c ds rest h.2, List.map_map,
        merge_transform prog fuel c ds kids h.1.2, List.map_map]
      have hk := keyT_keyC_identity c ds n h.1.1
      congr 1
      · simp only [KT, List.map_nil, hk]
      · congr 1
        apply List.map_congr_left
        intro px _
        simp only [Function.comp, KT_pre, hk]
    | client i a =>
      cases hp : prog[i]? with
      | none =>
        rw [selsSafe_client_none _ _ _ _ _ _ hp, Bool.and_eq_true] at h
        rw [mergeKeys_client_none _ _ _ _ _ _ hp, mergeKeys_client_none _ _ _ _ _ _ hp]
        exact merge_transform prog fuel c ds rest h.2
      | some d =>
        rw [selsSafe_client_some _ _ _ _ _ _ d hp, Bool.and_eq_true, Bool.and_eq_true,
          Bool.and_eq_true] at h
        rw [mergeKeys_client_some _ _ _ _ _ _ d hp, mergeKeys_client_some _ _ _ _ _ _ d hp,
          List.map_append, ← merge_transform prog fuel c ds rest h.2, List.map_map]
        congr 1
        apply List.map_congr_left
        intro px _
        exact (KT_comp c ds h.1.1 h.1.2.1 px).symm

/-! ### inside the envelope the reader reads exactly the keys of the merged map -/

theorem read_eq_merge (prog : Prog) : ∀ (fuel : Nat) (declared : List Nat) (c e : Ctx)
    (sels : List S), selsSafe prog fuel declared sels = true → Agree declared c e →
    readKeys prog fuel e sels = mergeKeys prog fuel c sels
  | 0, _, _, _, _, _, _ => rfl
  | _ + 1, _, _, _, [], _, _ => rfl
  | fuel + 1, dc, c, e, s :: rest, h, hag => by
    cases s with
    | scalar n a =>
      rw [selsSafe_scalar, Bool.and_eq_true] at h
      rw [readKeys_scalar, mergeKeys_scalar, keyR_eq_keyC hag n h.1,
        read_eq_merge prog fuel dc c e rest h.2 hag]
    | linked n a kids =>
      rw [selsSafe_linked, Bool.and_eq_true, Bool.and_eq_true] at h
      rw [readKeys_linked, mergeKeys_linked, keyR_eq_keyC hag n h.1.1,
        read_eq_merge prog fuel dc c e rest h.2 hag,
        read_eq_merge prog fuel dc c e kids h.1.2 hag]
    | client i a =>
      cases hp : prog[i]? with
      | none =>
        rw [selsSafe_client_none _ _ _ _ _ _ hp, Bool.and_eq_true] at h
        rw [readKeys_client_none _ _ _ _ _ _ hp, mergeKeys_client_none _ _ _ _ _ _ hp]
        exact read_eq_merge prog fuel dc c e rest h.2 hag
      | some d =>
        rw [selsSafe_client_some _ _ _ _ _ _ d hp, Bool.and_eq_true, Bool.and_eq_true,
          Bool.and_eq_true] at h
        rw [readKeys_client_some _ _ _ _ _ _ d hp, mergeKeys_client_some _ _ _ _ _ _ d hp,
          read_eq_merge prog fuel dc c e rest h.2 hag,
          ← merge_transform prog fuel (cChildCtx c a d.vars) d.vars d.body h.1.2.2,
          read_eq_merge prog fuel (d.vars.map (·.1)) (cChildCtx c a d.vars) (rChildEnv e a) d.body
            h.1.2.2 (child_agree hag h.1.1 h.1.2.1)]

/-- (A) inside the envelope the merged selection map of an entrypoint is the list of keys its reader
reads (with the readers of the client fields it reaches) -/
theorem read_eq_merge_entry (prog : Prog) (fuel : Nat) (vars : List (Nat × Option V)) (sels : List S)
    (hsafe : selsSafe prog fuel (vars.map (·.1)) sels = true) :
    readKeys prog fuel (identityCtx vars) sels = mergeKeys prog fuel (identityCtx vars) sels :=
  read_eq_merge prog fuel (vars.map (·.1)) (identityCtx vars) (identityCtx vars) sels hsafe
    (fun _ _ => rfl)

/-- (A) every key read is a key of the merged map -/
theorem merge_covers (prog : Prog) (fuel : Nat) (vars : List (Nat × Option V)) (sels : List S)
    (hsafe : selsSafe prog fuel (vars.map (·.1)) sels = true) :
    ∀ x ∈ readKeys prog fuel (identityCtx vars) sels, x ∈ mergeKeys prog fuel (identityCtx vars) sels := by
  intro x hx
  rw [read_eq_merge_entry prog fuel vars sels hsafe] at hx
  exact hx

/-! ### (B) the envelope is needed -/

/-- F12b: field 0 declares `$f` (7) and selects `friend(filter: $f) { name }` -/
def progF12b : Prog := [⟨[(7, none)], [.linked 1 [(2, .var 7)] [.scalar 3 []]]⟩]
/-- the entrypoint declares `$v` (9) and calls field 0 with `f: {k: $v}` -/
def selsF12b : List S := [.linked 4 [] [.client 0 [(7, .obj (.cons 5 (.var 9) .nil))]]]

theorem f12b_not_covered :
    ¬ (∀ x ∈ readKeys progF12b 5 (identityCtx [(9, none)]) selsF12b,
        x ∈ mergeKeys progF12b 5 (identityCtx [(9, none)]) selsF12b) := by
  decide

theorem f12b_not_safe : selsSafe progF12b 5 ([(9, (none : Option V))].map (·.1)) selsF12b = false := by
  decide

/-- field 0 declares `$f` (7) with the default `0` -/
def progDefault : Prog := [⟨[(7, some (.lit 0))], [.linked 1 [(2, .var 7)] [.scalar 3 []]]⟩]
/-- the entrypoint calls field 0 without arguments -/
def selsDefault : List S := [.linked 4 [] [.client 0 []]]

theorem default_not_covered :
    ¬ (∀ x ∈ readKeys progDefault 5 (identityCtx []) selsDefault,
        x ∈ mergeKeys progDefault 5 (identityCtx []) selsDefault) := by
  decide

theorem default_not_safe :
    selsSafe progDefault 5 (([] : List (Nat × Option V)).map (·.1)) selsDefault = false := by
  decide

/-- a non-trivial program inside the envelope: field 1 declares 7, 8 (with a default, always passed)
and 5 (no default, never passed: `null` on both sides) and selects nested linked fields; field 0
calls field 1 with its own variable and a literal; the entrypoint (variable 9) selects a linked field
with a constant object argument, under which it calls field 0 with its variable and field 1 with a
literal and its variable. -/
def progOk : Prog :=
  [ ⟨[(6, none)],
      [.scalar 10 [], .linked 11 [(2, .var 6)] [.client 1 [(7, .var 6), (8, .lit 3)], .scalar 12 []]]⟩,
    ⟨[(7, none), (8, some (.lit 1)), (5, none)],
      [.linked 1 [(2, .var 7), (3, .var 8)] [.linked 13 [(4, .var 5)] [.scalar 3 [(2, .null)]]]]⟩ ]
def selsOk : List S :=
  [ .linked 4 [(1, .obj (.cons 5 (.lit 2) .nil))] [.client 0 [(6, .var 9)], .client 1 [(7, .lit 4), (8, .var 9)]],
    .scalar 14 [(1, .var 9)] ]

example : selsSafe progOk 8 ([(9, (none : Option V))].map (·.1)) selsOk = true := by decide

example : ∀ x ∈ readKeys progOk 8 (identityCtx [(9, none)]) selsOk,
    x ∈ mergeKeys progOk 8 (identityCtx [(9, none)]) selsOk :=
  merge_covers progOk 8 [(9, none)] selsOk (by decide)

end IsoVerif.Ops.Cover
