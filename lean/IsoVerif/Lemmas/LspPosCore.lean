/-
Lemmas behind Props/C23.lean, part 1: offset ↦ position (`char_index_to_position`,
`delta_line_delta_start`, ranges) and the semantic-token stream.

Helper lemmas live in `IsoVerif.Lemmas.LspPosCore`; the lemmas used by Props/C23.lean are at the end,
in `IsoVerif.Lemmas.LspPos`.

Two of the requested statements are false for byte strings that are not valid UTF-8 and carry an
extra hypothesis here (counterexamples are checked at the end of the file):

* `isBoundary s 0 = true` (the text does not start with a continuation byte; Rust's
  `is_char_boundary(0)` is always true): needed by `charIndexToPosition_eq`, `rangeOfExtraction_eq`,
  `locationRange_eq`, `lspTokens_decode`, because the models slice from offset 0.
* `∀ i < page.length, page[i]? = some nl → isBoundary page (i + 1) = true` (no continuation byte
  directly after a line feed): needed by `lspTokens_decode`, because the second and later per-line
  pieces of a multi-line token start just after a line feed and `convertFrom` slices there.
-/
import IsoVerif.Model.LspPos

namespace IsoVerif.Lemmas.LspPosCore
open IsoVerif.Util IsoVerif.LspPos

@[simp] theorem ok_bind {α β} (a : α) (f : α → Out β) : (Out.ok a >>= f) = f a := rfl
@[simp] theorem pure_eq {α} (a : α) : (pure a : Out α) = .ok a := rfl

theorem advance_append (p : Nat × Nat) (a b : Bytes) :
    advance p (a ++ b) = advance (advance p a) b := by
  simp [advance, List.foldl_append]

theorem utf16Len_append (a b : Bytes) : utf16Len (a ++ b) = utf16Len a + utf16Len b := by
  induction a with
  | nil => simp [utf16Len]
  | cons x xs ih => simp [utf16Len, ih]; omega

theorem countNl_append (a b : Bytes) : countNl (a ++ b) = countNl a + countNl b := by
  induction a with
  | nil => simp [countNl]
  | cons x xs ih => simp [countNl, ih]; omega

theorem afterLastNl_snoc (t : Bytes) (b : UInt8) :
    afterLastNl (t ++ [b]) = if b == nl then [] else afterLastNl t ++ [b] := by
  simp only [afterLastNl, List.reverse_append, List.reverse_cons, List.reverse_nil, List.nil_append,
    List.cons_append, List.takeWhile_cons]
  by_cases h : b = nl <;> simp [h]

theorem rev_ind {P : Bytes → Prop} (h0 : P []) (h1 : ∀ t b, P t → P (t ++ [b])) (t : Bytes) : P t := by
  suffices h : ∀ r : Bytes, P r.reverse by simpa using h t.reverse
  intro r
  induction r with
  | nil => simpa using h0
  | cons b r ih => simpa using h1 _ b ih

theorem advance_eq (p : Nat × Nat) (t : Bytes) :
    advance p t = (p.1 + countNl t,
      if countNl t = 0 then p.2 + utf16Len t else utf16Len (afterLastNl t)) := by
  induction t using rev_ind with
  | h0 => simp [advance, countNl, utf16Len]
  | h1 t b ih =>
    rw [advance_append, ih]
    simp only [advance, List.foldl_cons, List.foldl_nil, posStep, countNl_append, countNl,
      utf16Len_append, utf16Len, afterLastNl_snoc]
    by_cases h : b = nl <;> by_cases h2 : countNl t = 0 <;>
      simp [h, h2, utf16Len, utf16Len_append] <;> omega


theorem advance_zero (t : Bytes) :
    advance (0, 0) t = (countNl t, utf16Len (afterLastNl t)) := by
  induction t using rev_ind with
  | h0 => simp [advance, countNl, utf16Len, afterLastNl]
  | h1 t b ih =>
    rw [advance_append, ih]
    simp only [advance, List.foldl_cons, List.foldl_nil, posStep, countNl_append, countNl,
      afterLastNl_snoc]
    by_cases h : b = nl <;> simp [h, utf16Len, utf16Len_append]

/-- the relative form: advancing from `(l, c)` is advancing from the origin, then translating -/
theorem advance_rel (l c : Nat) (t : Bytes) :
    advance (l, c) t =
      (l + (advance (0, 0) t).1,
        if (advance (0, 0) t).1 = 0 then c + (advance (0, 0) t).2 else (advance (0, 0) t).2) := by
  rw [advance_eq (l, c), advance_eq (0, 0)]
  by_cases h : countNl t = 0 <;> simp [h]

/-! ## scanLines -/

theorem scanLines_inv (t : Bytes) : ∀ (pre : Bytes) (acc : Nat × Nat), acc.2 ≤ pre.length →
    ((scanLines t pre.length acc).1, utf16Len ((pre ++ t).drop (scanLines t pre.length acc).2)) =
      advance (acc.1, utf16Len (pre.drop acc.2)) t := by
  induction t with
  | nil => intro pre acc _; simp [scanLines, advance]
  | cons b t ih =>
    intro pre acc hacc
    have e : pre ++ b :: t = (pre ++ [b]) ++ t := by simp
    have hl : pre.length + 1 = (pre ++ [b]).length := by simp
    rw [scanLines, e, hl]
    by_cases h : b = nl
    · subst h
      rw [if_pos (by rfl), ih (pre ++ [nl]) _ (by simp)]
      simp [advance, posStep, utf16Len]
    · have hb : (b == nl) = false := by simpa using h
      rw [hb, ih (pre ++ [b]) _ (by simp; omega)]
      simp [advance, posStep, hb, List.drop_append_of_le_length hacc, utf16Len_append, utf16Len]

theorem deltaLineDeltaStart_advance (t : Bytes) : deltaLineDeltaStart t = advance (0, 0) t := by
  have := scanLines_inv t [] (0, 0) (by simp)
  simpa [deltaLineDeltaStart, utf16Len] using this


/-! ## slices and `char_index_to_position` -/

theorem slice_ok (s : Bytes) (a b : Nat) (hab : a ≤ b) (hb : b ≤ s.length)
    (ha' : isBoundary s a = true) (hb' : isBoundary s b = true) :
    slice s a b = .ok ((s.take b).drop a) := by
  simp [slice, hab, hb, ha', hb']

theorem isBoundary_le (s : Bytes) (i : Nat) (h : isBoundary s i = true) : i ≤ s.length := by
  unfold isBoundary at h
  by_cases e : i = s.length
  · omega
  · have : (i == s.length) = false := by simpa using e
    rw [this] at h
    simp only [Bool.false_eq_true, if_false] at h
    cases hg : s[i]? with
    | none => rw [hg] at h; simp at h
    | some b =>
      have := (List.getElem?_eq_some_iff.mp hg).1
      omega

theorem charIndexToPosition_eq' (content : Bytes) (off : Nat) (h0 : isBoundary content 0 = true)
    (hle : off ≤ content.length) (hb : isBoundary content off = true) :
    charIndexToPosition content off = .ok (utf16Pos content off) := by
  have hd := deltaLineDeltaStart_advance (content.take off)
  simp only [deltaLineDeltaStart] at hd
  simp only [charIndexToPosition, slice_ok content 0 off (Nat.zero_le _) hle h0 hb, ok_bind,
    List.drop_zero, pure_eq, utf16Pos]
  exact congrArg Out.ok hd


/-! ## `split_inclusive` -/

/-- every piece is line-feed free except for a final line feed, which every piece but the last
one has -/
def piecesOk : List Bytes → Prop
  | [] => True
  | p :: ps => (∃ x, countNl x = 0 ∧ (p = x ++ [nl] ∨ (p = x ∧ ps = []))) ∧ piecesOk ps

theorem splitInclusiveAux_spec (t : Bytes) : ∀ cur : Bytes, countNl cur.reverse = 0 →
    piecesOk (splitInclusiveAux t cur) ∧ (splitInclusiveAux t cur).flatten = cur.reverse ++ t := by
  induction t with
  | nil =>
    intro cur hc
    unfold splitInclusiveAux
    by_cases h : cur = []
    · simp [h, piecesOk]
    · simp only [List.isEmpty_iff, h, if_false, piecesOk, and_true]
      exact ⟨⟨cur.reverse, hc, Or.inr (by simp)⟩, by simp⟩
  | cons b t ih =>
    intro cur hc
    unfold splitInclusiveAux
    by_cases h : b = nl
    · subst h
      rw [if_pos (by rfl)]
      have := ih [] (by simp [countNl])
      refine ⟨⟨⟨cur.reverse, hc, Or.inl (by simp)⟩, this.1⟩, ?_⟩
      simp [this.2]
    · have hb : (b == nl) = false := by simpa using h
      rw [hb]
      have := ih (b :: cur) (by simp [countNl_append, hc, countNl, hb])
      simpa using this

theorem splitInclusive_spec (t : Bytes) :
    piecesOk (splitInclusive t) ∧ (splitInclusive t).flatten = t := by
  simpa [splitInclusive] using splitInclusiveAux_spec t [] (by simp [countNl])


/-! ## segments: (start offset, piece, type) -/

abbrev Seg := Nat × Bytes × Nat

def segsOf (start ty : Nat) : List Bytes → List Seg
  | [] => []
  | p :: ps => (start, p, ty) :: segsOf (start + p.length) ty ps

def absOfSeg (x : Seg) : AbsTok := ⟨x.1, utf16Len x.2.1, x.2.2⟩

def decOfSeg (page : Bytes) (x : Seg) : DecTok :=
  ⟨(utf16Pos page x.1).1, (utf16Pos page x.1).2, utf16Len x.2.1, x.2.2⟩

theorem piecesFrom_eq (ty : Nat) : ∀ (ps : List Bytes) (start : Nat),
    piecesFrom start ty ps = (segsOf start ty ps).map absOfSeg := by
  intro ps
  induction ps with
  | nil => intro; rfl
  | cons p ps ih => intro start; simp [piecesFrom, segsOf, absOfSeg, ih]

theorem expectedPieces_eq (page : Bytes) (ty : Nat) : ∀ (ps : List Bytes) (start : Nat),
    expectedPieces page start ty ps = (segsOf start ty ps).map (decOfSeg page) := by
  intro ps
  induction ps with
  | nil => intro; rfl
  | cons p ps ih => intro start; simp [expectedPieces, segsOf, decOfSeg, ih]

def pieceOk (p : Bytes) : Prop := ∃ x, countNl x = 0 ∧ (p = x ++ [nl] ∨ p = x)

/-- consecutive segments of the page: each starts at or after the end of the previous one, at an
offset satisfying `B`, and its piece is the page's text there -/
def chain (B : Nat → Prop) (page : Bytes) : Nat → List Seg → Prop
  | _, [] => True
  | e, x :: rest => e ≤ x.1 ∧ B x.1 ∧ (∃ suf, page.drop x.1 = x.2.1 ++ suf) ∧ pieceOk x.2.1 ∧
      chain B page (x.1 + x.2.1.length) rest

theorem chain_mono {B : Nat → Prop} {page : Bytes} {e e' : Nat} (h : e' ≤ e) :
    ∀ {segs : List Seg}, chain B page e segs → chain B page e' segs := by
  intro segs
  cases segs with
  | nil => intro; trivial
  | cons x rest => intro hc; exact ⟨Nat.le_trans h hc.1, hc.2⟩

theorem chain_segsOf (B : Nat → Prop) (page : Bytes)
    (hB : ∀ i, page[i]? = some nl → B (i + 1)) (ty : Nat) (R : List Seg) :
    ∀ (ps : List Bytes) (a : Nat), piecesOk ps → (∃ suf, page.drop a = ps.flatten ++ suf) →
      (ps = [] ∨ B a) → chain B page (a + ps.flatten.length) R →
      chain B page a (segsOf a ty ps ++ R) := by
  intro ps
  induction ps with
  | nil => intro a _ _ _ h; simpa [segsOf] using h
  | cons p ps ih =>
    intro a hok hsuf hBa hR
    obtain ⟨⟨x, hx, hp⟩, hps⟩ := hok
    obtain ⟨suf, hsuf⟩ := hsuf
    have hBa : B a := by
      cases hBa with
      | inl h => cases h
      | inr h => exact h
    simp only [List.flatten_cons, List.append_assoc] at hsuf
    simp only [segsOf, List.cons_append, chain]
    refine ⟨Nat.le_refl _, hBa, ⟨_, hsuf⟩, ?_, ?_⟩
    · cases hp with
      | inl h => exact ⟨x, hx, Or.inl h⟩
      | inr h => exact ⟨x, hx, Or.inr h.1⟩
    · apply ih (a + p.length) hps
      · refine ⟨suf, ?_⟩
        rw [← List.drop_drop, hsuf]
        simp
      · cases hp with
        | inr h => exact Or.inl h.2
        | inl h =>
          right
          have hnl : page[a + x.length]? = some nl := by
            rw [← List.getElem?_drop, hsuf, h]
            simp
          have := hB _ hnl
          have e : a + p.length = a + x.length + 1 := by rw [h]; simp; omega
          rw [e]; exact this
      · have e : a + p.length + ps.flatten.length = a + (p :: ps).flatten.length := by
          simp; omega
        rw [e]; exact hR

def tokSegs (page : Bytes) (st : Nat) (t : RelTok) : List Seg :=
  segsOf (st + t.s) t.ty (splitInclusive ((page.take (st + t.e)).drop (st + t.s)))

def allSegs (page : Bytes) (lits : List LitToks) : List Seg :=
  lits.flatMap fun l => l.toks.flatMap (tokSegs page l.start)

theorem chain_toks (B : Nat → Prop) (page : Bytes)
    (hB : ∀ i, page[i]? = some nl → B (i + 1)) (hB0 : ∀ i, isBoundary page i = true → B i)
    (st : Nat) (rs : List (Nat × Nat)) (R : List Seg)
    (hR : ∀ e', spansOk page e' rs = true → chain B page e' R) :
    ∀ (toks : List RelTok) (e : Nat),
      spansOk page e (toks.map (fun t => (st + t.s, st + t.e)) ++ rs) = true →
      chain B page e (toks.flatMap (tokSegs page st) ++ R) := by
  intro toks
  induction toks with
  | nil => intro e h; simpa using hR e (by simpa using h)
  | cons t ts ih =>
    intro e h
    simp only [List.map_cons, List.cons_append, spansOk, Bool.and_eq_true, decide_eq_true_eq] at h
    obtain ⟨⟨⟨⟨⟨h1, h2⟩, h3⟩, h4⟩, h5⟩, h6⟩ := h
    have hc := ih _ h6
    simp only [List.flatMap_cons, List.append_assoc, tokSegs]
    apply chain_mono h1
    have hspec := splitInclusive_spec ((page.take (st + t.e)).drop (st + t.s))
    have hlen : (List.drop (st + t.s) (List.take (st + t.e) page)).length = (st + t.e) - (st + t.s) := by
      simp; omega
    apply chain_segsOf B page hB _ _ _ _ hspec.1
    · refine ⟨page.drop (st + t.e), ?_⟩
      rw [hspec.2]
      have : (st + t.s) ≤ (page.take (st + t.e)).length := by simp; omega
      rw [← List.drop_append_of_le_length this, List.take_append_drop]
    · exact Or.inr (hB0 _ h4)
    · rw [hspec.2, hlen]
      have : st + t.s + (st + t.e - (st + t.s)) = st + t.e := by omega
      rw [this]; exact hc

theorem chain_lits (B : Nat → Prop) (page : Bytes)
    (hB : ∀ i, page[i]? = some nl → B (i + 1)) (hB0 : ∀ i, isBoundary page i = true → B i) :
    ∀ (lits : List LitToks) (e : Nat), spansOk page e (absSpans lits) = true →
      chain B page e (allSegs page lits) := by
  intro lits
  induction lits with
  | nil => intro e _; simp [allSegs, chain]
  | cons l ls ih =>
    intro e h
    simp only [absSpans, List.flatMap_cons] at h
    simp only [allSegs, List.flatMap_cons]
    exact chain_toks B page hB hB0 l.start _ _ (fun e' h' => ih e' h') l.toks e h


/-! ## absolutizing never panics on well-formed spans -/

def spanOk (page : Bytes) (x : Nat × Nat) : Prop :=
  x.1 < x.2 ∧ x.2 ≤ page.length ∧ isBoundary page x.1 = true ∧ isBoundary page x.2 = true

theorem spansOk_mem (page : Bytes) : ∀ (sp : List (Nat × Nat)) (e : Nat),
    spansOk page e sp = true → ∀ x ∈ sp, spanOk page x := by
  intro sp
  induction sp with
  | nil => intro _ _ x hx; cases hx
  | cons y ys ih =>
    intro e h x hx
    obtain ⟨a, b⟩ := y
    simp only [spansOk, Bool.and_eq_true, decide_eq_true_eq] at h
    obtain ⟨⟨⟨⟨⟨h1, h2⟩, h3⟩, h4⟩, h5⟩, h6⟩ := h
    cases hx with
    | head => exact ⟨h2, h3, h4, h5⟩
    | tail _ hx => exact ih _ h6 x hx

theorem absolutize_ok (page : Bytes) (st : Nat) (t : RelTok)
    (h : spanOk page (st + t.s, st + t.e)) :
    absolutize page st t = .ok ((tokSegs page st t).map absOfSeg) := by
  obtain ⟨h1, h2, h3, h4⟩ := h
  simp only [absolutize, slice_ok page _ _ (Nat.le_of_lt h1) h2 h3 h4, ok_bind, pure_eq,
    piecesFrom_eq, tokSegs]

theorem absolutizeAll_ok (page : Bytes) (st : Nat) : ∀ toks : List RelTok,
    (∀ t ∈ toks, spanOk page (st + t.s, st + t.e)) →
    absolutizeAll page st toks = .ok ((toks.flatMap (tokSegs page st)).map absOfSeg) := by
  intro toks
  induction toks with
  | nil => intro _; rfl
  | cons t ts ih =>
    intro h
    have h1 := absolutize_ok page st t (h t (by simp))
    have h2 := ih (fun t' ht' => h t' (by simp [ht']))
    simp only [absolutizeAll, h1, h2, ok_bind, pure_eq, List.flatMap_cons, List.map_append]

theorem concatAbsolutize_ok (page : Bytes) : ∀ lits : List LitToks,
    (∀ l ∈ lits, ∀ t ∈ l.toks, spanOk page (l.start + t.s, l.start + t.e)) →
    concatAbsolutize page lits = .ok ((allSegs page lits).map absOfSeg) := by
  intro lits
  induction lits with
  | nil => intro _; rfl
  | cons l ls ih =>
    intro h
    have h1 := absolutizeAll_ok page l.start l.toks (h l (by simp))
    have h2 := ih (fun l' hl' => h l' (by simp [hl']))
    simp only [concatAbsolutize, h1, h2, ok_bind, pure_eq, allSegs, List.flatMap_cons,
      List.map_append]

theorem spansOk_all (page : Bytes) (lits : List LitToks) (e : Nat)
    (h : spansOk page e (absSpans lits) = true) :
    ∀ l ∈ lits, ∀ t ∈ l.toks, spanOk page (l.start + t.s, l.start + t.e) := by
  intro l hl t ht
  apply spansOk_mem page _ e h
  simp only [absSpans, List.mem_flatMap, List.mem_map]
  exact ⟨l, hl, t, ht, rfl⟩

theorem expectedTokens_eq (page : Bytes) (lits : List LitToks) :
    expectedTokens page lits = (allSegs page lits).map (decOfSeg page) := by
  have e : ∀ st, expectedOfTok page st = fun t => (tokSegs page st t).map (decOfSeg page) := by
    intro st; funext t; simp [expectedOfTok, tokSegs, expectedPieces_eq]
  simp [expectedTokens, allSegs, e, List.map_flatMap]

/-! ## the delta encoding decodes to the spec positions -/

theorem utf16Pos_split (page : Bytes) (a b : Nat) (h : a ≤ b) :
    utf16Pos page b = advance (utf16Pos page a) ((page.take b).drop a) := by
  have e : page.take b = page.take a ++ (page.take b).drop a := by
    have := List.take_append_drop a (page.take b)
    rw [List.take_take, Nat.min_eq_left h] at this
    exact this.symm
  simp only [utf16Pos]
  rw [← advance_append, ← e]

theorem convertFrom_chain (page : Bytes) : ∀ (segs : List Seg) (last e : Nat), last ≤ e →
    isBoundary page last = true → chain (fun i => isBoundary page i = true) page e segs →
    ∃ ts, convertFrom page last (segs.map absOfSeg) = .ok ts ∧
      decodeFrom (utf16Pos page last).1 (utf16Pos page last).2 ts = segs.map (decOfSeg page) := by
  intro segs
  induction segs with
  | nil => intro last e _ _ _; exact ⟨[], rfl, rfl⟩
  | cons x rest ih =>
    intro last e hle hbl hc
    obtain ⟨h1, h2, _, _, h5⟩ := hc
    have hls : last ≤ x.1 := Nat.le_trans hle h1
    obtain ⟨ts, hts, hdec⟩ := ih x.1 (x.1 + x.2.1.length) (Nat.le_add_right _ _) h2 h5
    have hsl := slice_ok page last x.1 hls (isBoundary_le _ _ h2) hbl h2
    have hpos := utf16Pos_split page last x.1 hls
    rw [show utf16Pos page last = ((utf16Pos page last).1, (utf16Pos page last).2) from rfl,
      advance_rel, ← deltaLineDeltaStart_advance] at hpos
    generalize hd : deltaLineDeltaStart ((page.take x.1).drop last) = d at hpos
    obtain ⟨d1, d2⟩ := d
    refine ⟨⟨d1, d2, utf16Len x.2.1, x.2.2⟩ :: ts, ?_, ?_⟩
    · simp only [List.map_cons, convertFrom, absOfSeg, hsl, ok_bind, hd, hts, pure_eq]
    · simp only [decodeFrom, List.map_cons, decOfSeg, hpos, beq_iff_eq] at hdec ⊢
      rw [hdec]


/-! ## increasing -/

def incFrom : Nat × Nat → List DecTok → Prop
  | _, [] => True
  | lo, b :: rest =>
    (lo.1 < b.line ∨ (lo.1 = b.line ∧ lo.2 ≤ b.col)) ∧ incFrom (b.line, b.col + b.len) rest

theorem increasing_of_incFrom : ∀ (l : List DecTok) (lo : Nat × Nat),
    incFrom lo l → increasing l = true := by
  intro l
  induction l with
  | nil => intro _ _; rfl
  | cons b rest ih =>
    intro lo h
    cases rest with
    | nil => rfl
    | cons c r =>
      have h2 := h.2
      have := ih _ h2
      simp only [increasing, this, Bool.and_true, Bool.or_eq_true, Bool.and_eq_true,
        decide_eq_true_eq, beq_iff_eq]
      exact h2.1

theorem advance_piece (l c : Nat) (p rest : Bytes) (hp : pieceOk p) :
    l < (advance (l, c) (p ++ rest)).1 ∨
      (l = (advance (l, c) (p ++ rest)).1 ∧ c + utf16Len p ≤ (advance (l, c) (p ++ rest)).2) := by
  obtain ⟨x, hx, rfl | rfl⟩ := hp
  · left
    rw [advance_eq]
    simp [countNl_append, countNl]
    omega
  · rw [advance_append, advance_eq (l, c), advance_eq]
    by_cases h : countNl rest = 0
    · right; simp [hx, h]
    · left; simp [hx]; omega

theorem take_piece (page : Bytes) (s s' : Nat) (p suf : Bytes) (h : page.drop s = p ++ suf)
    (hs : s + p.length ≤ s') : ∃ rest, page.take s' = page.take s ++ (p ++ rest) := by
  obtain ⟨k, rfl⟩ : ∃ k, s' = s + k := ⟨s' - s, by omega⟩
  refine ⟨suf.take (k - p.length), ?_⟩
  rw [List.take_add, h, List.take_append, List.take_of_length_le (l := p) (by omega)]

theorem incFrom_chain (page : Bytes) : ∀ (segs : List Seg) (e : Nat) (lo : Nat × Nat),
    chain (fun _ => True) page e segs →
    (∀ s', e ≤ s' → lo.1 < (utf16Pos page s').1 ∨
      (lo.1 = (utf16Pos page s').1 ∧ lo.2 ≤ (utf16Pos page s').2)) →
    incFrom lo (segs.map (decOfSeg page)) := by
  intro segs
  induction segs with
  | nil => intro _ _ _ _; trivial
  | cons x rest ih =>
    intro e lo hc hlo
    obtain ⟨h1, _, ⟨suf, hsuf⟩, hp, h5⟩ := hc
    refine ⟨hlo _ h1, ?_⟩
    apply ih _ _ h5
    intro s' hs'
    obtain ⟨r, hr⟩ := take_piece page x.1 s' x.2.1 suf hsuf hs'
    have : utf16Pos page s' = advance (utf16Pos page x.1) (x.2.1 ++ r) := by
      simp only [utf16Pos]
      rw [hr, advance_append]
    rw [this]
    exact advance_piece _ _ _ r hp

end IsoVerif.Lemmas.LspPosCore

namespace IsoVerif.Lemmas.LspPos
open IsoVerif.Util IsoVerif.LspPos IsoVerif.Lemmas.LspPosCore

theorem utf16Pos_eq (s : Bytes) (off : Nat) :
    utf16Pos s off = (countNl (s.take off), utf16Len (afterLastNl (s.take off))) :=
  advance_zero _

/-- NB the extra hypothesis `h0` (see the header). -/
theorem charIndexToPosition_eq (content : Bytes) (off : Nat) (h0 : isBoundary content 0 = true)
    (hle : off ≤ content.length) (hb : isBoundary content off = true) :
    charIndexToPosition content off = .ok (utf16Pos content off) :=
  charIndexToPosition_eq' content off h0 hle hb

theorem deltaLineDeltaStart_eq (t : Bytes) : deltaLineDeltaStart t = utf16Pos t t.length := by
  simp [deltaLineDeltaStart_advance, utf16Pos]

theorem rangeOfExtraction_eq (content : Bytes) (start len : Nat) (h0 : isBoundary content 0 = true)
    (hle : start + len ≤ content.length)
    (hs : isBoundary content start = true) (he : isBoundary content (start + len) = true) :
    rangeOfExtraction content start len =
      .ok (utf16Pos content start, utf16Pos content (start + len)) := by
  simp only [rangeOfExtraction, charIndexToPosition_eq content start h0 (by omega) hs,
    charIndexToPosition_eq content (start + len) h0 hle he, ok_bind, pure_eq]

theorem locationRange_eq (content : Bytes) (base s e : Nat) (h0 : isBoundary content 0 = true)
    (hse : s ≤ e) (hle : base + e ≤ content.length)
    (hs : isBoundary content (base + s) = true) (he : isBoundary content (base + e) = true) :
    locationRange content base s e =
      .ok (utf16Pos content (base + s), utf16Pos content (base + e)) := by
  simp only [locationRange, charIndexToPosition_eq content (base + s) h0 (by omega) hs,
    charIndexToPosition_eq content (base + e) h0 hle he, ok_bind, pure_eq]

theorem lspTokens_decode (page : Bytes) (lits : List LitToks) (h0 : isBoundary page 0 = true)
    (hnl : ∀ i, i < page.length → page[i]? = some nl → isBoundary page (i + 1) = true)
    (h : spansOk page 0 (absSpans lits) = true) :
    ∃ ts, lspTokens page lits = .ok ts ∧ decode ts = expectedTokens page lits := by
  have hc := chain_lits (fun i => isBoundary page i = true) page
    (fun i hi => hnl i (List.getElem?_eq_some_iff.mp hi).1 hi) (fun _ hi => hi) lits 0 h
  obtain ⟨ts, h1, h2⟩ := convertFrom_chain page _ 0 0 (Nat.le_refl _) h0 hc
  refine ⟨ts, ?_, ?_⟩
  · simp only [lspTokens, concatAbsolutize_ok page lits (spansOk_all page lits 0 h), ok_bind, h1]
  · rw [expectedTokens_eq, ← h2]; rfl

theorem expectedTokens_increasing (page : Bytes) (lits : List LitToks)
    (h : spansOk page 0 (absSpans lits) = true) : increasing (expectedTokens page lits) = true := by
  have hc := chain_lits (fun _ => True) page (fun _ _ => trivial) (fun _ _ => trivial) lits 0 h
  rw [expectedTokens_eq]
  apply increasing_of_incFrom _ (0, 0)
  apply incFrom_chain page _ 0 (0, 0) hc
  intro s' _
  simp only
  omega

/-! ### the extra hypotheses are necessary -/

/-- without `isBoundary content 0`: the requested `charIndexToPosition_eq` fails -/
example : isBoundary [0x80] 1 = true ∧ charIndexToPosition [0x80] 1 = .panic "slice" := by decide

/-- without `isBoundary page 0`: the requested `lspTokens_decode` fails -/
example : spansOk [0x80, 0x41] 0 (absSpans [⟨1, [⟨0, 1, 0⟩]⟩]) = true ∧
    lspTokens [0x80, 0x41] [⟨1, [⟨0, 1, 0⟩]⟩] = .panic "slice" := by decide

/-- with `isBoundary page 0` but a continuation byte right after a line feed inside a token:
`lspTokens_decode` fails -/
example : isBoundary [0x41, 10, 0x80, 0x41] 0 = true ∧
    spansOk [0x41, 10, 0x80, 0x41] 0 (absSpans [⟨0, [⟨0, 3, 0⟩]⟩]) = true ∧
    lspTokens [0x41, 10, 0x80, 0x41] [⟨0, [⟨0, 3, 0⟩]⟩] = .panic "slice" := by decide

/-- both extra hypotheses hold on the non-vacuity page of Props/C23.lean -/
example :
    let page := strBytes "é😀 iso(`ab \"\"\"x\ny\"\"\"`)"
    isBoundary page 0 = true ∧
      ∀ i, i < page.length → page[i]? = some nl → isBoundary page (i + 1) = true := by
  decide +kernel

end IsoVerif.Lemmas.LspPos
