/-
Helper lemmas for the bit-level part of C06 (index arithmetic of `atomic_arena.rs`).
Everything is proved for all `i` (no enumeration): `Nat.log2` bounds + division lemmas.
-/
import IsoVerif.Model.Arena

namespace IsoVerif.Arena
open IsoVerif.Gen.ArenaConsts

/-! ### Closed facts about the generated constants (re-checked whenever T6 regenerates them) -/

theorem consts_fit :
    minSize = 2 ^ minShift ∧ numSizes + minShift = u32Bits ∧ u32Bits = 32 ∧ topShift + 1 = u32Bits ∧
    maxIndex + minSize = 2 ^ 32 - 1 ∧ initNext = minSize ∧ initNextZero = minSize + 1 ∧
    numBucketPtrs = numSizes ∧ 0 < minShift := by decide

theorem topShift_eq : topShift = 31 := by decide
theorem minSize_eq : minSize = 2 ^ minShift := by decide
theorem numSizes_eq : numSizes = 32 - minShift := by decide
theorem minShift_le : minShift ≤ 31 := by decide
theorem minShift_pos : 0 < minShift := by decide

/-! ### Arithmetic -/

theorem two_pow_sub_one_div (k a : Nat) : (2 ^ (k + a) - 1) / 2 ^ a = 2 ^ k - 1 := by
  have hk : 0 < 2 ^ k := Nat.two_pow_pos k
  have ha : 0 < 2 ^ a := Nat.two_pow_pos a
  apply Nat.div_eq_of_lt_le
  · rw [Nat.pow_add, Nat.sub_mul]
    have : 2 ^ a ≤ 2 ^ k * 2 ^ a := Nat.le_mul_of_pos_left _ hk
    omega
  · rw [Nat.pow_add]
    have h : 2 ^ k - 1 + 1 = 2 ^ k := by omega
    rw [h]
    have : 0 < 2 ^ k * 2 ^ a := Nat.mul_pos hk ha
    omega

theorem bucketCapacity_eq (a : Nat) (h : a ≤ 31) : bucketCapacity a = 2 ^ (31 - a) := by
  unfold bucketCapacity
  rw [topShift_eq, Nat.one_shiftLeft, Nat.shiftRight_eq_div_pow, Nat.pow_div h (by decide)]

theorem bucketCapacity_zero : bucketCapacity 0 = 2 ^ 31 := bucketCapacity_eq 0 (by omega)

theorem clz32_pos (i : Nat) (h0 : i ≠ 0) : clz32 i = 31 - Nat.log2 i := by
  simp [clz32, h0]

theorem log2_lt_32 (i : Nat) (h0 : i ≠ 0) (h : i < 2 ^ 32) : Nat.log2 i < 32 :=
  (Nat.log2_lt h0).2 h

/-- The mask `(bucket_capacity(0) as u32 - 1) >> a` keeps the low `31 - a` bits. -/
theorem mask_eq (a : Nat) (h : a ≤ 31) : (bucketCapacity 0 - 1) >>> a = 2 ^ (31 - a) - 1 := by
  rw [bucketCapacity_zero, Nat.shiftRight_eq_div_pow]
  have : 31 = (31 - a) + a := by omega
  conv => lhs; rw [this]
  exact two_pow_sub_one_div (31 - a) a

theorem idxA_eq (i : Nat) (h0 : i ≠ 0) : idxA i = 31 - Nat.log2 i := clz32_pos i h0

theorem idxB_eq (i : Nat) (h0 : i ≠ 0) (h : i < 2 ^ 32) : idxB i = i - 2 ^ Nat.log2 i := by
  have hk := log2_lt_32 i h0 h
  have hlo : 2 ^ Nat.log2 i ≤ i := Nat.log2_self_le h0
  have hhi : i < 2 ^ (Nat.log2 i + 1) := Nat.lt_log2_self
  unfold idxB
  rw [idxA_eq i h0, mask_eq _ (by omega)]
  have hk' : 31 - (31 - Nat.log2 i) = Nat.log2 i := by omega
  rw [hk', Nat.and_two_pow_sub_one_eq_mod, Nat.mod_eq_sub_mod hlo]
  rw [Nat.pow_succ] at hhi
  rw [Nat.mod_eq_of_lt (by omega)]

/-- Core computation: for a non-zero `u32`, `index i = (31 - log2 i, i - 2^(log2 i))`. -/
theorem index_eq (i : Nat) (h0 : i ≠ 0) (h : i < 2 ^ 32) :
    index i = some (31 - Nat.log2 i, i - 2 ^ Nat.log2 i) := by
  have hk := log2_lt_32 i h0 h
  unfold index
  rw [idxB_eq i h0 h, idxA_eq i h0]
  have ha : ¬ (32 ≤ 31 - Nat.log2 i) := by omega
  simp only [ha, if_false]

theorem index_eq_idx (i : Nat) (h0 : i ≠ 0) (h : i < 2 ^ 32) : index i = some (idxA i, idxB i) := by
  rw [index_eq i h0 h, idxA_eq i h0, idxB_eq i h0 h]

theorem index_zero : index 0 = none := by decide

theorem log2_ge_minShift (i : Nat) (h : minSize ≤ i) : minShift ≤ Nat.log2 i := by
  have h0 : i ≠ 0 := by
    have : 0 < minSize := by decide
    omega
  rw [Nat.le_log2 h0, ← minSize_eq]
  exact h

/-- **index_spec**: for every valid biased index, the bucket number is in range, the offset is
inside the bucket, and the index is reconstructed as `base a + b`. -/
theorem index_spec (i : Nat) (h1 : minSize ≤ i) (h2 : i < 2 ^ 32) :
    ∃ a b, index i = some (a, b) ∧ a < numSizes ∧ b < bucketCapacity a ∧ i = bucketBase a + b := by
  have h0 : i ≠ 0 := by
    have : 0 < minSize := by decide
    omega
  have hk := log2_lt_32 i h0 h2
  have hk7 := log2_ge_minShift i h1
  have hlo : 2 ^ Nat.log2 i ≤ i := Nat.log2_self_le h0
  have hhi : i < 2 ^ (Nat.log2 i + 1) := Nat.lt_log2_self
  refine ⟨31 - Nat.log2 i, i - 2 ^ Nat.log2 i, index_eq i h0 h2, ?_, ?_, ?_⟩
  · rw [numSizes_eq]; have := minShift_pos; omega
  · rw [bucketCapacity_eq _ (by omega)]
    have hk' : 31 - (31 - Nat.log2 i) = Nat.log2 i := by omega
    rw [hk']; rw [Nat.pow_succ] at hhi; omega
  · unfold bucketBase
    rw [bucketCapacity_eq _ (by omega)]
    have hk' : 31 - (31 - Nat.log2 i) = Nat.log2 i := by omega
    rw [hk']; omega

/-- The pair determines the index (for all non-zero `u32`, not only valid ones). -/
theorem index_injective (i j : Nat) (hi0 : i ≠ 0) (hj0 : j ≠ 0) (hi : i < 2 ^ 32) (hj : j < 2 ^ 32)
    (h : index i = index j) : i = j := by
  rw [index_eq i hi0 hi, index_eq j hj0 hj] at h
  have hki := log2_lt_32 i hi0 hi
  have hkj := log2_lt_32 j hj0 hj
  have hloi : 2 ^ Nat.log2 i ≤ i := Nat.log2_self_le hi0
  have hloj : 2 ^ Nat.log2 j ≤ j := Nat.log2_self_le hj0
  simp only [Option.some.injEq, Prod.mk.injEq] at h
  obtain ⟨ha, hb⟩ := h
  have hk : Nat.log2 i = Nat.log2 j := by omega
  rw [hk] at hb hloi
  omega

theorem log2_succ_cases (i : Nat) (h0 : i ≠ 0) :
    (Nat.log2 (i + 1) = Nat.log2 i ∧ i + 1 < 2 ^ (Nat.log2 i + 1)) ∨
    (Nat.log2 (i + 1) = Nat.log2 i + 1 ∧ i + 1 = 2 ^ (Nat.log2 i + 1)) := by
  have hlo : 2 ^ Nat.log2 i ≤ i := Nat.log2_self_le h0
  have hhi : i < 2 ^ (Nat.log2 i + 1) := Nat.lt_log2_self
  have h1 : i + 1 ≠ 0 := by omega
  by_cases hc : i + 1 < 2 ^ (Nat.log2 i + 1)
  · left
    refine ⟨?_, hc⟩
    have hle : Nat.log2 i ≤ Nat.log2 (i + 1) := (Nat.le_log2 h1).2 (by omega)
    have hlt : Nat.log2 (i + 1) < Nat.log2 i + 1 := (Nat.log2_lt h1).2 hc
    omega
  · right
    have heq : i + 1 = 2 ^ (Nat.log2 i + 1) := by omega
    refine ⟨?_, heq⟩
    rw [heq, Nat.log2_two_pow]

/-- **Monotonicity across bucket boundaries**: stepping from `i` to `i+1` either stays in the
bucket with the next offset, or moves to the previous bucket number at offset 0 exactly when
the current bucket is full. -/
theorem index_succ (i : Nat) (h0 : i ≠ 0) (h : i + 1 < 2 ^ 32) :
    ∃ a b a' b', index i = some (a, b) ∧ index (i + 1) = some (a', b') ∧
      ((a' = a ∧ b' = b + 1 ∧ b + 1 < bucketCapacity a) ∨
       (a = a' + 1 ∧ b' = 0 ∧ b + 1 = bucketCapacity a)) := by
  have hi : i < 2 ^ 32 := by omega
  have hk := log2_lt_32 i h0 hi
  have hlo : 2 ^ Nat.log2 i ≤ i := Nat.log2_self_le h0
  have hhi : i < 2 ^ (Nat.log2 i + 1) := Nat.lt_log2_self
  refine ⟨_, _, _, _, index_eq i h0 hi, index_eq (i + 1) (by omega) h, ?_⟩
  have hcap : bucketCapacity (31 - Nat.log2 i) = 2 ^ Nat.log2 i := by
    rw [bucketCapacity_eq _ (by omega)]
    have hk' : 31 - (31 - Nat.log2 i) = Nat.log2 i := by omega
    rw [hk']
  rw [hcap]
  rcases log2_succ_cases i h0 with ⟨hl, hlt⟩ | ⟨hl, heq⟩
  · left
    rw [hl]; rw [Nat.pow_succ] at hlt
    refine ⟨rfl, by omega, by omega⟩
  · right
    have hk1 : Nat.log2 (i + 1) < 32 := log2_lt_32 (i + 1) (by omega) h
    rw [hl]
    refine ⟨by omega, by omega, ?_⟩
    rw [Nat.pow_succ] at heq; omega

/-- Indices are ordered like their (bucket, offset) pairs, buckets counted downwards. -/
theorem index_lt_iff (i j : Nat) (hi0 : i ≠ 0) (hi : i < 2 ^ 32) (hj : j < 2 ^ 32) (hij : i < j) :
    ∃ a b a' b', index i = some (a, b) ∧ index j = some (a', b') ∧ (a' < a ∨ (a' = a ∧ b < b')) := by
  have hj0 : j ≠ 0 := by omega
  have hki := log2_lt_32 i hi0 hi
  have hkj := log2_lt_32 j hj0 hj
  have hloi : 2 ^ Nat.log2 i ≤ i := Nat.log2_self_le hi0
  have hloj : 2 ^ Nat.log2 j ≤ j := Nat.log2_self_le hj0
  have hhii : i < 2 ^ (Nat.log2 i + 1) := Nat.lt_log2_self
  refine ⟨_, _, _, _, index_eq i hi0 hi, index_eq j hj0 hj, ?_⟩
  have hle : Nat.log2 i ≤ Nat.log2 j := (Nat.le_log2 hj0).2 (by omega)
  by_cases hk : Nat.log2 i = Nat.log2 j
  · right; rw [hk] at hloi ⊢; refine ⟨rfl, by omega⟩
  · left; omega

/-! ### Capacities -/

theorem bucketCapacity_last : bucketCapacity (numSizes - 1) = minSize := by decide

theorem bucketCapacity_double (a : Nat) (h : a + 1 ≤ 31) :
    bucketCapacity a = 2 * bucketCapacity (a + 1) := by
  rw [bucketCapacity_eq a (by omega), bucketCapacity_eq (a + 1) h]
  have : 31 - a = (31 - (a + 1)) + 1 := by omega
  rw [this, Nat.pow_succ]; omega

/-- The buckets `a … numSizes-1` together with the `minSize` unused low indices tile exactly the
indices below the base of bucket `a - 1`. -/
theorem capSum_tiles (n a : Nat) (h : a + n = numSizes) (hn : 0 < n) :
    minSize + capSum a n = 2 * bucketCapacity a := by
  induction n generalizing a with
  | zero => omega
  | succ n ih =>
    cases n with
    | zero =>
      have ha : a = numSizes - 1 := by omega
      subst ha
      simp only [capSum, bucketCapacity_last]; omega
    | succ m =>
      have ih' := ih (a + 1) (by omega) (by omega)
      have hns : numSizes ≤ 32 := by decide
      have hd := bucketCapacity_double a (by omega)
      rw [capSum]
      omega

/-- All buckets together hold exactly the indices `minSize ≤ i < 2^32`. -/
theorem capSum_all : minSize + capSum 0 numSizes = 2 ^ 32 := by
  rw [capSum_tiles numSizes 0 (by omega) (by decide), bucketCapacity_zero]

/-- Number of slots `Drop` visits: the full buckets after `last_a` plus `last_b + 1` slots of
bucket `last_a` are exactly the `l - minSize` slots handed out so far. -/
theorem drop_count (l : Nat) (h1 : minSize < l) (h2 : l ≤ 2 ^ 32) :
    capSum (idxA (l - 1) + 1) (numSizes - (idxA (l - 1) + 1)) + (idxB (l - 1) + 1) = l - minSize := by
  obtain ⟨a, b, hidx, ha, hb, hrec⟩ := index_spec (l - 1) (by omega) (by omega)
  have h0 : l - 1 ≠ 0 := by
    have : 0 < minSize := by decide
    omega
  rw [index_eq_idx (l - 1) h0 (by omega)] at hidx
  simp only [Option.some.injEq, Prod.mk.injEq] at hidx
  obtain ⟨rfl, rfl⟩ := hidx
  unfold bucketBase at hrec
  by_cases hlast : idxA (l - 1) + 1 = numSizes
  · have : numSizes - (idxA (l - 1) + 1) = 0 := by omega
    rw [this, capSum]
    have hc : bucketCapacity (idxA (l - 1)) = minSize := by
      have : idxA (l - 1) = numSizes - 1 := by omega
      rw [this, bucketCapacity_last]
    omega
  · have ht := capSum_tiles (numSizes - (idxA (l - 1) + 1)) (idxA (l - 1) + 1) (by omega) (by omega)
    have hns : numSizes ≤ 32 := by decide
    have hd := bucketCapacity_double (idxA (l - 1)) (by omega)
    omega

end IsoVerif.Arena
