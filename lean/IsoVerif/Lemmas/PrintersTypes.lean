/-
Lemmas for C27 (generated TypeScript types): the type text of a schema type, one property per
selection in a parameter type, keys / nesting / list structure of a raw response type.
-/
import IsoVerif.Model.Core.ParamType

namespace IsoVerif.Core

/-! ### type text, parameter type -/

theorem jsType_eq_wrapShape_aux (innerText : Str) : (ty : TypeAnn) → (h : ty.singleVariant = true) →
    jsType innerText ty = wrapShape innerText ty.shape
  | .scalar n, _ => by simp [jsType, TypeAnn.shape, wrapShape]
  | .plural t, h => by
    have h' : t.singleVariant = true := by simpa [TypeAnn.singleVariant] using h
    simp [jsType, TypeAnn.shape, wrapShape, jsType_eq_wrapShape_aux innerText t h']
  | .union b [.scalar n], _ => by
    cases b <;> simp [jsType, jsVariants, joinStr, TypeAnn.shape, TypeAnn.firstShape, wrapShape]
  | .union b [.plural t], h => by
    have h' : t.singleVariant = true := by simpa [TypeAnn.singleVariant] using h
    cases b <;> simp [jsType, jsVariants, joinStr, TypeAnn.shape, TypeAnn.firstShape, wrapShape,
      jsType_eq_wrapShape_aux innerText t h']
  | .union _ [], h => by simp [TypeAnn.singleVariant] at h
  | .union _ [.union _ _], h => by simp [TypeAnn.singleVariant] at h
  | .union _ (_ :: _ :: _), h => by simp [TypeAnn.singleVariant] at h

/-- The text `print_javascript_type_declaration` prints is the rendering of the type's
nullable/list structure: `( … | null)` exactly for a nullable union, `ReadonlyArray<…>` exactly
for a list. -/
theorem jsType_eq_wrapShape (innerText : Str) (ty : TypeAnn) (h : ty.singleVariant = true) :
    jsType innerText ty = wrapShape innerText ty.shape :=
  jsType_eq_wrapShape_aux innerText ty h

/-- one property per selection, in order -/
theorem paramSels_eq (level : Nat) (sels : List PSel) :
    paramSels level sels = (sels.map fun s => paramLine level s (paramBody level s)).flatten := by
  induction sels with
  | nil => simp [paramSels]
  | cons s rest ih => simp [paramSels, ih]

/-! ### fuel of `rawAlts` -/

theorem SelMap.size_cons (k : Key) (s : Sel) (rest : SelMap) :
    SelMap.size ((k, s) :: rest) = s.size + SelMap.size rest := by
  simp [SelMap.size]

theorem SelMap.size_restOf_le (m : SelMap) : SelMap.size (restOf m) ≤ SelMap.size m := by
  induction m with
  | nil => simp [restOf]
  | cons e rest ih =>
    obtain ⟨k, s⟩ := e
    unfold restOf at ih ⊢
    rw [List.filter_cons]
    split
    · simp only [SelMap.size_cons]; omega
    · simp only [SelMap.size_cons]; omega

theorem SelMap.size_insertByRank_le (e : Key × Sel) (l : SelMap) :
    SelMap.size (insertByRank e l) ≤ e.2.size + SelMap.size l := by
  obtain ⟨k, s⟩ := e
  induction l with
  | nil => simp [insertByRank, SelMap.size]
  | cons x rest ih =>
    obtain ⟨kx, sx⟩ := x
    simp only [insertByRank]
    split
    · simp only [SelMap.size_cons]; omega
    · split
      · simp only [SelMap.size_cons]; omega
      · simp only [SelMap.size_cons] at ih ⊢; omega

theorem SelMap.size_extendMap_le (base extra : SelMap) :
    SelMap.size (extendMap base extra) ≤ SelMap.size base + SelMap.size extra := by
  unfold extendMap
  induction extra generalizing base with
  | nil => simp [SelMap.size]
  | cons e rest ih =>
    obtain ⟨k, s⟩ := e
    simp only [List.foldl_cons, SelMap.size_cons]
    have h1 := ih (insertByRank (k, s) base)
    have h2 := SelMap.size_insertByRank_le (k, s) base
    simp only at h2
    omega

/-- every collected fragment comes from a `.frag` entry: its map plus the rest fit in `m` -/
theorem SelMap.size_collectFrags (m : SelMap) (ty : Str) (fm : SelMap)
    (h : (ty, fm) ∈ collectFrags m) :
    SelMap.size (restOf m) + 1 + SelMap.size fm ≤ SelMap.size m := by
  induction m with
  | nil => simp [collectFrags] at h
  | cons e rest ih =>
    obtain ⟨k, s⟩ := e
    have hr := SelMap.size_restOf_le rest
    cases s with
    | frag t map =>
      simp only [collectFrags, List.mem_cons] at h
      have : restOf ((k, Sel.frag t map) :: rest) = restOf rest := by
        simp [restOf, Sel.isFrag]
      rw [this]
      simp only [SelMap.size_cons, Sel.size]
      rcases h with h | h
      · cases h; omega
      · have := ih ((List.mem_filter.mp h).1); omega
    | scalar f n a =>
      simp only [collectFrags] at h
      have := ih h
      have e : restOf ((k, Sel.scalar f n a) :: rest) = (k, Sel.scalar f n a) :: restOf rest := by
        simp [restOf, Sel.isFrag]
      rw [e]; simp only [SelMap.size_cons]; omega
    | linked f n a c mp =>
      simp only [collectFrags] at h
      have := ih h
      have e : restOf ((k, Sel.linked f n a c mp) :: rest) = (k, Sel.linked f n a c mp) :: restOf rest := by
        simp [restOf, Sel.isFrag]
      rw [e]; simp only [SelMap.size_cons]; omega
    | clientObj f n a c mp =>
      simp only [collectFrags] at h
      have := ih h
      have e : restOf ((k, Sel.clientObj f n a c mp) :: rest) = (k, Sel.clientObj f n a c mp) :: restOf rest := by
        simp [restOf, Sel.isFrag]
      rw [e]; simp only [SelMap.size_cons]; omega

theorem rawFields_fuel (rec : Str → SelMap → RawRes (List (List RTree))) (schema : Schema) (parent : Str)
    (l : SelMap) (hrec : ∀ p mm, SelMap.size mm < SelMap.size l → rec p mm ≠ .outOfFuel) :
    rawFields rec schema parent l ≠ .outOfFuel := by
  induction l with
  | nil => simp [rawFields]
  | cons e rest ih =>
    obtain ⟨k, s⟩ := e
    have iht := ih (fun p mm hlt => hrec p mm (by
      simp only [SelMap.size_cons]; omega))
    cases s with
    | scalar f n a =>
      simp only [rawFields]
      split
      · simp
      · split
        · simp
        · split
          · simp
          · split
            · simp
            · split
              · simp
              · exact iht
    | linked f n a c mp =>
      have hm := hrec
      simp only [rawFields]
      split
      · simp
      · split
        · simp
        · split
          · simp
          · split
            · simp
            · rename_i nested _ _ _
              have := hrec nested mp (by simp only [SelMap.size_cons, Sel.size]; omega)
              split
              · split
                · simp
                · exact iht
              · simp
              · rename_i h; exact absurd h this
    | clientObj f n a c mp => simpa only [rawFields] using iht
    | frag t mp => simpa only [rawFields] using iht


theorem rawFragAlts_fuel (rec : Str → SelMap → RawRes (List (List RTree))) (rest : SelMap)
    (frags : List (Str × SelMap))
    (hrec : ∀ ty fm, (ty, fm) ∈ frags → rec ty (extendMap rest fm) ≠ .outOfFuel) :
    rawFragAlts rec rest frags ≠ .outOfFuel := by
  induction frags with
  | nil => simp [rawFragAlts]
  | cons e more ih =>
    obtain ⟨ty, fm⟩ := e
    have h1 := hrec ty fm (List.mem_cons_self ..)
    have h2 := ih (fun ty' fm' hm => hrec ty' fm' (List.mem_cons_of_mem _ hm))
    simp only [rawFragAlts]
    split
    · split
      · simp
      · exact h2
    · exact h1

/-- enough fuel: the recursion of `generate_raw_response_type_inner` terminates -/
theorem rawAlts_fuel (schema : Schema) (fuel : Nat) (parent : Str) (m : SelMap)
    (h : SelMap.size m < fuel) : rawAlts schema fuel parent m ≠ .outOfFuel := by
  induction fuel generalizing parent m with
  | zero => omega
  | succ f ih =>
    simp only [rawAlts]
    split
    · have hr := SelMap.size_restOf_le m
      have := rawFields_fuel (rawAlts schema f) schema parent (restOf m)
        (fun p mm hlt => ih p mm (by omega))
      split
      · simp
      · simp
      · rename_i h; exact absurd h this
    · apply rawFragAlts_fuel
      intro ty fm hmem
      apply ih
      have h1 := SelMap.size_collectFrags m ty fm hmem
      have h2 := SelMap.size_extendMap_le (restOf m) fm
      omega

/-! ### shape of the raw response type of a fragment-free selection map -/

theorem SelMap.fragFree_cons (k : Key) (s : Sel) (rest : SelMap) :
    SelMap.fragFree ((k, s) :: rest) = (s.fragFree && SelMap.fragFree rest) := by
  simp [SelMap.fragFree]

theorem SelMap.noEmpty_cons (k : Key) (s : Sel) (rest : SelMap) :
    SelMap.noEmpty ((k, s) :: rest) = (s.noEmpty && SelMap.noEmpty rest) := by
  simp [SelMap.noEmpty]

theorem Tree.depthList_cons_le (t : Tree) (rest : List Tree) (n : Nat) :
    Tree.depthList (t :: rest) ≤ n ↔ t.depth ≤ n ∧ Tree.depthList rest ≤ n := by
  simp only [Tree.depthList]
  exact Nat.max_le

theorem collectFrags_of_fragFree (m : SelMap) (h : SelMap.fragFree m = true) : collectFrags m = [] := by
  induction m with
  | nil => simp [collectFrags]
  | cons e rest ih =>
    obtain ⟨k, s⟩ := e
    rw [SelMap.fragFree_cons, Bool.and_eq_true] at h
    cases s with
    | frag t mp => simp [Sel.fragFree] at h
    | scalar f n a => simpa only [collectFrags] using ih h.2
    | linked f n a c mp => simpa only [collectFrags] using ih h.2
    | clientObj f n a c mp => simpa only [collectFrags] using ih h.2

theorem restOf_of_fragFree (m : SelMap) (h : SelMap.fragFree m = true) : restOf m = m := by
  induction m with
  | nil => simp [restOf]
  | cons e rest ih =>
    obtain ⟨k, s⟩ := e
    rw [SelMap.fragFree_cons, Bool.and_eq_true] at h
    have ih' := ih h.2
    unfold restOf at ih' ⊢
    cases s with
    | frag t mp => simp [Sel.fragFree] at h
    | scalar f n a => rw [List.filter_cons_of_pos (by simp [Sel.isFrag]), ih']
    | linked f n a c mp => rw [List.filter_cons_of_pos (by simp [Sel.isFrag]), ih']
    | clientObj f n a c mp => rw [List.filter_cons_of_pos (by simp [Sel.isFrag]), ih']

theorem qTreeItems_filter_isFrag (m : SelMap) (h : SelMap.fragFree m = true) :
    (qTreeItems m).filter Tree.isFrag = [] := by
  induction m with
  | nil => simp [qTreeItems]
  | cons e rest ih =>
    obtain ⟨k, s⟩ := e
    rw [SelMap.fragFree_cons, Bool.and_eq_true] at h
    have ih' := ih h.2
    cases s with
    | frag t mp => simp [Sel.fragFree] at h
    | scalar f n a => simp [qTreeItems, qTreeSel, Tree.isFrag, ih']
    | linked f n a c mp => simp [qTreeItems, qTreeSel, Tree.isFrag, ih']
    | clientObj f n a c mp => simp [qTreeItems, qTreeSel, ih']

theorem qTreeItems_filter_not_isFrag (m : SelMap) (h : SelMap.fragFree m = true) :
    (qTreeItems m).filter (fun t => !t.isFrag) = qTreeItems m := by
  induction m with
  | nil => simp [qTreeItems]
  | cons e rest ih =>
    obtain ⟨k, s⟩ := e
    rw [SelMap.fragFree_cons, Bool.and_eq_true] at h
    have ih' := ih h.2
    cases s with
    | frag t mp => simp [Sel.fragFree] at h
    | scalar f n a =>
      simp only [qTreeItems, qTreeSel, List.cons_append, List.nil_append]
      rw [List.filter_cons_of_pos (by simp [Tree.isFrag]), ih']
    | linked f n a c mp =>
      simp only [qTreeItems, qTreeSel, List.cons_append, List.nil_append]
      rw [List.filter_cons_of_pos (by simp [Tree.isFrag]), ih']
    | clientObj f n a c mp => simp [qTreeItems, qTreeSel, ih']

theorem queryTree_of_nonempty (m : SelMap) (h : m.isEmpty = false) : queryTree m = qTreeItems m := by
  simp [queryTree, kidsOrPlaceholder, h]


theorem rawFields_shape (schema : Schema) (rec : Str → SelMap → RawRes (List (List RTree))) (parent : Str)
    (hrec : ∀ p mm a, SelMap.fragFree mm = true → mm.isEmpty = false → SelMap.noEmpty mm = true →
      rec p mm = .ok a → ∀ ef, Tree.depthList (queryTree mm) < ef →
        expectedAlts schema ef p (queryTree mm) = some (RTree.shapeAlts a))
    (l : SelMap) (hf : SelMap.fragFree l = true) (hn : SelMap.noEmpty l = true)
    (props : List RTree) (h : rawFields rec schema parent l = .ok props) :
    ∀ ef, Tree.depthList (qTreeItems l) ≤ ef →
      expectedProps (expectedAlts schema ef) schema parent (qTreeItems l)
        = some (RTree.shapeProps props) := by
  induction l generalizing props with
  | nil =>
    intro ef _
    simp only [rawFields, RawRes.ok.injEq] at h
    subst h
    simp [qTreeItems, expectedProps, RTree.shapeProps]
  | cons e rest ih =>
    obtain ⟨k, s⟩ := e
    rw [SelMap.fragFree_cons, Bool.and_eq_true] at hf
    rw [SelMap.noEmpty_cons, Bool.and_eq_true] at hn
    have iht := ih hf.2 hn.2
    intro ef hd
    cases s with
    | frag t mp => simp [Sel.fragFree] at hf
    | clientObj f n a c mp =>
      simp only [rawFields] at h
      simp only [qTreeItems, qTreeSel, List.nil_append] at hd ⊢
      exact iht props h ef hd
    | scalar f n a =>
      simp only [qTreeItems, qTreeSel, List.cons_append, List.nil_append] at hd ⊢
      rw [Tree.depthList_cons_le] at hd
      simp only [rawFields] at h
      split at h
      · simp at h
      · rename_i e hlook
        split at h
        · simp at h
        · split at h
          · simp at h
          · split at h
            · simp at h
            · split at h
              · rename_i ts hts
                simp only [RawRes.ok.injEq] at h
                subst h
                simp only [expectedProps, hlook, iht ts hts ef hd.2, RTree.shapeProps, RTree.shape]
              · rename_i hne
                exact absurd h (hne props)
    | linked f n a c mp =>
      simp only [qTreeItems, qTreeSel, List.cons_append, List.nil_append] at hd ⊢
      rw [Tree.depthList_cons_le] at hd
      simp only [rawFields] at h
      have hfm : SelMap.fragFree mp = true := by simpa [Sel.fragFree] using hf.1
      have hnm : mp.isEmpty = false ∧ SelMap.noEmpty mp = true := by
        simpa [Sel.noEmpty] using hn.1
      split at h
      · simp at h
      · rename_i e hlook
        split at h
        · simp at h
        · rename_i nested hinner
          split at h
          · simp at h
          · split at h
            · simp at h
            · split at h
              · rename_i alts halts
                split at h
                · rename_i ts hts
                  simp only [RawRes.ok.injEq] at h
                  subst h
                  have hdk : Tree.depthList (queryTree mp) < ef := by
                    simp only [Tree.depth, queryTree] at hd ⊢
                    omega
                  have hk := hrec nested mp alts hfm hnm.1 hnm.2 halts ef hdk
                  simp only [queryTree] at hk
                  simp only [expectedProps, hlook, iht ts hts ef hd.2, hinner, hk, Option.map_some,
                    RTree.shapeProps, RTree.shape]
                · rename_i hne
                  exact absurd h (hne props)
              · simp at h
              · simp at h


/-- without inline fragments and empty selection sets the raw response type has exactly the
response keys, nullable/list structure and nesting the operation's selection tree asks for -/
theorem rawAlts_shape (schema : Schema) (fuel : Nat) (parent : Str) (m : SelMap)
    (alts : List (List RTree))
    (hf : SelMap.fragFree m = true) (he : m.isEmpty = false) (hn : SelMap.noEmpty m = true)
    (h : rawAlts schema fuel parent m = .ok alts) :
    ∀ efuel, Tree.depthList (queryTree m) < efuel →
      expectedAlts schema efuel parent (queryTree m) = some (RTree.shapeAlts alts) := by
  induction fuel generalizing parent m alts with
  | zero => simp [rawAlts] at h
  | succ f ih =>
    intro efuel hd
    rw [queryTree_of_nonempty m he] at hd ⊢
    cases efuel with
    | zero => omega
    | succ ef =>
      simp only [rawAlts, collectFrags_of_fragFree m hf, restOf_of_fragFree m hf, List.isEmpty_nil,
        if_true] at h
      split at h
      · rename_i props hprops
        simp only [RawRes.ok.injEq] at h
        subst h
        have := rawFields_shape schema (rawAlts schema f) parent
          (fun p mm a h1 h2 h3 h4 => ih p mm a h1 h2 h3 h4) m hf hn props hprops ef (by omega)
        simp only [expectedAlts, qTreeItems_filter_isFrag m hf, qTreeItems_filter_not_isFrag m hf,
          List.isEmpty_nil, if_true, this, Option.map_some, RTree.shapeAlts]
      · simp at h
      · simp at h

end IsoVerif.Core
