/-
The concrete key orders of `Model/Core/Merge.lean` (`natLt`, `lexLt`, `keyLt`, `pathLt`) are strict
total orders, so the sorted-map algebra of `Lemmas/MergeMap.lean` applies to `MergedMap`.
Core Lean only.
-/
import IsoVerif.Lemmas.MergeMap

namespace IsoVerif.Core.Merge

theorem natLt_strictTotal : StrictTotal natLt where
  irrefl a := by simp [natLt]
  trans a b c := by
    simp only [natLt, decide_eq_true_eq]
    omega
  total a b := by
    simp only [natLt, decide_eq_false_iff_not]
    omega

theorem lexLt_nil_nil {α : Type} (lt : α → α → Bool) : lexLt lt [] [] = false := rfl
theorem lexLt_nil_cons {α : Type} (lt : α → α → Bool) (b : α) (bs : List α) :
    lexLt lt [] (b :: bs) = true := rfl
theorem lexLt_cons_nil {α : Type} (lt : α → α → Bool) (a : α) (as : List α) :
    lexLt lt (a :: as) [] = false := rfl
theorem lexLt_cons_cons {α : Type} (lt : α → α → Bool) (a b : α) (as bs : List α) :
    lexLt lt (a :: as) (b :: bs) =
      if lt a b then true else if lt b a then false else lexLt lt as bs := rfl

/-- `lexLt` on two conses, as a proposition -/
theorem lexLt_cons_cons_iff {α : Type} {lt : α → α → Bool} (h : StrictTotal lt) (a b : α)
    (as bs : List α) :
    lexLt lt (a :: as) (b :: bs) = true ↔ (lt a b = true ∨ (a = b ∧ lexLt lt as bs = true)) := by
  rw [lexLt_cons_cons]
  cases h1 : lt a b with
  | true => simp
  | false =>
    cases h2 : lt b a with
    | true =>
      simp only [Bool.false_eq_true, if_false, if_true, false_or, false_iff, not_and]
      intro hab
      subst hab
      rw [h.irrefl] at h2
      cases h2
    | false =>
      have := h.total a b h1 h2
      subst this
      simp

theorem lexLt_strictTotal {α : Type} {lt : α → α → Bool} (h : StrictTotal lt) :
    StrictTotal (lexLt lt) where
  irrefl a := by
    induction a with
    | nil => rfl
    | cons x xs ih => rw [lexLt_cons_cons, h.irrefl]; simpa using ih
  trans a := by
    induction a with
    | nil =>
      intro b c hab hbc
      cases c with
      | nil =>
        cases b with
        | nil => exact hab
        | cons y ys => exact hbc
      | cons z zs => rfl
    | cons x xs ih =>
      intro b c hab hbc
      cases b with
      | nil => cases hab
      | cons y ys =>
        cases c with
        | nil => cases hbc
        | cons z zs =>
          rw [lexLt_cons_cons_iff h] at hab hbc ⊢
          rcases hab with hxy | ⟨rfl, hab⟩
          · rcases hbc with hyz | ⟨rfl, _⟩
            · exact Or.inl (h.trans _ _ _ hxy hyz)
            · exact Or.inl hxy
          · rcases hbc with hyz | ⟨rfl, hbc⟩
            · exact Or.inl hyz
            · exact Or.inr ⟨rfl, ih _ _ hab hbc⟩
  total a := by
    induction a with
    | nil =>
      intro b hab _
      cases b with
      | nil => rfl
      | cons y ys => cases hab
    | cons x xs ih =>
      intro b hab hba
      cases b with
      | nil => cases hba
      | cons y ys =>
        rw [lexLt_cons_cons] at hab hba
        cases h1 : lt x y with
        | true => simp [h1] at hab
        | false =>
          cases h2 : lt y x with
          | true => simp [h2] at hba
          | false =>
            have := h.total x y h1 h2
            subst this
            simp only [h1, Bool.false_eq_true, if_false] at hab hba
            rw [ih ys hab hba]

theorem keyLt_strictTotal : StrictTotal keyLt := lexLt_strictTotal natLt_strictTotal

theorem pathLt_strictTotal : StrictTotal pathLt := lexLt_strictTotal keyLt_strictTotal

end IsoVerif.Core.Merge
