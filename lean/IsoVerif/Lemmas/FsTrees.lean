/-
How the tree denoted by a state changes when one entry is appended at the end of one of its
association lists (used while the planner walks the *new* state) or removed from the front (used
while it walks the *old* state).
-/
import IsoVerif.Lemmas.FsState

namespace IsoVerif.Fs
open IsoVerif.Util

variable {α : Type} [DecidableEq α]

abbrev Nested (α : Type) := AList α (AList α (Files α))

theorem isEmpty_snoc {β : Type} (l : List β) (x : β) : (l ++ [x]).isEmpty = false := by
  cases l <;> rfl

/-- overlay: `A` where it is defined, else `B` -/
def ov (A B : Path α → Option Entry) (q : Path α) : Option Entry :=
  match A q with
  | some x => some x
  | none => B q

theorem ov_some (A B : Path α → Option Entry) (q : Path α) (x : Entry) (h : A q = some x) :
    ov A B q = some x := by simp [ov, h]

theorem ov_none (A B : Path α → Option Entry) (q : Path α) (h : A q = none) :
    ov A B q = B q := by simp [ov, h]

/-- two overlays agree at `q` if the upper trees agree there and the lower ones agree or are hidden -/
theorem ov_congr (A A' B B' : Path α → Option Entry) (q : Path α) (hA : A q = A' q)
    (hB : A q = none → B q = B' q) : ov A B q = ov A' B' q := by
  unfold ov
  rw [← hA]
  cases h : A q with
  | some x => rfl
  | none => exact hB h

/-! ### shape facts of `treeOf` -/

theorem treeOf_nil (st : State α) (arts : List (Artifact α)) : treeOf st arts [] = some .dir := by
  simp [treeOf]

theorem treeOf_two_cases (st : State α) (arts : List (Artifact α)) (e s : α) :
    treeOf st arts [e, s] = bif (oldFilesFor st e s).isSome then some .dir else none := by
  simp [treeOf]

theorem treeOf_three_cases (st : State α) (arts : List (Artifact α)) (e s f : α) :
    treeOf st arts [e, s, f] =
      match st.file [e, s, f] with
      | some (i, _) => some (.file (content arts i))
      | none => none := by
  unfold treeOf
  cases st.file [e, s, f] with
  | some v => rfl
  | none => simp

theorem treeOf_long (st : State α) (arts : List (Artifact α)) (a b c d : α) (r : List α) :
    treeOf st arts (a :: b :: c :: d :: r) = none := by
  simp [treeOf]

theorem treeOf_three_ne_dir (st : State α) (arts : List (Artifact α)) (e s f : α) :
    treeOf st arts [e, s, f] ≠ some .dir := by
  rw [treeOf_three_cases]
  cases st.file [e, s, f] with
  | some v => simp
  | none => simp

theorem treeOf_two_ne_file (st : State α) (arts : List (Artifact α)) (e s : α) (c : Bytes) :
    treeOf st arts [e, s] ≠ some (.file c) := by
  rw [treeOf_two_cases]
  cases (oldFilesFor st e s).isSome <;> simp

theorem treeOf_one_ne_file (R : α → Bool) (st : State α) (arts : List (Artifact α)) (hs : st.Sane R)
    (e : α) (he : R e = false) (c : Bytes) : treeOf st arts [e] ≠ some (.file c) := by
  unfold treeOf
  cases h : st.file [e] with
  | some v =>
    have := hs.1 e v (by simpa using h)
    rw [he] at this; cases this
  | none => simp only; cases st.isDir [e] <;> simp

theorem treeOf_one_ne_dir (R : α → Bool) (st : State α) (arts : List (Artifact α)) (hs : st.Sane R)
    (f : α) (hf : R f = true) : treeOf st arts [f] ≠ some .dir := by
  unfold treeOf
  cases h : st.file [f] with
  | some v => simp
  | none =>
    simp only [isDir_one]
    cases hl : AList.lookup st.nestedFiles f with
    | none => simp
    | some sm =>
      have := hs.2 f sm hl
      rw [hf] at this; cases this

/-- an entity name is no root file: its path is a directory iff it has a (non-empty) entry -/
theorem treeOf_one_entity (R : α → Bool) (st : State α) (arts : List (Artifact α)) (hs : st.Sane R)
    (e : α) (he : R e = false) :
    treeOf st arts [e] =
      bif (AList.lookup st.nestedFiles e).any (fun sm => !sm.isEmpty) then some .dir else none := by
  unfold treeOf
  cases h : st.file [e] with
  | some v =>
    have := hs.1 e v (by simpa using h)
    rw [he] at this; cases this
  | none => simp [isDir_one]

/-- a root file name is no entity: its path is a file iff it is recorded -/
theorem treeOf_one_root (R : α → Bool) (st : State α) (arts : List (Artifact α)) (hs : st.Sane R)
    (f : α) (hf : R f = true) :
    treeOf st arts [f] =
      match AList.lookup st.rootFiles f with
      | some (i, _) => some (.file (content arts i))
      | none => none := by
  unfold treeOf
  simp only [file_one]
  cases h : AList.lookup st.rootFiles f with
  | some v => rfl
  | none =>
    simp only [isDir_one]
    cases hl : AList.lookup st.nestedFiles f with
    | none => simp
    | some sm =>
      have := hs.2 f sm hl
      rw [hf] at this; cases this

/-! ### appending at the end (walking the new state) -/

theorem oldFilesFor_snoc (r : Files α) (npre : Nested α) (e : α) (X : AList α (Files α))
    (he : AList.lookup npre e = none) (e' s' : α) :
    oldFilesFor ⟨r, npre ++ [(e, X)]⟩ e' s' =
      if e = e' then AList.lookup X s' else oldFilesFor ⟨r, npre⟩ e' s' := by
  simp only [oldFilesFor, lookup_snoc_fresh _ _ _ _ he]
  by_cases h : e = e' <;> simp [h]

theorem oldFilesFor_snoc2 (r : Files α) (npre : Nested α) (e s : α) (spre : AList α (Files α)) (F : Files α)
    (he : AList.lookup npre e = none) (hs : AList.lookup spre s = none) (e' s' : α) :
    oldFilesFor ⟨r, npre ++ [(e, spre ++ [(s, F)])]⟩ e' s' =
      if e = e' ∧ s = s' then some F else oldFilesFor ⟨r, npre ++ [(e, spre)]⟩ e' s' := by
  rw [oldFilesFor_snoc _ _ _ _ he, oldFilesFor_snoc _ _ _ _ he, lookup_snoc_fresh _ _ _ _ hs]
  by_cases h1 : e = e' <;> by_cases h2 : s = s' <;> simp [h1, h2]

theorem fileA (r : Files α) (npre : Nested α) (e s f : α)
    (spre : AList α (Files α)) (fpre : Files α) (v : Nat × Bytes)
    (he : AList.lookup npre e = none) (hs : AList.lookup spre s = none) (hf : AList.lookup fpre f = none)
    (q : Path α) :
    State.file ⟨r, npre ++ [(e, spre ++ [(s, fpre ++ [(f, v)])])]⟩ q =
      if q = [e, s, f] then some v
      else State.file ⟨r, npre ++ [(e, spre ++ [(s, fpre)])]⟩ q := by
  rcases q with _ | ⟨a, _ | ⟨b, _ | ⟨c, _ | ⟨d, t⟩⟩⟩⟩
  · simp
  · simp
  · simp
  · simp only [file_three, oldFilesFor_snoc2 _ _ _ _ _ _ he hs]
    by_cases h : e = a ∧ s = b
    · obtain ⟨h1, h2⟩ := h
      subst h1; subst h2
      simp only [and_self, if_true, Option.bind_some, lookup_snoc_fresh _ _ _ _ hf]
      by_cases h3 : f = c <;> simp [h3]
      intro h4; exact absurd h4.symm h3
    · have : ¬ ([a, b, c] = [e, s, f]) := by
        intro hh; simp at hh; exact h ⟨hh.1.symm, hh.2.1.symm⟩
      simp [h, this]
  · simp

theorem isDirA (r : Files α) (npre : Nested α) (e s : α)
    (spre : AList α (Files α)) (F G : Files α)
    (he : AList.lookup npre e = none) (hs : AList.lookup spre s = none) (q : Path α) :
    State.isDir ⟨r, npre ++ [(e, spre ++ [(s, F)])]⟩ q =
      State.isDir ⟨r, npre ++ [(e, spre ++ [(s, G)])]⟩ q := by
  rcases q with _ | ⟨a, _ | ⟨b, _ | ⟨c, t⟩⟩⟩
  · simp
  · simp only [isDir_one, lookup_snoc_fresh _ _ _ _ he]
    by_cases h : e = a <;> simp [h, isEmpty_snoc]
  · simp only [isDir_two, oldFilesFor_snoc2 _ _ _ _ _ _ he hs]
    by_cases h : e = a ∧ s = b <;> simp [h]
  · simp

/-- (A) one more file in the last selectable of the last entity -/
theorem treeA (arts : List (Artifact α)) (r : Files α) (npre : Nested α) (e s f : α)
    (spre : AList α (Files α)) (fpre : Files α) (v : Nat × Bytes)
    (he : AList.lookup npre e = none) (hs : AList.lookup spre s = none) (hf : AList.lookup fpre f = none)
    (q : Path α) :
    treeOf ⟨r, npre ++ [(e, spre ++ [(s, fpre ++ [(f, v)])])]⟩ arts q =
      if q = [e, s, f] then some (.file (content arts v.1))
      else treeOf ⟨r, npre ++ [(e, spre ++ [(s, fpre)])]⟩ arts q := by
  unfold treeOf
  rw [fileA _ _ _ _ _ _ _ _ he hs hf, isDirA r npre e s spre (fpre ++ [(f, v)]) fpre he hs]
  by_cases h : q = [e, s, f] <;> simp [h]

/-- (B) one more (still empty) selectable in the last entity; no root files yet -/
theorem treeB (arts : List (Artifact α)) (npre : Nested α) (e s : α) (spre : AList α (Files α))
    (he : AList.lookup npre e = none) (hs : AList.lookup spre s = none) (q : Path α) :
    treeOf ⟨[], npre ++ [(e, spre ++ [(s, [])])]⟩ arts q =
      if q = [e] ∨ q = [e, s] then some .dir
      else treeOf ⟨[], npre ++ [(e, spre)]⟩ arts q := by
  rcases q with _ | ⟨a, _ | ⟨b, _ | ⟨c, _ | ⟨d, t⟩⟩⟩⟩
  · simp [treeOf]
  · simp only [treeOf, file_one, lookup_nil, isDir_one, lookup_snoc_fresh _ _ _ _ he]
    by_cases h : e = a
    · subst h; simp [isEmpty_snoc]
    · have : ¬ (a = e) := fun hh => h hh.symm
      simp [h, this]
  · simp only [treeOf, file_two, isDir_two, oldFilesFor_snoc2 _ _ _ _ _ _ he hs]
    by_cases h : e = a ∧ s = b
    · obtain ⟨h1, h2⟩ := h
      subst h1; subst h2; simp
    · have : ¬ (a = e ∧ b = s) := fun hh => h ⟨hh.1.symm, hh.2.symm⟩
      simp [h, this]
  · simp only [treeOf, file_three, isDir_three, oldFilesFor_snoc2 _ _ _ _ _ _ he hs]
    by_cases h : e = a ∧ s = b
    · obtain ⟨h1, h2⟩ := h
      subst h1; subst h2
      simp [oldFilesFor_snoc _ _ _ _ he, hs]
    · simp [h]
  · simp [treeOf]

/-- (C) one more (still empty) entity -/
theorem treeC (arts : List (Artifact α)) (r : Files α) (npre : Nested α) (e : α)
    (he : AList.lookup npre e = none) (q : Path α) :
    treeOf ⟨r, npre ++ [(e, [])]⟩ arts q = treeOf ⟨r, npre⟩ arts q := by
  rcases q with _ | ⟨a, _ | ⟨b, _ | ⟨c, _ | ⟨d, t⟩⟩⟩⟩
  · simp [treeOf]
  · simp only [treeOf, file_one, isDir_one, lookup_snoc_fresh _ _ _ _ he]
    by_cases h : e = a
    · subst h; simp [he]
    · simp [h]
  · simp only [treeOf, file_two, isDir_two, oldFilesFor_snoc _ _ _ _ he]
    by_cases h : e = a
    · subst h; simp [oldFilesFor, he]
    · simp [h]
  · simp only [treeOf, file_three, isDir_three, oldFilesFor_snoc _ _ _ _ he]
    by_cases h : e = a
    · subst h; simp [oldFilesFor, he]
    · simp [h]
  · simp [treeOf]

/-- (D) one more root file; its name is no entity name -/
theorem treeD (arts : List (Artifact α)) (rpre : Files α) (n : Nested α) (f : α) (v : Nat × Bytes)
    (hf : AList.lookup rpre f = none) (q : Path α) :
    treeOf ⟨rpre ++ [(f, v)], n⟩ arts q =
      if q = [f] then some (.file (content arts v.1)) else treeOf ⟨rpre, n⟩ arts q := by
  rcases q with _ | ⟨a, _ | ⟨b, _ | ⟨c, _ | ⟨d, t⟩⟩⟩⟩
  · simp [treeOf]
  · simp only [treeOf, file_one, isDir_one, lookup_snoc_fresh _ _ _ _ hf]
    by_cases h : f = a
    · subst h; simp
    · have : ¬ (a = f) := fun hh => h hh.symm
      simp [h, this]
  · simp [treeOf, oldFilesFor]
  · simp [treeOf, oldFilesFor]
  · simp [treeOf]

/-! ### removing from the front (walking the old state) -/

theorem oldFilesFor_cons (r : Files α) (n : Nested α) (e : α) (X : AList α (Files α)) (e' s' : α) :
    oldFilesFor ⟨r, (e, X) :: n⟩ e' s' =
      if e = e' then AList.lookup X s' else oldFilesFor ⟨r, n⟩ e' s' := by
  simp only [oldFilesFor, lookup_cons]
  by_cases h : e = e' <;> simp [h]

/-- (E) the first file of the first selectable of the first entity -/
theorem treeE (arts : List (Artifact α)) (r : Files α) (n : Nested α) (e s f : α)
    (sm : AList α (Files α)) (fm : Files α) (v : Nat × Bytes) (q : Path α) (hq : q ≠ [e, s, f]) :
    treeOf ⟨r, (e, (s, (f, v) :: fm) :: sm) :: n⟩ arts q =
      treeOf ⟨r, (e, (s, fm) :: sm) :: n⟩ arts q := by
  rcases q with _ | ⟨a, _ | ⟨b, _ | ⟨c, _ | ⟨d, t⟩⟩⟩⟩
  · simp [treeOf]
  · simp only [treeOf, file_one, isDir_one, lookup_cons]
    by_cases h : e = a <;> simp [h]
  · simp only [treeOf, file_two, isDir_two, oldFilesFor_cons, lookup_cons]
    by_cases h1 : e = a <;> by_cases h2 : s = b <;> simp [h1, h2]
  · simp only [treeOf, file_three, isDir_three, oldFilesFor_cons, lookup_cons]
    by_cases h1 : e = a
    · by_cases h2 : s = b
      · by_cases h3 : f = c
        · subst h1; subst h2; subst h3; exact absurd rfl hq
        · simp [h1, h2, h3, lookup_cons]
      · simp [h1, h2]
    · simp [h1]
  · simp [treeOf]

/-- (F) dropping an empty first selectable changes the tree at most at `e` and `e/s` -/
theorem treeF (arts : List (Artifact α)) (r : Files α) (n : Nested α) (e s : α)
    (sm : AList α (Files α)) (hs : AList.lookup sm s = none) (q : Path α)
    (h1 : q ≠ [e]) (h2 : q ≠ [e, s]) :
    treeOf ⟨r, (e, (s, []) :: sm) :: n⟩ arts q = treeOf ⟨r, (e, sm) :: n⟩ arts q := by
  rcases q with _ | ⟨a, _ | ⟨b, _ | ⟨c, _ | ⟨d, t⟩⟩⟩⟩
  · simp [treeOf]
  · simp only [treeOf, file_one, isDir_one, lookup_cons]
    by_cases h : e = a
    · subst h; exact absurd rfl h1
    · simp [h]
  · simp only [treeOf, file_two, isDir_two, oldFilesFor_cons, lookup_cons]
    by_cases h : e = a
    · by_cases h' : s = b
      · subst h; subst h'; exact absurd rfl h2
      · simp [h, h']
    · simp [h]
  · simp only [treeOf, file_three, isDir_three, oldFilesFor_cons, lookup_cons]
    by_cases h : e = a
    · by_cases h' : s = b
      · subst h'; simp [h, hs]
      · simp [h, h']
    · simp [h]
  · simp [treeOf]

/-- (G) dropping an empty first entity changes nothing -/
theorem treeG (arts : List (Artifact α)) (r : Files α) (n : Nested α) (e : α)
    (he : AList.lookup n e = none) (q : Path α) :
    treeOf ⟨r, (e, []) :: n⟩ arts q = treeOf ⟨r, n⟩ arts q := by
  rcases q with _ | ⟨a, _ | ⟨b, _ | ⟨c, _ | ⟨d, t⟩⟩⟩⟩
  · simp [treeOf]
  · simp only [treeOf, file_one, isDir_one, lookup_cons]
    by_cases h : e = a
    · subst h; simp [he]
    · simp [h]
  · simp only [treeOf, file_two, isDir_two, oldFilesFor_cons]
    by_cases h : e = a
    · subst h; simp [oldFilesFor, he]
    · simp [h]
  · simp only [treeOf, file_three, isDir_three, oldFilesFor_cons]
    by_cases h : e = a
    · subst h; simp [oldFilesFor, he]
    · simp [h]
  · simp [treeOf]

/-- (H) the first root file -/
theorem treeH (arts : List (Artifact α)) (r : Files α) (n : Nested α) (f : α) (v : Nat × Bytes)
    (q : Path α) (hq : q ≠ [f]) :
    treeOf ⟨(f, v) :: r, n⟩ arts q = treeOf ⟨r, n⟩ arts q := by
  rcases q with _ | ⟨a, _ | ⟨b, _ | ⟨c, _ | ⟨d, t⟩⟩⟩⟩
  · simp [treeOf]
  · simp only [treeOf, file_one, isDir_one, lookup_cons]
    by_cases h : f = a
    · subst h; exact absurd rfl hq
    · simp [h]
  · simp [treeOf, oldFilesFor]
  · simp [treeOf, oldFilesFor]
  · simp [treeOf]

/-- (I) outside `e/…`, the first entity does not matter -/
theorem treeI (arts : List (Artifact α)) (r : Files α) (n : Nested α) (e : α)
    (sm : AList α (Files α)) (q : Path α) (hq : isPrefixOf [e] q = false) :
    treeOf ⟨r, (e, sm) :: n⟩ arts q = treeOf ⟨r, n⟩ arts q := by
  rcases q with _ | ⟨a, t⟩
  · simp [treeOf]
  · have hne : ¬ e = a := by
      intro h; subst h; simp [isPrefixOf, isPrefixOf_nil] at hq
    rcases t with _ | ⟨b, _ | ⟨c, _ | ⟨d, t⟩⟩⟩
    · simp [treeOf, isDir_one, lookup_cons, hne]
    · simp [treeOf, oldFilesFor_cons, hne]
    · simp [treeOf, oldFilesFor_cons, hne]
    · simp [treeOf]

/-- below `e/…` nothing exists when `e` has no entry and is no root file -/
theorem treeOf_under_absent_entity (arts : List (Artifact α)) (st : State α) (e : α)
    (hn : AList.lookup st.nestedFiles e = none) (hr : AList.lookup st.rootFiles e = none)
    (q : Path α) (hq : isPrefixOf [e] q = true) : treeOf st arts q = none := by
  rcases q with _ | ⟨a, t⟩
  · simp [isPrefixOf] at hq
  · have : e = a := by simpa [isPrefixOf, isPrefixOf_nil] using hq
    subst this
    rcases t with _ | ⟨b, _ | ⟨c, _ | ⟨d, t⟩⟩⟩
    · simp [treeOf, isDir_one, hn, hr]
    · simp [treeOf, oldFilesFor, hn]
    · simp [treeOf, oldFilesFor, hn]
    · simp [treeOf]

/-- (J) outside `e/s/…` and apart from `e`, the first selectable of the first entity does not matter -/
theorem treeJ (arts : List (Artifact α)) (r : Files α) (n : Nested α) (e s : α)
    (sm : AList α (Files α)) (fm : Files α) (q : Path α) (hq : isPrefixOf [e, s] q = false)
    (h1 : q ≠ [e]) :
    treeOf ⟨r, (e, (s, fm) :: sm) :: n⟩ arts q = treeOf ⟨r, (e, sm) :: n⟩ arts q := by
  rcases q with _ | ⟨a, _ | ⟨b, _ | ⟨c, _ | ⟨d, t⟩⟩⟩⟩
  · simp [treeOf]
  · simp only [treeOf, file_one, isDir_one, lookup_cons]
    by_cases h : e = a
    · subst h; exact absurd rfl h1
    · simp [h]
  · have : ¬ (e = a ∧ s = b) := by
      intro h; obtain ⟨ha, hb⟩ := h; subst ha; subst hb
      simp [isPrefixOf] at hq
    simp only [treeOf, file_two, isDir_two, oldFilesFor_cons, lookup_cons]
    by_cases h : e = a
    · by_cases h' : s = b
      · exact absurd ⟨h, h'⟩ this
      · simp [h, h']
    · simp [h]
  · have : ¬ (e = a ∧ s = b) := by
      intro h; obtain ⟨ha, hb⟩ := h; subst ha; subst hb
      simp [isPrefixOf] at hq
    simp only [treeOf, file_three, isDir_three, oldFilesFor_cons, lookup_cons]
    by_cases h : e = a
    · by_cases h' : s = b
      · exact absurd ⟨h, h'⟩ this
      · simp [h, h']
    · simp [h]
  · simp [treeOf]

/-- below `e/s/…` nothing exists when `(e, s)` has no entry -/
theorem treeOf_under_absent_sel (arts : List (Artifact α)) (st : State α) (e s : α)
    (hn : oldFilesFor st e s = none) (q : Path α) (hq : isPrefixOf [e, s] q = true) :
    treeOf st arts q = none := by
  rcases q with _ | ⟨a, _ | ⟨b, t⟩⟩
  · simp [isPrefixOf] at hq
  · simp [isPrefixOf] at hq
  · have : e = a ∧ s = b := by simpa [isPrefixOf, isPrefixOf_nil] using hq
    obtain ⟨h1, h2⟩ := this
    subst h1; subst h2
    rcases t with _ | ⟨c, _ | ⟨d, t⟩⟩
    · simp [treeOf, hn]
    · simp [treeOf, hn]
    · simp [treeOf]

end IsoVerif.Fs
