/-
Helper lemmas for Props/C24.lean (iso.ts overload order and first-match resolution).
-/
import IsoVerif.Model.IsoOverload

namespace IsoVerif.IsoOverload
open IsoVerif.Util

/-- all declarations have GraphQL names for type and field -/
def WF (decls : List Decl) : Prop := ∀ d ∈ decls, isName d.ty = true ∧ isName d.name = true

/-- within the client-field/pointer group, and within the entrypoint group, `Type.field` is unique
(the compiler rejects duplicate definitions before artifacts are generated) -/
def KeyUnique (decls : List Decl) : Prop :=
  ∀ d ∈ decls, ∀ d' ∈ decls, ((d.kind = .entrypoint) ↔ (d'.kind = .entrypoint)) →
    d.ty = d'.ty → d.name = d'.name → d = d'

theorem sortFieldName_ne_eq (a b : Bytes) (h : a ≠ b) : sortFieldName a b ≠ .eq := by
  sorry

theorem sortFieldName_antisymm (a b : Bytes) (h : a ≠ b) :
    sortFieldName a b = .lt ↔ sortFieldName b a = .gt := by
  sorry

theorem sortFieldName_trans (a b c : Bytes) (hab : a ≠ b) (hbc : b ≠ c)
    (h1 : sortFieldName a b = .lt) (h2 : sortFieldName b c = .lt) :
    a ≠ c ∧ sortFieldName a c = .lt := by
  sorry

theorem sortFieldName_longer_first (a b : Bytes) (h : a ≠ b) (hp : startsWith a b = true) :
    sortFieldName a b = .lt := by
  sorry

theorem mem_overloads (decls : List Decl) (d : Decl) : d ∈ overloads decls ↔ d ∈ decls := by
  sorry

theorem first_match (decls : List Decl) (hwf : WF decls) (hu : KeyUnique decls)
    (d : Decl) (hd : d ∈ decls) (lead rest : Bytes) (hl : leadOk lead = true) (hr : restOk rest = true) :
    firstMatch (overloads decls) (canonicalLiteral d lead rest) = some d := by
  sorry

end IsoVerif.IsoOverload
