/-
Helper lemmas for Props/C24.lean (iso.ts overload order and first-match resolution).
-/
import IsoVerif.Model.IsoOverload

namespace IsoVerif.IsoOverload
open IsoVerif.Util

/-- all declarations have GraphQL names for type and field -/
def WF (decls : List Decl) : Prop := ∀ d ∈ decls, isName d.ty = true ∧ isName d.name = true

/-- within the client-field/pointer group, and within the entrypoint group, `Type.field` is unique
(the compiler rejects duplicate definitions before artifacts are generated) -/
def KeyUnique (decls : List Decl) : Prop :=
  ∀ d ∈ decls, ∀ d' ∈ decls, ((d.kind = .entrypoint) ↔ (d'.kind = .entrypoint)) →
    d.ty = d'.ty → d.name = d'.name → d = d'

theorem u8_eq_of_not_lt {x y : UInt8} (h1 : ¬ x < y) (h2 : ¬ y < x) : x = y := by
  apply UInt8.toNat_inj.mp
  rw [UInt8.lt_iff_toNat_lt] at h1 h2
  omega

theorem u8_lt_asymm {x y : UInt8} (h1 : x < y) : ¬ y < x := by
  rw [UInt8.lt_iff_toNat_lt] at *
  omega

theorem u8_lt_trans {x y z : UInt8} (h1 : x < y) (h2 : y < z) : x < z := by
  rw [UInt8.lt_iff_toNat_lt] at *
  omega

theorem u8_lt_irrefl (x : UInt8) : ¬ x < x := by
  rw [UInt8.lt_iff_toNat_lt]
  omega

/-- structural form of `sortFieldName` on distinct names: end of string is greater than any byte -/
def cmpF : Bytes → Bytes → Ordering
  | [], [] => .eq
  | [], _ :: _ => .gt
  | _ :: _, [] => .lt
  | x :: xs, y :: ys => if x < y then .lt else if y < x then .gt else cmpF xs ys

theorem startsWith_refl (a : Bytes) : startsWith a a = true := by
  induction a with
  | nil => rfl
  | cons x xs ih => simp [startsWith, ih]

theorem sortFieldName_self (a : Bytes) : sortFieldName a a = .lt := by
  simp [sortFieldName, startsWith_refl]

theorem sortFieldName_cons_same (x : UInt8) (xs ys : Bytes) :
    sortFieldName (x :: xs) (x :: ys) = sortFieldName xs ys := by
  simp [sortFieldName, startsWith, cmpBytes]

theorem sortFieldName_eq_cmpF (a b : Bytes) (h : a ≠ b) : sortFieldName a b = cmpF a b := by
  induction a generalizing b with
  | nil =>
    cases b with
    | nil => exact absurd rfl h
    | cons y ys => simp [sortFieldName, startsWith, cmpF]
  | cons x xs ih =>
    cases b with
    | nil => simp [sortFieldName, startsWith, cmpF]
    | cons y ys =>
      by_cases h1 : x < y
      · have hne : x ≠ y := fun e => u8_lt_irrefl y (e ▸ h1)
        have hne' : y ≠ x := fun e => hne e.symm
        simp [sortFieldName, startsWith, cmpF, cmpBytes, h1, hne, hne']
      · by_cases h2 : y < x
        · have hne : x ≠ y := fun e => u8_lt_irrefl y (e ▸ h2)
          have hne' : y ≠ x := fun e => hne e.symm
          simp [sortFieldName, startsWith, cmpF, cmpBytes, h1, h2, hne, hne']
        · have e : x = y := u8_eq_of_not_lt h1 h2
          subst e
          have hne : xs ≠ ys := fun e => h (by rw [e])
          rw [sortFieldName_cons_same, ih ys hne]
          simp [cmpF, h1]

theorem cmpF_eq_iff (a b : Bytes) : cmpF a b = .eq ↔ a = b := by
  induction a generalizing b with
  | nil => cases b <;> simp [cmpF]
  | cons x xs ih =>
    cases b with
    | nil => simp [cmpF]
    | cons y ys =>
      by_cases h1 : x < y
      · have hne : x ≠ y := fun e => u8_lt_irrefl y (e ▸ h1)
        simp [cmpF, h1, hne]
      · by_cases h2 : y < x
        · have hne : x ≠ y := fun e => u8_lt_irrefl y (e ▸ h2)
          simp [cmpF, h1, h2, hne]
        · have e : x = y := u8_eq_of_not_lt h1 h2
          subst e
          simp [cmpF, h1, ih]

theorem cmpF_lt_iff_gt (a b : Bytes) : cmpF a b = .lt ↔ cmpF b a = .gt := by
  induction a generalizing b with
  | nil => cases b <;> simp [cmpF]
  | cons x xs ih =>
    cases b with
    | nil => simp [cmpF]
    | cons y ys =>
      by_cases h1 : x < y
      · have h2 := u8_lt_asymm h1
        simp [cmpF, h1, h2]
      · by_cases h2 : y < x
        · simp [cmpF, h1, h2]
        · simp [cmpF, h1, h2, ih]

theorem cmpF_trans (a b c : Bytes) (h1 : cmpF a b = .lt) (h2 : cmpF b c = .lt) : cmpF a c = .lt := by
  induction a generalizing b c with
  | nil => cases b <;> simp [cmpF] at h1
  | cons x xs ih =>
    cases b with
    | nil => cases c <;> simp [cmpF] at h2
    | cons y ys =>
      cases c with
      | nil => simp [cmpF]
      | cons z zs =>
        simp only [cmpF] at h1 h2 ⊢
        by_cases hxy : x < y
        · by_cases hyz : y < z
          · simp [u8_lt_trans hxy hyz]
          · by_cases hzy : z < y
            · simp [hyz, hzy] at h2
            · have e : y = z := u8_eq_of_not_lt hyz hzy
              subst e
              simp [hxy]
        · by_cases hyx : y < x
          · simp [hxy, hyx] at h1
          · have e : x = y := u8_eq_of_not_lt hxy hyx
            subst e
            simp only [hxy, if_false] at h1
            by_cases hyz : x < z
            · simp [hyz]
            · by_cases hzy : z < x
              · simp [hyz, hzy] at h2
              · simp only [hyz, hzy, if_false] at h2 ⊢
                exact ih ys zs h1 h2

theorem sortFieldName_ne_eq (a b : Bytes) (h : a ≠ b) : sortFieldName a b ≠ .eq := by
  rw [sortFieldName_eq_cmpF a b h]
  exact fun e => h ((cmpF_eq_iff a b).mp e)

theorem sortFieldName_antisymm (a b : Bytes) (h : a ≠ b) :
    sortFieldName a b = .lt ↔ sortFieldName b a = .gt := by
  rw [sortFieldName_eq_cmpF a b h, sortFieldName_eq_cmpF b a (Ne.symm h)]
  exact cmpF_lt_iff_gt a b

theorem sortFieldName_trans (a b c : Bytes) (hab : a ≠ b) (hbc : b ≠ c)
    (h1 : sortFieldName a b = .lt) (h2 : sortFieldName b c = .lt) :
    a ≠ c ∧ sortFieldName a c = .lt := by
  rw [sortFieldName_eq_cmpF a b hab] at h1
  rw [sortFieldName_eq_cmpF b c hbc] at h2
  have h3 := cmpF_trans a b c h1 h2
  have hac : a ≠ c := by
    intro e
    have := (cmpF_eq_iff a c).mpr e
    rw [this] at h3
    cases h3
  exact ⟨hac, by rw [sortFieldName_eq_cmpF a c hac]; exact h3⟩

theorem sortFieldName_longer_first (a b : Bytes) (h : a ≠ b) (hp : startsWith a b = true) :
    sortFieldName a b = .lt := by
  have _ := h
  simp [sortFieldName, hp]

theorem cmpBytes_eq_iff (a b : Bytes) : cmpBytes a b = .eq ↔ a = b := by
  induction a generalizing b with
  | nil => cases b <;> simp [cmpBytes]
  | cons x xs ih =>
    cases b with
    | nil => simp [cmpBytes]
    | cons y ys =>
      by_cases h1 : x < y
      · have hne : x ≠ y := fun e => u8_lt_irrefl y (e ▸ h1)
        simp [cmpBytes, h1, hne]
      · by_cases h2 : y < x
        · have hne : x ≠ y := fun e => u8_lt_irrefl y (e ▸ h2)
          simp [cmpBytes, h1, h2, hne]
        · have e : x = y := u8_eq_of_not_lt h1 h2
          subst e
          simp [cmpBytes, h1, ih]

theorem cmpBytes_gt_iff_lt (a b : Bytes) : cmpBytes a b = .gt ↔ cmpBytes b a = .lt := by
  induction a generalizing b with
  | nil => cases b <;> simp [cmpBytes]
  | cons x xs ih =>
    cases b with
    | nil => simp [cmpBytes]
    | cons y ys =>
      by_cases h1 : x < y
      · have h2 := u8_lt_asymm h1
        simp [cmpBytes, h1, h2]
      · by_cases h2 : y < x
        · simp [cmpBytes, h1, h2]
        · simp [cmpBytes, h1, h2, ih]

theorem cmpBytes_trans (a b c : Bytes) (h1 : cmpBytes a b = .lt) (h2 : cmpBytes b c = .lt) :
    cmpBytes a c = .lt := by
  induction a generalizing b c with
  | nil =>
    cases b with
    | nil => simp [cmpBytes] at h1
    | cons y ys => cases c <;> simp [cmpBytes] at h2 ⊢
  | cons x xs ih =>
    cases b with
    | nil => simp [cmpBytes] at h1
    | cons y ys =>
      cases c with
      | nil => simp [cmpBytes] at h2
      | cons z zs =>
        simp only [cmpBytes] at h1 h2 ⊢
        by_cases hxy : x < y
        · by_cases hyz : y < z
          · simp [u8_lt_trans hxy hyz]
          · by_cases hzy : z < y
            · simp [hyz, hzy] at h2
            · have e : y = z := u8_eq_of_not_lt hyz hzy
              subst e
              simp [hxy]
        · by_cases hyx : y < x
          · simp [hxy, hyx] at h1
          · have e : x = y := u8_eq_of_not_lt hxy hyx
            subst e
            simp only [hxy, if_false] at h1
            by_cases hyz : x < z
            · simp [hyz]
            · by_cases hzy : z < x
              · simp [hyz, hzy] at h2
              · simp only [hyz, hzy, if_false] at h2 ⊢
                exact ih ys zs h1 h2

/-! ### `sortFieldName` / `cmpDecl`, unconditional facts -/

theorem sortFieldName_never_eq (a b : Bytes) : sortFieldName a b ≠ .eq := by
  by_cases h : a = b
  · subst h; rw [sortFieldName_self]; intro e; cases e
  · exact sortFieldName_ne_eq a b h

theorem sortFieldName_lt_trans (a b c : Bytes)
    (h1 : sortFieldName a b = .lt) (h2 : sortFieldName b c = .lt) : sortFieldName a c = .lt := by
  by_cases hab : a = b
  · subst hab; exact h2
  · by_cases hbc : b = c
    · subst hbc; exact h1
    · exact (sortFieldName_trans a b c hab hbc h1 h2).2

theorem sortFieldName_total (a b : Bytes) (h : sortFieldName a b ≠ .lt) : sortFieldName b a = .lt := by
  have hab : a ≠ b := by
    intro e; subst e; exact h (sortFieldName_self a)
  have hgt : sortFieldName a b = .gt := by
    have := sortFieldName_ne_eq a b hab
    cases hc : sortFieldName a b <;> simp_all
  exact (sortFieldName_antisymm b a (Ne.symm hab)).mpr hgt

theorem cmpDecl_lt_iff (a b : Decl) :
    cmpDecl a b = .lt ↔
      cmpBytes a.ty b.ty = .lt ∨ (a.ty = b.ty ∧ sortFieldName a.name b.name = .lt) := by
  unfold cmpDecl
  cases hc : cmpBytes a.ty b.ty
  · simp
  · have := (cmpBytes_eq_iff a.ty b.ty).mp hc
    simp [this]
  · have : a.ty ≠ b.ty := by
      intro e
      have := (cmpBytes_eq_iff a.ty b.ty).mpr e
      rw [this] at hc; cases hc
    simp [this]

theorem cmpDecl_never_eq (a b : Decl) : cmpDecl a b ≠ .eq := by
  unfold cmpDecl
  cases hc : cmpBytes a.ty b.ty
  · simp
  · simpa using sortFieldName_never_eq a.name b.name
  · simp

theorem leDecl_iff (a b : Decl) : leDecl a b = true ↔ cmpDecl a b = .lt := by
  have := cmpDecl_never_eq a b
  unfold leDecl
  cases hc : cmpDecl a b <;> simp_all

theorem cmpDecl_lt_trans (a b c : Decl) (h1 : cmpDecl a b = .lt) (h2 : cmpDecl b c = .lt) :
    cmpDecl a c = .lt := by
  rw [cmpDecl_lt_iff] at h1 h2 ⊢
  rcases h1 with h1 | ⟨e1, h1⟩
  · rcases h2 with h2 | ⟨e2, h2⟩
    · exact Or.inl (cmpBytes_trans _ _ _ h1 h2)
    · exact Or.inl (e2 ▸ h1)
  · rcases h2 with h2 | ⟨e2, h2⟩
    · exact Or.inl (e1 ▸ h2)
    · exact Or.inr ⟨e1.trans e2, sortFieldName_lt_trans _ _ _ h1 h2⟩

theorem cmpDecl_total (a b : Decl) (h : cmpDecl a b ≠ .lt) : cmpDecl b a = .lt := by
  rw [cmpDecl_lt_iff]
  rw [Ne, cmpDecl_lt_iff] at h
  cases hc : cmpBytes a.ty b.ty
  · exact absurd (Or.inl hc) h
  · have e := (cmpBytes_eq_iff a.ty b.ty).mp hc
    refine Or.inr ⟨e.symm, sortFieldName_total _ _ ?_⟩
    intro hlt
    exact h (Or.inr ⟨e, hlt⟩)
  · exact Or.inl ((cmpBytes_gt_iff_lt _ _).mp hc)

/-! ### insertion sort -/

theorem mem_insertSorted (x a : Decl) (l : List Decl) : x ∈ insertSorted a l ↔ x = a ∨ x ∈ l := by
  induction l with
  | nil => simp [insertSorted]
  | cons b bs ih =>
    unfold insertSorted
    split
    · simp
    · simp [ih]
      constructor
      · rintro (h | h | h) <;> simp [h]
      · rintro (h | h | h) <;> simp [h]

theorem mem_sortDecls (x : Decl) (l : List Decl) : x ∈ sortDecls l ↔ x ∈ l := by
  induction l with
  | nil => simp [sortDecls]
  | cons a as ih => simp [sortDecls, mem_insertSorted, ih]

theorem pairwise_insertSorted (a : Decl) (l : List Decl)
    (h : List.Pairwise (fun x y => cmpDecl x y = .lt) l) :
    List.Pairwise (fun x y => cmpDecl x y = .lt) (insertSorted a l) := by
  induction l with
  | nil => simp [insertSorted]
  | cons b bs ih =>
    rw [List.pairwise_cons] at h
    unfold insertSorted
    split
    · rename_i hle
      have hab := (leDecl_iff a b).mp hle
      refine List.Pairwise.cons ?_ (List.Pairwise.cons h.1 h.2)
      intro c hc
      rcases List.mem_cons.mp hc with e | hc
      · exact e ▸ hab
      · exact cmpDecl_lt_trans a b c hab (h.1 c hc)
    · rename_i hle
      have hba : cmpDecl b a = .lt := cmpDecl_total a b (fun e => hle ((leDecl_iff a b).mpr e))
      refine List.Pairwise.cons ?_ (ih h.2)
      intro c hc
      rcases (mem_insertSorted c a bs).mp hc with e | hc
      · exact e ▸ hba
      · exact h.1 c hc

theorem pairwise_sortDecls (l : List Decl) :
    List.Pairwise (fun x y => cmpDecl x y = .lt) (sortDecls l) := by
  induction l with
  | nil => simp [sortDecls]
  | cons a as ih => exact pairwise_insertSorted a _ ih

theorem mem_overloads (decls : List Decl) (d : Decl) : d ∈ overloads decls ↔ d ∈ decls := by
  unfold overloads
  simp only [List.mem_append, mem_sortDecls, List.mem_filter]
  by_cases h : d.kind = .entrypoint <;> simp [h]

/-! ### `startsWith` -/

theorem startsWith_append_left (p x y : Bytes) : startsWith (p ++ x) (p ++ y) = startsWith x y := by
  induction p with
  | nil => rfl
  | cons a as ih => simp [startsWith, ih]

theorem startsWith_append_self (p r : Bytes) : startsWith (p ++ r) p = true := by
  have := startsWith_append_left p r []
  simp only [List.append_nil] at this
  rw [this]; cases r <;> rfl

theorem startsWith_keyword (k k' : Kind) (x y : Bytes)
    (h : startsWith (keyword k ++ x) (keyword k' ++ y) = true) : k = k' := by
  cases k <;> cases k' <;> first | rfl | (simp [keyword, startsWith] at h)

/-- two dot-terminated, dot-free segments: prefix relation forces equal segments -/
theorem startsWith_dot (n1 n2 a b : Bytes) (h1 : ∀ x ∈ n1, x ≠ 46) (h2 : ∀ x ∈ n2, x ≠ 46)
    (h : startsWith (n1 ++ 46 :: a) (n2 ++ 46 :: b) = true) : n1 = n2 ∧ startsWith a b = true := by
  induction n1 generalizing n2 with
  | nil =>
    cases n2 with
    | nil => simpa [startsWith] using h
    | cons y ys =>
      simp [startsWith] at h
      exact absurd h.1.symm (h2 y (by simp))
  | cons x xs ih =>
    cases n2 with
    | nil =>
      simp [startsWith] at h
      exact absurd h.1 (h1 x (by simp))
    | cons y ys =>
      simp [startsWith] at h
      have := ih ys (fun z hz => h1 z (by simp [hz])) (fun z hz => h2 z (by simp [hz])) h.2
      exact ⟨by rw [h.1, this.1], this.2⟩

/-- a name-character prefix of `name ++ rest` cannot reach into `rest` -/
theorem startsWith_name (n rest p : Bytes) (hp : p.all isNameChar = true) (hr : restOk rest = true)
    (h : startsWith (n ++ rest) p = true) : startsWith n p = true := by
  induction n generalizing p with
  | nil =>
    cases p with
    | nil => rfl
    | cons y ys =>
      cases rest with
      | nil => simp [startsWith] at h
      | cons b bs =>
        simp [startsWith] at h
        simp [restOk] at hr
        simp at hp
        rw [h.1, hp.1] at hr
        cases hr
  | cons x xs ih =>
    cases p with
    | nil => rfl
    | cons y ys =>
      simp [startsWith] at h ⊢
      simp at hp
      exact ⟨h.1, ih ys (by simpa using hp.2) h.2⟩

theorem isName_no_dot (n : Bytes) (h : isName n = true) : ∀ x ∈ n, x ≠ 46 := by
  intro x hx e
  simp [isName] at h
  have := h.2 x hx
  rw [e] at this
  revert this
  decide

theorem isName_all (n : Bytes) (h : isName n = true) : n.all isNameChar = true := by
  simp [isName] at h
  simpa using h.2

theorem pattern_append (d : Decl) (rest : Bytes) :
    pattern d ++ rest = keyword d.kind ++ (32 :: (d.ty ++ 46 :: (d.name ++ rest))) := by
  simp [pattern, List.append_assoc]

theorem stripWs_lead (lead x : Bytes) (hl : leadOk lead = true) : stripWs (lead ++ x) = stripWs x := by
  induction lead with
  | nil => rfl
  | cons b bs ih =>
    simp [leadOk] at hl
    have hb : (b == 32 || b == 9 || b == 10) = true := by simpa using hl.1
    simp only [List.cons_append, stripWs, hb, if_true]
    exact ih (by simpa [leadOk] using hl.2)

theorem stripWs_pattern (d : Decl) (rest : Bytes) : stripWs (pattern d ++ rest) = pattern d ++ rest := by
  rw [pattern_append]
  cases d.kind <;> simp [keyword, stripWs]

theorem accepts_canonical (d d' : Decl) (lead rest : Bytes) (hl : leadOk lead = true) :
    accepts (pattern d') (canonicalLiteral d lead rest) = startsWith (pattern d ++ rest) (pattern d') := by
  unfold accepts canonicalLiteral
  rw [List.append_assoc, stripWs_lead _ _ hl, stripWs_pattern]

/-- what an accepting overload looks like -/
theorem accept_inv (d d' : Decl) (rest : Bytes) (hr : restOk rest = true)
    (hd : isName d.ty = true) (hd' : isName d'.ty = true ∧ isName d'.name = true)
    (h : startsWith (pattern d ++ rest) (pattern d') = true) :
    d'.kind = d.kind ∧ d'.ty = d.ty ∧ startsWith d.name d'.name = true := by
  have e0 : pattern d' = pattern d' ++ [] := by simp
  rw [e0, pattern_append, pattern_append] at h
  have hk := startsWith_keyword _ _ _ _ h
  rw [hk, startsWith_append_left] at h
  simp only [startsWith, beq_self_eq_true, Bool.true_and] at h
  have := startsWith_dot _ _ _ _ (isName_no_dot _ hd) (isName_no_dot _ hd'.1) h
  refine ⟨hk.symm, this.1.symm, ?_⟩
  have h3 := this.2
  rw [List.append_nil] at h3
  exact startsWith_name _ _ _ (isName_all _ hd'.2) hr h3

/-! ### `firstMatch` -/

theorem firstMatch_append_some (A B : List Decl) (lit : Bytes) (d : Decl)
    (h : firstMatch A lit = some d) : firstMatch (A ++ B) lit = some d := by
  induction A with
  | nil => simp [firstMatch] at h
  | cons a as ih =>
    simp only [List.cons_append, firstMatch] at h ⊢
    split
    · rename_i hc; simpa [hc] using h
    · rename_i hc; simp only [hc] at h; exact ih h

theorem firstMatch_append_none (A B : List Decl) (lit : Bytes)
    (h : ∀ x ∈ A, accepts (pattern x) lit = false) : firstMatch (A ++ B) lit = firstMatch B lit := by
  induction A with
  | nil => rfl
  | cons a as ih =>
    simp only [List.cons_append, firstMatch]
    rw [h a (by simp)]
    exact ih (fun x hx => h x (by simp [hx]))

theorem firstMatch_sorted (L : List Decl) (lit : Bytes) (d : Decl)
    (hs : List.Pairwise (fun x y => cmpDecl x y = .lt) L) (hd : d ∈ L)
    (ha : accepts (pattern d) lit = true)
    (hothers : ∀ x ∈ L, accepts (pattern x) lit = true → x = d ∨ cmpDecl x d ≠ .lt) :
    firstMatch L lit = some d := by
  induction L with
  | nil => cases hd
  | cons x xs ih =>
    rw [List.pairwise_cons] at hs
    simp only [firstMatch]
    by_cases hx : accepts (pattern x) lit = true
    · simp only [hx, if_true]
      rcases hothers x (by simp) hx with e | hne
      · rw [e]
      · rcases List.mem_cons.mp hd with e | hmem
        · rw [e]
        · exact absurd (hs.1 d hmem) hne
    · simp only [hx]
      rcases List.mem_cons.mp hd with e | hmem
      · exact absurd (e ▸ ha) hx
      · exact ih hs.2 hmem (fun y hy => hothers y (by simp [hy]))

theorem first_match (decls : List Decl) (hwf : WF decls) (hu : KeyUnique decls)
    (d : Decl) (hd : d ∈ decls) (lead rest : Bytes) (hl : leadOk lead = true) (hr : restOk rest = true) :
    firstMatch (overloads decls) (canonicalLiteral d lead rest) = some d := by
  -- every accepting declaration of the program is `d` or sorts after `d`
  have hacc : ∀ x ∈ decls, accepts (pattern x) (canonicalLiteral d lead rest) = true →
      x.kind = d.kind ∧ (x = d ∨ cmpDecl x d ≠ .lt) := by
    intro x hx hax
    rw [accepts_canonical _ _ _ _ hl] at hax
    obtain ⟨hk, ht, hn⟩ := accept_inv d x rest hr (hwf d hd).1 (hwf x hx) hax
    refine ⟨hk, ?_⟩
    by_cases hname : d.name = x.name
    · exact Or.inl (hu d hd x hx (by rw [hk]) ht.symm hname).symm
    · right
      have h1 := sortFieldName_longer_first d.name x.name hname hn
      have h2 := (sortFieldName_antisymm d.name x.name hname).mp h1
      intro hlt
      rw [cmpDecl_lt_iff] at hlt
      rcases hlt with hlt | ⟨_, hlt⟩
      · have := (cmpBytes_eq_iff x.ty d.ty).mpr ht
        rw [this] at hlt; cases hlt
      · rw [h2] at hlt; cases hlt
  have hself : accepts (pattern d) (canonicalLiteral d lead rest) = true := by
    rw [accepts_canonical _ _ _ _ hl]; exact startsWith_append_self _ _
  unfold overloads
  by_cases hk : d.kind = .entrypoint
  · rw [firstMatch_append_none]
    · apply firstMatch_sorted _ _ _ (pairwise_sortDecls _)
      · rw [mem_sortDecls]; simp [hd, hk]
      · exact hself
      · intro x hx hax
        rw [mem_sortDecls, List.mem_filter] at hx
        exact (hacc x hx.1 hax).2
    · intro x hx
      rw [mem_sortDecls, List.mem_filter] at hx
      cases hax : accepts (pattern x) (canonicalLiteral d lead rest)
      · rfl
      · have := (hacc x hx.1 hax).1
        rw [hk] at this
        simp [this] at hx
  · apply firstMatch_append_some
    apply firstMatch_sorted _ _ _ (pairwise_sortDecls _)
    · rw [mem_sortDecls]; simp [hd, hk]
    · exact hself
    · intro x hx hax
      rw [mem_sortDecls, List.mem_filter] at hx
      exact (hacc x hx.1 hax).2

end IsoVerif.IsoOverload
