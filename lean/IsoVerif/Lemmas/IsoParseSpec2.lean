/-
`parseX_spec` lemmas, part 2: values, arguments, directives, types, variable definitions,
descriptions.
-/
import IsoVerif.Lemmas.IsoParseSpec

namespace IsoVerif.IsoParse
open IsoVerif.Lex IsoVerif.IsoLex IsoVerif.Gen.IsoTokens

variable {src : Bytes}

theorem spec_stripQuotes (b : Bytes) (h : QuoteOK b) : Spec src false (stripQuotes b) (fun _ => True) := by
  unfold stripQuotes
  obtain ⟨h1, h2, h3⟩ := h
  have : ¬ b.length < 2 := by omega
  simp only [this, if_false]
  rw [slice_some (by omega) (by omega) h2 h3]
  exact Spec.pure _ trivial

theorem spec_cleanBlockString (b : Bytes) (h : BlockOK b) : Spec src false (cleanBlockString b) (fun _ => True) := by
  unfold cleanBlockString
  obtain ⟨h1, h2, h3⟩ := h
  have : ¬ b.length < 6 := by omega
  simp only [this, if_false]
  rw [slice_some (by omega) (by omega) h2 h3]
  exact Spec.pure _ trivial

/-! ### goodness of values -/

@[simp] theorem good_value_var (n : Bytes) : Good src (Value.var n) := by simp [Good, spans, Value.spans]
@[simp] theorem good_value_int (i : Int) : Good src (Value.int i) := by simp [Good, spans, Value.spans]
@[simp] theorem good_value_bool (b : Bool) : Good src (Value.bool b) := by simp [Good, spans, Value.spans]
@[simp] theorem good_value_str (b : Bytes) : Good src (Value.str b) := by simp [Good, spans, Value.spans]
@[simp] theorem good_value_null : Good src Value.null := by simp [Good, spans, Value.spans]

theorem good_value_obj : ∀ (l : List (Loc Bytes × Loc Value)),
    (∀ x ∈ l, GoodSpan src x.1.span ∧ GoodSpan src x.2.span ∧ Good src x.2.item) → Good src (Value.obj (entriesOfList l))
  | [], _ => by simp [Good, spans, Value.spans, entriesOfList, Entries.spans]
  | (n, v) :: tl, h => by
    have ih := good_value_obj tl (fun x hx => h x (by simp [hx]))
    have h0 := h (n, v) (by simp)
    simp only [Good, spans, Value.spans, entriesOfList, Entries.spans, List.mem_cons, List.mem_append] at *
    intro sp hsp
    rcases hsp with rfl | rfl | hsp | hsp
    · exact h0.1
    · exact h0.2.1
    · exact h0.2.2 sp hsp
    · exact ih sp hsp

/-- `parse_object_entry` -/
theorem spec_parseObjectEntry {value : P (Loc Value)} (hv : Spec src true value (Good src)) :
    Spec src true (parseObjectEntry value)
      (fun x => GoodSpan src x.1.span ∧ GoodSpan src x.2.span ∧ Good src x.2.item) := by
  unfold parseObjectEntry
  refine Spec.bindL (spec_sourceOfKind .Identifier .OBJECT_LITERAL_KEY (by decide)) fun name hn => ?_
  refine Spec.bindF (spec_tokenOfKind .Colon .COLON (by decide)) fun _ _ => ?_
  refine Spec.bindF hv fun v hv' => Spec.pure _ ?_
  simp only [good_loc] at hv'
  exact ⟨hn.1, hv'.1, hv'.2⟩

/-- the `{ … }` alternative of `parse_non_constant_value`: `Span::join(open, close)` cannot fail because
the closing token is consumed after the opening one -/
theorem spec_objectValue {value : P (Loc Value)} (hv : Spec src true value (Good src)) (fuel : Nat) :
    Spec src true (do
      let openT ← tokenOfKind .OpenBrace .OPEN_BRACE
      let entries ← delimitedList (parseObjectEntry value) parseCommaOrLineBreak .CloseBrace .CLOSE_BRACE fuel
      let sp ← spanNew openT.s entries.span.e
      pure (⟨.obj (entriesOfList entries.item), sp⟩ : Loc Value)) (Good src) := by
  have hlist := spec_delimitedList (src := src) (spec_parseObjectEntry hv) spec_parseCommaOrLineBreak
    .CloseBrace .CLOSE_BRACE (by decide) fuel
  have htok := spec_tokenOfKind (src := src) .OpenBrace .OPEN_BRACE (by decide)
  intro st hwf
  rw [bind_apply]
  cases h1 : tokenOfKind .OpenBrace .OPEN_BRACE st with
  | ok openT st1 =>
    obtain ⟨hwf1, hadv1, hg1, hc1⟩ := htok.ok hwf h1
    obtain ⟨rfl, he1⟩ := tokenOfKind_bounds h1
    simp only
    rw [bind_apply]
    cases h2 : delimitedList (parseObjectEntry value) parseCommaOrLineBreak .CloseBrace .CLOSE_BRACE fuel st1 with
    | ok entries st2 =>
      obtain ⟨hwf2, hadv2, hg2, hc2⟩ := hlist.ok hwf1 h2
      have he2 := delimitedList_bounds _ _ _ _ _ _ _ _ h2
      have hle : st.cur.s ≤ entries.span.e := by
        have := hadv2.eolp
        have := hwf.cur_le
        omega
      simp only [bind_apply, IsoParse.spanNew, hle, if_true, pure_apply]
      refine ⟨hwf2, hadv1.trans hadv2, ?_, fun _ => (hc1 rfl).trans_left hadv2⟩
      simp only [good_loc]
      exact ⟨⟨hle, hwf.cur_s, hg2.1.e⟩, good_value_obj _ hg2.2⟩
    | err d st2 =>
      obtain ⟨hwf2, hadv2, hd⟩ := hlist.err hwf1 h2
      exact ⟨hwf2, hadv1.trans hadv2, hd⟩
    | panic s => exact (hlist.noPanic hwf1 h2).elim
    | fuel => trivial
  | err d st1 => simpa using htok.err hwf h1
  | panic s => exact (htok.noPanic hwf h1).elim
  | fuel => trivial

/-- `parse_non_constant_value` -/
theorem spec_parseValue : ∀ (fuel : Nat), Spec src true (parseValue fuel) (Good src)
  | 0 => Spec.outOfFuel
  | fuel + 1 => by
    unfold parseValue
    refine Spec.attemptT (G1 := Good src) ?_ (fun v hv => Spec.pure v hv) fun _ _ => ?_
    · refine Spec.bindL (spec_tokenOfKind .Dollar .VARIABLE_DOLLAR_USAGE (by decide)) fun _ _ => ?_
      refine Spec.bindF (spec_sourceOfKind .Identifier .VARIABLE (by decide)) fun name hn => Spec.pure _ ?_
      simp [hn.1]
    refine Spec.attemptT (G1 := Good src) ?_ (fun v hv => Spec.pure v hv) fun _ _ => ?_
    · refine Spec.bindL (spec_sourceOfKind .StringLiteral .STRING_LITERAL (by decide)) fun s hs => ?_
      refine Spec.bindF (spec_stripQuotes s.item (hs.2.1 rfl)) fun inner _ => Spec.pure _ ?_
      simp [hs.1]
    refine Spec.attemptT (spec_sourceOfKind .IntegerLiteral .NUMBER_LITERAL (by decide)) (fun number hn => ?_) fun _ _ => ?_
    · dsimp only
      split
      · exact Spec.pure _ (by simp [hn.1])
      · exact Spec.fail _ hn.1
    refine Spec.attemptT (G1 := Good src) (spec_objectValue (spec_parseValue fuel) fuel)
      (fun v hv => Spec.pure v hv) fun _ _ => ?_
    refine Spec.attemptT (G1 := Good src) ?_ (fun v hv => Spec.pure v hv) fun _ _ => Spec.fail _ trivial
    refine Spec.bindL (spec_sourceOfKind .Identifier .BOOL_OR_NULL (by decide)) fun w hw => ?_
    split
    · exact Spec.pure _ (by simp [hw.1])
    · split
      · exact Spec.pure _ (by simp [hw.1])
      · split
        · exact Spec.pure _ (by simp [hw.1])
        · exact Spec.fail _ hw.1

/-! ### arguments and directives -/

@[simp] theorem good_arg (a : Arg) : Good src a ↔ Good src a.name ∧ Good src a.value := by
  simp [Good, spans, or_imp, forall_and]

@[simp] theorem good_directive (d : Directive) : Good src d ↔ Good src d.name ∧ Good src d.args := by
  simp [Good, spans, or_imp, forall_and]

/-- `parse_argument` -/
theorem spec_parseArgument (fuel : Nat) : Spec src true (parseArgument fuel) (Good src) := by
  unfold parseArgument
  refine (spec_withLoc (G := Good src) ?_).imp (fun l hl => by simpa using hl)
  refine Spec.bindL (spec_sourceOfKind .Identifier .ARGUMENT_NAME (by decide)) fun name hn => ?_
  refine Spec.bindF (spec_tokenOfKind .Colon .COLON (by decide)) fun _ _ => ?_
  refine Spec.bindF (spec_parseValue fuel) fun v hv => Spec.pure _ ?_
  simp only [good_arg, good_loc, good_bytes, and_true]
  exact ⟨hn.1, by simpa using hv⟩

/-- `parse_optional_arguments` -/
theorem spec_parseOptionalArguments (fuel : Nat) : Spec src false (parseOptionalArguments fuel) (Good src) := by
  unfold parseOptionalArguments
  refine Spec.attemptF (spec_tokenOfKind .OpenParen .OPEN_PAREN (by decide)) (fun _ _ => ?_) fun _ _ => Spec.pure _ (by simp)
  refine Spec.bindF (spec_delimitedList (spec_parseArgument fuel) spec_parseCommaOrLineBreak .CloseParen .CLOSE_PAREN (by decide) fuel)
    fun l hl => Spec.pure _ ?_
  exact (good_list _).2 hl.2

/-- the loop of `parse_directives`: an empty result means nothing was consumed -/
theorem spec_directivesLoop (fuel0 : Nat) : ∀ (fuel : Nat) (acc : List (Loc Directive)) (st : PL),
    WF src st → Good src acc →
    match directivesLoop fuel0 fuel acc st with
    | .ok ds st' => WF src st' ∧ Adv st st' ∧ Good src ds ∧ ((ds = acc ∧ st' = st) ∨ (ds ≠ [] ∧ Consumed st st'))
    | .err d st' => WF src st' ∧ Adv st st' ∧ DiagGood src d
    | .panic _ => False
    | .fuel => True
  | 0, _, _, _, _ => by simp [directivesLoop, outOfFuel]
  | fuel + 1, acc, st, hwf, hacc => by
    have htok := spec_tokenOfKind (src := src) .At .DIRECTIVE_AT (by decide)
    have hname := spec_sourceOfKind (src := src) .Identifier .DIRECTIVE (by decide)
    have hargs := spec_parseOptionalArguments (src := src) fuel0
    unfold directivesLoop
    rw [bind_apply]
    unfold attempt
    cases h1 : tokenOfKind .At .DIRECTIVE_AT st with
    | err d st1 =>
      have := tokenOfKind_err _ _ _ _ _ h1
      subst this
      simp only [pure_apply]
      refine ⟨hwf, Adv.refl _, hacc, ?_⟩
      simp
    | panic s => exact (htok.noPanic hwf h1).elim
    | fuel => trivial
    | ok atTok st1 =>
      obtain ⟨hwf1, hadv1, _, hc1⟩ := htok.ok hwf h1
      obtain ⟨rfl, he1⟩ := tokenOfKind_bounds h1
      simp only
      rw [bind_apply]
      cases h2 : sourceOfKind .Identifier .DIRECTIVE st1 with
      | err d st2 =>
        obtain ⟨hwf2, hadv2, hd⟩ := hname.err hwf1 h2
        exact ⟨hwf2, hadv1.trans hadv2, hd⟩
      | panic s => exact (hname.noPanic hwf1 h2).elim
      | fuel => trivial
      | ok name st2 =>
        obtain ⟨hwf2, hadv2, hg2, hc2⟩ := hname.ok hwf1 h2
        obtain ⟨hsp, he2⟩ := sourceOfKind_bounds h2
        have hle : st.cur.s ≤ name.span.e := by
          have := hadv2.eolp
          have := hwf.cur_le
          omega
        simp only [bind_apply, IsoParse.spanNew, hle, if_true, pure_apply]
        cases h3 : parseOptionalArguments fuel0 st2 with
        | err d st3 =>
          obtain ⟨hwf3, hadv3, hd⟩ := hargs.err hwf2 h3
          exact ⟨hwf3, (hadv1.trans hadv2).trans hadv3, hd⟩
        | panic s => exact (hargs.noPanic hwf2 h3).elim
        | fuel => trivial
        | ok args st3 =>
          obtain ⟨hwf3, hadv3, hg3, _⟩ := hargs.ok hwf2 h3
          simp only
          have hacc' : Good src (acc ++ [(⟨⟨name, args⟩, ⟨st.cur.s, name.span.e⟩⟩ : Loc Directive)]) := by
            simp only [good_append, good_cons, good_nil, and_true, good_loc, good_directive, good_bytes]
            exact ⟨hacc, ⟨hle, hwf.cur_s, hg2.1.e⟩, hg2.1, hg3⟩
          have ih := spec_directivesLoop fuel0 fuel _ st3 hwf3 hacc'
          have hadv03 := (hadv1.trans hadv2).trans hadv3
          have hc03 : Consumed st st3 := ((hc1 rfl).trans_left hadv2).trans_left hadv3
          cases h4 : directivesLoop fuel0 fuel (acc ++ [(⟨⟨name, args⟩, ⟨st.cur.s, name.span.e⟩⟩ : Loc Directive)]) st3 with
          | ok ds st4 =>
            rw [h4] at ih
            obtain ⟨hwf4, hadv4, hg4, hcase⟩ := ih
            refine ⟨hwf4, hadv03.trans hadv4, hg4, .inr ⟨?_, hc03.trans_left hadv4⟩⟩
            rcases hcase with ⟨rfl, _⟩ | ⟨hne, _⟩
            · simp
            · exact hne
          | err d st4 =>
            rw [h4] at ih
            exact ⟨ih.1, hadv03.trans ih.2.1, ih.2.2⟩
          | panic s => rw [h4] at ih; exact ih
          | fuel => trivial

/-- `parse_directives` -/
theorem spec_parseDirectives (fuel : Nat) : Spec src false (parseDirectives fuel) (Good src) := by
  unfold parseDirectives
  have hopt : SpecOpt src (do
      let ds ← directivesLoop fuel fuel []
      if ds.isEmpty then pure none else pure (some ds)) (Good src) := by
    intro st hwf
    rw [bind_apply]
    have := spec_directivesLoop (src := src) fuel fuel [] st hwf (by simp)
    cases h : directivesLoop fuel fuel [] st with
    | ok ds st' =>
      rw [h] at this
      obtain ⟨hwf', hadv, hg, hcase⟩ := this
      simp only
      rcases hcase with ⟨rfl, rfl⟩ | ⟨hne, hc⟩
      · simp [pure_apply]
      · have : ds.isEmpty = false := by cases ds <;> simp_all
        simp only [this, pure_apply]
        exact ⟨hwf', hadv, hg, hc⟩
    | err d st' => rw [h] at this; simpa using this
    | panic s => rw [h] at this; exact this
    | fuel => trivial
  refine Spec.bindF (specOpt_withOptLoc hopt).toSpec fun r hr => ?_
  split
  · rename_i l
    exact Spec.pure _ (by have := hr l rfl; simpa using this)
  · exact Spec.pure _ (by simp [goodSpan_zero])

/-! ### types, variable definitions, descriptions -/

@[simp] theorem good_ty_named (n : Bytes) (b : Bool) : Good src (Ty.named n b) := by simp [Good, spans, Ty.spans]
@[simp] theorem good_ty_list (t : Ty) (sp : Span) (b : Bool) : Good src (Ty.list t sp b) ↔ GoodSpan src sp ∧ Good src t := by
  simp [Good, spans, Ty.spans]

/-- `parse_type_annotation` -/
theorem spec_parseType : ∀ (fuel : Nat), Spec src true (parseType fuel) (Good src)
  | 0 => Spec.outOfFuel
  | fuel + 1 => by
    unfold parseType
    refine (spec_withLoc (G := Good src) ?_).imp (fun l hl => by simpa using hl)
    refine Spec.attemptT (G1 := Good src) ?_ (fun t ht => Spec.pure t ht) fun _ _ => ?_
    · refine Spec.bindL (spec_sourceOfKind .Identifier .TYPE_ANNOTATION (by decide)) fun name _ => ?_
      exact Spec.attemptF (spec_tokenOfKind .Exclamation .TYPE_ANNOTATION (by decide))
        (fun _ _ => Spec.pure _ (by simp)) (fun _ _ => Spec.pure _ (by simp))
    refine Spec.attemptT (G1 := Good src) ?_ (fun t ht => Spec.pure t ht) fun _ _ => ?_
    · refine Spec.bindL (spec_tokenOfKind .OpenBracket .TYPE_ANNOTATION (by decide)) fun _ _ => ?_
      refine Spec.bindF (spec_parseType fuel) fun inner hi => ?_
      refine Spec.bindF (spec_tokenOfKind .CloseBracket .TYPE_ANNOTATION (by decide)) fun _ _ => ?_
      simp only [good_loc] at hi
      exact Spec.attemptF (spec_tokenOfKind .Exclamation .TYPE_ANNOTATION (by decide))
        (fun _ _ => Spec.pure _ (by simp [hi])) (fun _ _ => Spec.pure _ (by simp [hi]))
    exact Spec.bindR spec_peek fun t ht => Spec.fail _ ht

/-- `parse_optional_default_value` -/
theorem spec_parseOptionalDefaultValue (fuel : Nat) : Spec src false (parseOptionalDefaultValue fuel) (Good src) := by
  unfold parseOptionalDefaultValue
  refine Spec.attemptF (spec_tokenOfKind .Equals .VARIABLE_EQUALS (by decide)) (fun _ _ => ?_) fun _ _ => Spec.pure _ (by simp)
  refine Spec.bindF (spec_parseValue fuel) fun v hv => ?_
  split
  · exact Spec.fail _ (by simp only [good_loc] at hv; exact hv.1)
  · exact Spec.pure _ (by simpa using hv)

@[simp] theorem good_vardef (v : VarDef) : Good src v ↔ Good src v.name ∧ Good src v.type ∧ Good src v.default := by
  simp [Good, spans, or_imp, forall_and, and_assoc]

/-- `parse_variable_definition` -/
theorem spec_parseVariableDefinition (fuel : Nat) : Spec src true (parseVariableDefinition fuel) (Good src) := by
  unfold parseVariableDefinition
  refine (spec_withLoc (G := Good src) ?_).imp (fun l hl => by simpa using hl)
  refine Spec.bindL (spec_tokenOfKind .Dollar .VARIABLE_DOLLAR_DECLARATION (by decide)) fun _ _ => ?_
  refine Spec.bindF (spec_sourceOfKind .Identifier .VARIABLE (by decide)) fun name hn => ?_
  refine Spec.bindF (spec_tokenOfKind .Colon .COLON (by decide)) fun _ _ => ?_
  refine Spec.bindF (spec_parseType fuel) fun ty hty => ?_
  refine Spec.bindF (spec_parseOptionalDefaultValue fuel) fun dv hdv => Spec.pure _ ?_
  simp only [good_vardef, good_loc, good_bytes, and_true]
  exact ⟨hn.1, by simpa using hty, hdv⟩

/-- `parse_variable_definitions` -/
theorem spec_parseVariableDefinitions (fuel : Nat) : Spec src false (parseVariableDefinitions fuel) (Good src) := by
  unfold parseVariableDefinitions
  refine Spec.attemptF (spec_tokenOfKind .OpenParen .OPEN_PAREN (by decide)) (fun _ _ => ?_) fun _ _ => Spec.pure _ (by simp)
  refine Spec.bindF (spec_delimitedList (spec_parseVariableDefinition fuel) spec_parseCommaOrLineBreak .CloseParen .CLOSE_PAREN
    (by decide) fuel) fun l hl => Spec.pure _ ?_
  exact (good_list _).2 hl.2

/-- `parse_optional_description` -/
theorem spec_parseOptionalDescription : Spec src false parseOptionalDescription (Good src) := by
  unfold parseOptionalDescription
  refine Spec.attemptF (spec_sourceOfKind .StringLiteral .COMMENT (by decide)) (fun s hs => ?_) fun _ _ => ?_
  · exact Spec.bindF (spec_stripQuotes s.item (hs.2.1 rfl)) fun inner _ => Spec.pure _ (by simp [hs.1])
  refine Spec.attemptF (spec_sourceOfKind .BlockStringLiteral .COMMENT (by decide)) (fun s hs => ?_) fun _ _ => Spec.pure _ (by simp)
  exact Spec.bindF (spec_cleanBlockString s.item (hs.2.2 rfl)) fun c _ => Spec.pure _ (by simp [hs.1])

/-- `from_isograph_field_directives` for the selection directive sets -/
theorem spec_selectionDirectiveSet (isObject : Bool) (ds : Loc (List (Loc Directive))) (h : GoodSpan src ds.span) :
    Spec src false (selectionDirectiveSet isObject ds) (fun _ => True) := by
  unfold selectionDirectiveSet
  split
  · exact Spec.fail _ h
  · split
    · exact Spec.pure _ trivial
    · split
      · exact Spec.pure _ trivial
      · split
        · exact Spec.pure _ trivial
        · exact Spec.fail _ h

end IsoVerif.IsoParse
