/-
Lemmas about M-CORE / validation of selection sets (C16): the validators (`validateWith r`) report
nothing exactly on the projects the declarative judgement (`wellFormed r`) accepts, for every rule
set `r`; the three places where the implementation deviates from the intended rules, with one
counter-example each; "each rule has its diagnostic".
-/
import IsoVerif.Model.Core.Validate
namespace IsoVerif.Core.Validate
open IsoVerif.Core


/-! ### Boolean reading of `argImpl` -/

def argsDefinedB (r : Rules) (defs : List VarDef) (args : List (String × Value)) : Bool :=
  args.all fun a => (r.idArgExempt && a.1 == "id") || defs.any (·.name == a.1)

def requiredB (defs : List VarDef) (args : List (String × Value)) : Bool :=
  defs.all fun d => !isRequiredArg d || args.any (·.1 == d.name)

def argTypesB (r : Rules) (p : Project) (vars defs : List VarDef) (args : List (String × Value)) : Bool :=
  defs.all fun d =>
    match args.find? (·.1 == d.name) with
    | some (_, v) => (valueSat r p vars v d.ty).isNone
    | none => true

theorem ite_singleton_nil {α} (b : Bool) (x : α) : (if b = true then [x] else []) = [] ↔ b = false := by
  cases b <;> simp

theorem argImpl_nil (r : Rules) (p : Project) (defs vars : List VarDef) (canMiss : Bool)
    (args : List (String × Value)) :
    argImpl r p defs vars canMiss args = [] ↔
      (argTypesB r p vars defs args = true ∧ argsDefinedB r defs args = true
        ∧ (canMiss || requiredB defs args) = true) := by
  unfold argImpl argTypesB argsDefinedB requiredB
  simp only [List.append_eq_nil_iff, List.flatMap_eq_nil_iff, ite_singleton_nil, and_assoc]
  refine and_congr ?_ (and_congr ?_ ?_)
  · rw [List.all_eq_true]
    refine forall_congr' fun d => imp_congr_right fun _ => ?_
    generalize List.find? _ args = o
    rcases o with _ | ⟨n, v⟩
    · simp
    · cases valueSat r p vars v d.ty <;> simp
  · rw [List.any_eq_false, List.all_eq_true]
    refine forall_congr' fun a => imp_congr_right fun _ => ?_
    cases (r.idArgExempt && a.1 == "id") <;> cases defs.any (·.name == a.1) <;> simp
  · cases canMiss
    · simp only [Bool.not_false, Bool.true_and, Bool.false_or]
      rw [List.any_eq_false, List.all_eq_true]
      refine forall_congr' fun d => imp_congr_right fun _ => ?_
      cases isRequiredArg d <;> cases args.any (·.1 == d.name) <;> simp
    · simp

theorem ruleArgsDefined_some {r : Rules} {c : Ctx} {s : Selection} {sel : Selectable}
    (h : lookup c.p c.ty s.head.name = some sel) :
    ruleArgsDefined r c s = argsDefinedB r sel.args s.head.args := by
  simp only [ruleArgsDefined, h, argsDefinedB]

theorem ruleArgTypes_some {r : Rules} {c : Ctx} {s : Selection} {sel : Selectable}
    (h : lookup c.p c.ty s.head.name = some sel) :
    ruleArgTypes r c s = argTypesB r c.p c.vars sel.args s.head.args := by
  simp only [ruleArgTypes, h]
  rfl

/-- may a required argument be missing on this selection? -/
def canMissOf (r : Rules) : Selection → Bool
  | .scalar h => isLoadable h
  | .linked _ _ => r.linkedMayMissArgs

theorem ruleRequiredArgs_some {r : Rules} {c : Ctx} {s : Selection} {sel : Selectable}
    (h : lookup c.p c.ty s.head.name = some sel) :
    ruleRequiredArgs r c s = (canMissOf r s || requiredB sel.args s.head.args) := by
  cases s <;> simp only [ruleRequiredArgs, h, requiredB, canMissOf]

theorem sel_scalar_iff (r : Rules) (p : Project) (vars : List VarDef) (ty : String) (h : SelHead) :
    (selDiags p ty (.scalar h) = [] ∧ argSel r p vars ty (.scalar h) = [])
      ↔ wfSel r p vars ty (.scalar h) = true := by
  rw [selDiags, argSel, wfSel, rulesAt]
  cases hl : lookup p ty h.name with
  | none => simp [ruleDefined, Selection.head, hl]
  | some sel =>
    have hl' : lookup (Ctx.mk p vars ty).p (Ctx.mk p vars ty).ty (Selection.scalar h).head.name = some sel := hl
    rw [ruleArgsDefined_some hl', ruleArgTypes_some hl', ruleRequiredArgs_some hl']
    simp only [ruleDefined, ruleShape, ruleDirectives, hl, Selection.head, Selection.kids?, canMissOf,
      Option.isSome_some, Option.isSome_none, Bool.true_and]
    cases hk : sel.kind <;>
      simp only [SelKind.isLinked, Bool.false_eq_true, if_false, if_true, argImpl_nil] <;>
      generalize argsDefinedB r sel.args h.args = b1 <;>
      generalize requiredB sel.args h.args = b2 <;>
      generalize argTypesB r p vars sel.args h.args = b3 <;>
      generalize isLoadable h = b4 <;>
      generalize isUpdatable h = b5 <;>
      cases b1 <;> cases b2 <;> cases b3 <;> cases b4 <;> cases b5 <;> simp

theorem sel_linked_iff (r : Rules) (p : Project) (vars : List VarDef) (ty : String) (h : SelHead)
    (kids : List Selection)
    (ih : ∀ tgt, (selsDiags p tgt [] kids = [] ∧ argSels r p vars tgt kids = [])
      ↔ (uniqueNamesSels kids = true ∧ wfSels r p vars tgt kids = true)) :
    (selDiags p ty (.linked h kids) = [] ∧ argSel r p vars ty (.linked h kids) = [])
      ↔ wfSel r p vars ty (.linked h kids) = true := by
  rw [selDiags, argSel, wfSel, rulesAt]
  cases hl : lookup p ty h.name with
  | none => simp [ruleDefined, Selection.head, hl]
  | some sel =>
    have hl' : lookup (Ctx.mk p vars ty).p (Ctx.mk p vars ty).ty (Selection.linked h kids).head.name = some sel := hl
    rw [ruleArgsDefined_some hl', ruleArgTypes_some hl', ruleRequiredArgs_some hl']
    simp only [ruleDefined, ruleShape, ruleDirectives, hl, Selection.head, Selection.kids?, canMissOf,
      Option.isSome_some, Bool.true_and, Bool.and_eq_true, ← ih]
    cases hk : sel.kind <;>
      simp only [SelKind.isLinked, if_true, argImpl_nil,
        List.append_eq_nil_iff] <;>
      generalize argsDefinedB r sel.args h.args = b1 <;>
      generalize requiredB sel.args h.args = b2 <;>
      generalize argTypesB r p vars sel.args h.args = b3 <;>
      generalize r.linkedMayMissArgs = b4 <;>
      generalize isUpdatable h = b5 <;>
      generalize selsDiags p (sel.target.getD "") [] kids = A <;>
      generalize argSels r p vars (sel.target.getD "") kids = B <;>
      cases b1 <;> cases b2 <;> cases b3 <;> cases b4 <;> cases b5 <;> simp

theorem contains_eq_false_iff {n : String} {l : List String} : l.contains n = false ↔ n ∉ l := by
  rw [← List.contains_iff_mem]; cases l.contains n <;> simp

mutual
theorem sel_iff (r : Rules) (p : Project) (vars : List VarDef) (ty : String) :
    ∀ s : Selection, (selDiags p ty s = [] ∧ argSel r p vars ty s = []) ↔ wfSel r p vars ty s = true
  | .scalar h => sel_scalar_iff r p vars ty h
  | .linked h kids =>
    sel_linked_iff r p vars ty h kids fun tgt => by
      have := sels_iff r p vars tgt [] kids
      simpa using this
theorem sels_iff (r : Rules) (p : Project) (vars : List VarDef) (ty : String) :
    ∀ (seen : List String) (l : List Selection),
      (selsDiags p ty seen l = [] ∧ argSels r p vars ty l = [])
        ↔ ((∀ n ∈ namesOf l, n ∉ seen) ∧ uniqueNamesSels l = true ∧ wfSels r p vars ty l = true)
  | seen, [] => by simp [selsDiags, argSels, namesOf, uniqueNamesSels, wfSels]
  | seen, s :: rest => by
    have ih1 := sel_iff r p vars ty s
    have ih2 := sels_iff r p vars ty (s.responseName :: seen) rest
    rw [selsDiags, argSels, namesOf, uniqueNamesSels, wfSels]
    simp only [List.append_eq_nil_iff, ite_singleton_nil, Bool.and_eq_true, Bool.not_eq_true',
      contains_eq_false_iff, List.mem_cons, forall_eq_or_imp, ← ih1]
    have ih2' : (selsDiags p ty (s.responseName :: seen) rest = [] ∧ argSels r p vars ty rest = [])
        ↔ (s.responseName ∉ namesOf rest ∧ (∀ n ∈ namesOf rest, n ∉ seen)
            ∧ uniqueNamesSels rest = true ∧ wfSels r p vars ty rest = true) := by
      rw [ih2]
      simp only [List.mem_cons, not_or]
      constructor
      · rintro ⟨h1, h2, h3⟩
        exact ⟨fun hm => (h1 _ hm).1 rfl, fun n hn => (h1 n hn).2, h2, h3⟩
      · rintro ⟨h0, h1, h2, h3⟩
        exact ⟨fun n hn => ⟨fun e => h0 (e ▸ hn), h1 n hn⟩, h2, h3⟩
    constructor
    · rintro ⟨⟨⟨h1, h2⟩, h3⟩, h4, h5⟩
      obtain ⟨a, b, c, d⟩ := ih2'.mp ⟨h3, h5⟩
      exact ⟨⟨h1, b⟩, ⟨a, c⟩, ⟨h2, h4⟩, d⟩
    · rintro ⟨⟨h1, b⟩, ⟨a, c⟩, ⟨h2, h4⟩, d⟩
      obtain ⟨h3, h5⟩ := ih2'.mpr ⟨a, b, c, d⟩
      exact ⟨⟨⟨h1, h2⟩, h3⟩, h4, h5⟩
end

theorem unusedDiags_nil (p : Project) (parent : String) (vars : List VarDef) (sels : List Selection) :
    unusedDiags vars (usedSels p parent sels) = [] ↔ ruleVarsUsed p parent vars sels = true := by
  unfold unusedDiags ruleVarsUsed
  rw [ite_singleton_nil, List.any_eq_false, List.all_eq_true]
  refine forall_congr' fun v => imp_congr_right fun _ => ?_
  cases (usedSels p parent sels).contains v.name <;> simp

theorem declDiags_nil_iff (r : Rules) (p : Project) (parent : String) (vars : List VarDef)
    (sels : List Selection) :
    declDiags r p parent vars sels = [] ↔ wfDecl r p parent vars sels = true := by
  have h := sels_iff r p vars parent [] sels
  unfold declDiags wfDecl
  simp only [List.append_eq_nil_iff, unusedDiags_nil, Bool.and_eq_true]
  simp only [List.not_mem_nil, not_false_eq_true, implies_true, true_and] at h
  rw [← h]
  constructor
  · rintro ⟨⟨a, b⟩, c⟩; exact ⟨⟨c, a⟩, b⟩
  · rintro ⟨⟨c, a⟩, b⟩; exact ⟨⟨a, b⟩, c⟩

/-- THE equivalence: the validators report nothing exactly on the well-formed projects, for every
rule set. -/
theorem validateWith_nil_iff (r : Rules) (p : Project) : validateWith r p = [] ↔ wellFormed r p = true := by
  unfold validateWith wellFormed
  rw [List.flatMap_eq_nil_iff, List.all_eq_true]
  refine forall_congr' fun fd => imp_congr_right fun _ => ?_
  cases fd.2 with
  | clientField f => exact declDiags_nil_iff r p f.parent f.vars f.selections
  | clientPointer f => exact declDiags_nil_iff r p f.parent f.vars f.selections
  | entrypoint _ => simp

theorem C16_sound_impl (p : Project) : validate p = [] → wellFormed .asImplemented p = true :=
  (validateWith_nil_iff .asImplemented p).mp

theorem C16_complete_impl (p : Project) : wellFormed .asImplemented p = true → validate p = [] :=
  (validateWith_nil_iff .asImplemented p).mpr

/-- where the three deviations do not matter, the implementation decides the INTENDED judgement -/
theorem C16_partial (p : Project) (h : validateWith .intended p = validate p) :
    validate p = [] ↔ wellFormed .intended p = true := by
  rw [← h]; exact validateWith_nil_iff .intended p

/-! ### the full-strength statement, its open counter-example and the two repaired ones -/

/-- C16 at full strength, at one project: the validators AS THEY ARE decide the INTENDED judgement -/
def C16_statement_at (p : Project) : Prop := validate p = [] ↔ wellFormed .intended p = true

/-- `type Query { pet(id: ID!): Pet }  type Pet { name: String }` -/
def petSchema : Schema := ⟨[
  ⟨"Query", none, .object [] [⟨"pet", none, [⟨"id", none, .nonNull (.named "ID"), none⟩], .named "Pet"⟩]⟩,
  ⟨"Pet", none, .object [] [⟨"name", none, [], .named "String"⟩]⟩]⟩

/-- `type Query { pets(ids: [ID!]): Pet }  type Pet { name: String }` -/
def petsSchema : Schema := ⟨[
  ⟨"Query", none, .object [] [⟨"pets", none, [⟨"ids", none, .list (.nonNull (.named "ID")), none⟩], .named "Pet"⟩]⟩,
  ⟨"Pet", none, .object [] [⟨"name", none, [], .named "String"⟩]⟩]⟩

/-- `field Query.Home(vars) { sels }` -/
def homeDecl (vars : List VarDef) (sels : List Selection) : String × Decl :=
  ("src/Home.tsx", .clientField ⟨"Query", "Home", vars, [], none, sels⟩)

/-- `field Query.Home { pet { name } }`: the required argument `id` is missing on a selection WITH a
selection set -/
def witnessLinkedMissing : Project :=
  { schema := petSchema, extensions := [], options := {}, extraFiles := [],
    decls := [homeDecl [] [.linked ⟨none, "pet", [], []⟩ [.scalar ⟨none, "name", [], []⟩]]] }

/-- `field Query.Home { pet(id: 1) { name(id: 2) } }`: `name` has no argument `id` -/
def witnessIdArgument : Project :=
  { schema := petSchema, extensions := [], options := {}, extraFiles := [],
    decls := [homeDecl []
      [.linked ⟨none, "pet", [("id", .int 1)], []⟩ [.scalar ⟨none, "name", [("id", .int 2)], []⟩]]] }

/-- `field Query.Home($ids: [ID!]) { pets(ids: $ids) { name } }`: a variable of exactly the argument's
type, which is a nullable list -/
def witnessNullableListVariable : Project :=
  { schema := petsSchema, extensions := [], options := {}, extraFiles := [],
    decls := [homeDecl [⟨"ids", .list (.nonNull (.named "ID")), none⟩]
      [.linked ⟨none, "pets", [("ids", .var "ids")], []⟩ [.scalar ⟨none, "name", [], []⟩]]] }

example : validateWith .beforeFixes witnessLinkedMissing = [] := by decide
example : validate witnessLinkedMissing = [.missingArgument] := by decide
example : wellFormed .intended witnessLinkedMissing = false := by decide
example : validateWith .intended witnessLinkedMissing = [.missingArgument] := by decide

example : validate witnessIdArgument = [] := by decide
example : wellFormed .intended witnessIdArgument = false := by decide
example : validateWith .intended witnessIdArgument = [.undefinedArgument] := by decide

example : validateWith .beforeFixes witnessNullableListVariable = [.variableTypeMismatch] := by decide
example : validate witnessNullableListVariable = [] := by decide
example : wellFormed .intended witnessNullableListVariable = true := by decide
example : validateWith .intended witnessNullableListVariable = [] := by decide

/-- accepted although the argument `id` is not defined: the OPEN counter-example -/
theorem C16_witness_id_argument : ¬ C16_statement_at witnessIdArgument := by
  unfold C16_statement_at; decide

/-- before 8835cbc: accepted although a required argument is missing -/
theorem C16_before_fix_linked_missing :
    ¬ (validateWith .beforeFixes witnessLinkedMissing = [] ↔ wellFormed .intended witnessLinkedMissing = true) := by
  decide

/-- since 8835cbc the statement holds at this project -/
theorem C16_fixed_witness_linked_missing : C16_statement_at witnessLinkedMissing := by
  unfold C16_statement_at; decide

/-- before 1645c28: rejected although well-formed -/
theorem C16_before_fix_nullable_list_variable :
    ¬ (validateWith .beforeFixes witnessNullableListVariable = [] ↔
        wellFormed .intended witnessNullableListVariable = true) := by
  decide

/-- since 1645c28 the statement holds at this project -/
theorem C16_fixed_witness_nullable_list_variable : C16_statement_at witnessNullableListVariable := by
  unfold C16_statement_at; decide

/-! ### each rule has its diagnostic -/

/-- the parts of a declaration the validators look at -/
def declParts : Decl → Option (String × List VarDef × List Selection)
  | .clientField f => some (f.parent, f.vars, f.selections)
  | .clientPointer f => some (f.parent, f.vars, f.selections)
  | .entrypoint _ => none

/-- (`parent`, `vars`, `sels`) is a client field / pointer declaration of `p` -/
def DeclOf (p : Project) (parent : String) (vars : List VarDef) (sels : List Selection) : Prop :=
  ∃ fd ∈ p.decls, declParts fd.2 = some (parent, vars, sels)

/-- `set` is a selection set of the declaration (`parent`, `top`), selected on type `ty`, all of whose
ancestors resolve to something that takes a selection set (so that both passes reach it) -/
inductive Reach (p : Project) (parent : String) (top : List Selection) : String → List Selection → Prop where
  | top : Reach p parent top parent top
  | step {ty : String} {set : List Selection} {h : SelHead} {kids : List Selection} {sel : Selectable} :
      Reach p parent top ty set → Selection.linked h kids ∈ set → lookup p ty h.name = some sel →
      sel.kind.isLinked = true → Reach p parent top (sel.target.getD "") kids

variable {r : Rules} {p : Project} {parent ty : String} {vars : List VarDef}
  {top set : List Selection} {s : Selection}

theorem declDiags_sub (r : Rules) (hd : DeclOf p parent vars top) :
    ∀ k ∈ declDiags r p parent vars top, k ∈ validateWith r p := by
  intro k hk
  obtain ⟨fd, hm, hp⟩ := hd
  unfold validateWith
  rw [List.mem_flatMap]
  refine ⟨fd, hm, ?_⟩
  cases hfd : fd.2 with
  | clientField f =>
    rw [hfd] at hp; simp only [declParts, Option.some.injEq, Prod.mk.injEq] at hp
    obtain ⟨h1, h2, h3⟩ := hp
    simpa only [h1, h2, h3] using hk
  | clientPointer f =>
    rw [hfd] at hp; simp only [declParts, Option.some.injEq, Prod.mk.injEq] at hp
    obtain ⟨h1, h2, h3⟩ := hp
    simpa only [h1, h2, h3] using hk
  | entrypoint e => rw [hfd] at hp; simp [declParts] at hp

theorem selDiags_sub_selsDiags (p : Project) (ty : String) {s : Selection} :
    ∀ {l : List Selection}, s ∈ l → ∀ seen, ∀ k ∈ selDiags p ty s, k ∈ selsDiags p ty seen l
  | [], hs, _, _, _ => by simp at hs
  | x :: rest, hs, seen, k, hk => by
    rw [selsDiags]
    rcases List.mem_cons.mp hs with e | hs'
    · subst e
      exact List.mem_append_left _ (List.mem_append_right _ hk)
    · exact List.mem_append_right _ (selDiags_sub_selsDiags p ty hs' _ k hk)

theorem argSel_sub_argSels (r : Rules) (p : Project) (vars : List VarDef) (ty : String) {s : Selection} :
    ∀ {l : List Selection}, s ∈ l → ∀ k ∈ argSel r p vars ty s, k ∈ argSels r p vars ty l
  | [], hs, _, _ => by simp at hs
  | x :: rest, hs, k, hk => by
    rw [argSels]
    rcases List.mem_cons.mp hs with e | hs'
    · subst e
      exact List.mem_append_left _ hk
    · exact List.mem_append_right _ (argSel_sub_argSels r p vars ty hs' k hk)

theorem kids_selDiags {h : SelHead} {kids : List Selection} {sel : Selectable}
    (hl : lookup p ty h.name = some sel) (hk : sel.kind.isLinked = true) :
    ∀ k ∈ selsDiags p (sel.target.getD "") [] kids, k ∈ selDiags p ty (.linked h kids) := by
  intro k hm
  rw [selDiags]
  simp only [hl]
  cases hkind : sel.kind <;> simp only [hkind, SelKind.isLinked, Bool.false_eq_true] at hk ⊢
  · exact hm
  · exact List.mem_append_right _ hm
  · exact hm

theorem kids_argSel {h : SelHead} {kids : List Selection} {sel : Selectable}
    (hl : lookup p ty h.name = some sel) (hk : sel.kind.isLinked = true) :
    ∀ k ∈ argSels r p vars (sel.target.getD "") kids, k ∈ argSel r p vars ty (.linked h kids) := by
  intro k hm
  rw [argSel]
  simp only [hl, hk, if_true]
  exact List.mem_append_right _ hm

theorem reach_sets (hd : DeclOf p parent vars top) (hr : Reach p parent top ty set) :
    (∀ k ∈ selsDiags p ty [] set, k ∈ validateWith r p)
      ∧ (∀ k ∈ argSels r p vars ty set, k ∈ validateWith r p) := by
  induction hr with
  | top =>
    constructor
    · intro k hk
      exact declDiags_sub r hd k (List.mem_append_right _ hk)
    · intro k hk
      exact declDiags_sub r hd k (List.mem_append_left _ (List.mem_append_left _ hk))
  | step _ hm hl hk ih =>
    constructor
    · intro k hmem
      exact ih.1 k (selDiags_sub_selsDiags p _ hm [] k (kids_selDiags hl hk k hmem))
    · intro k hmem
      exact ih.2 k (argSel_sub_argSels r p vars _ hm k (kids_argSel hl hk k hmem))

theorem reach_selDiags (hd : DeclOf p parent vars top) (hr : Reach p parent top ty set) (hs : s ∈ set) :
    ∀ k ∈ selDiags p ty s, k ∈ validateWith r p :=
  fun k hk => (reach_sets hd hr).1 k (selDiags_sub_selsDiags p ty hs [] k hk)

theorem reach_argSel (hd : DeclOf p parent vars top) (hr : Reach p parent top ty set) (hs : s ∈ set) :
    ∀ k ∈ argSel r p vars ty s, k ∈ validateWith r p :=
  fun k hk => (reach_sets hd hr).2 k (argSel_sub_argSels r p vars ty hs k hk)

/-! membership in `argImpl` -/

theorem mem_argImpl_types {defs : List VarDef} {canMiss : Bool} {args : List (String × Value)}
    {d : VarDef} {n : String} {v : Value} {k : Kind}
    (hdm : d ∈ defs) (hf : args.find? (·.1 == d.name) = some (n, v))
    (hv : valueSat r p vars v d.ty = some k) : k ∈ argImpl r p defs vars canMiss args := by
  unfold argImpl
  refine List.mem_append_left _ (List.mem_append_left _ ?_)
  rw [List.mem_flatMap]
  refine ⟨d, hdm, ?_⟩
  simp only [hf, hv, Option.toList, List.mem_singleton]

theorem mem_argImpl_undefined {defs : List VarDef} {canMiss : Bool} {args : List (String × Value)}
    {a : String × Value}
    (ha : a ∈ args) (hn : ∀ d ∈ defs, d.name ≠ a.1) (hid : ¬ (r.idArgExempt = true ∧ a.1 = "id")) :
    Kind.undefinedArgument ∈ argImpl r p defs vars canMiss args := by
  unfold argImpl
  refine List.mem_append_left _ (List.mem_append_right _ ?_)
  have : args.any (fun a => !(r.idArgExempt && a.1 == "id") && !defs.any (·.name == a.1)) = true := by
    rw [List.any_eq_true]
    refine ⟨a, ha, ?_⟩
    have h1 : (r.idArgExempt && a.1 == "id") = false := by
      cases hb : (r.idArgExempt && a.1 == "id")
      · rfl
      · exfalso; apply hid
        simpa using hb
    have h2 : defs.any (·.name == a.1) = false := by
      rw [List.any_eq_false]
      intro d hdm hb
      exact hn d hdm (by simpa using hb)
    rw [h1, h2]; rfl
  rw [this]; simp

theorem mem_argImpl_missing {defs : List VarDef} {args : List (String × Value)} {d : VarDef}
    (hdm : d ∈ defs) (hreq : isRequiredArg d = true) (hn : ∀ a ∈ args, a.1 ≠ d.name) :
    Kind.missingArgument ∈ argImpl r p defs vars false args := by
  unfold argImpl
  refine List.mem_append_right _ ?_
  have : defs.any (fun d => isRequiredArg d && !args.any (·.1 == d.name)) = true := by
    rw [List.any_eq_true]
    refine ⟨d, hdm, ?_⟩
    have h2 : args.any (·.1 == d.name) = false := by
      rw [List.any_eq_false]
      intro a ha hb
      exact hn a ha (by simpa using hb)
    rw [hreq, h2]; rfl
  rw [this]; simp

/-- both passes look at the arguments of a selection that resolves and has the right shape -/
theorem argImpl_sub_argSel {sel : Selectable} (hl : lookup p ty s.head.name = some sel)
    (hshape : sel.kind.isLinked = s.kids?.isSome) :
    ∀ k ∈ argImpl r p sel.args vars (canMissOf r s) s.head.args, k ∈ argSel r p vars ty s := by
  intro k hk
  cases s with
  | scalar h =>
    simp only [Selection.head, Selection.kids?, Option.isSome_none] at hl hshape
    rw [argSel]; simp only [hl, hshape, Bool.false_eq_true, if_false]
    exact hk
  | linked h kids =>
    simp only [Selection.head, Selection.kids?, Option.isSome_some] at hl hshape
    rw [argSel]; simp only [hl, hshape, if_true]
    exact List.mem_append_left _ hk

/-! one theorem per item of the property -/

section EachRule
variable (hd : DeclOf p parent vars top) (hr : Reach p parent top ty set) (hs : s ∈ set)
include hd hr hs

/-- (1) -/
theorem each_rule_undefined_field (hl : lookup p ty s.head.name = none) :
    Kind.undefinedField ∈ validateWith r p := by
  apply reach_selDiags hd hr hs
  cases s <;> simp only [Selection.head] at hl <;> rw [selDiags] <;> simp [hl]

/-- (2), first half -/
theorem each_rule_object_without_selection_set {h : SelHead} {sel : Selectable}
    (he : s = .scalar h) (hl : lookup p ty h.name = some sel)
    (hk : sel.kind = .serverObject ∨ sel.kind = .asConcrete) :
    Kind.objectSelectedAsScalar ∈ validateWith r p := by
  apply reach_selDiags hd hr hs
  subst he
  rw [selDiags]
  rcases hk with hk | hk <;> simp [hl, hk]

/-- (2), second half -/
theorem each_rule_scalar_with_selection_set {h : SelHead} {kids : List Selection} {sel : Selectable}
    (he : s = .linked h kids) (hl : lookup p ty h.name = some sel)
    (hk : sel.kind = .serverScalar ∨ sel.kind = .typename) :
    Kind.scalarSelectedAsObject ∈ validateWith r p := by
  apply reach_selDiags hd hr hs
  subst he
  rw [selDiags]
  rcases hk with hk | hk <;> simp [hl, hk]

/-- (3) -/
theorem each_rule_undefined_argument {sel : Selectable} {a : String × Value}
    (hl : lookup p ty s.head.name = some sel) (hshape : sel.kind.isLinked = s.kids?.isSome)
    (ha : a ∈ s.head.args) (hn : ∀ d ∈ sel.args, d.name ≠ a.1)
    (hid : ¬ (r.idArgExempt = true ∧ a.1 = "id")) :
    Kind.undefinedArgument ∈ validateWith r p :=
  reach_argSel hd hr hs _ (argImpl_sub_argSel hl hshape _ (mem_argImpl_undefined ha hn hid))

/-- (4) -/
theorem each_rule_missing_argument {sel : Selectable} {d : VarDef}
    (hl : lookup p ty s.head.name = some sel) (hshape : sel.kind.isLinked = s.kids?.isSome)
    (hdm : d ∈ sel.args) (hreq : isRequiredArg d = true) (hn : ∀ a ∈ s.head.args, a.1 ≠ d.name)
    (hmiss : match (generalizing := false) s with
      | .scalar h => isLoadable h = false
      | .linked _ _ => r.linkedMayMissArgs = false) :
    Kind.missingArgument ∈ validateWith r p := by
  apply reach_argSel hd hr hs _ (argImpl_sub_argSel hl hshape _ ?_)
  have : canMissOf r s = false := by cases s <;> exact hmiss
  rw [this]
  exact mem_argImpl_missing hdm hreq hn

/-- (5) + (7) -/
theorem each_rule_argument_type {sel : Selectable} {d : VarDef} {n : String} {v : Value} {k : Kind}
    (hl : lookup p ty s.head.name = some sel) (hshape : sel.kind.isLinked = s.kids?.isSome)
    (hdm : d ∈ sel.args) (hf : s.head.args.find? (·.1 == d.name) = some (n, v))
    (hv : valueSat r p vars v d.ty = some k) :
    k ∈ validateWith r p :=
  reach_argSel hd hr hs _ (argImpl_sub_argSel hl hshape _ (mem_argImpl_types hdm hf hv))

/-- special case of the previous one: an undeclared variable -/
theorem each_rule_undeclared_variable {sel : Selectable} {d : VarDef} {n x : String}
    (hl : lookup p ty s.head.name = some sel) (hshape : sel.kind.isLinked = s.kids?.isSome)
    (hdm : d ∈ sel.args) (hf : s.head.args.find? (·.1 == d.name) = some (n, .var x))
    (hx : ∀ vd ∈ vars, vd.name ≠ x) :
    Kind.undeclaredVariable ∈ validateWith r p := by
  apply each_rule_argument_type hd hr hs hl hshape hdm hf
  rw [valueSat]
  have : vars.find? (·.name == x) = none := by
    rw [List.find?_eq_none]
    intro vd hvd hb
    exact hx vd hvd (by simpa using hb)
  rw [this]

end EachRule

/-- (6) -/
theorem each_rule_unused_variable (hd : DeclOf p parent vars top) {d : VarDef}
    (hdm : d ∈ vars) (hu : d.name ∉ usedSels p parent top) :
    Kind.unusedVariable ∈ validateWith r p := by
  apply declDiags_sub r hd
  unfold declDiags
  refine List.mem_append_left _ (List.mem_append_right _ ?_)
  unfold unusedDiags
  have : vars.any (fun v => !(usedSels p parent top).contains v.name) = true := by
    rw [List.any_eq_true]
    refine ⟨d, hdm, ?_⟩
    rw [contains_eq_false_iff.mpr hu]; rfl
  rw [this]; simp

/-- a name to the left (`seen`) is reported -/
theorem dup_of_seen (p : Project) (ty : String) {t : Selection} :
    ∀ {l : List Selection} {seen : List String}, t ∈ l → t.responseName ∈ seen →
      Kind.duplicateResponseName ∈ selsDiags p ty seen l
  | [], _, ht, _ => by simp at ht
  | x :: rest, seen, ht, hn => by
    rw [selsDiags]
    rcases List.mem_cons.mp ht with e | ht'
    · subst e
      refine List.mem_append_left _ (List.mem_append_left _ ?_)
      rw [List.contains_iff_mem.mpr hn]; simp
    · exact List.mem_append_right _ (dup_of_seen p ty ht' (List.mem_cons_of_mem _ hn))

theorem dup_of_split (p : Project) (ty : String) {s t : Selection} {rest : List Selection}
    (ht : t ∈ rest) (hn : s.responseName = t.responseName) :
    ∀ (a : List Selection) (seen : List String),
      Kind.duplicateResponseName ∈ selsDiags p ty seen (a ++ s :: rest)
  | [], seen => by
    rw [List.nil_append, selsDiags]
    exact List.mem_append_right _ (dup_of_seen p ty ht (hn ▸ List.mem_cons_self))
  | x :: a, seen => by
    rw [List.cons_append, selsDiags]
    exact List.mem_append_right _ (dup_of_split p ty ht hn a _)

/-- (8) -/
theorem each_rule_duplicate_response_name (hd : DeclOf p parent vars top)
    (hr : Reach p parent top ty set) {a b c : List Selection} {s t : Selection}
    (he : set = a ++ s :: (b ++ t :: c)) (hn : s.responseName = t.responseName) :
    Kind.duplicateResponseName ∈ validateWith r p := by
  apply (reach_sets hd hr).1
  rw [he]
  exact dup_of_split p ty (List.mem_append_right _ List.mem_cons_self) hn a []


/-! ### a syntactic sufficient condition for `validateWith .intended p = validate p` -/

/-- no `.list` that is not directly under `.nonNull` -/
def guarded : TypeRef → Bool
  | .named _ => true
  | .list _ => false
  | .nonNull (.named _) => true
  | .nonNull (.list x) => guarded x
  | .nonNull (.nonNull t) => guarded (.nonNull t)

theorem varSat_indep (r1 r2 : Rules) (s t : TypeRef) (h : guarded t = true) :
    varSat r1 s t = varSat r2 s t := by
  fun_induction varSat r1 s t with
  | case1 s t => simp [varSat]
  | case2 s t => simp [varSat]
  | case3 s x => simp [guarded] at h
  | case4 y x ih => 
    rw [varSat]; exact ih (by simpa [guarded] using h)
  | case5 => simp [varSat]
  | case6 => simp [varSat]

/-- the fields of every input object type have guarded types -/
def InputsGuarded (p : Project) : Prop :=
  ∀ n fs, inputFields p n = some fs → ∀ d ∈ fs, guarded d.ty = true

mutual
theorem valueSat_indep (r1 r2 : Rules) (p : Project) (vars : List VarDef) (hi : InputsGuarded p) :
    ∀ (v : Value) (t : TypeRef), guarded t = true → valueSat r1 p vars v t = valueSat r2 p vars v t
  | .var x, t, h => by
    rw [valueSat, valueSat]
    cases vars.find? (·.name == x) with
    | none => rfl
    | some d => simp only [varSat_indep r1 r2 d.ty t h]
  | .int _, t, _ => by rw [valueSat, valueSat]
  | .bool _, t, _ => by rw [valueSat, valueSat]
  | .str _, t, _ => by rw [valueSat, valueSat]
  | .float _, t, _ => by rw [valueSat, valueSat]
  | .enum _, t, _ => by rw [valueSat, valueSat]
  | .null, t, _ => by rw [valueSat, valueSat]
  | .list items, t, h => by
    rw [valueSat, valueSat]; exact listSat_indep r1 r2 p vars hi items t h
  | .object fs, t, h => by
    have ih := objectSat_indep r1 r2 p vars hi fs fs
    simp only [valueSat]
    split
    · exact ih _
    · rw [ih]
    · rfl
theorem listSat_indep (r1 r2 : Rules) (p : Project) (vars : List VarDef) (hi : InputsGuarded p) :
    ∀ (l : List Value) (t : TypeRef), guarded t = true → listSat r1 p vars l t = listSat r2 p vars l t
  | [], t, _ => by rw [listSat, listSat]
  | v :: rest, t, h => by
    rw [listSat, listSat, valueSat_indep r1 r2 p vars hi v t h, listSat_indep r1 r2 p vars hi rest t h]
theorem objectSat_indep (r1 r2 : Rules) (p : Project) (vars : List VarDef) (hi : InputsGuarded p) :
    ∀ (l all : List (String × Value)) (n : String),
      objectSat r1 p vars l all n = objectSat r2 p vars l all n
  | [], all, n => by rw [objectSat, objectSat]
  | (k, v) :: rest, all, n => by
    rw [objectSat, objectSat]
    cases hf : inputFields p n with
    | none => rfl
    | some defs =>
      simp only
      split
      · rfl
      · cases hd : defs.find? (·.name == k) with
        | none => exact objectSat_indep r1 r2 p vars hi rest all n
        | some d =>
          have hg : guarded d.ty = true := hi n defs hf d (List.mem_of_find?_eq_some hd)
          simp only [valueSat_indep r1 r2 p vars hi v d.ty hg, objectSat_indep r1 r2 p vars hi rest all n]
end

theorem flatMap_congr_mem {α β} {l : List α} {f g : α → List β} (h : ∀ a ∈ l, f a = g a) :
    l.flatMap f = l.flatMap g := by
  simp only [List.flatMap_def]; rw [List.map_congr_left h]

theorem any_congr_mem {α} {l : List α} {f g : α → Bool} (h : ∀ a ∈ l, f a = g a) :
    l.any f = l.any g := by
  induction l with
  | nil => rfl
  | cons x rest ih =>
    simp only [List.any_cons]
    rw [h x List.mem_cons_self, ih fun a ha => h a (List.mem_cons_of_mem _ ha)]

/-- an argument called `id` is declared -/
def idOk (defs : List VarDef) (args : List (String × Value)) : Bool :=
  args.all fun a => !(a.1 == "id") || defs.any (·.name == a.1)

/-- under the three conditions `argImpl` does not depend on the rule set (nor on `canMiss`, when no
required argument is missing) -/
theorem argImpl_indep (r1 r2 : Rules) (p : Project) (defs vars : List VarDef) (c1 c2 : Bool)
    (args : List (String × Value)) (hi : InputsGuarded p) (hg : ∀ d ∈ defs, guarded d.ty = true)
    (hid : idOk defs args = true) (hc : c1 = c2 ∨ requiredB defs args = true) :
    argImpl r1 p defs vars c1 args = argImpl r2 p defs vars c2 args := by
  unfold argImpl
  congr 1
  · congr 1
    · apply flatMap_congr_mem
      intro d hd
      show (match args.find? (·.1 == d.name) with | some (_, v) => _ | none => _)
        = (match args.find? (·.1 == d.name) with | some (_, v) => _ | none => _)
      generalize List.find? _ args = o
      rcases o with _ | ⟨n, v⟩
      · rfl
      · simp only [valueSat_indep r1 r2 p vars hi v d.ty (hg d hd)]
    · have : ∀ r : Rules, args.any (fun a => !(r.idArgExempt && a.1 == "id") && !defs.any (·.name == a.1))
          = args.any (fun a => !defs.any (·.name == a.1)) := by
        intro r
        apply any_congr_mem
        intro a ha
        have := List.all_eq_true.mp hid a ha
        revert this
        cases r.idArgExempt <;> cases (a.1 == "id") <;> cases defs.any (·.name == a.1) <;> simp
      rw [this r1, this r2]
  · rcases hc with hc | hc
    · rw [hc]
    · have : defs.any (fun d => isRequiredArg d && !args.any (·.1 == d.name)) = false := by
        rw [List.any_eq_false]
        intro d hd
        have := List.all_eq_true.mp hc d hd
        revert this
        cases isRequiredArg d <;> cases args.any (·.1 == d.name) <;> simp
      rw [this]; simp

mutual
/-- neither of the two selection-level quirks occurs at this selection or below -/
def quirkSel (p : Project) (ty : String) : Selection → Bool
  | .scalar h =>
    match lookup p ty h.name with
    | none => true
    | some sel => idOk sel.args h.args
  | .linked h kids =>
    match lookup p ty h.name with
    | none => true
    | some sel =>
      idOk sel.args h.args && requiredB sel.args h.args
        && (!sel.kind.isLinked || quirkSels p (sel.target.getD "") kids)
def quirkSels (p : Project) (ty : String) : List Selection → Bool
  | [] => true
  | s :: rest => quirkSel p ty s && quirkSels p ty rest
end

/-- what `lookup` returns has guarded argument types -/
def LookupGuarded (p : Project) : Prop :=
  ∀ ty name sel, lookup p ty name = some sel → ∀ d ∈ sel.args, guarded d.ty = true

mutual
theorem argSel_indep (r1 r2 : Rules) (p : Project) (vars : List VarDef) (hi : InputsGuarded p)
    (hl : LookupGuarded p) (ty : String) :
    ∀ s : Selection, quirkSel p ty s = true → argSel r1 p vars ty s = argSel r2 p vars ty s
  | .scalar h, hq => by
    rw [argSel, argSel]
    rw [quirkSel] at hq
    cases hlk : lookup p ty h.name with
    | none => rfl
    | some sel =>
      simp only [hlk] at hq ⊢
      rw [argImpl_indep r1 r2 p sel.args vars _ _ h.args hi (hl _ _ _ hlk) hq (Or.inl rfl)]
  | .linked h kids, hq => by
    rw [argSel, argSel]
    rw [quirkSel] at hq
    cases hlk : lookup p ty h.name with
    | none => rfl
    | some sel =>
      simp only [hlk, Bool.and_eq_true, Bool.or_eq_true, Bool.not_eq_true'] at hq ⊢
      obtain ⟨⟨h1, h2⟩, h3⟩ := hq
      cases hk : sel.kind.isLinked with
      | false => rfl
      | true =>
        simp only [hk, Bool.true_eq_false, false_or] at h3
        simp only [if_true]
        rw [argImpl_indep r1 r2 p sel.args vars _ _ h.args hi (hl _ _ _ hlk) h1 (Or.inr h2),
          argSels_indep r1 r2 p vars hi hl _ kids h3]
theorem argSels_indep (r1 r2 : Rules) (p : Project) (vars : List VarDef) (hi : InputsGuarded p)
    (hl : LookupGuarded p) (ty : String) :
    ∀ l : List Selection, quirkSels p ty l = true → argSels r1 p vars ty l = argSels r2 p vars ty l
  | [], _ => by rw [argSels, argSels]
  | s :: rest, hq => by
    rw [quirkSels, Bool.and_eq_true] at hq
    rw [argSels, argSels, argSel_indep r1 r2 p vars hi hl ty s hq.1,
      argSels_indep r1 r2 p vars hi hl ty rest hq.2]
end

/-- every argument type of the project — arguments of schema fields, fields of input objects, variable
definitions of client fields / pointers — is guarded -/
def listsGuarded (p : Project) : Bool :=
  (p.schema.types.all fun t =>
      (t.fields.all fun f => f.args.all fun a => guarded a.ty)
        && (match t.kind with
            | .input fs => fs.all fun a => guarded a.ty
            | _ => true))
    && p.decls.all fun fd => fd.2.vars.all fun v => guarded v.ty

theorem inputsGuarded_of (p : Project) (h : listsGuarded p = true) : InputsGuarded p := by
  intro n fs hf d hd
  unfold listsGuarded at h
  rw [Bool.and_eq_true, List.all_eq_true] at h
  unfold inputFields at hf
  split at hf
  · rename_i nm desc fs' heq
    simp only [Option.some.injEq] at hf
    subst hf
    have hm := List.mem_of_find?_eq_some heq
    have := h.1 _ hm
    simp only [Bool.and_eq_true] at this
    exact List.all_eq_true.mp this.2 d hd
  · cases hf

theorem lookupGuarded_of (p : Project) (h : listsGuarded p = true) : LookupGuarded p := by
  intro ty name sel hl d hd
  unfold listsGuarded at h
  rw [Bool.and_eq_true, List.all_eq_true, List.all_eq_true] at h
  obtain ⟨hs, hdecl⟩ := h
  have hfield : ∀ (t : TypeDef) (f : FieldDef), p.schema.get? ty = some t → t.field? name = some f →
      ∀ d ∈ argDefsOf f, guarded d.ty = true := by
    intro t f ht hf d hd
    have htm : t ∈ p.schema.types := List.mem_of_find?_eq_some ht
    have hfm : f ∈ t.fields := List.mem_of_find?_eq_some hf
    have h1 := hs t htm
    simp only [Bool.and_eq_true] at h1
    have h2 := List.all_eq_true.mp h1.1 f hfm
    unfold argDefsOf at hd
    rw [List.mem_map] at hd
    obtain ⟨a, ha, rfl⟩ := hd
    exact List.all_eq_true.mp h2 a ha
  have hvars : ∀ dc : Decl, p.decl? ty name = some dc → ∀ d ∈ dc.vars, guarded d.ty = true := by
    intro dc hdc d hd
    have hm : dc ∈ p.decls.map (·.2) := List.mem_of_find?_eq_some hdc
    rw [List.mem_map] at hm
    obtain ⟨fd, hfd, rfl⟩ := hm
    exact List.all_eq_true.mp (hdecl fd hfd) d hd
  unfold lookup at hl
  split at hl
  · cases hl
  · rename_i t ht
    split at hl
    · cases hl
    · split at hl
      · rename_i f hf
        split at hl <;> (simp only [Option.some.injEq] at hl; subst hl; exact hfield t f ht hf d hd)
      · repeat' split at hl
        all_goals first
          | (simp only [Option.some.injEq] at hl; subst hl; simp at hd; done)
          | (rename_i f hdc; simp only [Option.some.injEq] at hl; subst hl; exact hvars _ hdc d hd)
          | (cases hl; done)

/-- none of the three quirks can show: (1) no argument type contains a `.list` that is not directly
under `.nonNull`; (2) no selection has an argument named `id` that its selectable does not declare;
(3) no selection WITH a selection set lacks a required argument -/
def quirkFree (p : Project) : Bool :=
  listsGuarded p
    && p.decls.all fun fd =>
      match fd.2 with
      | .clientField f => quirkSels p f.parent f.selections
      | .clientPointer f => quirkSels p f.parent f.selections
      | .entrypoint _ => true

theorem quirkFree_validateWith (r1 r2 : Rules) (p : Project) (h : quirkFree p = true) :
    validateWith r1 p = validateWith r2 p := by
  unfold quirkFree at h
  rw [Bool.and_eq_true, List.all_eq_true] at h
  obtain ⟨hg, hq⟩ := h
  have hi := inputsGuarded_of p hg
  have hl := lookupGuarded_of p hg
  unfold validateWith
  apply flatMap_congr_mem
  intro fd hfd
  have := hq fd hfd
  revert this
  cases fd.2 with
  | clientField f =>
    intro hq; simp only at hq ⊢
    unfold declDiags
    rw [argSels_indep r1 r2 p f.vars hi hl f.parent f.selections hq]
  | clientPointer f =>
    intro hq; simp only at hq ⊢
    unfold declDiags
    rw [argSels_indep r1 r2 p f.vars hi hl f.parent f.selections hq]
  | entrypoint _ => intro _; rfl

/-- a SYNTACTIC sufficient condition for the hypothesis of `C16_partial` -/
theorem quirkFree_validate (p : Project) (h : quirkFree p = true) :
    validateWith .intended p = validate p :=
  quirkFree_validateWith .intended .asImplemented p h

/-- on quirk-free projects the validators as they are decide the intended judgement -/
theorem C16_quirkFree (p : Project) (h : quirkFree p = true) : C16_statement_at p :=
  C16_partial p (quirkFree_validate p h)

example : quirkFree witnessLinkedMissing = false := by decide
example : quirkFree witnessIdArgument = false := by decide
example : quirkFree witnessNullableListVariable = false := by decide

/-- `field Query.Home { pet(id: 1) { name } }` on `petSchema` -/
def exampleQuirkFree : Project :=
  { schema := petSchema, extensions := [], options := {}, extraFiles := [],
    decls := [homeDecl [] [.linked ⟨none, "pet", [("id", .int 1)], []⟩ [.scalar ⟨none, "name", [], []⟩]]] }

example : quirkFree exampleQuirkFree = true := by decide

end IsoVerif.Core.Validate
