/-
Helper lemmas for Props/C31.lean (text_with_carats model = declarative excerpt spec).
-/
import IsoVerif.Model.CaratsSpec

namespace IsoVerif.Carats
open IsoVerif.Util IsoVerif.CaratsSpec

/-! ## Lines of a text -/

/-- every line followed by a line feed -/
def flat : List Bytes → Bytes
  | [] => []
  | l :: ls => l ++ 10 :: flat ls

def linesLen : List Bytes → Nat
  | [] => 0
  | l :: ls => l.length + 1 + linesLen ls

theorem flat_length (ls : List Bytes) : (flat ls).length = linesLen ls := by
  induction ls with
  | nil => rfl
  | cons l ls ih => simp [flat, linesLen, ih]; omega

theorem flat_append (xs ys : List Bytes) : flat (xs ++ ys) = flat xs ++ flat ys := by
  induction xs with
  | nil => rfl
  | cons l ls ih => simp [flat, ih]

theorem linesLen_append (xs ys : List Bytes) : linesLen (xs ++ ys) = linesLen xs + linesLen ys := by
  induction xs with
  | nil => simp [linesLen]
  | cons l ls ih => simp [linesLen, ih]; omega

theorem splitLines_ne_nil (t : Bytes) : splitLines t ≠ [] := by
  induction t with
  | nil => simp [splitLines]
  | cons b bs ih =>
    unfold splitLines
    split
    · simp
    · split <;> simp

theorem flat_splitLines (t : Bytes) : flat (splitLines t) = t ++ [10] := by
  induction t with
  | nil => simp [splitLines, flat]
  | cons b bs ih =>
    unfold splitLines
    split
    · rename_i h
      have : b = 10 := by simpa using h
      simp [flat, ih, this]
    · split
      · rename_i h; exact absurd h (splitLines_ne_nil bs)
      · rename_i l ls h
        rw [h] at ih
        simp [flat] at ih ⊢
        exact ih

theorem splitLines_no_lf (t : Bytes) : ∀ l ∈ splitLines t, (10 : UInt8) ∉ l := by
  induction t with
  | nil => simp [splitLines]
  | cons b bs ih =>
    unfold splitLines
    split
    · intro l hl
      rcases List.mem_cons.mp hl with h | h
      · simp [h]
      · exact ih l h
    · rename_i hb
      split
      · rename_i h; exact absurd h (splitLines_ne_nil bs)
      · rename_i l ls h
        rw [h] at ih
        intro l' hl'
        rcases List.mem_cons.mp hl' with h' | h'
        · subst h'
          have := ih l (by simp)
          intro hm
          rcases List.mem_cons.mp hm with h1 | h1
          · simp [← h1] at hb
          · exact this h1
        · exact ih l' (by simp [h'])

theorem count_lf_flat (ls : List Bytes) (h : ∀ l ∈ ls, (10 : UInt8) ∉ l) :
    ((flat ls).filter (· == 10)).length = ls.length := by
  induction ls with
  | nil => rfl
  | cons l ls ih =>
    have h1 : l.filter (· == 10) = [] := by
      rw [List.filter_eq_nil_iff]
      intro a ha
      have := h l (by simp)
      intro hh
      have : a = 10 := by simpa using hh
      subst this; contradiction
    simp [flat, List.filter_append, h1]
    exact ih (fun l hl => h l (by simp [hl]))


theorem isBoundary_sub (text L A B : Bytes) (p : Nat)
    (hT : text ++ [10] = A ++ (L ++ 10 :: B)) (hb : isBoundary text p = true) (hp : p ≤ text.length)
    (h1 : A.length ≤ p) (h2 : p ≤ A.length + L.length) : isBoundary L (p - A.length) = true := by
  unfold isBoundary
  by_cases hq0 : p - A.length = 0
  · simp [hq0]
  by_cases hq : p - A.length = L.length
  · simp [hq]
  · have hlen := congrArg List.length hT
    simp only [List.length_append, List.length_cons, List.length_nil] at hlen
    have hlt : p < text.length := by omega
    have e1 : text[p]? = (text ++ [10])[p]? := (List.getElem?_append_left hlt).symm
    have hlt2 : p - A.length < L.length := by omega
    have e2 : (A ++ (L ++ 10 :: B))[p]? = L[p - A.length]? := by
      rw [List.getElem?_append_right h1, List.getElem?_append_left hlt2]
    rw [hT, e2] at e1
    unfold isBoundary at hb
    have hne0 : (p == 0) = false := by simp; omega
    have hne : (p == text.length) = false := by simp; omega
    rw [hne0, hne, e1] at hb
    have hne0' : (p - A.length == 0) = false := by simp; omega
    have hne' : (p - A.length == L.length) = false := by simp; omega
    rw [hne0', hne']
    exact hb

theorem rowOf_sub (text L A B : Bytes) (s n : Nat)
    (hT : text ++ [10] = A ++ (L ++ 10 :: B)) (hs : s ≤ text.length)
    (hA : (A.filter (· == 10)).length = n) (hL : (10 : UInt8) ∉ L)
    (h1 : A.length ≤ s) (h2 : s ≤ A.length + L.length) : rowOf text s = n + 1 := by
  unfold rowOf
  have e1 : text.take s = (text ++ [10]).take s := (List.take_append_of_le_length hs).symm
  have h0 : s - A.length - L.length = 0 := by omega
  have hL' : (L.take (s - A.length)).filter (· == 10) = [] := by
    rw [List.filter_eq_nil_iff]
    intro a ha hh
    have : a = 10 := by simpa using hh
    subst this
    exact hL (List.mem_of_mem_take ha)
  rw [e1, hT, List.take_append, List.take_of_length_le h1, List.take_append, h0, List.take_zero,
    List.append_nil, List.filter_append, hL', List.append_nil, hA]
  omega


/-! ## Caret line, one loop iteration -/

theorem charCount_cons (b : UInt8) (bs : Bytes) :
    charCount (b :: bs) = if isLead b then charCount bs + 1 else charCount bs := by
  unfold charCount
  rw [List.filter_cons]
  split <;> simp

theorem caretCells_append (s e sol j : Nat) (X Y : Bytes) :
    caretCells s e sol j (X ++ Y) = caretCells s e sol j X ++ caretCells s e sol (j + X.length) Y := by
  induction X generalizing j with
  | nil => simp [caretCells]
  | cons b bs ih =>
    have h : j + (bs.length + 1) = j + 1 + bs.length := by omega
    simp only [List.cons_append, caretCells, List.length_cons, ih, h]
    split <;> simp

theorem caretCells_sp (s e sol j : Nat) (X : Bytes)
    (h : ∀ i, i < X.length → ¬ (s ≤ sol + j + i ∧ sol + j + i < e)) :
    caretCells s e sol j X = List.replicate (charCount X) sp := by
  induction X generalizing j with
  | nil => simp [caretCells, charCount]
  | cons b bs ih =>
    have h0 := h 0 (by simp)
    have ht : ∀ i, i < bs.length → ¬ (s ≤ sol + (j + 1) + i ∧ sol + (j + 1) + i < e) := by
      intro i hi
      have := h (i + 1) (by simp; omega)
      omega
    rw [caretCells, charCount_cons, ih (j + 1) ht]
    have h0' : ¬ (s ≤ sol + j ∧ sol + j < e) := by omega
    split
    · simp [List.replicate_succ]
    · rfl

theorem caretCells_caret (s e sol j : Nat) (X : Bytes)
    (h : ∀ i, i < X.length → (s ≤ sol + j + i ∧ sol + j + i < e)) :
    caretCells s e sol j X = List.replicate (charCount X) caret := by
  induction X generalizing j with
  | nil => simp [caretCells, charCount]
  | cons b bs ih =>
    have h0 := h 0 (by simp)
    have ht : ∀ i, i < bs.length → (s ≤ sol + (j + 1) + i ∧ sol + (j + 1) + i < e) := by
      intro i hi
      have := h (i + 1) (by simp; omega)
      omega
    rw [caretCells, charCount_cons, ih (j + 1) ht]
    have h0' : (s ≤ sol + j ∧ sol + j < e) := by omega
    split
    · simp [List.replicate_succ]
    · rfl

theorem carets_eq (s e sol sc ec : Nat) (L : Bytes) (hsc : sc = s - sol)
    (hec : ec = min (e - sol) L.length) (h1 : sc ≤ L.length) (h2 : sol ≤ e) (hle : sc ≤ ec) :
    List.replicate (charCount (L.take sc)) sp ++
      List.replicate (charCount ((L.drop sc).take (ec - sc))) caret ++
      List.replicate (charCount (L.drop ec)) sp = caretCells s e sol 0 L := by
  have hd : L.drop ec = (L.drop sc).drop (ec - sc) := by
    rw [List.drop_drop]; congr 1; omega
  have hL : L = L.take sc ++ ((L.drop sc).take (ec - sc) ++ (L.drop sc).drop (ec - sc)) := by
    rw [List.take_append_drop, List.take_append_drop]
  conv => rhs; rw [hL]
  rw [caretCells_append, caretCells_append, hd]
  have l1 : (L.take sc).length = sc := by simp; omega
  have l2 : ((L.drop sc).take (ec - sc)).length = ec - sc := by simp; omega
  have l3 : ((L.drop sc).drop (ec - sc)).length = L.length - ec := by simp; omega
  rw [l1, l2]
  rw [caretCells_sp, caretCells_caret, caretCells_sp, List.append_assoc]
  · intro i hi
    rw [l3] at hi
    omega
  · intro i hi
    rw [l2] at hi
    omega
  · intro i hi
    rw [l1] at hi
    omega


def emit (s e sol : Nat) (st : St) (line : Bytes) : St :=
    let lineLen := line.length
    let sc := s - sol
    let ec := min (e - sol) lineLen
    if sc > lineLen || !(isBoundary line sc) then { st with panicked := some "slice-prefix" }
    else if ec < sc || !(isBoundary line ec) then { st with panicked := some "slice-highlight" }
    else
      let pre := line.take sc
      let hi := (line.drop sc).take (ec - sc)
      let suf := line.drop ec
      let st := { st with out := st.out.push line }
      if sc != lineLen && ec != 0 then
        let first := match st.first with
          | none => some st.out.size
          | some f => some (min f st.out.size)
        let last := st.out.size + 1
        let carats := List.replicate (charCount pre) sp ++ List.replicate (charCount hi) caret ++
          List.replicate (charCount suf) sp
        { st with first := first, last := last, out := st.out.push carats }
      else st

theorem stepLine_before_after (s e idx : Nat) (st : St) (L : Bytes) (hnp : st.panicked = none)
    (hst : st.state = .before) (h1 : st.cur + L.length + 1 > e) (h2 : ¬ s < st.cur) :
    stepLine s e st idx L = emit s e st.cur { st with
      cur := st.cur + L.length + 1, row := some (idx + 1, s - st.cur + 1), state := .after } L := by
  simp only [stepLine, hnp, hst, h1, h2, emit]
  rfl


theorem stepLine_before_inside (s e idx : Nat) (st : St) (L : Bytes) (hnp : st.panicked = none)
    (hst : st.state = .before) (h1 : ¬ st.cur + L.length + 1 > e) (h1' : st.cur + L.length + 1 > s)
    (h2 : ¬ s < st.cur) :
    stepLine s e st idx L = emit s e st.cur { st with
      cur := st.cur + L.length + 1, row := some (idx + 1, s - st.cur + 1), state := .inside } L := by
  simp only [stepLine, hnp, hst, h1, h1', h2, emit]
  rfl

theorem stepLine_before_skip (s e idx : Nat) (st : St) (L : Bytes) (hnp : st.panicked = none)
    (hst : st.state = .before) (h1 : ¬ st.cur + L.length + 1 > e) (h1' : ¬ st.cur + L.length + 1 > s) :
    stepLine s e st idx L = { st with cur := st.cur + L.length + 1, out := st.out.push L } := by
  simp only [stepLine, hnp, hst, h1, h1']
  rfl

theorem stepLine_inside_after (s e idx : Nat) (st : St) (L : Bytes) (hnp : st.panicked = none)
    (hst : st.state = .inside) (h1 : st.cur + L.length + 1 > e) :
    stepLine s e st idx L = emit s e st.cur { st with
      cur := st.cur + L.length + 1, state := .after } L := by
  simp only [stepLine, hnp, hst, h1, emit]
  rfl

theorem stepLine_inside_stay (s e idx : Nat) (st : St) (L : Bytes) (hnp : st.panicked = none)
    (hst : st.state = .inside) (h1 : ¬ st.cur + L.length + 1 > e) :
    stepLine s e st idx L = emit s e st.cur { st with cur := st.cur + L.length + 1 } L := by
  simp only [stepLine, hnp, hst, h1, emit]
  rfl

theorem stepLine_after (s e idx : Nat) (st : St) (L : Bytes) (hnp : st.panicked = none)
    (hst : st.state = .after) :
    stepLine s e st idx L = { st with cur := st.cur + L.length + 1, out := st.out.push L } := by
  simp only [stepLine, hnp, hst]
  rfl

theorem emit_ok (s e sol : Nat) (st : St) (L : Bytes)
    (hsc : s - sol ≤ L.length) (hb1 : isBoundary L (s - sol) = true)
    (hle : s - sol ≤ min (e - sol) L.length) (hb2 : isBoundary L (min (e - sol) L.length) = true)
    (h2 : sol ≤ e) :
    emit s e sol st L =
      if underlined s e sol L.length then
        { st with
          first := (match st.first with
            | none => some (st.out.size + 1)
            | some f => some (min f (st.out.size + 1))),
          last := st.out.size + 2,
          out := (st.out.push L).push (caretCells s e sol 0 L) }
      else { st with out := st.out.push L } := by
  have hc := carets_eq s e sol (s - sol) (min (e - sol) L.length) L rfl rfl hsc h2 hle
  have h1 : ¬ (s - sol > L.length) := by omega
  have h3 : ¬ (min (e - sol) L.length < s - sol) := by omega
  have hu : (s - sol != L.length && min (e - sol) L.length != 0) = underlined s e sol L.length := by
    rw [Bool.eq_iff_iff]
    simp only [underlined, Bool.and_eq_true, bne_iff_ne, ne_eq, decide_eq_true_eq]
    omega
  simp only [emit, h1, hb1, h3, hb2, hc, hu, Array.size_push]
  simp


def LineOK (text : Bytes) (s e sol idx : Nat) (L : Bytes) : Prop :=
  (∀ p, (p = s ∨ p = e) → sol ≤ p → p ≤ sol + L.length → isBoundary L (p - sol) = true) ∧
  (sol ≤ s → s ≤ sol + L.length → rowOf text s = idx + 1) ∧
  (s < sol → sol ≤ e → isBoundary L 0 = true)

structure Inv (text : Bytes) (s e sol : Nat) (st : St) : Prop where
  np : st.panicked = none
  cur : st.cur = sol
  hb : st.state = .before → sol ≤ s
  hi : st.state = .inside → s < sol ∧ sol ≤ e
  ha : st.state = .after → e < sol
  row : st.state ≠ .before → ∃ c, st.row = some (rowOf text s, c)
  lastle : st.last ≤ st.out.size
  first : ∀ f, st.first = some f → f ≤ st.last

def specStep (s e sol : Nat) (L : Bytes) (st : St) : Array Bytes × Option Nat × Nat :=
  if (touched s e sol L.length && underlined s e sol L.length) = true then
    ((st.out.push L).push (caretCells s e sol 0 L),
      (match st.first with | none => some (st.out.push L).size | some f => some f),
      (st.out.push L).size + 1)
  else (st.out.push L, st.first, st.last)

theorem emit_step (s e sol : Nat) (st : St) (L : Bytes)
    (hsc : s - sol ≤ L.length) (hb1 : isBoundary L (s - sol) = true)
    (hle : s - sol ≤ min (e - sol) L.length) (hb2 : isBoundary L (min (e - sol) L.length) = true)
    (h2 : sol ≤ e) (ht : touched s e sol L.length = true)
    (hlast : st.last ≤ st.out.size) (hfirst : ∀ f, st.first = some f → f ≤ st.last) :
    (emit s e sol st L).panicked = st.panicked ∧ (emit s e sol st L).cur = st.cur ∧
    (emit s e sol st L).state = st.state ∧ (emit s e sol st L).row = st.row ∧
    (emit s e sol st L).last ≤ (emit s e sol st L).out.size ∧
    (∀ f, (emit s e sol st L).first = some f → f ≤ (emit s e sol st L).last) ∧
    ((emit s e sol st L).out, (emit s e sol st L).first, (emit s e sol st L).last) =
      specStep s e sol L st := by
  rw [emit_ok s e sol st L hsc hb1 hle hb2 h2]
  unfold specStep
  rw [ht, Bool.true_and]
  by_cases hu : underlined s e sol L.length = true
  · rw [hu]
    simp only [↓reduceIte]
    refine ⟨by trivial, by trivial, by trivial, by trivial, ?_, ?_, ?_⟩
    · simp
    · cases hf : st.first with
      | none => simp
      | some f => simp; omega
    · cases hf : st.first with
      | none => simp
      | some f =>
        have := hfirst f hf
        simp; omega
  · have hu' : underlined s e sol L.length = false := by simpa using hu
    rw [hu']
    simp only [Bool.false_eq_true, ↓reduceIte]
    refine ⟨by trivial, by trivial, by trivial, by trivial, ?_, ?_, ?_⟩
    · simp; omega
    · simpa using hfirst
    · simp


theorem boundary_min (s e sol : Nat) (L : Bytes)
    (hbd : ∀ p, (p = s ∨ p = e) → sol ≤ p → p ≤ sol + L.length → isBoundary L (p - sol) = true)
    (h : sol ≤ e) : isBoundary L (min (e - sol) L.length) = true := by
  by_cases hc : e - sol ≤ L.length
  · rw [Nat.min_eq_left hc]
    exact hbd e (Or.inr rfl) h (by omega)
  · rw [Nat.min_eq_right (by omega)]
    simp [isBoundary]

theorem step_ok (text : Bytes) (s e sol idx : Nat) (st : St) (L : Bytes) (hse : s < e)
    (inv : Inv text s e sol st) (ok : LineOK text s e sol idx L) :
    Inv text s e (sol + L.length + 1) (stepLine s e st idx L) ∧
    ((stepLine s e st idx L).out, (stepLine s e st idx L).first, (stepLine s e st idx L).last) =
      specStep s e sol L st := by
  obtain ⟨hnp, hcur, hb, hi, ha, hrow, hlast, hfirst⟩ := inv
  obtain ⟨hbd, hrw, hz⟩ := ok
  subst hcur
  cases hst : st.state with
  | before =>
    have hle := hb hst
    by_cases h1 : st.cur + L.length + 1 > e
    · rw [stepLine_before_after s e idx st L hnp hst h1 (by omega)]
      have ht : touched s e st.cur L.length = true := by simp [touched]; omega
      obtain ⟨e1, e2, e3, e4, e5, e6, e7⟩ := emit_step s e st.cur { st with
        cur := st.cur + L.length + 1, row := some (idx + 1, s - st.cur + 1), state := .after } L
        (by omega) (hbd s (Or.inl rfl) hle (by omega)) (by omega)
        (boundary_min s e st.cur L hbd (by omega)) (by omega) ht hlast hfirst
      refine ⟨⟨?_, ?_, ?_, ?_, ?_, ?_, e5, e6⟩, ?_⟩
      · rw [e1]; exact hnp
      · rw [e2]
      · rw [e3]; intro h; cases h
      · rw [e3]; intro h; cases h
      · rw [e3]; intro _; omega
      · rw [e4]; intro _; exact ⟨_, by rw [hrw hle (by omega)]⟩
      · rw [e7]; rfl
    · by_cases h1' : st.cur + L.length + 1 > s
      · rw [stepLine_before_inside s e idx st L hnp hst h1 h1' (by omega)]
        have ht : touched s e st.cur L.length = true := by simp [touched]; omega
        obtain ⟨e1, e2, e3, e4, e5, e6, e7⟩ := emit_step s e st.cur { st with
          cur := st.cur + L.length + 1, row := some (idx + 1, s - st.cur + 1), state := .inside } L
          (by omega) (hbd s (Or.inl rfl) hle (by omega)) (by omega)
          (boundary_min s e st.cur L hbd (by omega)) (by omega) ht hlast hfirst
        refine ⟨⟨?_, ?_, ?_, ?_, ?_, ?_, e5, e6⟩, ?_⟩
        · rw [e1]; exact hnp
        · rw [e2]
        · rw [e3]; intro h; cases h
        · rw [e3]; intro _; omega
        · rw [e3]; intro h; cases h
        · rw [e4]; intro _; exact ⟨_, by rw [hrw hle (by omega)]⟩
        · rw [e7]; rfl
      · rw [stepLine_before_skip s e idx st L hnp hst h1 h1']
        have ht : touched s e st.cur L.length = false := by simp [touched]; omega
        refine ⟨⟨hnp, rfl, ?_, ?_, ?_, ?_, ?_, hfirst⟩, ?_⟩
        · intro _; show st.cur + L.length + 1 ≤ s; omega
        · intro h; exact absurd (hst ▸ h) (by decide)
        · intro h; exact absurd (hst ▸ h) (by decide)
        · intro h; exact absurd hst h
        · show st.last ≤ (st.out.push L).size; simp; omega
        · simp [specStep, ht]
  | inside =>
    obtain ⟨hi1, hi2⟩ := hi hst
    have ht : touched s e st.cur L.length = true := by simp [touched]; omega
    have hs0 : s - st.cur = 0 := by omega
    have hrow' := hrow (by rw [hst]; decide)
    by_cases h1 : st.cur + L.length + 1 > e
    · rw [stepLine_inside_after s e idx st L hnp hst h1]
      obtain ⟨e1, e2, e3, e4, e5, e6, e7⟩ := emit_step s e st.cur { st with
        cur := st.cur + L.length + 1, state := .after } L
        (by omega) (by rw [hs0]; exact hz hi1 hi2) (by omega)
        (boundary_min s e st.cur L hbd (by omega)) (by omega) ht hlast hfirst
      refine ⟨⟨?_, ?_, ?_, ?_, ?_, ?_, e5, e6⟩, ?_⟩
      · rw [e1]; exact hnp
      · rw [e2]
      · rw [e3]; intro h; cases h
      · rw [e3]; intro h; cases h
      · rw [e3]; intro _; omega
      · rw [e4]; intro _; exact hrow'
      · rw [e7]; rfl
    · rw [stepLine_inside_stay s e idx st L hnp hst h1]
      obtain ⟨e1, e2, e3, e4, e5, e6, e7⟩ := emit_step s e st.cur { st with
        cur := st.cur + L.length + 1 } L
        (by omega) (by rw [hs0]; exact hz hi1 hi2) (by omega)
        (boundary_min s e st.cur L hbd (by omega)) (by omega) ht hlast hfirst
      refine ⟨⟨?_, ?_, ?_, ?_, ?_, ?_, e5, e6⟩, ?_⟩
      · rw [e1]; exact hnp
      · rw [e2]
      · rw [e3]; intro h; exact absurd (hst ▸ h) (by decide)
      · rw [e3]; intro _; omega
      · rw [e3]; intro h; exact absurd (hst ▸ h) (by decide)
      · rw [e4]; intro _; exact hrow'
      · rw [e7]; rfl
  | after =>
    have ha' := ha hst
    have hrow' := hrow (by rw [hst]; decide)
    rw [stepLine_after s e idx st L hnp hst]
    have ht : touched s e st.cur L.length = false := by simp [touched]; omega
    refine ⟨⟨hnp, rfl, ?_, ?_, ?_, ?_, ?_, hfirst⟩, ?_⟩
    · intro h; exact absurd (hst ▸ h) (by decide)
    · intro h; exact absurd (hst ▸ h) (by decide)
    · intro _; show e < st.cur + L.length + 1; omega
    · intro _; exact hrow'
    · show st.last ≤ (st.out.push L).size; simp; omega
    · simp [specStep, ht]


/-! ## The whole loop -/

def LinesOK (text : Bytes) (s e : Nat) : Nat → Nat → List Bytes → Prop
  | _, _, [] => True
  | sol, idx, L :: rest =>
    LineOK text s e sol idx L ∧ LinesOK text s e (sol + L.length + 1) (idx + 1) rest

theorem lineOK_of_split (text : Bytes) (s e : Nat) (pre post : List Bytes) (L : Bytes)
    (hs : s ≤ text.length) (he : e ≤ text.length)
    (hbs : isBoundary text s = true) (hbe : isBoundary text e = true)
    (h : splitLines text = pre ++ L :: post) :
    LineOK text s e (linesLen pre) pre.length L := by
  have hT : text ++ [10] = flat pre ++ (L ++ 10 :: flat post) := by
    rw [← flat_splitLines, h, flat_append]; rfl
  have hno := splitLines_no_lf text
  rw [h] at hno
  refine ⟨?_, ?_, ?_⟩
  · intro p hp h1 h2
    rw [← flat_length] at h1 h2 ⊢
    rcases hp with rfl | rfl
    · exact isBoundary_sub text L _ _ _ hT hbs hs h1 h2
    · exact isBoundary_sub text L _ _ _ hT hbe he h1 h2
  · intro h1 h2
    rw [← flat_length] at h1 h2
    refine rowOf_sub text L (flat pre) (flat post) s pre.length hT hs ?_ ?_ h1 h2
    · exact count_lf_flat pre (fun l hl => hno l (by simp [hl]))
    · exact hno L (by simp)
  · intro _ _
    simp [isBoundary]

theorem linesOK_of_split (text : Bytes) (s e : Nat)
    (hs : s ≤ text.length) (he : e ≤ text.length)
    (hbs : isBoundary text s = true) (hbe : isBoundary text e = true) :
    ∀ (rest pre : List Bytes), splitLines text = pre ++ rest →
      LinesOK text s e (linesLen pre) pre.length rest := by
  intro rest
  induction rest with
  | nil => intro _ _; trivial
  | cons L rest ih =>
    intro pre h
    refine ⟨lineOK_of_split text s e pre rest L hs he hbs hbe h, ?_⟩
    have := ih (pre ++ [L]) (by simp [h])
    have e1 : linesLen (pre ++ [L]) = linesLen pre + L.length + 1 := by
      rw [linesLen_append]; simp [linesLen]; omega
    rw [e1, List.length_append] at this
    exact this

theorem build_cons (s e sol : Nat) (L : Bytes) (rest : List Bytes) (st : St) :
    build s e sol (L :: rest) st.out st.first st.last =
      build s e (sol + L.length + 1) rest (specStep s e sol L st).1 (specStep s e sol L st).2.1
        (specStep s e sol L st).2.2 := by
  unfold specStep
  conv => lhs; unfold build
  split <;> rfl

theorem fold_ok (text : Bytes) (s e : Nat) (hse : s < e) :
    ∀ (rest : List Bytes) (sol idx : Nat) (st : St), Inv text s e sol st →
      LinesOK text s e sol idx rest →
      Inv text s e (sol + linesLen rest) (foldLines s e st idx rest) ∧
      build s e sol rest st.out st.first st.last =
        ((foldLines s e st idx rest).out, (foldLines s e st idx rest).first,
          (foldLines s e st idx rest).last) := by
  intro rest
  induction rest with
  | nil =>
    intro sol idx st inv _
    exact ⟨inv, rfl⟩
  | cons L rest ih =>
    intro sol idx st inv ok
    obtain ⟨ok1, ok2⟩ := ok
    obtain ⟨inv1, heq⟩ := step_ok text s e sol idx st L hse inv ok1
    obtain ⟨inv2, hb⟩ := ih _ _ _ inv1 ok2
    have e1 : sol + linesLen (L :: rest) = sol + L.length + 1 + linesLen rest := by
      simp [linesLen]; omega
    rw [e1, foldLines, build_cons, ← heq]
    exact ⟨inv2, hb⟩

theorem linesLen_splitLines (text : Bytes) : linesLen (splitLines text) = text.length + 1 := by
  rw [← flat_length, flat_splitLines]; simp

theorem inv_init (text : Bytes) (s e : Nat) : Inv text s e 0 {} := by
  refine ⟨rfl, rfl, ?_, ?_, ?_, ?_, ?_, ?_⟩
  · intro _; omega
  · intro h; cases h
  · intro h; cases h
  · intro h; exact absurd rfl h
  · show 0 ≤ _; omega
  · intro f h; cases h

/-! ## MAIN -/

theorem render_eq_spec (text : Bytes) (o a b buffer : Nat)
    (hgood : goodSpan text (o + a) (o + b) = true) :
    observe (render text o a b buffer) = some (specRender text (o + a) (o + b) buffer) := by
  have hg := hgood
  simp only [goodSpan, Bool.and_eq_true, decide_eq_true_eq] at hg
  obtain ⟨⟨⟨hse, hel⟩, hbs⟩, hbe⟩ := hg
  have hab : (a == b) = false := by simp; omega
  have hlines := linesOK_of_split text (o + a) (o + b) (by omega) hel hbs hbe (splitLines text) [] rfl
  obtain ⟨inv, hb⟩ := fold_ok text (o + a) (o + b) hse (splitLines text) 0 0 {} (inv_init _ _ _) hlines
  rw [linesLen_splitLines] at inv
  generalize hst' : foldLines (o + a) (o + b) {} 0 (splitLines text) = st' at inv hb
  have hb' : build (o + a) (o + b) 0 (splitLines text) #[] none 0 =
      (st'.out, st'.first, st'.last) := hb
  have hnb : st'.state ≠ .before := fun h => by have := inv.hb h; omega
  obtain ⟨c, hrow⟩ := inv.row hnb
  have hs : o + a ≤ text.length := by omega
  have hnp := inv.np
  unfold render specRender
  simp only [hab, hst', hb', hnp, hrow, hs]
  cases hf : st'.first with
  | none => simp [observe]
  | some f =>
    have h1 := inv.first f hf
    have h2 := inv.lastle
    have h3 : ¬ (f - (buffer + 1) > min (st'.last + buffer) st'.out.size) := by omega
    simp [h3, observe]

theorem caretCells_length (s e sol j : Nat) (L : Bytes) :
    (caretCells s e sol j L).length = charCount L := by
  induction L generalizing j with
  | nil => simp [caretCells, charCount]
  | cons b bs ih =>
    rw [charCount_cons, caretCells]
    split <;> simp [ih]

theorem caretCells_carets (s e sol j : Nat) (L : Bytes) :
    ((caretCells s e sol j L).filter (· == caret)).length =
      (((List.range L.length).filter fun i =>
          (match L[i]? with | some b => isLead b | none => false) &&
          decide (s ≤ sol + j + i) && decide (sol + j + i < e))).length := by
  induction L generalizing j with
  | nil => simp [caretCells]
  | cons b bs ih =>
    rw [List.length_cons, List.range_succ_eq_map, List.filter_cons, List.filter_map, caretCells]
    have htail : (List.filter ((fun i =>
          (match (b :: bs)[i]? with | some b => isLead b | none => false) &&
          decide (s ≤ sol + j + i) && decide (sol + j + i < e)) ∘ Nat.succ) (List.range bs.length))
        = (List.range bs.length).filter fun i =>
          (match bs[i]? with | some b => isLead b | none => false) &&
          decide (s ≤ sol + (j+1) + i) && decide (sol + (j+1) + i < e) := by
      apply List.filter_congr
      intro i _
      simp only [Function.comp, Nat.succ_eq_add_one, List.getElem?_cons_succ]
      have h1 : sol + j + (i + 1) = sol + (j + 1) + i := by omega
      rw [h1]
    rw [htail]
    have hsp : (sp == caret) = false := by decide
    by_cases hl : isLead b = true
    · by_cases hc : s ≤ sol + j ∧ sol + j < e
      · simp [hl, hc, ih]
      · simp [hl, hc, ih, hsp]
    · simp [hl, ih]

end IsoVerif.Carats
