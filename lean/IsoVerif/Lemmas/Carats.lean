/-
Helper lemmas for Props/C31.lean (text_with_carats model = declarative excerpt spec).
-/
import IsoVerif.Model.CaratsSpec

namespace IsoVerif.Carats
open IsoVerif.Util IsoVerif.CaratsSpec

theorem render_eq_spec (text : Bytes) (o a b buffer : Nat)
    (hgood : goodSpan text (o + a) (o + b) = true) :
    observe (render text o a b buffer) = some (specRender text (o + a) (o + b) buffer) := by
  sorry

theorem caretCells_length (s e sol j : Nat) (L : Bytes) :
    (caretCells s e sol j L).length = charCount L := by
  sorry

/-- Number of carets = number of characters of the line whose first byte lies in the span. -/
theorem caretCells_carets (s e sol j : Nat) (L : Bytes) :
    ((caretCells s e sol j L).filter (· == caret)).length =
      (((List.range L.length).filter fun i =>
          (match L[i]? with | some b => isLead b | none => false) &&
          decide (s ≤ sol + j + i) && decide (sol + j + i < e))).length := by
  sorry

end IsoVerif.Carats
