/-
Helper lemmas for C26 (persisted documents): `Docs.insert` / `Docs.lookup` and the threading of the
documents map through `runOps`, for an arbitrary starting map.
-/
import IsoVerif.Lemmas.PrintersTree
import IsoVerif.Model.Core.Persisted

namespace IsoVerif.Core

/-! ### `Docs.insert` / `Docs.lookup` -/

theorem Docs.lookup_nil (j : Str) : Docs.lookup [] j = none := rfl

theorem Docs.lookup_cons (e : Str × Str) (docs : Docs) (j : Str) :
    Docs.lookup (e :: docs) j = if e.1 = j then some e.2 else Docs.lookup docs j := by
  unfold Docs.lookup
  by_cases h : e.1 = j
  · simp [h]
  · simp [h]

theorem Docs.lookup_map_self (docs : Docs) (id t : Str)
    (h : docs.any (fun e => e.1 == id) = true) :
    Docs.lookup (docs.map (fun e => if e.1 == id then (id, t) else e)) id = some t := by
  induction docs with
  | nil => simp at h
  | cons e rest ih =>
    rw [List.map_cons, Docs.lookup_cons]
    by_cases he : e.1 = id
    · simp [he]
    · have h' : rest.any (fun e => e.1 == id) = true := by
        simpa [List.any_cons, he] using h
      have h2 : (if (e.1 == id) = true then (id, t) else e) = e := by simp [he]
      rw [h2, if_neg he]; exact ih h'

theorem Docs.lookup_map_ne (docs : Docs) (id t j : Str) (hj : j ≠ id) :
    Docs.lookup (docs.map (fun e => if e.1 == id then (id, t) else e)) j = Docs.lookup docs j := by
  induction docs with
  | nil => rfl
  | cons e rest ih =>
    rw [List.map_cons, Docs.lookup_cons, Docs.lookup_cons, ih]
    by_cases he : e.1 = id
    · have h1 : ¬ id = j := fun h => hj h.symm
      have h2 : ¬ e.1 = j := fun h => hj (h ▸ he)
      simp [he, h1]
    · simp [he]

theorem Docs.lookup_append_single (docs : Docs) (id t j : Str) :
    Docs.lookup (docs ++ [(id, t)]) j =
      match Docs.lookup docs j with
      | some x => some x
      | none => if id = j then some t else none := by
  induction docs with
  | nil => simp [Docs.lookup_cons, Docs.lookup_nil]
  | cons e rest ih =>
    rw [List.cons_append, Docs.lookup_cons, Docs.lookup_cons]
    by_cases he : e.1 = j
    · simp [he]
    · simp [he, ih]

theorem Docs.lookup_eq_none_of_not_any (docs : Docs) (id : Str)
    (h : ¬ docs.any (fun e => e.1 == id) = true) : Docs.lookup docs id = none := by
  induction docs with
  | nil => rfl
  | cons e rest ih =>
    rw [Docs.lookup_cons]
    have h1 : ¬ e.1 = id := by
      intro he; apply h; simp [List.any_cons, he]
    have h2 : ¬ rest.any (fun e => e.1 == id) = true := by
      intro hr; apply h; simp [List.any_cons, hr]
    simp [h1, ih h2]

theorem Docs.lookup_insert_self (docs : Docs) (id t : Str) :
    Docs.lookup (docs.insert id t) id = some t := by
  unfold Docs.insert
  by_cases h : docs.any (fun e => e.1 == id) = true
  · rw [if_pos h]; exact Docs.lookup_map_self docs id t h
  · rw [if_neg h, Docs.lookup_append_single, Docs.lookup_eq_none_of_not_any docs id h]
    simp

theorem Docs.lookup_insert_ne (docs : Docs) (id t j : Str) (hj : j ≠ id) :
    Docs.lookup (docs.insert id t) j = Docs.lookup docs j := by
  unfold Docs.insert
  by_cases h : docs.any (fun e => e.1 == id) = true
  · rw [if_pos h]; exact Docs.lookup_map_ne docs id t j hj
  · rw [if_neg h, Docs.lookup_append_single]
    have h1 : ¬ id = j := fun h => hj h.symm
    cases Docs.lookup docs j <;> simp [h1]

theorem Docs.mem_insert (docs : Docs) (id t : Str) (e : Str × Str)
    (h : e ∈ docs.insert id t) : e = (id, t) ∨ e ∈ docs := by
  unfold Docs.insert at h
  by_cases hany : docs.any (fun e => e.1 == id) = true
  · rw [if_pos hany, List.mem_map] at h
    obtain ⟨x, hx, hxe⟩ := h
    by_cases hx1 : (x.1 == id) = true
    · rw [if_pos hx1] at hxe; exact Or.inl hxe.symm
    · rw [if_neg hx1] at hxe; exact Or.inr (hxe ▸ hx)
  · rw [if_neg hany, List.mem_append] at h
    rcases h with h | h
    · exact Or.inr h
    · exact Or.inl (by simpa using h)

theorem Docs.keys_insert (docs : Docs) (id t j : Str) :
    j ∈ (docs.insert id t).map (·.1) ↔ j = id ∨ j ∈ docs.map (·.1) := by
  unfold Docs.insert
  by_cases hany : docs.any (fun e => e.1 == id) = true
  · rw [if_pos hany]
    have hid : id ∈ docs.map (·.1) := by
      rw [List.any_eq_true] at hany
      obtain ⟨x, hx, hx1⟩ := hany
      exact List.mem_map.mpr ⟨x, hx, by simpa using hx1⟩
    have hkeys : (docs.map (fun e => if e.1 == id then (id, t) else e)).map (·.1) = docs.map (·.1) := by
      rw [List.map_map]
      apply List.map_congr_left
      intro x _
      by_cases hx1 : x.1 = id
      · simp [hx1]
      · simp [hx1]
    rw [hkeys]
    constructor
    · exact Or.inr
    · rintro (h | h)
      · exact h ▸ hid
      · exact h
  · rw [if_neg hany, List.map_append, List.mem_append]
    simp [or_comm]

theorem Docs.lookup_of_mem_keys (docs : Docs) (j : Str) (h : j ∈ docs.map (·.1)) :
    ∃ t, Docs.lookup docs j = some t ∧ (j, t) ∈ docs := by
  induction docs with
  | nil => simp at h
  | cons e rest ih =>
    rw [Docs.lookup_cons]
    by_cases he : e.1 = j
    · refine ⟨e.2, by simp [he], ?_⟩
      rw [← he]; exact List.mem_cons_self
    · have h' : j ∈ rest.map (·.1) := by
        rw [List.map_cons, List.mem_cons] at h
        rcases h with h | h
        · exact absurd h.symm he
        · exact h
      obtain ⟨t, ht, hm⟩ := ih h'
      exact ⟨t, by simp [he, ht], List.mem_cons_of_mem _ hm⟩

/-! ### `runOps` -/

theorem runOps_nil (H : Str → Str) (opts : PersistOpts) (docs : Docs) :
    runOps H opts [] docs = ([], docs) := rfl

theorem runOps_cons (H : Str → Str) (opts : PersistOpts) (op : OpIn) (rest : List OpIn) (docs : Docs) :
    runOps H opts (op :: rest) docs =
      (H op.compact :: (runOps H opts rest (docs.insert (H op.compact) op.compact)).1,
        (runOps H opts rest (docs.insert (H op.compact) op.compact)).2) := by
  simp only [runOps, generateOperationText, Option.getD_some]

theorem runOps_fst (H : Str → Str) (opts : PersistOpts) (ops : List OpIn) :
    ∀ docs, (runOps H opts ops docs).1 = ops.map (fun op => H op.compact) := by
  induction ops with
  | nil => intro docs; rfl
  | cons op rest ih => intro docs; rw [runOps_cons]; simp [ih]

theorem runOps_hashed_gen (H : Str → Str) (opts : PersistOpts) (ops : List OpIn) :
    ∀ docs : Docs, (∀ e ∈ docs, H e.2 = e.1) → ∀ e ∈ (runOps H opts ops docs).2, H e.2 = e.1 := by
  induction ops with
  | nil => intro docs h; exact h
  | cons op rest ih =>
    intro docs h
    rw [runOps_cons]
    apply ih
    intro e he
    rcases Docs.mem_insert _ _ _ _ he with he | he
    · rw [he]
    · exact h e he

theorem runOps_exact_gen (H : Str → Str) (opts : PersistOpts) (ops : List OpIn) (j : Str) :
    ∀ docs : Docs, j ∈ (runOps H opts ops docs).2.map (·.1) ↔
      j ∈ docs.map (·.1) ∨ j ∈ (runOps H opts ops docs).1 := by
  induction ops with
  | nil => intro docs; simp [runOps_nil]
  | cons op rest ih =>
    intro docs
    rw [runOps_cons]
    simp only [ih, Docs.keys_insert, List.mem_cons]
    constructor
    · rintro ((h | h) | h)
      · exact Or.inr (Or.inl h)
      · exact Or.inl h
      · exact Or.inr (Or.inr h)
    · rintro (h | h | h)
      · exact Or.inl (Or.inr h)
      · exact Or.inl (Or.inl h)
      · exact Or.inr h

theorem runOps_lookup_gen (H : Str → Str) (opts : PersistOpts) (ops : List OpIn) (id t : Str) :
    ∀ docs : Docs, (runOps H opts ops docs).2.lookup id = some t →
      docs.lookup id = some t ∨ ∃ op' ∈ ops, H op'.compact = id ∧ t = op'.compact := by
  induction ops with
  | nil => intro docs h; exact Or.inl h
  | cons op rest ih =>
    intro docs h
    rw [runOps_cons] at h
    rcases ih _ h with h1 | ⟨op', hop', h1, h2⟩
    · by_cases hid : id = H op.compact
      · rw [hid, Docs.lookup_insert_self] at h1
        refine Or.inr ⟨op, List.mem_cons_self, hid.symm, ?_⟩
        exact (Option.some.inj h1).symm
      · rw [Docs.lookup_insert_ne _ _ _ _ hid] at h1
        exact Or.inl h1
    · exact Or.inr ⟨op', List.mem_cons_of_mem _ hop', h1, h2⟩

end IsoVerif.Core
