/-
Lemmas for C03 over M-PICO: the ghost field `pushes` (every id ever pushed onto `top_level_calls`)
is exactly the sequence of top-level calls the history made.  Only `pushTop` (inside `execF`) pushes,
and only with an empty dependency stack; `invoke` conses a frame before it evaluates a body, so every
nested call runs with a non-empty stack.
-/
import IsoVerif.Model.Pico
import IsoVerif.Model.PicoSpec
import IsoVerif.Lemmas.PicoGc

namespace IsoVerif.Pico

/-- the ids of the top-level calls actually made by a history run from `s` (a poisoned storage
ignores every operation) -/
def callIds (fuel : Nat) (P : Prog) : Storage → List Op → List NodeId
  | _, [] => []
  | s, op :: ops =>
    (match op with
      | .call f a => if s.poisoned then [] else [nodeOf P f a]
      | _ => []) ++ callIds fuel P (step fuel P s op).1 ops

/-- the ids on the dependency stack -/
def ids (s : Storage) : List NodeId := s.stack.map (·.id)

/-- `p` is the outcome of a computation started in `s` that pushed nothing onto `top_level_calls`
and, when it returned, left the ids on the dependency stack as they were. -/
def QR {β : Type} (s : Storage) (p : Storage × Res β) : Prop :=
  p.1.pushes = s.pushes ∧ ∀ b, p.2 = .ok b → ids p.1 = ids s

/-- a function that is quiet whenever some memoised function is running -/
def Quiet {α β : Type} (f : Storage → α → Storage × Res β) : Prop :=
  ∀ s x, ids s ≠ [] → QR s (f s x)

/-- a function that is quiet unconditionally -/
def QuietU {α β : Type} (f : Storage → α → Storage × Res β) : Prop :=
  ∀ s x, QR s (f s x)

theorem ids_ne_nil_iff (s : Storage) : ids s ≠ [] ↔ s.stack ≠ [] := by
  unfold ids
  cases s.stack <;> simp

theorem QR.refl {β : Type} (s : Storage) (r : Res β) : QR s (s, r) := ⟨rfl, fun _ _ => rfl⟩

theorem QR.of_eq {β : Type} {s s' : Storage} {r : Res β} (hp : s'.pushes = s.pushes)
    (hi : ids s' = ids s) : QR s (s', r) := ⟨hp, fun _ _ => hi⟩

theorem QR.step {β γ : Type} {s s1 : Storage} {b : β} {p : Storage × Res γ}
    (h1 : QR s (s1, Res.ok b)) (h2 : QR s1 p) : QR s p :=
  ⟨h2.1.trans h1.1, fun c hc => (h2.2 c hc).trans (h1.2 b rfl)⟩

theorem QR.ok_any {β γ : Type} {s s1 : Storage} {b : β} (h : QR s (s1, Res.ok b)) (r : Res γ) :
    QR s (s1, r) := ⟨h.1, fun _ _ => h.2 b rfl⟩

theorem QR.panic_any {β : Type} (γ : Type) {s s1 : Storage} {q : Panic}
    (h : QR s ((s1, Res.panic q) : Storage × Res β)) : QR s ((s1, Res.panic q) : Storage × Res γ) :=
  ⟨h.1, fun _ hb => by cases hb⟩

theorem QR.post {β γ : Type} {s s1 s2 : Storage} {b : β} (h : QR s (s1, Res.ok b)) (r : Res γ)
    (hp : s2.pushes = s1.pushes) (hi : ids s2 = ids s1) : QR s (s2, r) :=
  ⟨hp.trans h.1, fun _ _ => hi.trans (h.2 b rfl)⟩

theorem QR.ids_ne {β : Type} {s s1 : Storage} {b : β} (h : QR s (s1, Res.ok b)) (hs : ids s ≠ []) :
    ids s1 ≠ [] := by
  rw [h.2 b rfl]; exact hs

theorem regDep_pushes (s : Storage) (n : DepNode) (tu : Nat) : (regDep s n tu).pushes = s.pushes := by
  unfold regDep
  split <;> rfl

theorem regDep_ids (s : Storage) (n : DepNode) (tu : Nat) : ids (regDep s n tu) = ids s := by
  unfold regDep
  split
  · rfl
  · rename_i fr rest heq
    simp only [ids, heq, List.map_cons]

theorem setTv_pushes (s : Storage) (id : NodeId) (e : Nat) : (setTv s id e).pushes = s.pushes := by
  unfold setTv
  split <;> rfl

theorem setTv_ids (s : Storage) (id : NodeId) (e : Nat) : ids (setTv s id e) = ids s := by
  unfold setTv
  split <;> rfl

theorem evalE_QR (call : Storage → NodeId → Storage × Res Nat) (P : Prog) (hc : Quiet call)
    (e : Expr) (a : Nat) (s : Storage) (hs : ids s ≠ []) : QR s (evalE call P e a s) := by
  induction e generalizing a s with
  | lit n => exact QR.refl _ _
  | param => exact QR.refl _ _
  | src k ih =>
    simp only [evalE]
    split
    · rename_i s1 kv heq
      have h1 : QR s (s1, Res.ok kv) := by have := ih a s hs; rw [heq] at this; exact this
      split
      · exact h1.post _ (regDep_pushes ..) (regDep_ids ..)
      · exact h1.post _ (regDep_pushes ..) (regDep_ids ..)
    · exact ih a s hs
  | sing i =>
    simp only [evalE]
    split
    · exact QR.of_eq (regDep_pushes ..) (regDep_ids ..)
    · exact QR.of_eq (regDep_pushes ..) (regDep_ids ..)
  | trk m =>
    simp only [evalE]
    split
    · exact QR.of_eq (regDep_pushes ..) (regDep_ids ..)
    · exact QR.of_eq (regDep_pushes ..) (regDep_ids ..)
  | call f e ih =>
    simp only [evalE]
    split
    · rename_i s1 av heq
      have h1 : QR s (s1, Res.ok av) := by have := ih a s hs; rw [heq] at this; exact this
      exact h1.step (hc _ _ (h1.ids_ne hs))
    · exact ih a s hs
  | add x y ihx ihy =>
    simp only [evalE]
    split
    · rename_i s1 xv heq
      have h1 : QR s (s1, Res.ok xv) := by have := ihx a s hs; rw [heq] at this; exact this
      have hs1 := h1.ids_ne hs
      split
      · rename_i s2 yv heq2
        have h2 : QR s1 (s2, Res.ok yv) := by have := ihy a s1 hs1; rw [heq2] at this; exact this
        exact h1.step (h2.ok_any _)
      · exact h1.step (ihy a s1 hs1)
    · exact ihx a s hs
  | eq x y ihx ihy =>
    simp only [evalE]
    split
    · rename_i s1 xv heq
      have h1 : QR s (s1, Res.ok xv) := by have := ihx a s hs; rw [heq] at this; exact this
      have hs1 := h1.ids_ne hs
      split
      · rename_i s2 yv heq2
        have h2 : QR s1 (s2, Res.ok yv) := by have := ihy a s1 hs1; rw [heq2] at this; exact this
        exact h1.step (h2.ok_any _)
      · exact h1.step (ihy a s1 hs1)
    · exact ihx a s hs
  | ite c t e ihc iht ihe =>
    simp only [evalE]
    split
    · rename_i s1 cv heq
      have h1 : QR s (s1, Res.ok cv) := by have := ihc a s hs; rw [heq] at this; exact this
      have hs1 := h1.ids_ne hs
      split
      · exact h1.step (iht a s1 hs1)
      · exact h1.step (ihe a s1 hs1)
    · exact ihc a s hs
  | half x ih =>
    simp only [evalE]
    split
    · rename_i s1 xv heq
      have h1 : QR s (s1, Res.ok xv) := by have := ih a s hs; rw [heq] at this; exact this
      exact h1.ok_any _
    · exact ih a s hs

/-- `invoke` conses a frame before it evaluates the body: with a quiet `call` it pushes nothing from
ANY storage, and when it returns the frame has been popped. -/
theorem invoke_QR (call : Storage → NodeId → Storage × Res Nat) (P : Prog) (hc : Quiet call)
    (s : Storage) (id : NodeId) : QR s (invoke call P s id) := by
  unfold invoke
  split
  · exact QR.refl _ _
  · simp only []
    have h1 := evalE_QR call P hc (fnOf P id.fn).body id.arg
      { s with stack := ⟨id, [], 1⟩ :: s.stack, runs := bump s.runs id.fn, log := id :: s.log,
               events := (false, id) :: s.events } (by simp [ids])
    split
    · rename_i s1 v heq
      rw [heq] at h1
      split
      · rename_i fr rest hst
        have hi := h1.2 v rfl
        simp only [ids, hst, List.map_cons, List.cons.injEq] at hi
        exact ⟨h1.1, fun _ _ => hi.2⟩
      · exact ⟨h1.1, fun _ hb => by cases hb⟩
    · rename_i s1 p heq
      rw [heq] at h1
      exact ⟨h1.1, fun _ hb => by cases hb⟩

theorem dropTu_QR (core : Storage → NodeId → Storage × Res (Bool × Nat)) (s0 s : Storage)
    (id : NodeId) (h1 : QR s0 (core s id)) : QR s0 (dropTu core s id) := by
  unfold dropTu
  split
  · rename_i s1 b tu heq; rw [heq] at h1; exact h1.ok_any _
  · rename_i s1 p heq; rw [heq] at h1; exact h1.panic_any _

theorem depChanged_QR (ex : Storage → NodeId → Storage × Res Bool) (s : Storage)
    (hc : ∀ m, QR s (ex s m)) (d : Dep) : QR s (depChanged ex s d) := by
  unfold depChanged
  split
  · split <;> exact QR.refl _ _
  · exact QR.refl _ _
  · split
    · exact QR.refl _ _
    · split
      · exact QR.refl _ _
      · split
        · exact QR.refl _ _
        · exact hc _

theorem anyDep_QR (chk : Storage → Dep → Storage × Res Bool) (hc : QuietU chk) (ds : List Dep)
    (s : Storage) : QR s (anyDep chk ds s) := by
  induction ds generalizing s with
  | nil => exact QR.refl _ _
  | cons d ds ih =>
    simp only [anyDep]
    split
    · exact ih s
    · have h1 := hc s d
      split
      · rename_i s1 heq; rw [heq] at h1; exact h1
      · rename_i s1 heq; rw [heq] at h1; exact h1.step (ih s1)
      · rename_i s1 p heq; rw [heq] at h1; exact h1

theorem callVia_QR (ex : Storage → NodeId → Storage × Res Bool) (s0 s : Storage) (id : NodeId)
    (h1 : QR s0 (ex s id)) : QR s0 (callVia ex s id) := by
  unfold callVia
  split
  · rename_i s1 _ heq
    rw [heq] at h1
    split
    · exact h1.ok_any _
    · exact h1.ok_any _
  · rename_i s1 p heq
    rw [heq] at h1
    exact h1.panic_any _

theorem pushTop_of_ids_ne (s : Storage) (id : NodeId) (hs : ids s ≠ []) : pushTop s id = s := by
  unfold pushTop
  rw [if_neg]
  intro h
  apply hs
  unfold ids
  rw [List.isEmpty_iff.1 h]
  rfl

/-- everything `execF` does after its `pushTop` is quiet -/
theorem execF_QR_pushTop (core : Storage → NodeId → Storage × Res (Bool × Nat)) (hc : QuietU core)
    (s : Storage) (id : NodeId) : QR (pushTop s id) (execF core s id) := by
  unfold execF
  have h1 := hc (pushTop s id) id
  split
  · rename_i s1 b tu heq; rw [heq] at h1
    exact h1.post _ (regDep_pushes ..) (regDep_ids ..)
  · rename_i s1 p heq; rw [heq] at h1; exact h1.panic_any _

theorem execF_Quiet (core : Storage → NodeId → Storage × Res (Bool × Nat)) (hc : QuietU core) :
    Quiet (execF core) := by
  intro s id hs
  have := execF_QR_pushTop core hc s id
  rw [pushTop_of_ids_ne s id hs] at this
  exact this

/-- `bring_up_to_date` never pushes onto `top_level_calls`, from any storage. -/
theorem upToDate_QuietU (fuel : Nat) (P : Prog) : QuietU (upToDate fuel P) := by
  induction fuel with
  | zero => intro s id; exact QR.refl _ _
  | succ fuel ih =>
    have hcall : Quiet (callVia (execF (upToDate fuel P))) := fun s id hs =>
      callVia_QR _ s s id (execF_Quiet _ ih s id hs)
    have hchk : QuietU (depChanged (dropTu (upToDate fuel P))) := fun s d =>
      depChanged_QR _ s (fun m => dropTu_QR _ s s m (ih s m)) d
    intro s id
    simp only [upToDate]
    have hupd : ∀ (s0 s : Storage) (b : Nat × Frame) (d : List (NodeId × Rev)) (r : Res (Bool × Nat)),
        QR s0 (s, Res.ok b) → QR s0 ({ s with derived := d }, r) := fun s0 s b d r h =>
      h.post (s2 := { s with derived := d }) r rfl rfl
    split
    · rename_i rev hrev
      split
      · exact QR.refl _ _
      · have h0 : QR s (setTv s id s.epoch, Res.ok ()) := QR.of_eq (setTv_pushes ..) (setTv_ids ..)
        have h1 := h0.step (anyDep_QR _ hchk rev.deps (setTv s id s.epoch))
        split
        · rename_i s1 p heq; rw [heq] at h1; exact h1.panic_any _
        · rename_i s1 heq; rw [heq] at h1; exact h1.ok_any _
        · rename_i s1 heq; rw [heq] at h1
          have h2 := invoke_QR _ P hcall s1 id
          split
          · rename_i s2 p heq2; rw [heq2] at h2; exact h1.step (h2.panic_any _)
          · rename_i s2 v fr heq2; rw [heq2] at h2
            have h3 := h1.step h2
            split
            · exact h3.ok_any _
            · split
              · exact hupd _ _ _ _ _ h3
              · exact hupd _ _ _ _ _ h3
    · have h2 := invoke_QR _ P hcall s id
      split
      · rename_i s2 p heq2; rw [heq2] at h2; exact h2.panic_any _
      · rename_i s2 v fr heq2; rw [heq2] at h2
        exact hupd _ _ _ _ _ h2

theorem exec_Quiet (fuel : Nat) (P : Prog) : Quiet (exec fuel P) :=
  execF_Quiet _ (upToDate_QuietU fuel P)

/-- a top-level call: exactly its own id is pushed, and when it returns the stack is empty again -/
theorem exec_top (fuel : Nat) (P : Prog) (s : Storage) (id : NodeId) (hs : s.stack = []) :
    (exec fuel P s id).1.pushes = s.pushes ++ [id] ∧
      ∀ b, (exec fuel P s id).2 = .ok b → (exec fuel P s id).1.stack = [] := by
  have h := execF_QR_pushTop _ (upToDate_QuietU fuel P) s id
  have hp : pushTop s id = { s with topCalls := s.topCalls ++ [id], pushes := s.pushes ++ [id] } := by
    unfold pushTop; rw [hs]; rfl
  rw [hp] at h
  refine ⟨h.1, fun b hb => ?_⟩
  have := h.2 b hb
  simp only [ids, hs, List.map_nil, List.map_eq_nil_iff] at this
  exact this

/-! ## operations -/

theorem setSource_PS (s : Storage) (k : Key) (v : Nat) :
    (setSource s k v).pushes = s.pushes ∧ (setSource s k v).stack = s.stack := by
  unfold setSource
  split
  · split <;> exact ⟨rfl, rfl⟩
  · exact ⟨rfl, rfl⟩

theorem removeSource_PS (s : Storage) (k : Key) :
    (removeSource s k).pushes = s.pushes ∧ (removeSource s k).stack = s.stack := by
  unfold removeSource
  split <;> exact ⟨rfl, rfl⟩

theorem touchCounter_PS (s : Storage) (m : Nat) :
    (touchCounter s m).pushes = s.pushes ∧ (touchCounter s m).stack = s.stack := by
  unfold touchCounter
  split <;> exact setSource_PS ..

theorem gc_PS (s : Storage) : (gc s).1.pushes = s.pushes ∧ (gc s).1.stack = s.stack := by
  simp only [gc]
  split <;> exact ⟨rfl, rfl⟩

/-- an operation other than a call pushes nothing and leaves the stack empty -/
theorem step_noncall (fuel : Nat) (P : Prog) (s : Storage) (op : Op) (hs : s.stack = [])
    (hop : ∀ f a, op ≠ .call f a) :
    (step fuel P s op).1.pushes = s.pushes ∧ (step fuel P s op).1.stack = [] := by
  unfold step
  split
  · exact ⟨rfl, hs⟩
  · cases op with
    | set k v => exact ⟨(setSource_PS ..).1, (setSource_PS ..).2.trans hs⟩
    | rem k => exact ⟨(removeSource_PS ..).1, (removeSource_PS ..).2.trans hs⟩
    | sset i v => exact ⟨(setSource_PS ..).1, (setSource_PS ..).2.trans hs⟩
    | srem i => exact ⟨(removeSource_PS ..).1, (removeSource_PS ..).2.trans hs⟩
    | tins m k => exact ⟨(touchCounter_PS s m).1, (touchCounter_PS s m).2.trans hs⟩
    | trem m k => exact ⟨(touchCounter_PS s m).1, (touchCounter_PS s m).2.trans hs⟩
    | call f a => exact absurd rfl (hop f a)
    | look f a =>
      simp only []
      split
      · split <;> exact ⟨rfl, hs⟩
      · exact ⟨rfl, hs⟩
    | retain f a =>
      simp only []
      split <;> exact ⟨rfl, hs⟩
    | unretain f a =>
      simp only []
      split <;> exact ⟨rfl, hs⟩
    | nevergc f a =>
      simp only []
      split <;> exact ⟨rfl, hs⟩
    | gc =>
      have h1 := gc_PS s
      simp only []
      split
      · rename_i s1 _ heq; rw [heq] at h1; exact ⟨h1.1, h1.2.trans hs⟩
      · rename_i s1 _ heq; rw [heq] at h1; exact ⟨h1.1, h1.2.trans hs⟩

/-- a call operation on a live storage pushes exactly its own id and leaves the stack empty -/
theorem step_call (fuel : Nat) (P : Prog) (s : Storage) (f a : Nat) (hs : s.stack = []) :
    (step fuel P s (.call f a)).1.pushes = s.pushes ++ (if s.poisoned then [] else [nodeOf P f a]) ∧
      (step fuel P s (.call f a)).1.stack = [] := by
  unfold step
  split
  · exact ⟨by simp, hs⟩
  · simp only []
    have h0 := exec_top fuel P s (nodeOf P f a) hs
    have h1 : QR (exec fuel P s (nodeOf P f a)).1 (callVia (exec fuel P) s (nodeOf P f a)) := by
      unfold callVia
      split
      · rename_i s1 _ heq
        rw [heq]
        split
        · exact QR.refl _ _
        · exact QR.refl _ _
      · rename_i s1 p heq
        rw [heq]
        exact QR.refl _ _
    have h2 : ∀ v, (callVia (exec fuel P) s (nodeOf P f a)).2 = .ok v →
        ∃ b, (exec fuel P s (nodeOf P f a)).2 = .ok b := by
      intro v
      unfold callVia
      split
      · rename_i s1 b heq
        intro _
        exact ⟨b, by rw [heq]⟩
      · intro h; cases h
    split
    · rename_i s1 v heq
      rw [heq] at h1 h2
      obtain ⟨b, hb⟩ := h2 v rfl
      refine ⟨h1.1.trans h0.1, ?_⟩
      have hi := h1.2 v rfl
      simp only [ids, h0.2 b hb, List.map_nil, List.map_eq_nil_iff] at hi
      exact hi
    · rename_i s1 p heq
      rw [heq] at h1
      exact ⟨h1.1.trans h0.1, rfl⟩

/-- **`pushes` along a history**: run from a storage with an empty dependency stack, a history
appends to the ghost `pushes` exactly the ids of the top-level calls it makes, and ends with an empty
stack. -/
theorem pushes_runS (fuel : Nat) (P : Prog) : ∀ (ops : List Op) (s : Storage), s.stack = [] →
    (runS fuel P s ops).pushes = s.pushes ++ callIds fuel P s ops ∧ (runS fuel P s ops).stack = [] := by
  intro ops
  induction ops with
  | nil => intro s hs; exact ⟨by simp [runS, run, callIds], hs⟩
  | cons op ops ih =>
    intro s hs
    have hrun : runS fuel P s (op :: ops) = runS fuel P (step fuel P s op).1 ops := by
      simp [runS, run]
    rw [hrun]
    by_cases hop : ∃ f a, op = .call f a
    · obtain ⟨f, a, rfl⟩ := hop
      obtain ⟨h1, h2⟩ := step_call fuel P s f a hs
      obtain ⟨ihp, ihs⟩ := ih _ h2
      refine ⟨?_, ihs⟩
      rw [ihp, h1]
      simp only [callIds, List.append_assoc]
    · have hop' : ∀ f a, op ≠ .call f a := fun f a h => hop ⟨f, a, h⟩
      obtain ⟨h1, h2⟩ := step_noncall fuel P s op hs hop'
      obtain ⟨ihp, ihs⟩ := ih _ h2
      refine ⟨?_, ihs⟩
      rw [ihp, h1]
      cases op with
      | call f a => exact absurd rfl (hop' f a)
      | _ => simp only [callIds, List.nil_append]

/-- after any history, `pushes` is exactly the sequence of top-level calls made -/
theorem pushes_after (fuel cap : Nat) (P : Prog) (h : List Op) :
    (after fuel cap P h).pushes = callIds fuel P (initS cap P) h := by
  have := (pushes_runS fuel P h (initS cap P) rfl).1
  simpa [after, initS, Storage.init] using this

end IsoVerif.Pico
