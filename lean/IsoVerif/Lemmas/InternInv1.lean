/-
Preservation of the intern invariant `JInv`, part 1: embedded arena, locks, set membership.
-/
import IsoVerif.Lemmas.InternTrace
namespace IsoVerif.InternT
open IsoVerif.Arena IsoVerif.ArenaT IsoVerif.Gen.ArenaConsts

variable {sh : Val → Nat} {s s' : ISt} {t : Tid}

macro "nrm" : tactic =>
  `(tactic| try simp only [setIPc_ar, setIPc_thr, setIPc_shard, setIPc_lock, setIPc_hist, upd_apply] at *)

/-- the embedded arena makes an arena step or stays -/
theorem ar_step_or_same (hs : IStep sh s t s') : s'.ar = s.ar ∨ ArenaT.Step s.ar t s'.ar := by
  cases hs <;> first
    | (left; rfl)
    | (right; exact step_Step ‹_›)

theorem ar_next_mono (hs : IStep sh s t s') : s.ar.next ≤ s'.ar.next := by
  rcases ar_step_or_same hs with h | h
  · rw [h]; exact Nat.le_refl _
  · exact next_mono_step h

theorem ar_inv_step (hJ : JInv sh s) (hs : IStep sh s t s') (hw : s'.ar.next < W) : ArenaT.Inv s'.ar := by
  rcases ar_step_or_same hs with h | h
  · rw [h]; exact hJ.arInv
  · exact inv_step hJ.arInv h hw

theorem ar_hist_mono (hs : IStep sh s t s') : ∀ e, e ∈ s.ar.hist → e ∈ s'.ar.hist := by
  rcases ar_step_or_same hs with h | h
  · rw [h]; exact fun e he => he
  · exact hist_mono_step h

theorem ar_frame (hs : IStep sh s t s') : ∀ t', t' ≠ t → s'.ar.thr t' = s.ar.thr t' := by
  rcases ar_step_or_same hs with h | h
  · rw [h]; exact fun _ _ => rfl
  · exact fun t' ht => thr_frame h ht

/-- a new arena addition is the completion of the stepping thread's `adding`, and it moves that
thread to `insert` with the new reference -/
theorem ar_new_add (hJ : JInv sh s) (hs : IStep sh s t s') (hw : s'.ar.next < W)
    {t' : Tid} {v : Val} {r : Nat} (hm : Ev.addRet t' v r ∈ s'.ar.hist) :
    Ev.addRet t' v r ∈ s.ar.hist ∨
    (t' = t ∧ s.thr t = .adding v ∧ s'.thr t = .insert v r ∧ r ∉ addRefs s.ar.hist) := by
  have hI' := ar_inv_step hJ hs hw
  cases hs
  case startGet r0 ar' hidle hst => left; have := (startGet_spec hst).2.2.2; simp_all
  case startLen ar' hidle hst => left; have := (startLen_spec hst).2.2.2; simp_all
  case checkMiss v0 ar' hpc hf hst => left; have := (startAdd_spec hst).2.2; simp_all
  case addDone v0 ar' t0 v1 r0 rest hpc hst hidle hh =>
    have hv := hJ.addingVal t v0 hpc
    rcases new_addRet (step_Step hst) hm with h | ⟨rfl, hv', _, hh'⟩
    · left; exact h
    · right
      rw [hv] at hv'; cases hv'
      have hr : r0 = r := by
        try simp only [setIPc_ar] at hh'
        rw [hh] at hh'; simp at hh'; exact hh'.1.2.2
      subst hr
      refine ⟨rfl, hpc, by simp, ?_⟩
      have hn := hI'.hist_nodup
      try simp only [setIPc_ar] at hn hh'
      rw [hh', addRefs, List.nodup_cons] at hn
      exact hn.1
  case addMore v0 ar' hpc hst hno =>
    left
    rcases new_addRet (step_Step hst) hm with h | ⟨rfl, _, hidle, hh'⟩
    · exact h
    · exact absurd ⟨hidle, hh'⟩ (hno _ _ _ _)
  case readDone ar' hpc hst hidle =>
    left; exact (addVal_none_step hst (hJ.readingOk t hpc)).2 _ _ _ hm
  case readMore ar' hpc hst hidle =>
    left; exact (addVal_none_step hst (hJ.readingOk t hpc)).2 _ _ _ hm
  all_goals (left; simpa using hm)


/-! ### fields about the arena program counters -/

theorem arIdle_step (hJ : JInv sh s) (hs : IStep sh s t s') :
    ∀ t', arBusy (s'.thr t') = false → s'.ar.thr t' = .idle := by
  have h1 := hJ.arIdle; have hf := ar_frame hs
  cases hs
  case readDone ar' hpc hst hidle =>
    intro t'; simp only [setIPc_thr, setIPc_ar]
    split
    · rintro -; subst_vars; exact hidle
    · rename_i hne; intro hb; have e := hf t' hne; simp only [setIPc_ar] at e; rw [e]; exact h1 t' hb
  case addDone v0 ar' t0 v1 r0 rest hpc hst hidle hh =>
    intro t'; simp only [setIPc_thr, setIPc_ar]
    split
    · rintro -; subst_vars; exact hidle
    · rename_i hne; intro hb; have e := hf t' hne; simp only [setIPc_ar] at e; rw [e]; exact h1 t' hb
  all_goals
    intro t'
    by_cases hne : t' = t
    · subst hne; simp_all [arBusy]
    · have := hf t' hne
      simp_all [arBusy]

theorem addingVal_step (hJ : JInv sh s) (hs : IStep sh s t s') :
    ∀ t' v, s'.thr t' = .adding v → addVal (s'.ar.thr t') = some v := by
  have h1 := hJ.addingVal; have hf := ar_frame hs
  cases hs
  case checkMiss v0 ar' hpc hfi hst =>
    intro t' v; simp only [setIPc_thr, setIPc_ar]
    split
    · rintro h; cases h; subst_vars; rw [(startAdd_spec hst).2.1]; rfl
    · rename_i hne; intro hb; have e := hf t' hne; simp only [setIPc_ar] at e; rw [e]; exact h1 t' v hb
  case addMore v0 ar' hpc hst hno =>
    intro t' v; simp only [setIPc_thr, setIPc_ar]
    split
    · rintro h; cases h; subst_vars
      rcases addVal_step (step_Step hst) (h1 _ _ hpc) with ⟨h, _⟩ | ⟨hidle, r, hh⟩ | ⟨hp, _⟩
      · exact h
      · exact absurd ⟨hidle, hh⟩ (hno _ _ _ _)
      · -- wraparound panic: excluded by the arena invariant (`fetchPanic` needs `next % W < minSize`)
        exfalso
        have hI := hJ.arInv
        have hS := step_Step hst
        cases hS <;> simp_all [addVal]
        all_goals (have := hI.next_mod; have := hI.min_le; omega)
    · rename_i hne; intro hb; have e := hf t' hne; simp only [setIPc_ar] at e; rw [e]; exact h1 t' v hb
  all_goals
    intro t' v
    by_cases hne : t' = t
    · subst hne; simp_all
    · have := hf t' hne
      simp_all

theorem readingOk_step (hJ : JInv sh s) (hs : IStep sh s t s') :
    ∀ t', s'.thr t' = .reading → addVal (s'.ar.thr t') = none := by
  have h1 := hJ.readingOk; have hf := ar_frame hs
  cases hs
  case startGet r0 ar' hidle hst =>
    intro t'; simp only [setIPc_thr, setIPc_ar]
    split
    · rintro -; subst_vars; exact (startGet_spec hst).2.1
    · rename_i hne; intro hb; have e := hf t' hne; simp only [setIPc_ar] at e; rw [e]; exact h1 t' hb
  case startLen ar' hidle hst =>
    intro t'; simp only [setIPc_thr, setIPc_ar]
    split
    · rintro -; subst_vars; exact (startLen_spec hst).2.1
    · rename_i hne; intro hb; have e := hf t' hne; simp only [setIPc_ar] at e; rw [e]; exact h1 t' hb
  case readMore ar' hpc hst hidle =>
    intro t'; simp only [setIPc_thr, setIPc_ar]
    split
    · rintro -; subst_vars; exact (addVal_none_step hst (h1 _ hpc)).1
    · rename_i hne; intro hb; have e := hf t' hne; simp only [setIPc_ar] at e; rw [e]; exact h1 t' hb
  all_goals
    intro t'
    by_cases hne : t' = t
    · subst hne; simp_all
    · have := hf t' hne
      simp_all


/-! ### lock fields -/

theorem wlock_step (hJ : JInv sh s) (hs : IStep sh s t s') :
    ∀ t' v, wval (s'.thr t') = some v → (s'.lock (sh v)).writer = some t' := by
  have h1 := hJ.wlock; have h2 := hJ.wlock'; have h3 := hJ.rlock; have h4 := hJ.excl
  cases hs <;> intro t' v' <;> (try simp) <;> grind [wval, rval, Lock.free]

theorem wlock'_step (hJ : JInv sh s) (hs : IStep sh s t s') :
    ∀ k t', (s'.lock k).writer = some t' → ∃ v, wval (s'.thr t') = some v ∧ sh v = k := by
  have h1 := hJ.wlock; have h2 := hJ.wlock'; have h3 := hJ.rlock; have h4 := hJ.excl
  cases hs <;> intro k t' <;> (try simp) <;> grind [wval, rval, Lock.free]

theorem rlock_step (hJ : JInv sh s) (hs : IStep sh s t s') :
    ∀ k t', t' ∈ (s'.lock k).readers ↔ ∃ v, rval (s'.thr t') = some v ∧ sh v = k := by
  have h1 := hJ.wlock; have h2 := hJ.wlock'; have h3 := hJ.rlock; have h4 := hJ.excl; have h5 := hJ.rnodup
  cases hs <;> intro k t' <;> (try simp) <;> grind [wval, rval, Lock.free, List.Nodup.mem_erase_iff]

theorem excl_step (hJ : JInv sh s) (hs : IStep sh s t s') :
    ∀ k, (s'.lock k).writer ≠ none → (s'.lock k).readers = [] := by
  have h1 := hJ.wlock; have h2 := hJ.wlock'; have h3 := hJ.rlock; have h4 := hJ.excl
  cases hs <;> intro k <;> (try simp) <;> grind [wval, rval, Lock.free]

theorem rnodup_step (hJ : JInv sh s) (hs : IStep sh s t s') : ∀ k, (s'.lock k).readers.Nodup := by
  have h3 := hJ.rlock; have h5 := hJ.rnodup
  cases hs <;> intro k <;> (try simp) <;> grind [rval, Lock.free, List.Nodup.erase, List.nodup_cons]

/-! ### set fields -/

theorem findIn_some_spec {ar : ArenaT.St} (hI : ArenaT.Inv ar) {ids : List Nat} {v : Val} {id : Nat}
    (hd : ∀ id, id ∈ ids → ∃ t v, Ev.addRet t v id ∈ ar.hist) (h : findIn ar ids v = some id) :
    id ∈ ids ∧ ∃ t', Ev.addRet t' v id ∈ ar.hist := by
  obtain ⟨h1, h2⟩ := findIn_some h
  obtain ⟨t', v', hm⟩ := hd id h1
  have := arVal_of_addRet hI hm
  rw [h2] at this; cases this
  exact ⟨h1, t', hm⟩

theorem findIn_none_spec {ar : ArenaT.St} (hI : ArenaT.Inv ar) {ids : List Nat} {v : Val}
    (h : findIn ar ids v = none) : ∀ id, id ∈ ids → ∀ t', Ev.addRet t' v id ∉ ar.hist := by
  intro id hid t' hm
  exact findIn_none h id hid (arVal_of_addRet hI hm)

theorem setDone_step (hJ : JInv sh s) (hs : IStep sh s t s') :
    ∀ k id, id ∈ s'.shard k → ∃ t v, Ev.addRet t v id ∈ s'.ar.hist ∧ sh v = k := by
  have h1 := hJ.setDone; have hm := ar_hist_mono hs; have h2 := hJ.insertOk
  cases hs <;> intro k id <;> nrm <;> grind

theorem setNodup_step (hJ : JInv sh s) (hs : IStep sh s t s') : ∀ k, (s'.shard k).Nodup := by
  have h1 := hJ.setNodup; have h2 := hJ.insertOk
  cases hs <;> intro k <;> nrm <;> grind [List.nodup_cons]
end IsoVerif.InternT
