/-
Facts about single arena steps that the intern model (which embeds the arena) needs.
-/
import IsoVerif.Lemmas.ArenaThms

namespace IsoVerif.ArenaT
open IsoVerif.Arena IsoVerif.Gen.ArenaConsts

variable {s s' : St} {t : Tid}

/-- the element of an `add` in progress -/
def addVal : Pc → Option Elem
  | .addFetch v | .addLoad v _ | .slowLock v _ | .slowRecheck v _ | .slowUnlockFound v _ _
  | .slowStore v _ _ | .slowUnlock v _ _ | .addWrite v _ _ => some v
  | _ => none

theorem base_step (hs : Step s t s') : s'.base = s.base := by
  cases hs <;> rfl

theorem hist_mono_step (hs : Step s t s') : ∀ e, e ∈ s.hist → e ∈ s'.hist := by
  cases hs <;> intro e he <;> simp [he]

/-- a step adds an `addRet` event only by completing the stepping thread's own `add` -/
theorem new_addRet (hs : Step s t s') {t' : Tid} {v : Elem} {r : Nat} (hm : Ev.addRet t' v r ∈ s'.hist) :
    Ev.addRet t' v r ∈ s.hist ∨
    (t' = t ∧ addVal (s.thr t) = some v ∧ s'.thr t = .idle ∧ s'.hist = .addRet t v r :: s.hist) := by
  cases hs <;> (try simp at hm) <;> grind [addVal, setPc_thr, setPc_hist]

/-- an `add` in progress stays an `add` of the same element until it completes (or panics on
wraparound, which the invariant excludes) -/
theorem addVal_step (hs : Step s t s') {v : Elem} (hv : addVal (s.thr t) = some v) :
    (addVal (s'.thr t) = some v ∧ s'.hist = s.hist) ∨
    (s'.thr t = .idle ∧ ∃ r, s'.hist = .addRet t v r :: s.hist) ∨
    (s'.thr t = .panicked ∧ s'.hist = s.hist) := by
  cases hs <;> (try simp at *) <;> grind [addVal, setPc_thr, setPc_hist]

/-- a thread that is not adding does not start adding by a `.step` -/
theorem addVal_none_step (hs : step s t .step = some s') (hv : addVal (s.thr t) = none) :
    addVal (s'.thr t) = none ∧ (∀ t' v r, Ev.addRet t' v r ∈ s'.hist → Ev.addRet t' v r ∈ s.hist) := by
  have hS := step_Step hs
  constructor
  · simp only [step] at hs
    split at hs <;> simp_all [addVal, setPc]
    all_goals (first | (split at hs <;> cases hs <;> simp [addVal]) | (cases hs; simp [addVal]))
  · intro t' v r hm
    rcases new_addRet hS hm with h | ⟨_, h, _⟩
    · exact h
    · rw [hv] at h; cases h

theorem startAdd_spec {v : Elem} (hs : step s t (.startAdd v) = some s') :
    s.thr t = .idle ∧ s'.thr t = .addFetch v ∧ s'.hist = s.hist := by
  simp only [step] at hs
  split at hs
  · cases hs; simp_all
  · cases hs

theorem startGet_spec {r : Nat} (hs : step s t (.startGet r) = some s') :
    s.thr t = .idle ∧ addVal (s'.thr t) = none ∧ s'.thr t ≠ .idle ∧ s'.hist = s.hist := by
  simp only [step] at hs
  split at hs
  · cases hs; simp_all [addVal]
  · cases hs

theorem startLen_spec (hs : step s t .startLen = some s') :
    s.thr t = .idle ∧ addVal (s'.thr t) = none ∧ s'.thr t ≠ .idle ∧ s'.hist = s.hist := by
  simp only [step] at hs
  split at hs
  · cases hs; simp_all [addVal]
  · cases hs

theorem arVal_aux (h : Inv s) {t' : Tid} {v : Elem} {r : Nat} (hm : Ev.addRet t' v r ∈ s.hist) :
    ∃ p, s.bucket (idxA r) = some p ∧ s.mem p (idxB r) = some v := h.slots t' v r hm

/-- two completed additions with the same reference are the same addition -/
theorem addRet_functional (h : Inv s) {t1 t2 : Tid} {v1 v2 : Elem} {r : Nat}
    (h1 : Ev.addRet t1 v1 r ∈ s.hist) (h2 : Ev.addRet t2 v2 r ∈ s.hist) : v1 = v2 := by
  have a := completed_spec h.hist_nodup h1
  have b := completed_spec h.hist_nodup h2
  rw [a] at b; exact Option.some.inj b

end IsoVerif.ArenaT
