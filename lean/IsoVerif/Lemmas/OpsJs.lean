/-
`jsValue_embed`: the JavaScript value of `export default '<t>';` is `dropContinuations t` for every
text `t` the operation-text printer can put between the quotes (`safeEmbedded`).
-/
import IsoVerif.Model.Core.OpsJs
import IsoVerif.Model.Core.Parse

namespace IsoVerif.Ops
open IsoVerif.Core

/-- the text the printer may put between the quotes: every backslash is the first half of a
backslash+LF line continuation, and otherwise no apostrophe, backslash, LF, CR, and only BMP
characters that are not surrogates -/
def safeEmbedded : Str → Bool
  | [] => true
  | 92 :: 10 :: rest => safeEmbedded rest
  | c :: rest => c != 39 && c != 92 && c != 10 && c != 13 && (c < 0xD800 || (0xE000 ≤ c && c < 0x10000)) && safeEmbedded rest

/-! ### `skipTrivia` on input that starts with an ordinary character -/

theorem skipTrivia_of_plain (fuel c : Nat) (rest : Str) (hs : isJsSpace c = false) (h47 : c ≠ 47) :
    skipTrivia fuel (c :: rest) = c :: rest := by
  cases fuel with
  | zero => rfl
  | succ f => simp [skipTrivia, hs, h47]

theorem exportDefault_eq : exportDefault = 101 :: cs!"xport default '" := rfl

theorem exportDefault_isPrefixOf (x : Str) : exportDefault.isPrefixOf (exportDefault ++ x) = true := by
  simp [exportDefault]

theorem exportDefault_drop (x : Str) : (exportDefault ++ x).drop exportDefault.length = x := by
  simp

/-! ### the string body -/

theorem sqBody_safe (t : Str) (h : safeEmbedded t = true) (r : Str) :
    ∀ (fuel : Nat) (acc : List Nat), t.length + 1 ≤ fuel →
      sqBody fuel (t ++ 39 :: r) acc = some (acc.reverse ++ dropContinuations t, r) := by
  fun_induction safeEmbedded t with
  | case1 =>
    intro fuel acc hf
    cases fuel with
    | zero => omega
    | succ f => simp [sqBody, dropContinuations]
  | case2 rest ih =>
    intro fuel acc hf
    cases fuel with
    | zero => omega
    | succ f =>
      have hf' : rest.length + 1 ≤ f := by simp at hf; omega
      simp [sqBody, dropContinuations, ih h f acc hf']
  | case3 c rest hne ih =>
    intro fuel acc hf
    simp only [Bool.and_eq_true, bne_iff_ne, ne_eq] at h
    obtain ⟨⟨⟨⟨⟨h39, h92⟩, h10⟩, h13⟩, hbmp⟩, hrest⟩ := h
    cases fuel with
    | zero => omega
    | succ f =>
      have hf' : rest.length + 1 ≤ f := by simp at hf; omega
      have hlt : c < 0x10000 := by
        simp at hbmp; omega
      have hd : dropContinuations (c :: rest) = c :: dropContinuations rest := by
        rw [dropContinuations]
        intro rest' hc; exact absurd hc h92
      simp [sqBody, h39, h92, h10, h13, utf16Units, hlt, hd, ih hrest f (c :: acc) hf']

/-! ### `unitsToScalars` without surrogates -/

def noSurrogate (l : List Nat) : Prop := ∀ x ∈ l, x < 0xD800 ∨ 0xE000 ≤ x

theorem unitsToScalars_noSurrogate : ∀ (l : List Nat), noSurrogate l → unitsToScalars l = l
  | [], _ => rfl
  | [u], h => by
    have := h u (by simp)
    have hu : ¬ (0xD800 ≤ u ∧ u ≤ 0xDFFF) := by omega
    simp [unitsToScalars, hu]
  | u :: v :: rest, h => by
    have := h u (by simp)
    have ih := unitsToScalars_noSurrogate (v :: rest) (fun x hx => h x (by simp [hx]))
    have hu : ¬ (0xD800 ≤ u ∧ u ≤ 0xDFFF) := by omega
    have hu' : ¬ (0xD800 ≤ u ∧ u ≤ 0xDBFF) := by omega
    simp [unitsToScalars, hu, hu', ih]

theorem noSurrogate_dropContinuations (t : Str) (h : safeEmbedded t = true) :
    noSurrogate (dropContinuations t) := by
  fun_induction safeEmbedded t with
  | case1 => intro x hx; simp [dropContinuations] at hx
  | case2 rest ih => simpa [dropContinuations] using ih h
  | case3 c rest hne ih =>
    simp only [Bool.and_eq_true, bne_iff_ne, ne_eq] at h
    obtain ⟨⟨⟨⟨⟨h39, h92⟩, h10⟩, h13⟩, hbmp⟩, hrest⟩ := h
    have hd : dropContinuations (c :: rest) = c :: dropContinuations rest := by
      rw [dropContinuations]
      intro rest' hc; exact absurd hc h92
    rw [hd]
    intro x hx
    rcases List.mem_cons.mp hx with rfl | hx
    · simp at hbmp; omega
    · exact ih hrest x hx

/-! ### the module -/

theorem jsValue_embed (t : Str) (h : safeEmbedded t = true) :
    jsValue (exportDefault ++ t ++ cs!"';") = some (IsoVerif.Core.dropContinuations t) := by
  have hskip : ∀ n, skipTrivia n (exportDefault ++ t ++ cs!"';") = exportDefault ++ (t ++ cs!"';") := by
    intro n
    rw [List.append_assoc, exportDefault_eq, List.cons_append]
    exact skipTrivia_of_plain n 101 _ (by decide) (by decide)
  have hbody := sqBody_safe t h [59] ((t ++ cs!"';").length + 1) [] (by simp)
  have h59 : ∀ n, skipTrivia n [59] = [59] := fun n => skipTrivia_of_plain n 59 [] (by decide) (by decide)
  unfold jsValue
  simp only [hskip, exportDefault_isPrefixOf, exportDefault_drop, if_true]
  simp only [hbody, List.reverse_nil, List.nil_append, h59]
  simp [skipTrivia, unitsToScalars_noSurrogate _ (noSurrogate_dropContinuations t h)]

example :
    jsValue (exportDefault ++ cs!"query Home {\\\n  me {\\\n    id,\\\n  },\\\n}" ++ cs!"';")
      = some (cs!"query Home {  me {    id,  },}") :=
  jsValue_embed _ (by decide)

/-! ### the escaping embedding (`escapeJs`, `queryTextFile`) -/

/-- any text the printer can produce: no raw line feed except as the second half of a backslash+LF
continuation, no carriage return, only BMP characters that are not surrogates — apostrophes and
backslashes ARE allowed now -/
def embeddable : Str → Bool
  | [] => true
  | 92 :: 10 :: rest => embeddable rest
  | c :: rest => c != 10 && c != 13 && (c < 0xD800 || (0xE000 ≤ c && c < 0x10000)) && embeddable rest

theorem embeddable_cons (c : Nat) (rest : Str) (hne : ∀ rest', c = 92 → rest = 10 :: rest' → False) :
    embeddable (c :: rest)
      = (c != 10 && c != 13 && (c < 0xD800 || (0xE000 ≤ c && c < 0x10000)) && embeddable rest) := by
  rw [embeddable]; exact hne

theorem dropContinuations_cons (c : Nat) (rest : Str) (hne : ∀ rest', c = 92 → rest = 10 :: rest' → False) :
    dropContinuations (c :: rest) = c :: dropContinuations rest := by
  rw [dropContinuations]; exact hne

theorem sqBody_escapeJs (t : Str) (h : embeddable t = true) (r : Str) :
    ∀ (fuel : Nat) (acc : List Nat), (escapeJs t).length + 1 ≤ fuel →
      sqBody fuel (escapeJs t ++ 39 :: r) acc = some (acc.reverse ++ dropContinuations t, r) := by
  fun_induction escapeJs t with
  | case1 =>
    intro fuel acc hf
    cases fuel with
    | zero => omega
    | succ f => simp [sqBody, dropContinuations]
  | case2 rest ih =>
    intro fuel acc hf
    have h' : embeddable rest = true := by simpa [embeddable] using h
    cases fuel with
    | zero => omega
    | succ f =>
      have hf' : (escapeJs rest).length + 1 ≤ f := by simp at hf; omega
      simp [sqBody, dropContinuations, ih h' f acc hf']
  | case3 rest hne ih =>
    intro fuel acc hf
    have hne' : ∀ rest', 92 = 92 → rest = 10 :: rest' → False := fun rest' _ => hne rest'
    rw [embeddable_cons 92 rest hne'] at h
    simp only [Bool.and_eq_true] at h
    cases fuel with
    | zero => omega
    | succ f =>
      have hf' : (escapeJs rest).length + 1 ≤ f := by simp at hf; omega
      simp [sqBody, isDecDigit, utf16Units, dropContinuations_cons 92 rest hne', ih h.2 f (92 :: acc) hf']
  | case4 rest ih =>
    intro fuel acc hf
    have hne' : ∀ rest', 39 = 92 → rest = 10 :: rest' → False := fun _ hc => absurd hc (by decide)
    rw [embeddable_cons 39 rest hne'] at h
    simp only [Bool.and_eq_true] at h
    cases fuel with
    | zero => omega
    | succ f =>
      have hf' : (escapeJs rest).length + 1 ≤ f := by simp at hf; omega
      simp [sqBody, isDecDigit, utf16Units, dropContinuations_cons 39 rest hne', ih h.2 f (39 :: acc) hf']
  | case5 c rest hne h92 h39 ih =>
    intro fuel acc hf
    rw [embeddable_cons c rest hne] at h
    simp only [Bool.and_eq_true, bne_iff_ne, ne_eq] at h
    obtain ⟨⟨⟨h10, h13⟩, hbmp⟩, hrest⟩ := h
    have h92' : ¬ c = 92 := h92
    have h39' : ¬ c = 39 := h39
    cases fuel with
    | zero => omega
    | succ f =>
      have hf' : (escapeJs rest).length + 1 ≤ f := by simp at hf; omega
      have hlt : c < 0x10000 := by
        simp at hbmp; omega
      simp [sqBody, h39', h92', h10, h13, utf16Units, hlt, dropContinuations_cons c rest hne,
        ih hrest f (c :: acc) hf']

theorem noSurrogate_dropContinuations' (t : Str) (h : embeddable t = true) :
    noSurrogate (dropContinuations t) := by
  fun_induction embeddable t with
  | case1 => intro x hx; simp [dropContinuations] at hx
  | case2 rest ih => simpa [dropContinuations] using ih h
  | case3 c rest hne ih =>
    simp only [Bool.and_eq_true, bne_iff_ne, ne_eq] at h
    obtain ⟨⟨⟨h10, h13⟩, hbmp⟩, hrest⟩ := h
    rw [dropContinuations_cons c rest hne]
    intro x hx
    rcases List.mem_cons.mp hx with rfl | hx
    · simp at hbmp; omega
    · exact ih hrest x hx

/-- the JavaScript value of the query_text.ts the (repaired) compiler writes for the operation text
`t` is `t` without the printer's line continuations -/
theorem jsValue_queryTextFile (t : Str) (h : embeddable t = true) :
    jsValue (queryTextFile t) = some (IsoVerif.Core.dropContinuations t) := by
  have hskip : ∀ n, skipTrivia n (exportDefault ++ escapeJs t ++ cs!"';")
      = exportDefault ++ (escapeJs t ++ cs!"';") := by
    intro n
    rw [List.append_assoc, exportDefault_eq, List.cons_append]
    exact skipTrivia_of_plain n 101 _ (by decide) (by decide)
  have hbody := sqBody_escapeJs t h [59] ((escapeJs t ++ cs!"';").length + 1) [] (by simp)
  have h59 : ∀ n, skipTrivia n [59] = [59] := fun n => skipTrivia_of_plain n 59 [] (by decide) (by decide)
  unfold jsValue queryTextFile
  simp only [hskip, exportDefault_isPrefixOf, exportDefault_drop, if_true]
  simp only [hbody, List.reverse_nil, List.nil_append, h59]
  simp [skipTrivia, unitsToScalars_noSurrogate _ (noSurrogate_dropContinuations' t h)]

/-- text without apostrophes and stray backslashes is embedded verbatim -/
theorem escapeJs_of_safeEmbedded (t : Str) (h : safeEmbedded t = true) : escapeJs t = t := by
  fun_induction safeEmbedded t with
  | case1 => rfl
  | case2 rest ih => simp [escapeJs, ih h]
  | case3 c rest hne ih =>
    simp only [Bool.and_eq_true, bne_iff_ne, ne_eq] at h
    obtain ⟨⟨⟨⟨⟨h39, h92⟩, h10⟩, h13⟩, hbmp⟩, hrest⟩ := h
    rw [escapeJs]
    · rw [ih hrest]
    · intro rest' hc; exact absurd hc h92
    · intro hc; exact absurd hc h92
    · intro hc; exact absurd hc h39

theorem embeddable_of_safeEmbedded (t : Str) (h : safeEmbedded t = true) : embeddable t = true := by
  fun_induction safeEmbedded t with
  | case1 => rfl
  | case2 rest ih => simpa [embeddable] using ih h
  | case3 c rest hne ih =>
    rw [embeddable_cons c rest hne]
    simp only [Bool.and_eq_true] at h ⊢
    exact ⟨⟨⟨h.1.1.1.2, h.1.1.2⟩, h.1.2⟩, ih h.2⟩

/-- `jsValue_embed` as a corollary of `jsValue_queryTextFile` -/
theorem jsValue_embed' (t : Str) (h : safeEmbedded t = true) :
    jsValue (exportDefault ++ t ++ cs!"';") = some (IsoVerif.Core.dropContinuations t) := by
  have := jsValue_queryTextFile t (embeddable_of_safeEmbedded t h)
  rwa [queryTextFile, escapeJs_of_safeEmbedded t h] at this

example :
    jsValue (queryTextFile cs!"query Q {\\\n  user(name: \"it's\") {\\\n    id,\\\n  },\\\n}")
      = some cs!"query Q {  user(name: \"it's\") {    id,  },}" :=
  jsValue_queryTextFile _ (by decide)

/-- a backslash in a string argument (`"a\\b"` in GraphQL), followed by a continuation -/
example :
    jsValue (queryTextFile cs!"query Q {\\\n  user(name: \"a\\\\b\\\\\") {\\\n    id,\\\n  },\\\n}")
      = some cs!"query Q {  user(name: \"a\\\\b\\\\\") {    id,  },}" :=
  jsValue_queryTextFile _ (by decide)

/-- a text that ends a line with a backslash that is itself text: `\` `\`+LF -/
example : jsValue (queryTextFile [97, 92, 92, 10, 98]) = some [97, 92, 98] :=
  jsValue_queryTextFile _ (by decide)

end IsoVerif.Ops
