/-
`jsValue_embed`: the JavaScript value of `export default '<t>';` is `dropContinuations t` for every
text `t` the operation-text printer can put between the quotes (`safeEmbedded`).
-/
import IsoVerif.Model.Core.OpsJs
import IsoVerif.Model.Core.Parse

namespace IsoVerif.Ops
open IsoVerif.Core

/-- the text the printer may put between the quotes: every backslash is the first half of a
backslash+LF line continuation, and otherwise no apostrophe, backslash, LF, CR, and only BMP
characters that are not surrogates -/
def safeEmbedded : Str → Bool
  | [] => true
  | 92 :: 10 :: rest => safeEmbedded rest
  | c :: rest => c != 39 && c != 92 && c != 10 && c != 13 && (c < 0xD800 || (0xE000 ≤ c && c < 0x10000)) && safeEmbedded rest

/-! ### `skipTrivia` on input that starts with an ordinary character -/

theorem skipTrivia_of_plain (fuel c : Nat) (rest : Str) (hs : isJsSpace c = false) (h47 : c ≠ 47) :
    skipTrivia fuel (c :: rest) = c :: rest := by
  cases fuel with
  | zero => rfl
  | succ f => simp [skipTrivia, hs, h47]

theorem exportDefault_eq : exportDefault = 101 :: cs!"xport default '" := rfl

theorem exportDefault_isPrefixOf (x : Str) : exportDefault.isPrefixOf (exportDefault ++ x) = true := by
  simp [exportDefault]

theorem exportDefault_drop (x : Str) : (exportDefault ++ x).drop exportDefault.length = x := by
  simp

/-! ### the string body -/

theorem sqBody_safe (t : Str) (h : safeEmbedded t = true) (r : Str) :
    ∀ (fuel : Nat) (acc : List Nat), t.length + 1 ≤ fuel →
      sqBody fuel (t ++ 39 :: r) acc = some (acc.reverse ++ dropContinuations t, r) := by
  fun_induction safeEmbedded t with
  | case1 =>
    intro fuel acc hf
    cases fuel with
    | zero => omega
    | succ f => simp [sqBody, dropContinuations]
  | case2 rest ih =>
    intro fuel acc hf
    cases fuel with
    | zero => omega
    | succ f =>
      have hf' : rest.length + 1 ≤ f := by simp at hf; omega
      simp [sqBody, dropContinuations, ih h f acc hf']
  | case3 c rest hne ih =>
    intro fuel acc hf
    simp only [Bool.and_eq_true, bne_iff_ne, ne_eq] at h
    obtain ⟨⟨⟨⟨⟨h39, h92⟩, h10⟩, h13⟩, hbmp⟩, hrest⟩ := h
    cases fuel with
    | zero => omega
    | succ f =>
      have hf' : rest.length + 1 ≤ f := by simp at hf; omega
      have hlt : c < 0x10000 := by
        simp at hbmp; omega
      have hd : dropContinuations (c :: rest) = c :: dropContinuations rest := by
        rw [dropContinuations]
        intro rest' hc; exact absurd hc h92
      simp [sqBody, h39, h92, h10, h13, utf16Units, hlt, hd, ih hrest f (c :: acc) hf']

/-! ### `unitsToScalars` without surrogates -/

def noSurrogate (l : List Nat) : Prop := ∀ x ∈ l, x < 0xD800 ∨ 0xE000 ≤ x

theorem unitsToScalars_noSurrogate : ∀ (l : List Nat), noSurrogate l → unitsToScalars l = l
  | [], _ => rfl
  | [u], h => by
    have := h u (by simp)
    have hu : ¬ (0xD800 ≤ u ∧ u ≤ 0xDFFF) := by omega
    simp [unitsToScalars, hu]
  | u :: v :: rest, h => by
    have := h u (by simp)
    have ih := unitsToScalars_noSurrogate (v :: rest) (fun x hx => h x (by simp [hx]))
    have hu : ¬ (0xD800 ≤ u ∧ u ≤ 0xDFFF) := by omega
    have hu' : ¬ (0xD800 ≤ u ∧ u ≤ 0xDBFF) := by omega
    simp [unitsToScalars, hu, hu', ih]

theorem noSurrogate_dropContinuations (t : Str) (h : safeEmbedded t = true) :
    noSurrogate (dropContinuations t) := by
  fun_induction safeEmbedded t with
  | case1 => intro x hx; simp [dropContinuations] at hx
  | case2 rest ih => simpa [dropContinuations] using ih h
  | case3 c rest hne ih =>
    simp only [Bool.and_eq_true, bne_iff_ne, ne_eq] at h
    obtain ⟨⟨⟨⟨⟨h39, h92⟩, h10⟩, h13⟩, hbmp⟩, hrest⟩ := h
    have hd : dropContinuations (c :: rest) = c :: dropContinuations rest := by
      rw [dropContinuations]
      intro rest' hc; exact absurd hc h92
    rw [hd]
    intro x hx
    rcases List.mem_cons.mp hx with rfl | hx
    · simp at hbmp; omega
    · exact ih hrest x hx

/-! ### the module -/

theorem jsValue_embed (t : Str) (h : safeEmbedded t = true) :
    jsValue (exportDefault ++ t ++ cs!"';") = some (IsoVerif.Core.dropContinuations t) := by
  have hskip : ∀ n, skipTrivia n (exportDefault ++ t ++ cs!"';") = exportDefault ++ (t ++ cs!"';") := by
    intro n
    rw [List.append_assoc, exportDefault_eq, List.cons_append]
    exact skipTrivia_of_plain n 101 _ (by decide) (by decide)
  have hbody := sqBody_safe t h [59] ((t ++ cs!"';").length + 1) [] (by simp)
  have h59 : ∀ n, skipTrivia n [59] = [59] := fun n => skipTrivia_of_plain n 59 [] (by decide) (by decide)
  unfold jsValue
  simp only [hskip, exportDefault_isPrefixOf, exportDefault_drop, if_true]
  simp only [hbody, List.reverse_nil, List.nil_append, h59]
  simp [skipTrivia, unitsToScalars_noSurrogate _ (noSurrogate_dropContinuations t h)]

example :
    jsValue (exportDefault ++ cs!"query Home {\\\n  me {\\\n    id,\\\n  },\\\n}" ++ cs!"';")
      = some (cs!"query Home {  me {    id,  },}") :=
  jsValue_embed _ (by decide)

end IsoVerif.Ops
