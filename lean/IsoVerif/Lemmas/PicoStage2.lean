/-
C01, stage 2a: ARBITRARY programs (nested calls, diamonds, any parameter shape), histories in which
every source operation precedes every call ("single epoch": calls, lookups, retain / clear /
never-gc and collections may be interleaved freely after the last write).  `exec` simulates the
from-scratch evaluator `evalS` fuel for fuel, the dependency stack playing the role of
`evalS`'s path (cycle check = `assert_no_cycles`).

Invariant (`Mid`): every stored node was verified in the current epoch and holds the
big-step value of its call under the current sources.
-/
import IsoVerif.Lemmas.PicoSem

namespace IsoVerif.Pico

/-- every stored node is verified in the current epoch and correct under the current sources -/
def Mid (P : Prog) (s : Storage) : Prop :=
  ∀ n r, alookup s.derived n = some r → r.tv = s.epoch ∧ ∃ R, BigN P s.srcs s.maps n r.val R

def stackIds (s : Storage) : List NodeId := s.stack.map (·.id)

/-- same sources, same epoch, same frames up to their recorded dependencies -/
structure Same (s s' : Storage) : Prop where
  epoch : s'.epoch = s.epoch
  srcs : s'.srcs = s.srcs
  maps : s'.maps = s.maps
  ids : stackIds s' = stackIds s
  poisoned : s'.poisoned = s.poisoned

theorem Same.refl (s : Storage) : Same s s := ⟨rfl, rfl, rfl, rfl, rfl⟩

theorem Same.trans {a b c : Storage} (h1 : Same a b) (h2 : Same b c) : Same a c :=
  ⟨h2.epoch.trans h1.epoch, h2.srcs.trans h1.srcs, h2.maps.trans h1.maps, h2.ids.trans h1.ids,
   h2.poisoned.trans h1.poisoned⟩

theorem regDep_same (s : Storage) (n : DepNode) (tu : Nat) : Same s (regDep s n tu) := by
  unfold regDep
  cases h : s.stack with
  | nil => exact Same.refl s
  | cons fr rest => exact ⟨rfl, rfl, rfl, by simp [stackIds, h], rfl⟩

theorem regDep_derived (s : Storage) (n : DepNode) (tu : Nat) : (regDep s n tu).derived = s.derived := by
  unfold regDep; cases s.stack <;> rfl

theorem Mid.of_same {P : Prog} {s s' : Storage} (h : Mid P s) (hs : Same s s') (hd : s'.derived = s.derived) :
    Mid P s' := by
  intro n r hn
  rw [hd] at hn
  obtain ⟨h1, h2⟩ := h n r hn
  rw [hs.epoch, hs.srcs, hs.maps]; exact ⟨h1, h2⟩

theorem Mid.regDep {P : Prog} {s : Storage} (h : Mid P s) (n : DepNode) (tu : Nat) : Mid P (regDep s n tu) :=
  h.of_same (regDep_same s n tu) (regDep_derived s n tu)

/-- what `exec` does for a call that evaluates strictly from scratch (with the stack as path) -/
def ExecSim (P : Prog) (n : Nat) : Prop :=
  ∀ (s : Storage) (id : NodeId) (v : Nat), Mid P s →
    evalS n P s.srcs s.maps (stackIds s) id = .ok v →
    ∃ s' b r, exec n P s id = (s', .ok b) ∧ Mid P s' ∧ Same s s' ∧ alookup s'.derived id = some r ∧ r.val = v

theorem callVia_sim {P : Prog} {n : Nat} (hex : ExecSim P n) (s : Storage) (id : NodeId) (v : Nat) (hm : Mid P s)
    (hv : evalS n P s.srcs s.maps (stackIds s) id = .ok v) :
    ∃ s', callVia (exec n P) s id = (s', .ok v) ∧ Mid P s' ∧ Same s s' := by
  obtain ⟨s', b, r, he, hm', hs, hl, hval⟩ := hex s id v hm hv
  refine ⟨s', ?_, hm', hs⟩
  simp only [callVia, he, hl, hval]

/-- bodies: `evalE` with the memoised call simulates `evalP` with the from-scratch call -/
theorem evalE_sim {P : Prog} {n : Nat} (hex : ExecSim P n) :
    ∀ (e : Expr) (a : Nat) (s : Storage) (v : Nat), Mid P s →
      evalP (evalS n P s.srcs s.maps (stackIds s)) P s.srcs s.maps e a = .ok v →
      ∃ s', evalE (callVia (exec n P)) P e a s = (s', .ok v) ∧ Mid P s' ∧ Same s s' := by
  intro e
  induction e with
  | lit k => intro a s v hm h; simp only [evalP] at h; cases h; exact ⟨s, rfl, hm, Same.refl s⟩
  | param => intro a s v hm h; simp only [evalP] at h; cases h; exact ⟨s, rfl, hm, Same.refl s⟩
  | src k ih =>
    intro a s v hm h
    simp only [evalP] at h
    cases hk : evalP (evalS n P s.srcs s.maps (stackIds s)) P s.srcs s.maps k a with
    | panic p => simp [hk] at h
    | ok kv =>
      simp only [hk] at h
      cases hl : alookup s.srcs (.src kv) with
      | none => simp [hl] at h
      | some nd =>
        simp only [hl] at h; cases h
        obtain ⟨s1, he1, hm1, hs1⟩ := ih a s kv hm hk
        refine ⟨regDep s1 (.source (.src kv)) nd.tu, ?_, hm1.regDep _ _, hs1.trans (regDep_same _ _ _)⟩
        simp only [evalE, he1]
        rw [hs1.srcs, hl]
  | sing i =>
    intro a s v hm h
    simp only [evalP] at h
    cases hl : alookup s.srcs (.sing i) with
    | none =>
      simp only [hl] at h; cases h
      exact ⟨regDep s (.absent (.sing i)) s.epoch, by simp only [evalE, hl], hm.regDep _ _, regDep_same _ _ _⟩
    | some nd =>
      simp only [hl] at h; cases h
      exact ⟨regDep s (.source (.sing i)) nd.tu, by simp only [evalE, hl], hm.regDep _ _, regDep_same _ _ _⟩
  | trk i =>
    intro a s v hm h
    simp only [evalP] at h; cases h
    cases hl : alookup s.srcs (.ctr i) with
    | none =>
      exact ⟨regDep s (.absent (.ctr i)) s.epoch, by simp only [evalE, hl], hm.regDep _ _, regDep_same _ _ _⟩
    | some nd =>
      exact ⟨regDep s (.source (.ctr i)) nd.tu, by simp only [evalE, hl], hm.regDep _ _, regDep_same _ _ _⟩
  | call f e ih =>
    intro a s v hm h
    simp only [evalP] at h
    cases he : evalP (evalS n P s.srcs s.maps (stackIds s)) P s.srcs s.maps e a with
    | panic p => simp [he] at h
    | ok av =>
      simp only [he] at h
      obtain ⟨s1, he1, hm1, hs1⟩ := ih a s av hm he
      have hv : evalS n P s1.srcs s1.maps (stackIds s1) (nodeOf P f av) = .ok v := by
        rw [hs1.srcs, hs1.maps, hs1.ids]; exact h
      obtain ⟨s2, hc, hm2, hs2⟩ := callVia_sim hex s1 _ v hm1 hv
      exact ⟨s2, by simp only [evalE, he1, hc], hm2, hs1.trans hs2⟩
  | add x y ihx ihy =>
    intro a s v hm h
    simp only [evalP] at h
    cases hx : evalP (evalS n P s.srcs s.maps (stackIds s)) P s.srcs s.maps x a with
    | panic p => simp [hx] at h
    | ok xv =>
      simp only [hx] at h
      cases hy : evalP (evalS n P s.srcs s.maps (stackIds s)) P s.srcs s.maps y a with
      | panic p => simp [hy] at h
      | ok yv =>
        simp only [hy] at h; cases h
        obtain ⟨s1, he1, hm1, hs1⟩ := ihx a s xv hm hx
        have hy' : evalP (evalS n P s1.srcs s1.maps (stackIds s1)) P s1.srcs s1.maps y a = .ok yv := by
          rw [hs1.srcs, hs1.maps, hs1.ids]; exact hy
        obtain ⟨s2, he2, hm2, hs2⟩ := ihy a s1 yv hm1 hy'
        exact ⟨s2, by simp only [evalE, he1, he2], hm2, hs1.trans hs2⟩
  | eq x y ihx ihy =>
    intro a s v hm h
    simp only [evalP] at h
    cases hx : evalP (evalS n P s.srcs s.maps (stackIds s)) P s.srcs s.maps x a with
    | panic p => simp [hx] at h
    | ok xv =>
      simp only [hx] at h
      cases hy : evalP (evalS n P s.srcs s.maps (stackIds s)) P s.srcs s.maps y a with
      | panic p => simp [hy] at h
      | ok yv =>
        simp only [hy] at h; cases h
        obtain ⟨s1, he1, hm1, hs1⟩ := ihx a s xv hm hx
        have hy' : evalP (evalS n P s1.srcs s1.maps (stackIds s1)) P s1.srcs s1.maps y a = .ok yv := by
          rw [hs1.srcs, hs1.maps, hs1.ids]; exact hy
        obtain ⟨s2, he2, hm2, hs2⟩ := ihy a s1 yv hm1 hy'
        exact ⟨s2, by simp only [evalE, he1, he2], hm2, hs1.trans hs2⟩
  | ite c t e ihc iht ihe =>
    intro a s v hm h
    simp only [evalP] at h
    cases hc : evalP (evalS n P s.srcs s.maps (stackIds s)) P s.srcs s.maps c a with
    | panic p => simp [hc] at h
    | ok cv =>
      simp only [hc] at h
      obtain ⟨s1, he1, hm1, hs1⟩ := ihc a s cv hm hc
      by_cases hz : cv ≠ 0
      · rw [if_pos hz] at h
        have h' : evalP (evalS n P s1.srcs s1.maps (stackIds s1)) P s1.srcs s1.maps t a = .ok v := by
          rw [hs1.srcs, hs1.maps, hs1.ids]; exact h
        obtain ⟨s2, he2, hm2, hs2⟩ := iht a s1 v hm1 h'
        exact ⟨s2, by simp only [evalE, he1]; rw [if_pos hz]; exact he2, hm2, hs1.trans hs2⟩
      · rw [if_neg hz] at h
        have h' : evalP (evalS n P s1.srcs s1.maps (stackIds s1)) P s1.srcs s1.maps e a = .ok v := by
          rw [hs1.srcs, hs1.maps, hs1.ids]; exact h
        obtain ⟨s2, he2, hm2, hs2⟩ := ihe a s1 v hm1 h'
        exact ⟨s2, by simp only [evalE, he1]; rw [if_neg hz]; exact he2, hm2, hs1.trans hs2⟩
  | half x ih =>
    intro a s v hm h
    simp only [evalP] at h
    cases hx : evalP (evalS n P s.srcs s.maps (stackIds s)) P s.srcs s.maps x a with
    | panic p => simp [hx] at h
    | ok xv =>
      simp only [hx] at h; cases h
      obtain ⟨s1, he1, hm1, hs1⟩ := ih a s xv hm hx
      exact ⟨s1, by simp only [evalE, he1], hm1, hs1⟩


theorem any_id_eq_contains (l : List Frame) (id : NodeId) :
    (l.any fun fr => decide (fr.id = id)) = (l.map (·.id)).contains id := by
  induction l with
  | nil => rfl
  | cons fr rest ih =>
    simp only [List.any_cons, List.map_cons, List.contains_cons, ih]
    by_cases h : fr.id = id
    · simp [h]
    · have : ¬ id = fr.id := fun e => h e.symm
      simp [h, this]

theorem pushTop_same (s : Storage) (id : NodeId) : Same s (pushTop s id) ∧ (pushTop s id).derived = s.derived ∧
    (pushTop s id).stack = s.stack := by
  unfold pushTop
  split
  · exact ⟨⟨rfl, rfl, rfl, rfl, rfl⟩, rfl, rfl⟩
  · exact ⟨Same.refl s, rfl, rfl⟩

/-- what `upToDate` (`bring_up_to_date`) does for a call that evaluates from scratch -/
def CoreSim (P : Prog) (n : Nat) : Prop :=
  ∀ (s : Storage) (id : NodeId) (v : Nat), Mid P s →
    evalS n P s.srcs s.maps (stackIds s) id = .ok v →
    ∃ s' b r, upToDate n P s id = (s', .ok b) ∧ Mid P s' ∧ Same s s' ∧ alookup s'.derived id = some r ∧ r.val = v

theorem execSim_of_core {P : Prog} {n : Nat} (hc : CoreSim P n) : ExecSim P n := by
  intro s id v hm hv
  obtain ⟨hs0, hd0, _⟩ := pushTop_same s id
  have hm0 : Mid P (pushTop s id) := hm.of_same hs0 hd0
  have hv0 : evalS n P (pushTop s id).srcs (pushTop s id).maps (stackIds (pushTop s id)) id = .ok v := by
    rw [hs0.srcs, hs0.maps, hs0.ids]; exact hv
  obtain ⟨s', b, r, he, hm', hs', hl, hval⟩ := hc _ id v hm0 hv0
  refine ⟨regDep s' (.derived id) b.2, b.1, r, ?_, hm'.regDep _ _, (hs0.trans hs').trans (regDep_same _ _ _),
    by rw [regDep_derived]; exact hl, hval⟩
  show execF (upToDate n P) s id = _
  unfold execF
  rw [he]

theorem coreSim_succ {P : Prog} {n : Nat} (ih : ExecSim P n) : CoreSim P (n + 1) := by
  intro s0 id v hm0 hv0
  obtain ⟨Rv, hbig⟩ := bigN_of_evalS (n + 1) _ id v hv0
  simp only [upToDate]
  cases hl : alookup s0.derived id with
  | some rev =>
    simp only
    obtain ⟨htv, R, hR⟩ := hm0 id rev hl
    rw [if_pos htv]
    exact ⟨_, (false, rev.tu), rev, rfl, hm0, Same.refl _, hl, (BigE.det hR hbig).1⟩
  | none =>
    simp only
    simp only [evalS] at hv0
    have hnc : (stackIds s0).contains id = false := by
      cases hc : (stackIds s0).contains id with
      | false => rfl
      | true => rw [if_pos hc] at hv0; cases hv0
    rw [if_neg (by rw [hnc]; simp)] at hv0
    have hany : (s0.stack.any fun fr => decide (fr.id = id)) = false := by
      rw [any_id_eq_contains]; exact hnc
    have hm1' : Mid P { s0 with stack := ⟨id, [], 1⟩ :: s0.stack, runs := bump s0.runs id.fn, log := id :: s0.log, events := (false, id) :: s0.events } := by
      intro n' r' hn'; exact hm0 n' r' hn'
    obtain ⟨s2, he2, hm2, hs2⟩ := evalE_sim ih (fnOf P id.fn).body id.arg
      { s0 with stack := ⟨id, [], 1⟩ :: s0.stack, runs := bump s0.runs id.fn, log := id :: s0.log, events := (false, id) :: s0.events } v hm1' hv0
    have hids : stackIds s2 = id :: stackIds s0 := hs2.ids
    cases hstk : s2.stack with
    | nil => simp [stackIds, hstk] at hids
    | cons fr rest =>
      have hrest : rest.map (·.id) = stackIds s0 := by
        simp only [stackIds, hstk, List.map_cons, List.cons.injEq] at hids; exact hids.2
      have hinv : invoke (callVia (execF (upToDate n P))) P s0 id = ({ s2 with stack := rest, events := (true, id) :: s2.events }, .ok (v, fr)) := by
        unfold invoke
        simp only [hany, Bool.false_eq_true, if_false]
        have he2' : evalE (callVia (execF (upToDate n P))) P (fnOf P id.fn).body id.arg
            { s0 with stack := ⟨id, [], 1⟩ :: s0.stack, runs := bump s0.runs id.fn, log := id :: s0.log, events := (false, id) :: s0.events } = (s2, .ok v) := he2
        simp only [he2', hstk]
      simp only [hinv]
      refine ⟨_, (true, fr.maxTu), Rev.mk v fr.maxTu s2.epoch fr.rdeps.reverse, rfl, ?_, ?_, ?_, rfl⟩
      · intro n' r' hn'
        simp only at hn'
        by_cases hid : id = n'
        · subst hid
          rw [alookup_ainsert_self] at hn'; cases hn'
          refine ⟨rfl, Rv, ?_⟩
          show BigN P s2.srcs s2.maps id v Rv
          rw [hs2.srcs, hs2.maps]; exact hbig
        · rw [alookup_ainsert_ne _ _ _ _ hid] at hn'
          exact hm2 n' r' hn'
      · exact ⟨hs2.epoch, hs2.srcs, hs2.maps, by simp [stackIds, hrest], hs2.poisoned⟩
      · exact alookup_ainsert_self _ _ _

theorem execSim (P : Prog) : ∀ n, ExecSim P n := by
  intro n
  induction n with
  | zero => intro s id v _ h; simp [evalS] at h
  | succ n ih => exact execSim_of_core (coreSim_succ ih)

/-! ## histories: writes first, then calls -/

def Op.isSrc : Op → Bool
  | .set _ _ | .rem _ | .sset _ _ | .srem _ | .tins _ _ | .trem _ _ => true
  | _ => false

def Op.isCall : Op → Bool
  | .call _ _ => true
  | _ => false

structure ColdInv (P : Prog) (s : Storage) : Prop where
  stack : s.stack = []
  mid : Mid P s

theorem gc_fields (s : Storage) : (gc s).1.stack = s.stack ∧ (gc s).1.epoch = s.epoch ∧ (gc s).1.srcs = s.srcs ∧
    (gc s).1.maps = s.maps ∧ ∀ n r, alookup (gc s).1.derived n = some r → alookup s.derived n = some r := by
  unfold gc
  simp only
  split
  · exact ⟨rfl, rfl, rfl, rfl, fun _ _ h => h⟩
  · exact ⟨rfl, rfl, rfl, rfl, fun n r h => alookup_filterKey_some _ _ _ _ h⟩

/-- operations that are neither writes nor calls keep the invariant -/
theorem ColdInv.step_other {P : Prog} (fuel : Nat) {s : Storage} (h : ColdInv P s) (op : Op)
    (h1 : op.isSrc = false) (h2 : op.isCall = false) : ColdInv P (step fuel P s op).1 := by
  cases op with
  | set _ _ => simp [Op.isSrc] at h1
  | rem _ => simp [Op.isSrc] at h1
  | sset _ _ => simp [Op.isSrc] at h1
  | srem _ => simp [Op.isSrc] at h1
  | tins _ _ => simp [Op.isSrc] at h1
  | trem _ _ => simp [Op.isSrc] at h1
  | call _ _ => simp [Op.isCall] at h2
  | look f a =>
    unfold step; split
    · exact h
    · simp only; split
      · split <;> exact h
      · exact h
  | retain f a =>
    unfold step; split
    · exact h
    · simp only; split
      · exact ⟨h.stack, fun n r hn => h.mid n r hn⟩
      · exact h
  | unretain f a =>
    unfold step; split
    · exact h
    · simp only; split
      · exact ⟨h.stack, fun n r hn => h.mid n r hn⟩
      · exact h
  | nevergc f a =>
    unfold step; split
    · exact h
    · simp only; split
      · exact ⟨h.stack, fun n r hn => h.mid n r hn⟩
      · exact h
  | gc =>
    unfold step; split
    · exact h
    · obtain ⟨g1, g2, g3, g4, g5⟩ := gc_fields s
      have hres : ColdInv P (IsoVerif.Pico.gc s).1 := by
        refine ⟨g1.trans h.stack, ?_⟩
        intro n r hn
        obtain ⟨a1, a2⟩ := h.mid n r (g5 n r hn)
        rw [g2, g3, g4]; exact ⟨a1, a2⟩
      cases hg : IsoVerif.Pico.gc s with
      | mk s' r =>
        rw [hg] at hres
        cases r <;> exact hres

/-- a clean call keeps the invariant and answers the from-scratch value -/
theorem ColdInv.step_call {P : Prog} (fuel : Nat) {s : Storage} (h : ColdInv P s) (f a v : Nat)
    (hv : evalS fuel P s.srcs s.maps [] (nodeOf P f a) = .ok v) :
    ColdInv P (step fuel P s (.call f a)).1 ∧
      ((step fuel P s (.call f a)).2 = .dead ∨ (step fuel P s (.call f a)).2 = .val v) := by
  unfold step
  by_cases hp : s.poisoned = true
  · rw [if_pos hp]; exact ⟨h, Or.inl rfl⟩
  · rw [if_neg hp]
    have hids : stackIds s = [] := by simp [stackIds, h.stack]
    obtain ⟨s', hc, hm', hs'⟩ := callVia_sim (execSim P fuel) s (nodeOf P f a) v h.mid (by rw [hids]; exact hv)
    simp only [hc]
    refine ⟨⟨?_, fun n r hn => hm' n r hn⟩, by simp⟩
    have := hs'.ids
    simp only [stackIds, h.stack, List.map_nil, List.map_eq_nil_iff] at this
    exact this

/-- writes (and anything else that is not a call) keep an EMPTY cache empty -/
theorem step_noCall_empty (fuel : Nat) (P : Prog) (s : Storage) (op : Op) (hc : op.isCall = false)
    (hd : s.derived = []) (hst : s.stack = []) :
    (step fuel P s op).1.derived = [] ∧ (step fuel P s op).1.stack = [] := by
  have hss : ∀ k v, (setSource s k v).derived = [] ∧ (setSource s k v).stack = [] := by
    intro k v; unfold setSource; split
    · split <;> exact ⟨hd, hst⟩
    · exact ⟨hd, hst⟩
  have hrs : ∀ k, (removeSource s k).derived = [] ∧ (removeSource s k).stack = [] := by
    intro k; unfold removeSource; split <;> exact ⟨hd, hst⟩
  have htc : ∀ m, (touchCounter s m).derived = [] ∧ (touchCounter s m).stack = [] := by
    intro m; unfold touchCounter; split <;> exact hss _ _
  cases op with
  | call _ _ => simp [Op.isCall] at hc
  | set k v =>
    unfold step; split
    · exact ⟨hd, hst⟩
    · exact hss _ _
  | rem k =>
    unfold step; split
    · exact ⟨hd, hst⟩
    · exact hrs _
  | sset k v =>
    unfold step; split
    · exact ⟨hd, hst⟩
    · exact hss _ _
  | srem k =>
    unfold step; split
    · exact ⟨hd, hst⟩
    · exact hrs _
  | tins m k =>
    unfold step; split
    · exact ⟨hd, hst⟩
    · exact htc m
  | trem m k =>
    unfold step; split
    · exact ⟨hd, hst⟩
    · exact htc m
  | look f a =>
    unfold step; split
    · exact ⟨hd, hst⟩
    · simp only; split
      · split <;> exact ⟨hd, hst⟩
      · exact ⟨hd, hst⟩
  | retain f a =>
    unfold step; split
    · exact ⟨hd, hst⟩
    · simp only; split <;> exact ⟨hd, hst⟩
  | unretain f a =>
    unfold step; split
    · exact ⟨hd, hst⟩
    · simp only; split <;> exact ⟨hd, hst⟩
  | nevergc f a =>
    unfold step; split
    · exact ⟨hd, hst⟩
    · simp only; split <;> exact ⟨hd, hst⟩
  | gc =>
    unfold step; split
    · exact ⟨hd, hst⟩
    · obtain ⟨g1, _, _, _, g5⟩ := gc_fields s
      have hres : (IsoVerif.Pico.gc s).1.derived = [] ∧ (IsoVerif.Pico.gc s).1.stack = [] := by
        refine ⟨?_, g1.trans hst⟩
        unfold IsoVerif.Pico.gc; simp only; split <;> simp [hd]
      cases hg : IsoVerif.Pico.gc s with
      | mk s' r => rw [hg] at hres; cases r <;> exact hres

theorem runS_noCall_empty (fuel : Nat) (P : Prog) : ∀ (ops : List Op) (s : Storage),
    (∀ op, op ∈ ops → op.isCall = false) → s.derived = [] → s.stack = [] →
    (runS fuel P s ops).derived = [] ∧ (runS fuel P s ops).stack = [] := by
  intro ops
  induction ops with
  | nil => intro s _ hd hst; exact ⟨hd, hst⟩
  | cons op ops ih =>
    intro s hall hd hst
    rw [runS_cons]
    obtain ⟨h1, h2⟩ := step_noCall_empty fuel P s op (hall op List.mem_cons_self) hd hst
    exact ih _ (fun o ho => hall o (List.mem_cons_of_mem _ ho)) h1 h2

/-- the invariant along the second phase -/
theorem coldInv_runS {P : Prog} (fuel : Nat) : ∀ (ops : List Op) (s : Storage), ColdInv P s →
    (∀ op, op ∈ ops → op.isSrc = false) →
    (∀ p f a rest, ops = p ++ Op.call f a :: rest →
        ∃ v, evalS fuel P (runS fuel P s p).srcs (runS fuel P s p).maps [] (nodeOf P f a) = .ok v) →
    ColdInv P (runS fuel P s ops) := by
  intro ops
  induction ops with
  | nil => intro s h _ _; exact h
  | cons op ops ih =>
    intro s h hns hc
    rw [runS_cons]
    have hstep : ColdInv P (step fuel P s op).1 := by
      by_cases hcall : op.isCall = true
      · cases op with
        | call f a =>
          obtain ⟨v, hv⟩ := hc [] f a ops rfl
          exact (h.step_call fuel f a v hv).1
        | _ => simp [Op.isCall] at hcall
      · exact h.step_other fuel op (hns op List.mem_cons_self) (by simpa using hcall)
    refine ih _ hstep (fun o ho => hns o (List.mem_cons_of_mem _ ho)) ?_
    intro p f a rest hp
    have := hc (op :: p) f a rest (by rw [hp]; rfl)
    rw [runS_cons] at this; exact this

/-- **C01, stage 2a** -/
theorem c01_stage2a {P : Prog} (fuel cap : Nat) (h1 h2 : List Op)
    (hw : ∀ op, op ∈ h1 → op.isCall = false) (hc : ∀ op, op ∈ h2 → op.isSrc = false)
    (hclean : CleanCalls fuel cap P (h1 ++ h2))
    (pre : List Op) (f a : Nat) (rest : List Op) (hh : h1 ++ h2 = pre ++ Op.call f a :: rest) :
    (step fuel P (after fuel cap P pre) (.call f a)).2 = .dead ∨
      (step fuel P (after fuel cap P pre) (.call f a)).2 = outOfRes (evalScratch fuel P (after fuel cap P pre) (nodeOf P f a)) := by
  -- the call lies in the second phase
  obtain ⟨p, hpre, hh2⟩ : ∃ p, pre = h1 ++ p ∧ h2 = p ++ Op.call f a :: rest := by
    rcases List.append_eq_append_iff.1 hh with ⟨a', ha1, ha2⟩ | ⟨c', hc1, hc2⟩
    · exact ⟨a', ha1, ha2⟩
    · cases c' with
      | nil => exact ⟨[], by simpa using hc1.symm, by simpa using hc2.symm⟩
      | cons o c'' =>
        simp only [List.cons_append, List.cons.injEq] at hc2
        have : Op.call f a ∈ h1 := by rw [hc1, ← hc2.1]; simp
        have := hw _ this
        simp [Op.isCall] at this
  -- the invariant at that point
  have hcold1 : ColdInv P (after fuel cap P h1) := by
    obtain ⟨d, st⟩ := runS_noCall_empty fuel P h1 (initS cap P) hw rfl rfl
    exact ⟨st, fun n r hn => by rw [show (after fuel cap P h1).derived = [] from d] at hn; simp at hn⟩
  have hcold : ColdInv P (after fuel cap P pre) := by
    rw [hpre]; unfold after; rw [runS_append]
    refine coldInv_runS fuel p _ hcold1 (fun o ho => hc o (by rw [hh2]; exact List.mem_append_left _ ho)) ?_
    intro q f' a' rest' hq
    have := hclean (h1 ++ q) f' a' (rest' ++ Op.call f a :: rest) (by rw [hh2, hq]; simp)
    unfold after at this; rw [runS_append] at this; exact this
  obtain ⟨v, hv⟩ := hclean pre f a rest hh
  rcases (hcold.step_call fuel f a v hv).2 with hd | hval
  · exact Or.inl hd
  · right; rw [hval]; unfold evalScratch; rw [hv]; rfl

end IsoVerif.Pico
