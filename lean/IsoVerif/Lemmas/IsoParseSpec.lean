/-
`parseX_spec` lemmas: every function of the parser model keeps the `PeekableLexer` invariant,
does not panic, produces only good spans, and (where stated) consumes at least one token.
-/
import IsoVerif.Lemmas.IsoParsePrim

namespace IsoVerif.IsoParse
open IsoVerif.Lex IsoVerif.IsoLex IsoVerif.Gen.IsoTokens

variable {src : Bytes}

/-! ## `Good` -/

theorem good_iff {α : Type} [Spans α] (a : α) : Good src a ↔ ∀ sp ∈ spans a, GoodSpan src sp := Iff.rfl

@[simp] theorem good_span (sp : Span) : Good src sp ↔ GoodSpan src sp := by
  simp [Good, spans]
@[simp] theorem good_unit (u : Unit) : Good src u := by simp [Good, spans]
@[simp] theorem good_bytes (b : Bytes) : Good src b := by simp [Good, spans]
@[simp] theorem good_dirset (b : DirSet) : Good src b := by simp [Good, spans]
@[simp] theorem good_loc {α : Type} [Spans α] (l : Loc α) : Good src l ↔ GoodSpan src l.span ∧ Good src l.item := by
  simp [Good, spans]
@[simp] theorem good_none {α : Type} [Spans α] : Good src (none : Option α) := by simp [Good, spans]
@[simp] theorem good_some {α : Type} [Spans α] (a : α) : Good src (some a) ↔ Good src a := by simp [Good, spans]
@[simp] theorem good_nil {α : Type} [Spans α] : Good src ([] : List α) := by simp [Good, spans]
@[simp] theorem good_cons {α : Type} [Spans α] (a : α) (l : List α) : Good src (a :: l) ↔ Good src a ∧ Good src l := by
  simp [Good, spans, or_imp, forall_and]
@[simp] theorem good_append {α : Type} [Spans α] (l1 l2 : List α) : Good src (l1 ++ l2) ↔ Good src l1 ∧ Good src l2 := by
  simp [Good, spans, or_imp, forall_and]
@[simp] theorem good_pair {α β : Type} [Spans α] [Spans β] (a : α) (b : β) : Good src (a, b) ↔ Good src a ∧ Good src b := by
  simp [Good, spans, or_imp, forall_and]
theorem good_list {α : Type} [Spans α] (l : List α) : Good src l ↔ ∀ x ∈ l, Good src x := by
  induction l with
  | nil => simp
  | cons a l ih => simp [ih]

/-! ## bind variants with the consumption flags fixed (no Boolean metavariables) -/

theorem Spec.bindF {α β : Type} {G1 : α → Prop} {G2 : β → Prop} {c1 : Bool} {p : P α} {f : α → P β}
    (h1 : Spec src c1 p G1) (h2 : ∀ a, G1 a → Spec src false (f a) G2) : Spec src false (p >>= f) G2 :=
  (Spec.bind h1 h2).weaken (by simp) (fun _ h => h)

theorem Spec.bindL {α β : Type} {G1 : α → Prop} {G2 : β → Prop} {p : P α} {f : α → P β}
    (h1 : Spec src true p G1) (h2 : ∀ a, G1 a → Spec src false (f a) G2) : Spec src true (p >>= f) G2 :=
  (Spec.bind h1 h2).weaken (by simp) (fun _ h => h)

theorem Spec.bindR {α β : Type} {G1 : α → Prop} {G2 : β → Prop} {c1 : Bool} {p : P α} {f : α → P β}
    (h1 : Spec src c1 p G1) (h2 : ∀ a, G1 a → Spec src true (f a) G2) : Spec src true (p >>= f) G2 :=
  (Spec.bind h1 h2).weaken (by simp) (fun _ h => h)

theorem Spec.attemptF {α β : Type} {G1 : α → Prop} {G2 : β → Prop} {c1 : Bool} {p : P α}
    {k : Except Diag α → P β}
    (h1 : Spec src c1 p G1) (hok : ∀ a, G1 a → Spec src false (k (.ok a)) G2)
    (herr : ∀ d, DiagGood src d → Spec src false (k (.error d)) G2) : Spec src false (attempt p >>= k) G2 :=
  (Spec.attemptBind h1 hok herr).weaken (by simp) (fun _ h => h)

/-- both outcomes of the attempt lead to consumption -/
theorem Spec.attemptT {α β : Type} {G1 : α → Prop} {G2 : β → Prop} {p : P α}
    {k : Except Diag α → P β}
    (h1 : Spec src true p G1) (hok : ∀ a, G1 a → Spec src false (k (.ok a)) G2)
    (herr : ∀ d, DiagGood src d → Spec src true (k (.error d)) G2) : Spec src true (attempt p >>= k) G2 :=
  (Spec.attemptBind h1 hok herr).weaken (by simp) (fun _ h => h)

theorem Spec.toFalse {α : Type} {G : α → Prop} {c : Bool} {p : P α} (h : Spec src c p G) : Spec src false p G :=
  h.weaken (by simp) (fun _ h => h)

theorem Spec.imp {α : Type} {G G' : α → Prop} {c : Bool} {p : P α} (h : Spec src c p G) (hG : ∀ a, G a → G' a) :
    Spec src c p G' := h.weaken (fun h => h) hG

/-! ## optional results -/

/-- `ok none` leaves the state untouched, `ok (some a)` consumed at least one token -/
def SpecOpt {α : Type} (src : Bytes) (p : P (Option α)) (G : α → Prop) : Prop :=
  ∀ st, WF src st →
    match p st with
    | .ok none st' => st' = st
    | .ok (some a) st' => WF src st' ∧ Adv st st' ∧ G a ∧ Consumed st st'
    | .err d st' => WF src st' ∧ Adv st st' ∧ DiagGood src d
    | .panic _ => False
    | .fuel => True

theorem SpecOpt.toSpec {α : Type} {p : P (Option α)} {G : α → Prop} (h : SpecOpt src p G) :
    Spec src false p (fun o => ∀ a, o = some a → G a) := by
  intro st hwf
  have := h st hwf
  cases hp : p st with
  | ok o st' =>
    rw [hp] at this
    cases o with
    | none => subst this; exact ⟨hwf, Adv.refl _, by simp, by simp⟩
    | some a => exact ⟨this.1, this.2.1, by simpa using this.2.2.1, by simp⟩
  | err d st' => rw [hp] at this; exact this
  | panic s => rw [hp] at this; exact this
  | fuel => trivial

/-- `with_embedded_location_optional_result` -/
theorem specOpt_withOptLoc {α : Type} {G : α → Prop} {p : P (Option α)} (h : SpecOpt src p G) :
    SpecOpt src (withOptLoc p) (fun l => GoodSpan src l.span ∧ G l.item) := by
  intro st hwf
  simp only [withOptLoc, bind_apply, get_apply]
  have hp := h st hwf
  cases hps : p st with
  | ok o st1 =>
    rw [hps] at hp
    cases o with
    | none =>
      subst hp
      simp [get_apply, pure_apply]
    | some a =>
      obtain ⟨hwf1, hadv, hg, hc⟩ := hp
      have hle : st.cur.s ≤ st1.eolp := Nat.le_trans hwf.cur_le hc
      simp only [get_apply, IsoParse.spanNew, hle, if_true, pure_apply, bind_apply]
      exact ⟨hwf1, hadv, ⟨⟨hle, hwf.cur_s, hwf1.eolp⟩, hg⟩, hc⟩
  | err d st1 => rw [hps] at hp; simpa using hp
  | panic s => rw [hps] at hp; exact hp
  | fuel => trivial

/-! ## small pieces -/

theorem spec_whiteSpaceSpan : Spec src false whiteSpaceSpan (fun sp => GoodSpan src sp) := by
  intro st hwf
  simp only [whiteSpaceSpan, bind_apply, get_apply, IsoParse.spanNew, hwf.eolp_le, if_true, pure_apply]
  exact ⟨hwf, Adv.refl _, ⟨hwf.eolp_le, hwf.eolp, hwf.cur_s⟩, by simp⟩

theorem spec_revSem : Spec src false revSem (fun _ => True) := by
  intro st hwf
  simp only [revSem, bind_apply, get_apply, pure_apply]
  exact ⟨hwf, Adv.refl _, trivial, by simp⟩

/-- `remaining_token_span` -/
theorem spec_remainingTokenSpan : Spec src false remainingTokenSpan (fun o => Good src o) := by
  intro st hwf
  simp only [remainingTokenSpan, bind_apply, get_apply]
  by_cases hk : st.cur.kind = .EndOfFile
  · simp only [hk, if_true, pure_apply]
    exact ⟨hwf, Adv.refl _, by simp, by simp⟩
  · simp only [hk, if_false]
    obtain ⟨st', h1, h2, h3, _⟩ := parseToken_ok .COMMENT st hwf hk
    have hle : st.cur.s ≤ st.src.length := by rw [hwf.src_eq]; exact hwf.cur_s.1
    simp only [h1, IsoParse.spanNew, hle, if_true, pure_apply, bind_apply]
    refine ⟨h2, h3, ?_, by simp⟩
    simp only [good_some, good_span]
    exact ⟨hle, hwf.cur_s, by rw [hwf.src_eq]; exact goodPos_len src⟩

theorem spec_parseComma : Spec src true parseComma (fun _ => True) :=
  (spec_tokenOfKind .Comma .COMMA (by decide)).imp (fun _ _ => trivial)

theorem spec_parseLineBreak : Spec src false parseLineBreak (fun _ => True) := by
  unfold parseLineBreak
  refine Spec.bindF spec_whiteSpaceSpan fun ws hws => Spec.bindF (spec_source ws hws) fun text _ => ?_
  split
  · exact Spec.pure _ trivial
  · exact Spec.bindF spec_peek fun t ht => Spec.fail _ ht

theorem spec_parseCommaOrLineBreak : Spec src false parseCommaOrLineBreak (fun _ => True) := by
  unfold parseCommaOrLineBreak
  refine Spec.attemptF spec_parseComma (fun _ _ => Spec.pure _ trivial) fun _ _ => ?_
  refine Spec.attemptF spec_parseLineBreak (fun _ _ => Spec.pure _ trivial) fun _ _ => ?_
  exact Spec.bindF spec_peek fun t ht => Spec.fail _ ht

/-- `parse_delimited_list` -/
theorem spec_delimLoop {α : Type} {G : α → Prop} {item : P α} (hitem : Spec src true item G)
    {delim : P Unit} (hdelim : Spec src false delim (fun _ => True)) (closeK : IsoKind) (closeT : ST)
    (hk : closeK ≠ .EndOfFile) : ∀ (fuel : Nat) (acc : List α), (∀ x ∈ acc, G x) →
    Spec src true (delimLoop item delim closeK closeT fuel acc) (fun l => GoodSpan src l.span ∧ ∀ x ∈ l.item, G x)
  | 0, _, _ => Spec.outOfFuel
  | fuel + 1, acc, hacc => by
    unfold delimLoop
    refine Spec.bindL hitem fun x hx => ?_
    have hacc' : ∀ y ∈ acc ++ [x], G y := by
      intro y hy
      simp only [List.mem_append, List.mem_singleton] at hy
      rcases hy with hy | rfl
      · exact hacc y hy
      · exact hx
    refine Spec.attemptF (spec_tokenOfKind closeK closeT hk) (fun t ht => Spec.pure _ ⟨ht.1, hacc'⟩) fun _ _ => ?_
    refine Spec.bindF hdelim fun _ _ => ?_
    refine Spec.attemptF (spec_tokenOfKind closeK closeT hk) (fun t ht => Spec.pure _ ⟨ht.1, hacc'⟩) fun _ _ => ?_
    exact (spec_delimLoop hitem hdelim closeK closeT hk fuel (acc ++ [x]) hacc').toFalse

theorem spec_delimitedList {α : Type} {G : α → Prop} {item : P α} (hitem : Spec src true item G)
    {delim : P Unit} (hdelim : Spec src false delim (fun _ => True)) (closeK : IsoKind) (closeT : ST)
    (hk : closeK ≠ .EndOfFile) (fuel : Nat) :
    Spec src true (delimitedList item delim closeK closeT fuel) (fun l => GoodSpan src l.span ∧ ∀ x ∈ l.item, G x) := by
  unfold delimitedList
  refine Spec.attemptT (spec_tokenOfKind closeK closeT hk) (fun t ht => Spec.pure _ ⟨ht.1, by simp⟩) fun _ _ => ?_
  exact spec_delimLoop hitem hdelim closeK closeT hk fuel [] (by simp)

/-! ## eliminating a `Spec` at a concrete run -/

theorem Spec.ok {α : Type} {G : α → Prop} {c : Bool} {p : P α} (h : Spec src c p G) {st st' : PL} {a : α}
    (hwf : WF src st) (hp : p st = .ok a st') : WF src st' ∧ Adv st st' ∧ G a ∧ (c = true → Consumed st st') := by
  have := h st hwf; rw [hp] at this; exact this

theorem Spec.err {α : Type} {G : α → Prop} {c : Bool} {p : P α} (h : Spec src c p G) {st st' : PL} {d : Diag}
    (hwf : WF src st) (hp : p st = .err d st') : WF src st' ∧ Adv st st' ∧ DiagGood src d := by
  have := h st hwf; rw [hp] at this; exact this

theorem Spec.noPanic {α : Type} {G : α → Prop} {c : Bool} {p : P α} (h : Spec src c p G) {st : PL} {s : Site}
    (hwf : WF src st) (hp : p st = .panic s) : False := by
  have := h st hwf; rw [hp] at this; exact this

/-! ## where a consumed token sits -/

theorem bind_ok {α β : Type} {p : P α} {f : α → P β} {st st' : PL} {b : β} (h : (p >>= f) st = .ok b st') :
    ∃ a st1, p st = .ok a st1 ∧ f a st1 = .ok b st' := by
  rw [bind_apply] at h
  cases hp : p st with
  | ok a st1 => rw [hp] at h; exact ⟨a, st1, rfl, h⟩
  | err d st1 => rw [hp] at h; cases h
  | panic s => rw [hp] at h; cases h
  | fuel => rw [hp] at h; cases h

theorem attempt_ok {α : Type} {p : P α} {st st1 : PL} {r : Except Diag α} (h : attempt p st = .ok r st1) :
    (∃ a, r = .ok a ∧ p st = .ok a st1) ∨ (∃ d, r = .error d ∧ p st = .err d st1) := by
  unfold attempt at h
  cases hp : p st with
  | ok a st' => rw [hp] at h; cases h; exact .inl ⟨a, rfl, rfl⟩
  | err d st' => rw [hp] at h; cases h; exact .inr ⟨d, rfl, rfl⟩
  | panic s => rw [hp] at h; cases h
  | fuel => rw [hp] at h; cases h

theorem pure_ok {α : Type} {a b : α} {st st' : PL} (h : (pure a : P α) st = .ok b st') : b = a ∧ st' = st := by
  rw [pure_apply] at h; cases h; exact ⟨rfl, rfl⟩

theorem tokenOfKind_bounds {k : IsoKind} {t : ST} {st st' : PL} {tok : Tok IsoKind}
    (h : tokenOfKind k t st = .ok tok st') : tok = st.cur ∧ st'.eolp = tok.e := by
  simp only [tokenOfKind, bind_apply, peek_apply] at h
  by_cases hkk : st.cur.kind = k
  · simp only [hkk, if_true] at h
    unfold parseToken at h
    split at h
    all_goals (cases h; exact ⟨rfl, rfl⟩)
  · simp only [hkk, if_false, fail_apply] at h
    cases h

theorem source_ok_state {sp : Span} {st st' : PL} {b : Bytes} (h : source sp st = .ok b st') : st' = st := by
  unfold source at h
  split at h
  · cases h; rfl
  · cases h

theorem sourceOfKind_bounds {k : IsoKind} {t : ST} {st st' : PL} {l : Loc Bytes}
    (h : sourceOfKind k t st = .ok l st') : l.span = tokSpan st.cur ∧ st'.eolp = l.span.e := by
  unfold sourceOfKind at h
  obtain ⟨tok, st1, h1, h⟩ := bind_ok h
  obtain ⟨text, st2, h2, h⟩ := bind_ok h
  obtain ⟨rfl, rfl⟩ := pure_ok h
  obtain ⟨rfl, he⟩ := tokenOfKind_bounds h1
  have := source_ok_state h2
  subst this
  exact ⟨rfl, he⟩

/-- `parse_delimited_list` returns right after consuming the closing token -/
theorem delimLoop_bounds {α : Type} (item : P α) (delim : P Unit) (closeK : IsoKind) (closeT : ST) :
    ∀ (fuel : Nat) (acc : List α) (st st' : PL) (l : Loc (List α)),
    delimLoop item delim closeK closeT fuel acc st = .ok l st' → st'.eolp = l.span.e
  | 0, _, _, _, _, h => by simp [delimLoop, outOfFuel] at h
  | fuel + 1, acc, st, st', l, h => by
    unfold delimLoop at h
    obtain ⟨x, st1, _, h⟩ := bind_ok h
    obtain ⟨r, st2, h2, h⟩ := bind_ok h
    rcases attempt_ok h2 with ⟨t, rfl, ht⟩ | ⟨d, rfl, _⟩
    · obtain ⟨rfl, rfl⟩ := pure_ok h
      exact (tokenOfKind_bounds ht).2
    · obtain ⟨_, st3, _, h⟩ := bind_ok h
      obtain ⟨r, st4, h4, h⟩ := bind_ok h
      rcases attempt_ok h4 with ⟨t, rfl, ht⟩ | ⟨d, rfl, _⟩
      · obtain ⟨rfl, rfl⟩ := pure_ok h
        exact (tokenOfKind_bounds ht).2
      · exact delimLoop_bounds item delim closeK closeT fuel _ st4 st' l h

theorem delimitedList_bounds {α : Type} (item : P α) (delim : P Unit) (closeK : IsoKind) (closeT : ST) (fuel : Nat)
    (st st' : PL) (l : Loc (List α)) (h : delimitedList item delim closeK closeT fuel st = .ok l st') :
    st'.eolp = l.span.e := by
  unfold delimitedList at h
  obtain ⟨r, st2, h2, h⟩ := bind_ok h
  rcases attempt_ok h2 with ⟨t, rfl, ht⟩ | ⟨d, rfl, _⟩
  · obtain ⟨rfl, rfl⟩ := pure_ok h
    exact (tokenOfKind_bounds ht).2
  · exact delimLoop_bounds item delim closeK closeT fuel [] st2 st' l h

end IsoVerif.IsoParse
