/-
The traversal of `Model/Core/Merge.lean` (`emitSel`, `emitSels`, `emitSet`, `mergeSel`) under the three
rearrangements of C15: permuting selection sets (at every depth), selecting a field a second time,
moving selections into a client field selected at the same place.
Core Lean only.
-/
import IsoVerif.Lemmas.MergeMap
-- import IsoVerif.Lemmas.MergeOrder   (add when it exists)

namespace IsoVerif.Core.Merge

open IsoVerif.Core
open IsoVerif.Core.Validate (lookup Selectable SelKind)

/-! ### the rearrangements, on located selections -/

mutual
/-- the same selection with its sub-selections rearranged -/
inductive SelPerm : LSel → LSel → Prop where
  | scalar (h : LHead) : SelPerm (.scalar h) (.scalar h)
  | linked (h : LHead) {ks ks' : List LSel} : SelsPerm ks ks' → SelPerm (.linked h ks) (.linked h ks')
/-- a selection set rearranged: permuted, and every member rearranged inside -/
inductive SelsPerm : List LSel → List LSel → Prop where
  | nil : SelsPerm [] []
  | cons {s s' : LSel} {l l' : List LSel} : SelPerm s s' → SelsPerm l l' → SelsPerm (s :: l) (s' :: l')
  | swap (s t : LSel) (l : List LSel) : SelsPerm (s :: t :: l) (t :: s :: l)
  | trans {a b c : List LSel} : SelsPerm a b → SelsPerm b c → SelsPerm a c
end

/-- the selection of an extracted client field: every variable is passed through under its own name -/
def callOf (name : String) (vars : List VarDef) : LSel :=
  .scalar ⟨name, vars.map (fun d => ⟨d.name, .var d.name, []⟩), []⟩

/-- `ty.name` is a client field with variables `vars` (no defaults) whose selection set is `body` -/
structure Extracted (p : Project) (expand : Expand) (ty name : String) (vars : List VarDef)
    (body : List LSel) : Prop where
  lookup_eq : lookup p ty name = some ⟨.clientField, vars, none⟩
  decl : ∃ i d, findDecl p ty name = some (i, d) ∧ d.vars = vars
  /-- its merged map under its own initial context is that of `body` -/
  expand_eq : expand ty name = some (mergeSel p expand ty body (initialCtx vars) [])
  no_defaults : ∀ d ∈ vars, d.default = none
  distinct : (vars.map (·.name)).Nodup

mutual
/-- variables occurring in the arguments of a selection, at any depth of the selection and of the values -/
def lselVars : LSel → List String
  | .scalar h => h.args.flatMap (·.value.variables)
  | .linked h kids => h.args.flatMap (·.value.variables) ++ lselsVars kids
def lselsVars : List LSel → List String
  | [] => []
  | s :: rest => lselVars s ++ lselsVars rest
end

end IsoVerif.Core.Merge
