/-
The traversal of `Model/Core/Merge.lean` (`emitSel`, `emitSels`, `emitSet`, `mergeSel`) under the three
rearrangements of C15: permuting selection sets (at every depth), selecting a field a second time,
moving selections into a client field selected at the same place.
Core Lean only.
-/
import IsoVerif.Lemmas.MergeMap
import IsoVerif.Lemmas.MergeOrder

namespace IsoVerif.Core.Merge

open IsoVerif.Core
open IsoVerif.Core.Validate (lookup Selectable SelKind)

/-! ### the rearrangements, on located selections -/

mutual
/-- the same selection with its sub-selections rearranged -/
inductive SelPerm : LSel → LSel → Prop where
  | scalar (h : LHead) : SelPerm (.scalar h) (.scalar h)
  | linked (h : LHead) {ks ks' : List LSel} : SelsPerm ks ks' → SelPerm (.linked h ks) (.linked h ks')
/-- a selection set rearranged: permuted, and every member rearranged inside -/
inductive SelsPerm : List LSel → List LSel → Prop where
  | nil : SelsPerm [] []
  | cons {s s' : LSel} {l l' : List LSel} : SelPerm s s' → SelsPerm l l' → SelsPerm (s :: l) (s' :: l')
  | swap (s t : LSel) (l : List LSel) : SelsPerm (s :: t :: l) (t :: s :: l)
  | trans {a b c : List LSel} : SelsPerm a b → SelsPerm b c → SelsPerm a c
end

/-- the selection of an extracted client field: every variable is passed through under its own name -/
def callOf (name : String) (vars : List VarDef) : LSel :=
  .scalar ⟨name, vars.map (fun d => ⟨d.name, .var d.name⟩), []⟩

/-- `ty.name` is a client field with variables `vars` (no defaults) whose selection set is `body` -/
structure Extracted (p : Project) (expand : Expand) (ty name : String) (vars : List VarDef)
    (body : List LSel) : Prop where
  lookup_eq : lookup p ty name = some ⟨.clientField, vars, none⟩
  decl : ∃ i d, findDecl p ty name = some (i, d) ∧ d.vars = vars
  /-- its merged map under its own initial context is that of `body` -/
  expand_eq : expand ty name = some (mergeSel p expand ty body (initialCtx vars) [])
  no_defaults : ∀ d ∈ vars, d.default = none
  distinct : (vars.map (·.name)).Nodup

mutual
/-- variables occurring in the arguments of a selection, at any depth of the selection and of the values -/
def lselVars : LSel → List String
  | .scalar h => h.args.flatMap (·.value.variables)
  | .linked h kids => h.args.flatMap (·.value.variables) ++ lselsVars kids
def lselsVars : List LSel → List String
  | [] => []
  | s :: rest => lselVars s ++ lselsVars rest
end


section
variable {p : Project} {ex : Expand}

/-! ### structure of the traversal -/

theorem emitSels_nil (ty : String) (c : VarCtx) (pre : List KeyK) : emitSels p ex ty c pre [] = [] := by
  rw [emitSels]

theorem emitSels_cons (ty : String) (c : VarCtx) (pre : List KeyK) (s : LSel) (l : List LSel) :
    emitSels p ex ty c pre (s :: l) = emitSel p ex ty c pre s ++ emitSels p ex ty c pre l := by
  rw [emitSels]

theorem emitSels_append {ty : String} {c : VarCtx} {pre : List KeyK} {a b : List LSel} :
    emitSels p ex ty c pre (a ++ b) = emitSels p ex ty c pre a ++ emitSels p ex ty c pre b := by
  induction a with
  | nil => simp [emitSels_nil]
  | cons s a ih => simp [emitSels_cons, ih]

theorem mem_emitSels {ty : String} {c : VarCtx} {pre : List KeyK} {l : List LSel} {e : Entry} :
    e ∈ emitSels p ex ty c pre l ↔ ∃ s ∈ l, e ∈ emitSel p ex ty c pre s := by
  induction l with
  | nil => simp [emitSels_nil]
  | cons s a ih => simp [emitSels_cons, ih]

/-- the entries of a linked selection depend on its sub-selections only through the SET of their entries -/
theorem emitSel_linked_congr {h : LHead} {ks ks' : List LSel}
    (hk : ∀ ty c pre e, e ∈ emitSels p ex ty c pre ks ↔ e ∈ emitSels p ex ty c pre ks')
    (ty : String) (c : VarCtx) (pre : List KeyK) (e : Entry) :
    e ∈ emitSel p ex ty c pre (.linked h ks) ↔ e ∈ emitSel p ex ty c pre (.linked h ks') := by
  simp only [emitSel]
  split
  · rfl
  · split <;> simp only [List.mem_cons, List.mem_append, hk] 

mutual
theorem SelPerm.emit_mem {s s' : LSel} : SelPerm s s' → ∀ (ty : String) (c : VarCtx) (pre : List KeyK) (e : Entry),
    e ∈ emitSel p ex ty c pre s ↔ e ∈ emitSel p ex ty c pre s'
  | .scalar h => fun _ _ _ _ => Iff.rfl
  | .linked h hk => emitSel_linked_congr (SelsPerm.emit_mem hk)
theorem SelsPerm.emit_mem {l l' : List LSel} : SelsPerm l l' → ∀ (ty : String) (c : VarCtx) (pre : List KeyK) (e : Entry),
    e ∈ emitSels p ex ty c pre l ↔ e ∈ emitSels p ex ty c pre l'
  | .nil => fun _ _ _ _ => Iff.rfl
  | .cons hs hl => fun ty c pre e => by
    rw [emitSels_cons, emitSels_cons, List.mem_append, List.mem_append, SelPerm.emit_mem hs, SelsPerm.emit_mem hl]
  | .swap s t l => fun ty c pre e => by
    simp only [emitSels_cons, List.mem_append]
    exact or_left_comm
  | .trans h1 h2 => fun ty c pre e => (SelsPerm.emit_mem h1 ty c pre e).trans (SelsPerm.emit_mem h2 ty c pre e)
end

mutual
theorem SelPerm.refl : (s : LSel) → SelPerm s s
  | .scalar h => .scalar h
  | .linked h ks => .linked h (SelsPerm.refl ks)
theorem SelsPerm.refl : (l : List LSel) → SelsPerm l l
  | [] => .nil
  | s :: l => .cons (SelPerm.refl s) (SelsPerm.refl l)
end

theorem SelsPerm.of_perm {l l' : List LSel} (h : List.Perm l l') : SelsPerm l l' := by
  induction h with
  | nil => exact .nil
  | cons x _ ih => exact .cons (SelPerm.refl x) ih
  | swap x y l => exact .swap y x l
  | trans _ _ ih1 ih2 => exact .trans ih1 ih2

theorem mem_emitSet {ty : String} {c : VarCtx} {pre : List KeyK} {l : List LSel} {e : Entry} :
    e ∈ emitSet p ex ty c pre l ↔ (e ∈ emitSels p ex ty c pre l ∨ e ∈ tailEntries p ty pre) := by
  simp [emitSet]

theorem mergeSel_perm {ty : String} {c : VarCtx} {pre : List KeyK} {m : MergedMap} {sels sels' : List LSel}
    (hm : Sorted pathLt m) (hp : SelsPerm sels sels')
    (hc : Coherent (emitSet p ex ty c pre sels)) :
    insertAll pathLt m (emitSet p ex ty c pre sels) = insertAll pathLt m (emitSet p ex ty c pre sels') := by
  apply insertAll_ext pathLt_strictTotal hm hc
  intro e
  rw [mem_emitSet, mem_emitSet, hp.emit_mem]

theorem mergeSel_dup {ty : String} {c : VarCtx} {pre : List KeyK} {m : MergedMap}
    (hm : Sorted pathLt m) {s : LSel} {a b : List LSel} (hs : s ∈ a ++ b)
    (hc : Coherent (emitSet p ex ty c pre (a ++ b))) :
    insertAll pathLt m (emitSet p ex ty c pre (a ++ s :: b)) = insertAll pathLt m (emitSet p ex ty c pre (a ++ b)) := by
  symm
  apply insertAll_ext pathLt_strictTotal hm hc
  intro e
  rw [mem_emitSet, mem_emitSet, mem_emitSels, mem_emitSels]
  constructor
  · rintro (⟨t, ht, he⟩ | h)
    · refine Or.inl ⟨t, ?_, he⟩
      simp only [List.mem_append, List.mem_cons] at ht ⊢
      rcases ht with ht | ht
      · exact Or.inl ht
      · exact Or.inr (Or.inr ht)
    · exact Or.inr h
  · rintro (⟨t, ht, he⟩ | h)
    · simp only [List.mem_append, List.mem_cons] at ht hs
      rcases ht with ht | rfl | ht
      · exact Or.inl ⟨t, by simp [ht], he⟩
      · exact Or.inl ⟨t, by simpa using hs, he⟩
      · exact Or.inl ⟨t, by simp [ht], he⟩
    · exact Or.inr h


end

/-! ### locations: selections without object / list literals are the same `LSel` wherever they stand -/

/-- does the value embed source locations?  (`{}` and `[]` do not) -/
def isComposite : Value → Bool
  | .object (_ :: _) | .list (_ :: _) => true
  | _ => false

theorem ofValue_noComposite {v : Value} (h : isComposite v = false) (site site' : List Nat) :
    ofValue site v = ofValue site' v := by
  cases v with
  | object fs => cases fs with
    | nil => simp only [ofValue]
    | cons f fs => simp [isComposite] at h
  | list vs => cases vs with
    | nil => simp only [ofValue]
    | cons f fs => simp [isComposite] at h
  | _ => simp only [ofValue]

def noCompositeArgs (args : List (String × Value)) : Bool := args.all fun a => !isComposite a.2

mutual
/-- no argument, at any depth of the selection tree, is a non-empty object or list literal -/
def noCompositeSel : Selection → Bool
  | .scalar h => noCompositeArgs h.args
  | .linked h kids => noCompositeArgs h.args && noCompositeSels kids
def noCompositeSels : List Selection → Bool
  | [] => true
  | s :: rest => noCompositeSel s && noCompositeSels rest
end

theorem locSel_alias (loc : List Nat) (h : SelHead) (a : Option String) :
    locSel loc (.scalar { h with alias := a }) = locSel loc (.scalar h) := by
  simp only [locSel, locHead]

theorem locSel_alias_linked (loc : List Nat) (h : SelHead) (a : Option String) (kids : List Selection) :
    locSel loc (.linked { h with alias := a } kids) = locSel loc (.linked h kids) := by
  simp only [locSel, locHead]

theorem locArgs_noComposite {args : List (String × Value)} (h : noCompositeArgs args = true)
    (loc loc' : List Nat) (i j : Nat) : locArgs loc i args = locArgs loc' j args := by
  induction args generalizing i j with
  | nil => rfl
  | cons a rest ih =>
    obtain ⟨n, v⟩ := a
    simp only [noCompositeArgs, List.all_cons, Bool.and_eq_true, Bool.not_eq_true'] at h
    simp only [locArgs]
    rw [ih (by simpa [noCompositeArgs] using h.2) (i + 1) (j + 1),
      ofValue_noComposite h.1 (loc ++ [i]) (loc' ++ [j])]

theorem locHead_noComposite {h : SelHead} (hn : noCompositeArgs h.args = true) (loc loc' : List Nat) :
    locHead loc h = locHead loc' h := by
  simp only [locHead, locArgs_noComposite hn loc loc' 0 0]

mutual
theorem locSel_noComposite_aux : (s : Selection) → noCompositeSel s = true → ∀ loc loc', locSel loc s = locSel loc' s
  | .scalar h => fun hn loc loc' => by
    simp only [noCompositeSel] at hn
    simp only [locSel, locHead_noComposite hn loc loc']
  | .linked h kids => fun hn loc loc' => by
    simp only [noCompositeSel, Bool.and_eq_true] at hn
    simp only [locSel, locHead_noComposite hn.1 loc loc', locSels_noComposite_aux kids hn.2 loc loc' 0 0]
theorem locSels_noComposite_aux : (l : List Selection) → noCompositeSels l = true →
    ∀ loc loc' i j, locSels loc i l = locSels loc' j l
  | [] => fun _ _ _ _ _ => by simp only [locSels]
  | s :: rest => fun hn loc loc' i j => by
    simp only [noCompositeSels, Bool.and_eq_true] at hn
    simp only [locSels, locSel_noComposite_aux s hn.1 (loc ++ [i]) (loc' ++ [j]),
      locSels_noComposite_aux rest hn.2 loc loc' (i + 1) (j + 1)]
end

theorem locSel_noComposite {s : Selection} : noCompositeSel s = true → ∀ loc loc', locSel loc s = locSel loc' s :=
  locSel_noComposite_aux s

theorem locSels_noComposite {l : List Selection} : noCompositeSels l = true →
    ∀ loc loc' i j, locSels loc i l = locSels loc' j l :=
  locSels_noComposite_aux l

/-! ### extraction into a client field -/

/-- no default value of a variable of a client field / pointer mentions a variable, at any depth
(in Rust a default is a `ConstantValue`) -/
def DefaultsNotVar (p : Project) : Prop :=
  ∀ nd ∈ p.decls, ∀ vd ∈ nd.2.vars, ∀ dv, vd.default = some dv → dv.variables = []

/-- `DefaultsNotVar`, executable -/
def defaultsNotVarB (p : Project) : Bool :=
  p.decls.all fun nd => nd.2.vars.all fun vd =>
    match vd.default with
    | some dv => dv.variables.isEmpty
    | none => true

theorem defaultsNotVarB_iff (p : Project) : defaultsNotVarB p = true ↔ DefaultsNotVar p := by
  simp only [defaultsNotVarB, DefaultsNotVar, List.all_eq_true]
  constructor
  · intro h nd hnd vd hvd dv hdv
    have := h nd hnd vd hvd
    rw [hdv] at this
    exact List.isEmpty_iff.1 this
  · intro h nd hnd vd hvd
    split
    · next dv hdv => exact List.isEmpty_iff.2 (h nd hnd vd hvd dv hdv)
    · rfl

theorem findDecl_go_mem {ty name : String} {i : Nat} {d : Decl} :
    ∀ (l : List (String × Decl)) (k : Nat), findDecl.go ty name k l = some (i, d) → ∃ f, (f, d) ∈ l
  | [], _ => fun h => by simp [findDecl.go] at h
  | (f, d') :: rest, k => fun h => by
    simp only [findDecl.go] at h
    split at h
    · cases h
      exact ⟨f, by simp⟩
    · obtain ⟨f', hf⟩ := findDecl_go_mem rest (k + 1) h
      exact ⟨f', List.mem_cons_of_mem _ hf⟩

theorem findDecl_mem {p : Project} {ty name : String} {i : Nat} {d : Decl}
    (h : findDecl p ty name = some (i, d)) : ∃ f, (f, d) ∈ p.decls :=
  findDecl_go_mem p.decls 0 h

/-! #### located values: substitution -/

namespace LV

mutual
/-- substituting twice is substituting once with the substituted values -/
theorem subst_comp (f g : String → LV) : (x : LV) → (x.subst f).subst g = x.subst (fun v => (f v).subst g)
  | .var n => by simp only [subst]
  | .object s fs => by simp only [subst, substFields_comp f g fs]
  | .list s vs => by simp only [subst, substList_comp f g vs]
  | .int _ | .float _ | .bool _ | .null | .enum _ | .str _ => by simp only [subst]
theorem substFields_comp (f g : String → LV) : (fs : List (String × LV)) →
    substFields g (substFields f fs) = substFields (fun v => (f v).subst g) fs
  | [] => by simp only [substFields]
  | (k, v) :: rest => by simp only [substFields, subst_comp f g v, substFields_comp f g rest]
theorem substList_comp (f g : String → LV) : (vs : List LV) →
    substList g (substList f vs) = substList (fun v => (f v).subst g) vs
  | [] => by simp only [substList]
  | v :: rest => by simp only [substList, subst_comp f g v, substList_comp f g rest]
end

mutual
/-- a substitution matters only on the variables of the value -/
theorem subst_congr {f g : String → LV} : (x : LV) → (∀ v ∈ x.variables, f v = g v) → x.subst f = x.subst g
  | .var n => fun h => by simpa only [subst] using h n (by simp [variables])
  | .object s fs => fun h => by
    simp only [subst, substFields_congr fs (by simpa only [variables] using h)]
  | .list s vs => fun h => by
    simp only [subst, substList_congr vs (by simpa only [variables] using h)]
  | .int _ | .float _ | .bool _ | .null | .enum _ | .str _ => fun _ => by simp only [subst]
theorem substFields_congr {f g : String → LV} : (fs : List (String × LV)) →
    (∀ v ∈ variablesFields fs, f v = g v) → substFields f fs = substFields g fs
  | [] => fun _ => by simp only [substFields]
  | (k, x) :: rest => fun h => by
    simp only [variablesFields, List.mem_append] at h
    simp only [substFields, subst_congr x (fun v hv => h v (Or.inl hv)),
      substFields_congr rest (fun v hv => h v (Or.inr hv))]
theorem substList_congr {f g : String → LV} : (vs : List LV) →
    (∀ v ∈ variablesList vs, f v = g v) → substList f vs = substList g vs
  | [] => fun _ => by simp only [substList]
  | x :: rest => fun h => by
    simp only [variablesList, List.mem_append] at h
    simp only [substList, subst_congr x (fun v hv => h v (Or.inl hv)),
      substList_congr rest (fun v hv => h v (Or.inr hv))]
end

mutual
theorem subst_var : (x : LV) → x.subst LV.var = x
  | .var n => by simp only [subst]
  | .object s fs => by simp only [subst, substFields_var fs]
  | .list s vs => by simp only [subst, substList_var vs]
  | .int _ | .float _ | .bool _ | .null | .enum _ | .str _ => by simp only [subst]
theorem substFields_var : (fs : List (String × LV)) → substFields LV.var fs = fs
  | [] => by simp only [substFields]
  | (k, v) :: rest => by simp only [substFields, subst_var v, substFields_var rest]
theorem substList_var : (vs : List LV) → substList LV.var vs = vs
  | [] => by simp only [substList]
  | v :: rest => by simp only [substList, subst_var v, substList_var rest]
end

/-- a value without variables is not changed -/
theorem subst_closed {x : LV} (h : x.variables = []) (f : String → LV) : x.subst f = x := by
  rw [subst_congr (g := LV.var) x (fun v hv => by rw [h] at hv; cases hv), subst_var]

end LV

mutual
theorem ofValue_variables (site : List Nat) : (v : Value) → (ofValue site v).variables = v.variables
  | .var s => by simp only [ofValue, LV.variables, Value.variables]
  | .object [] => by simp only [ofValue, LV.variables, Value.variables, LV.variablesFields, Value.variablesFields]
  | .object (f :: fs) => by
    simp only [ofValue, LV.variables, Value.variables, ofFields_variables site (f :: fs)]
  | .list [] => by simp only [ofValue, LV.variables, Value.variables, LV.variablesList, Value.variablesList]
  | .list (v :: vs) => by
    simp only [ofValue, LV.variables, Value.variables, ofValues_variables site (v :: vs)]
  | .int _ | .float _ | .bool _ | .null | .enum _ | .str _ => by
    simp only [ofValue, LV.variables, Value.variables]
theorem ofFields_variables (site : List Nat) : (fs : List (String × Value)) →
    LV.variablesFields (ofFields site fs) = Value.variablesFields fs
  | [] => by simp only [ofFields, LV.variablesFields, Value.variablesFields]
  | (k, v) :: rest => by
    simp only [ofFields, LV.variablesFields, Value.variablesFields, ofValue_variables site v,
      ofFields_variables site rest]
theorem ofValues_variables (site : List Nat) : (vs : List Value) →
    LV.variablesList (ofValues site vs) = Value.variablesList vs
  | [] => by simp only [ofValues, LV.variablesList, Value.variablesList]
  | v :: rest => by
    simp only [ofValues, LV.variablesList, Value.variablesList, ofValue_variables site v,
      ofValues_variables site rest]
end

/-! #### contexts -/

theorem ctxGet_nil (v : String) : ctxGet [] v = none := rfl

theorem ctxGet_cons (n : String) (x : LV) (t : VarCtx) (v : String) :
    ctxGet ((n, x) :: t) v = if n == v then some x else ctxGet t v := by
  simp only [ctxGet, List.find?_cons]
  cases n == v <;> rfl

theorem ctxVal_nil (v : String) : ctxVal [] v = .null := rfl

theorem ctxVal_cons (n : String) (x : LV) (t : VarCtx) (v : String) :
    ctxVal ((n, x) :: t) v = if n == v then x else ctxVal t v := by
  simp only [ctxVal, ctxGet_cons]
  cases n == v <;> rfl

theorem ctxGet_initialCtx {vars : List VarDef} {v : String} (hv : v ∈ vars.map (·.name)) :
    ctxGet (initialCtx vars) v = some (.var v) := by
  induction vars with
  | nil => cases hv
  | cons d rest ih =>
    simp only [initialCtx, List.map_cons, ctxGet_cons]
    by_cases hd : d.name = v
    · simp [hd]
    · have : (d.name == v) = false := by simpa using hd
      rw [this]
      simp only [List.map_cons, List.mem_cons] at hv
      rcases hv with hv | hv
      · exact absurd hv.symm hd
      · exact ih hv

/-- the three contexts of an extraction: `c0` the extracted field's own initial context, `c` the
context where it is selected, `cc` the child context made there; `V` the variables it declares -/
structure Link (V : List String) (c0 cc c : VarCtx) : Prop where
  init : ∀ v ∈ V, ctxGet c0 v = some (.var v)
  same : ∀ v ∈ V, ctxGet cc v = ctxGet c v
  bound : ∀ v ∈ V, (ctxGet c v).isSome

section
variable {V : List String} {c0 cc c : VarCtx}

/-- the leaf lemma, on values -/
theorem Link.subst_comp (hl : Link V c0 cc c) {x : LV} (hx : ∀ v ∈ x.variables, v ∈ V) :
    (x.subst (ctxVal c0)).subst (ctxVal cc) = x.subst (ctxVal c) := by
  rw [LV.subst_comp]
  apply LV.subst_congr
  intro v hv
  have hvV := hx v hv
  simp only [ctxVal, hl.init v hvV, Option.getD_some, LV.subst, hl.same v hvV]

theorem Link.substArg_comp (hl : Link V c0 cc c) {a : LArg} (ha : ∀ v ∈ a.value.variables, v ∈ V) :
    substArg cc (substArg c0 a) = substArg c a := by
  simp only [substArg, hl.subst_comp ha]

theorem Link.substArgs_comp (hl : Link V c0 cc c) {args : List LArg}
    (ha : ∀ v ∈ args.flatMap (·.value.variables), v ∈ V) :
    substArgs cc (substArgs c0 args) = substArgs c args := by
  simp only [Merge.substArgs, List.map_map]
  apply List.map_congr_left
  intro a hmem
  exact hl.substArg_comp (fun v hv => ha v (List.mem_flatMap.2 ⟨a, hmem, hv⟩))

/-- the value `childCtx` gives to one declared variable -/
def hereOf (c : VarCtx) (args : List LArg) (declIdx i : Nat) (d : VarDef) : Option LV :=
  match args.find? (·.name == d.name) with
  | some a =>
    if a.value.variables.all (fun v => (ctxGet c v).isSome) then some (a.value.subst (ctxVal c)) else none
  | none =>
    match d.default with
    | some dv => some (ofValue [1, declIdx, i] dv)
    | none => some .null

theorem childCtx_nil (c : VarCtx) (args : List LArg) (k i : Nat) : childCtx c args k i [] = some [] := rfl

theorem childCtx_cons (c : VarCtx) (args : List LArg) (k i : Nat) (d : VarDef) (rest : List VarDef) :
    childCtx c args k i (d :: rest) =
      match hereOf c args k i d, childCtx c args k (i + 1) rest with
      | some x, some tail => some ((d.name, x) :: tail)
      | _, _ => none := rfl

/-- the values given to one variable under `c0` and under `c`: the first, transformed with `cc`, is
the second -/
theorem Link.hereOf_rel (hl : Link V c0 cc c) {args : List LArg}
    (hargs : ∀ a ∈ args, ∀ v ∈ a.value.variables, v ∈ V) (k i : Nat) {d : VarDef}
    (hd : ∀ dv, d.default = some dv → dv.variables = []) :
    ∃ x1 x2, hereOf c0 args k i d = some x1 ∧ hereOf c args k i d = some x2 ∧
      x1.subst (ctxVal cc) = x2 := by
  cases hf : args.find? (·.name == d.name) with
  | some a =>
    have hmem : a ∈ args := List.mem_of_find?_eq_some hf
    have hV := hargs a hmem
    have h0 : a.value.variables.all (fun v => (ctxGet c0 v).isSome) = true := by
      rw [List.all_eq_true]
      intro v hv
      rw [hl.init v (hV v hv)]
      rfl
    have h1 : a.value.variables.all (fun v => (ctxGet c v).isSome) = true := by
      rw [List.all_eq_true]
      intro v hv
      exact hl.bound v (hV v hv)
    refine ⟨a.value.subst (ctxVal c0), a.value.subst (ctxVal c), ?_, ?_, hl.subst_comp hV⟩
    · simp only [hereOf, hf, h0, if_true]
    · simp only [hereOf, hf, h1, if_true]
  | none =>
    cases hdv : d.default with
    | none =>
      refine ⟨.null, .null, ?_, ?_, rfl⟩
      · simp only [hereOf, hf, hdv]
      · simp only [hereOf, hf, hdv]
    | some dv =>
      refine ⟨ofValue [1, k, i] dv, ofValue [1, k, i] dv, ?_, ?_, ?_⟩
      · simp only [hereOf, hf, hdv]
      · simp only [hereOf, hf, hdv]
      · exact LV.subst_closed (by rw [ofValue_variables, hd dv hdv]) _

/-- both child contexts exist, and substituting with the one made under `c0` and then with `cc` is
substituting with the one made under `c` -/
theorem Link.childCtx_rel (hl : Link V c0 cc c) {args : List LArg}
    (hargs : ∀ a ∈ args, ∀ v ∈ a.value.variables, v ∈ V) (k : Nat) :
    ∀ (ds : List VarDef) (i : Nat), (∀ d ∈ ds, ∀ dv, d.default = some dv → dv.variables = []) →
      ∃ cc1 cc2, childCtx c0 args k i ds = some cc1 ∧ childCtx c args k i ds = some cc2 ∧
        ∀ w, (ctxVal cc1 w).subst (ctxVal cc) = ctxVal cc2 w
  | [], i => fun _ => ⟨[], [], rfl, rfl, fun w => by simp only [ctxVal_nil, LV.subst]⟩
  | d :: rest, i => fun hds => by
    obtain ⟨t1, t2, ht1, ht2, ht⟩ := Link.childCtx_rel hl hargs k rest (i + 1)
      (fun d' hd' => hds d' (List.mem_cons_of_mem _ hd'))
    obtain ⟨x1, x2, hx1, hx2, hrel⟩ := hl.hereOf_rel hargs k i (hds d (by simp))
    refine ⟨(d.name, x1) :: t1, (d.name, x2) :: t2, ?_, ?_, fun w => ?_⟩
    · rw [childCtx_cons, hx1, ht1]
    · rw [childCtx_cons, hx2, ht2]
    · rw [ctxVal_cons, ctxVal_cons]
      cases d.name == w
      · exact ht w
      · exact hrel

theorem Link.childCtx_comp (hl : Link V c0 cc c) {args : List LArg}
    (hargs : ∀ a ∈ args, ∀ v ∈ a.value.variables, v ∈ V) (k : Nat)
    (ds : List VarDef) (i : Nat) (hds : ∀ d ∈ ds, ∀ dv, d.default = some dv → dv.variables = []) :
      ∃ cc1 cc2, childCtx c0 args k i ds = some cc1 ∧ childCtx c args k i ds = some cc2 ∧
        ∀ a, substArg cc (substArg cc1 a) = substArg cc2 a := by
  obtain ⟨cc1, cc2, h1, h2, h⟩ := hl.childCtx_rel hargs k ds i hds
  refine ⟨cc1, cc2, h1, h2, fun a => ?_⟩
  simp only [substArg, LV.subst_comp]
  congr 2
  exact funext h

/-! #### entries -/

theorem substArgs_nil (cc : VarCtx) : substArgs cc [] = [] := rfl

theorem substEntry_mkEntry (cc : VarCtx) (pre keys : List KeyK) (pl : Payload) :
    substEntry cc pre (mkEntry keys pl) = mkEntry (pre ++ keys.map (substKey cc)) (substPayload cc pl) := rfl

theorem prefix_snoc (cc : VarCtx) (pre pre0 : List KeyK) (k : KeyK) :
    pre ++ (pre0 ++ [k]).map (substKey cc) = (pre ++ pre0.map (substKey cc)) ++ [substKey cc k] := by
  simp

theorem tailEntries_subst (p : Project) (cc : VarCtx) (ty : String) (pre pre0 : List KeyK) :
    (tailEntries p ty pre0).map (substEntry cc pre) = tailEntries p ty (pre ++ pre0.map (substKey cc)) := by
  unfold tailEntries
  split
  · simp only [List.map_cons, List.map_nil, substEntry_mkEntry, prefix_snoc]
    rfl
  · simp only [List.map_append]
    congr 1
    · split
      · rfl
      · simp only [List.map_cons, List.map_nil, substEntry_mkEntry, prefix_snoc]
        rfl
    · split
      · simp only [List.map_cons, List.map_nil, substEntry_mkEntry, prefix_snoc]
        rfl
      · rfl

theorem substKey_comp {cc cc1 cc2 : VarCtx} (h : ∀ a, substArg cc (substArg cc1 a) = substArg cc2 a)
    (k : KeyK) : substKey cc (substKey cc1 k) = substKey cc2 k := by
  cases k <;> simp [substKey, substArgs, h]

theorem substPayload_comp {cc cc1 cc2 : VarCtx} (h : ∀ a, substArg cc (substArg cc1 a) = substArg cc2 a)
    (pl : Payload) : substPayload cc (substPayload cc1 pl) = substPayload cc2 pl := by
  cases pl <;> simp [substPayload, substArgs, h]

theorem substEntry_comp {cc cc1 cc2 : VarCtx} (h : ∀ a, substArg cc (substArg cc1 a) = substArg cc2 a)
    (pre pre0 : List KeyK) (e : Entry) :
    substEntry cc pre (substEntry cc1 pre0 e) = substEntry cc2 (pre ++ pre0.map (substKey cc)) e := by
  simp only [substEntry, mkEntry, List.map_append, List.map_map, List.append_assoc]
  have hk : (substKey cc ∘ substKey cc1) = substKey cc2 := funext (substKey_comp h)
  rw [hk, substPayload_comp h]

theorem Link.clientEntries_subst (hl : Link V c0 cc c) {p : Project} (hd : DefaultsNotVar p) (ex : Expand)
    {h : LHead} (hargs : ∀ v ∈ h.args.flatMap (·.value.variables), v ∈ V)
    (ty : String) (pre pre0 : List KeyK) :
    (clientEntries p ex ty c0 pre0 h).map (substEntry cc pre)
      = clientEntries p ex ty c (pre ++ pre0.map (substKey cc)) h := by
  unfold clientEntries
  cases hf : findDecl p ty h.name with
  | none =>
    simp only [List.map_cons, List.map_nil, substEntry_mkEntry, prefix_snoc]
    rfl
  | some id =>
    obtain ⟨i, d⟩ := id
    simp only []
    cases hex : ex ty h.name with
    | none =>
      simp only [List.map_cons, List.map_nil, substEntry_mkEntry, prefix_snoc]
      rfl
    | some childMap =>
      simp only []
      obtain ⟨f, hmem⟩ := findDecl_mem hf
      obtain ⟨cc1, cc2, h1, h2, hcomp⟩ := hl.childCtx_comp
        (fun a ha v hv => hargs v (List.mem_flatMap.2 ⟨a, ha, hv⟩)) i d.vars 0
        (fun vd hvd => hd (f, d) hmem vd hvd)
      rw [h1, h2]
      simp only [substMap, List.map_map]
      apply List.map_congr_left
      intro e _
      exact substEntry_comp hcomp pre pre0 e


theorem mem_lselsVars {l : List LSel} {s : LSel} (hs : s ∈ l) {v : String} (hv : v ∈ lselVars s) :
    v ∈ lselsVars l := by
  induction l with
  | nil => cases hs
  | cons t rest ih =>
    simp only [lselsVars, List.mem_append]
    rcases List.mem_cons.1 hs with rfl | hs
    · exact Or.inl hv
    · exact Or.inr (ih hs)

mutual
/-- the substitution lemma: the entries of a selection under the extracted field's initial context,
transformed into the host, are its entries under the host's context -/
theorem Link.emitSel_subst (hl : Link V c0 cc c) {p : Project} (hd : DefaultsNotVar p) (ex : Expand)
    (pre : List KeyK) : (s : LSel) → (∀ v ∈ lselVars s, v ∈ V) → ∀ (ty : String) (pre0 : List KeyK),
      (emitSel p ex ty c0 pre0 s).map (substEntry cc pre)
        = emitSel p ex ty c (pre ++ pre0.map (substKey cc)) s
  | .scalar h => fun hv ty pre0 => by
    have hargs : ∀ v ∈ h.args.flatMap (·.value.variables), v ∈ V := by
      simpa only [lselVars] using hv
    simp only [emitSel]
    cases hlk : lookup p ty h.name with
    | none =>
      simp only [List.map_cons, List.map_nil, substEntry_mkEntry, prefix_snoc]
      rfl
    | some sel =>
      obtain ⟨kind, sargs, target⟩ := sel
      cases kind <;> simp only []
      all_goals try (simp only [List.map_cons, List.map_nil, substEntry_mkEntry, prefix_snoc, substKey, substPayload, hl.substArgs_comp hargs]; done)
      · split <;>
          simp only [List.map_cons, List.map_nil, substEntry_mkEntry, prefix_snoc, substKey, substPayload,
            hl.substArgs_comp hargs]
      · split
        · rfl
        · exact hl.clientEntries_subst hd ex hargs ty pre pre0
  | .linked h kids => fun hv ty pre0 => by
    have hargs : ∀ v ∈ h.args.flatMap (·.value.variables), v ∈ V := fun v h' => hv v (by
      simp only [lselVars, List.mem_append]; exact Or.inl h')
    have hkids : ∀ v ∈ lselsVars kids, v ∈ V := fun v h' => hv v (by
      simp only [lselVars, List.mem_append]; exact Or.inr h')
    have ih := Link.emitSels_subst hl hd ex pre kids hkids
    simp only [emitSel]
    cases hlk : lookup p ty h.name with
    | none =>
      simp only [List.map_cons, List.map_nil, substEntry_mkEntry, prefix_snoc]
      rfl
    | some sel =>
      obtain ⟨kind, sargs, target⟩ := sel
      cases kind <;> simp only []
      all_goals
        simp only [List.map_cons, List.map_nil, List.map_append, substEntry_mkEntry, substKey, substPayload,
          hl.substArgs_comp hargs, tailEntries_subst, ih, hl.clientEntries_subst hd ex hargs,
          List.append_assoc, List.cons_append, List.nil_append, substArgs_nil]
theorem Link.emitSels_subst (hl : Link V c0 cc c) {p : Project} (hd : DefaultsNotVar p) (ex : Expand)
    (pre : List KeyK) : (l : List LSel) → (∀ v ∈ lselsVars l, v ∈ V) → ∀ (ty : String) (pre0 : List KeyK),
      (emitSels p ex ty c0 pre0 l).map (substEntry cc pre)
        = emitSels p ex ty c (pre ++ pre0.map (substKey cc)) l
  | [] => fun _ _ _ => by simp only [emitSels_nil, List.map_nil]
  | s :: rest => fun hv ty pre0 => by
    simp only [lselsVars, List.mem_append] at hv
    rw [emitSels_cons, emitSels_cons, List.map_append,
      Link.emitSel_subst hl hd ex pre s (fun v h => hv v (Or.inl h)),
      Link.emitSels_subst hl hd ex pre rest (fun v h => hv v (Or.inr h))]
end


end

/-! #### the call of the extracted field -/

/-- the arguments of `callOf` -/
def callArgs (vars : List VarDef) : List LArg := vars.map (fun d => ⟨d.name, .var d.name⟩)

theorem hereOf_call (c : VarCtx) {vars : List VarDef} (k i : Nat) {d : VarDef} (hd : d ∈ vars) :
    hereOf c (callArgs vars) k i d = ctxGet c d.name := by
  cases hf : (callArgs vars).find? (·.name == d.name) with
  | none =>
    have := List.find?_eq_none.1 hf ⟨d.name, .var d.name⟩ (List.mem_map.2 ⟨d, hd, rfl⟩)
    simp at this
  | some a =>
    have hp := List.find?_some hf
    obtain ⟨d', _, rfl⟩ := List.mem_map.1 (List.mem_of_find?_eq_some hf)
    have hn : d'.name = d.name := by simpa using hp
    simp only [hereOf, hf, LV.variables, LV.subst, hn, List.all_cons, List.all_nil, Bool.and_true, ctxVal]
    cases ctxGet c d.name <;> rfl

theorem childCtx_call (c : VarCtx) (vars : List VarDef) (k : Nat) :
    ∀ (ds : List VarDef) (i : Nat), (∀ d ∈ ds, d ∈ vars) → (∀ d ∈ ds, (ctxGet c d.name).isSome) →
      ∃ cc, childCtx c (callArgs vars) k i ds = some cc ∧ ∀ v ∈ ds.map (·.name), ctxGet cc v = ctxGet c v
  | [], _ => fun _ _ => ⟨[], rfl, fun v hv => by cases hv⟩
  | d :: rest, i => fun hmem hb => by
    obtain ⟨t, ht, hget⟩ := childCtx_call c vars k rest (i + 1)
      (fun d' h' => hmem d' (List.mem_cons_of_mem _ h')) (fun d' h' => hb d' (List.mem_cons_of_mem _ h'))
    have hbd := hb d (by simp)
    cases hx : ctxGet c d.name with
    | none => rw [hx] at hbd; cases hbd
    | some x =>
      refine ⟨(d.name, x) :: t, ?_, fun v hv => ?_⟩
      · rw [childCtx_cons, hereOf_call c k i (hmem d (by simp)), hx, ht]
      · rw [ctxGet_cons]
        by_cases hdv : d.name = v
        · subst hdv
          simp [hx]
        · have : (d.name == v) = false := by simpa using hdv
          rw [this]
          simp only [List.map_cons, List.mem_cons] at hv
          rcases hv with hv | hv
          · exact absurd hv.symm hdv
          · simpa using hget v hv

theorem link_call {c : VarCtx} {vars : List VarDef} (hbound : ∀ d ∈ vars, (ctxGet c d.name).isSome) (k : Nat) :
    ∃ cc, childCtx c (callArgs vars) k 0 vars = some cc ∧ Link (vars.map (·.name)) (initialCtx vars) cc c := by
  obtain ⟨cc, hcc, hget⟩ := childCtx_call c vars k vars 0 (fun _ h => h) hbound
  refine ⟨cc, hcc, ⟨fun v hv => ctxGet_initialCtx hv, hget, fun v hv => ?_⟩⟩
  obtain ⟨d, hd, rfl⟩ := List.mem_map.1 hv
  exact hbound d hd

section
variable {p : Project} {ex : Expand}

theorem emitSel_callOf {ty name : String} {vars : List VarDef} {body : List LSel}
    (hx : Extracted p ex ty name vars body) (c : VarCtx) (pre : List KeyK) (i : Nat) (d : Decl)
    (hf : findDecl p ty name = some (i, d)) (hdv : d.vars = vars) {cc : VarCtx}
    (hcc : childCtx c (callArgs vars) i 0 vars = some cc) :
    emitSel p ex ty c pre (callOf name vars)
      = substMap cc pre (buildMap (emitSet p ex ty (initialCtx vars) [] body)) := by
  simp only [callOf, emitSel, hx.lookup_eq, hasDir, List.any_nil, clientEntries, hf, hx.expand_eq, hdv]
  change (match childCtx c (callArgs vars) i 0 vars with
    | none => _
    | some cc => _) = _
  rw [hcc]
  rfl

/-- C15, extraction -/
theorem mergeSel_extract {ty name : String} {vars : List VarDef} {body a b : List LSel} {c : VarCtx}
    {pre : List KeyK} {m : MergedMap}
    (hm : Sorted pathLt m) (hx : Extracted p ex ty name vars body) (hd : DefaultsNotVar p)
    (hvars : ∀ v ∈ lselsVars body, v ∈ vars.map (·.name))
    (hbound : ∀ d ∈ vars, (ctxGet c d.name).isSome)
    (hcb : Coherent (emitSet p ex ty (initialCtx vars) [] body))
    (hc : Coherent (emitSet p ex ty c pre (a ++ body ++ b))) :
    insertAll pathLt m (emitSet p ex ty c pre (a ++ callOf name vars :: b))
      = insertAll pathLt m (emitSet p ex ty c pre (a ++ body ++ b)) := by
  obtain ⟨i, d, hf, hdv⟩ := hx.decl
  obtain ⟨cc, hcc, hl⟩ := link_call hbound i
  symm
  apply insertAll_ext pathLt_strictTotal hm hc
  intro e
  have hcall : ∀ e, e ∈ emitSel p ex ty c pre (callOf name vars) ↔ e ∈ emitSet p ex ty c pre body := by
    intro e
    rw [emitSel_callOf hx c pre i d hf hdv hcc, substMap, List.mem_map]
    have himg : (emitSet p ex ty (initialCtx vars) [] body).map (substEntry cc pre) = emitSet p ex ty c pre body := by
      rw [emitSet, List.map_append, hl.emitSels_subst hd ex pre body hvars ty [], tailEntries_subst]
      simp only [List.map_nil, List.append_nil]
      rfl
    rw [← himg, List.mem_map]
    constructor
    · rintro ⟨e0, he0, rfl⟩
      exact ⟨e0, (mem_build_iff pathLt_strictTotal hcb e0).1 he0, rfl⟩
    · rintro ⟨e0, he0, rfl⟩
      exact ⟨e0, (mem_build_iff pathLt_strictTotal hcb e0).2 he0, rfl⟩
  simp only [mem_emitSet, emitSels_append, emitSels_cons, List.mem_append, hcall]
  constructor
  · rintro (((h | h) | h) | h)
    · exact Or.inl (Or.inl h)
    · exact Or.inl (Or.inr (Or.inl (Or.inl h)))
    · exact Or.inl (Or.inr (Or.inr h))
    · exact Or.inr h
  · rintro ((h | (h | h) | h) | h)
    · exact Or.inl (Or.inl (Or.inl h))
    · exact Or.inl (Or.inl (Or.inr h))
    · exact Or.inr h
    · exact Or.inl (Or.inr h)
    · exact Or.inr h

end

end IsoVerif.Core.Merge
