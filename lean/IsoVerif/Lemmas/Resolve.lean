/-
Lemmas about `IsoVerif.Resolve.resolve` over the generic span tree (structural induction over the
mutual `Tree` / `Forest`).
-/
import IsoVerif.Model.Resolve

namespace IsoVerif.Resolve
variable {κ : Type}

def Tree.link (t : Tree κ) : Link κ := ⟨t.kind, t.s, t.e⟩

/-- `chain` (innermost first) is the list of links on a path from the root `t` down to node `n`. -/
inductive Path : Tree κ → List (Link κ) → Tree κ → Prop where
  | here (t : Tree κ) : Path t [t.link] t
  | down (t c n : Tree κ) (chain : List (Link κ)) :
      c ∈ t.children.toList → Path c chain n → Path t (chain ++ [t.link]) n

/-- no resolvable child of `n` contains `o` -/
def NoChildContains (n : Tree κ) (o : Nat) : Prop := ∀ c ∈ n.children.toList, c.containsOff o = false

/-- every link but the last (the root) contains `o` -/
def BelowRootContain (chain : List (Link κ)) (o : Nat) : Prop :=
  ∀ l ∈ chain.dropLast, containsOff l.s l.e o = true

mutual
  /-- children's spans lie inside the parent's (recursively) -/
  def Nested : Tree κ → Prop
    | .node _ s e cs => s ≤ e ∧ NestedIn s e cs
  def NestedIn (s e : Nat) : Forest κ → Prop
    | .nil => True
    | .cons t ts => s ≤ t.s ∧ t.e ≤ e ∧ Nested t ∧ NestedIn s e ts
end

mutual
  /-- at most one child of every node contains `o` (siblings are disjoint at `o`) -/
  def StrictAt (o : Nat) : Tree κ → Prop
    | .node _ _ _ cs => StrictIn o cs
  def StrictIn (o : Nat) : Forest κ → Prop
    | .nil => True
    | .cons t ts => StrictAt o t ∧ StrictIn o ts ∧ (t.containsOff o = true → ∀ u ∈ ts.toList, u.containsOff o = false)
end

mutual
  /-- siblings' spans have disjoint interiors (they may touch in one point), recursively -/
  def SiblingsApart : Tree κ → Prop
    | .node _ _ _ cs => SiblingsApartIn cs
  def SiblingsApartIn : Forest κ → Prop
    | .nil => True
    | .cons t ts => SiblingsApart t ∧ SiblingsApartIn ts ∧ ∀ u ∈ ts.toList, t.e ≤ u.s ∨ u.e ≤ t.s
end

/-- `WellNested`: children inside the parent, siblings with disjoint interiors. -/
def WellNested (t : Tree κ) : Prop := Nested t ∧ SiblingsApart t

theorem mem_dropLast_or_last {α : Type} (l : List α) (h : l ≠ []) (x : α) (hx : x ∈ l) :
    x ∈ l.dropLast ∨ x = l.getLast h := by
  have := List.dropLast_concat_getLast h
  rw [← this] at hx
  simpa using hx

theorem resolveIn_none (o : Nat) : ∀ (cs : Forest κ), resolveIn o cs = none →
    ∀ c ∈ cs.toList, c.containsOff o = false
  | .nil, _, c, hc => by simp [Forest.toList] at hc
  | .cons t ts, h, c, hc => by
    simp only [resolveIn] at h
    split at h
    · exact absurd h (by simp)
    · rename_i hn
      simp only [Forest.toList, List.mem_cons] at hc
      rcases hc with rfl | hc
      · simpa [Tree.containsOff] using hn
      · exact resolveIn_none o ts h c hc

mutual
  /-- the result is a path of the tree ending in a node none of whose children contains `o`, and
  every node on it below the root contains `o` -/
  theorem resolve_spec (o : Nat) : ∀ (t : Tree κ),
      ∃ n, Path t (resolve o t) n ∧ NoChildContains n o ∧ BelowRootContain (resolve o t) o ∧
        (t.containsOff o = true → n.containsOff o = true)
    | .node k s e cs => by
      cases h : resolveIn o cs with
      | none =>
        refine ⟨.node k s e cs, ?_, ?_, ?_, fun h => h⟩
        · simp only [resolve, h]; exact Path.here _
        · exact fun c hc => resolveIn_none o cs h c hc
        · simp [resolve, h, BelowRootContain]
      | some chain =>
        obtain ⟨c, n, hc, hco, hp, hn, hb, hnc⟩ := resolveIn_spec o cs chain h
        refine ⟨n, ?_, hn, ?_, fun _ => hnc⟩
        · simp only [resolve, h]
          exact Path.down (.node k s e cs) c n chain hc hp
        · simp only [resolve, h, BelowRootContain]
          intro l hl
          rw [List.dropLast_concat] at hl
          -- l ∈ chain: either below c's root or c's own link
          have hne : chain ≠ [] := by
            cases hp <;> simp
          rcases mem_dropLast_or_last chain hne l hl with h1 | h2
          · exact hb l h1
          · have : chain.getLast hne = c.link := by
              cases hp with
              | here => simp
              | down t' c' n' ch' _ _ => simp
            rw [h2, this]
            simpa [Tree.link, Tree.containsOff] using hco
  theorem resolveIn_spec (o : Nat) : ∀ (cs : Forest κ) (chain : List (Link κ)), resolveIn o cs = some chain →
      ∃ c n, c ∈ cs.toList ∧ c.containsOff o = true ∧ Path c chain n ∧ NoChildContains n o ∧
        BelowRootContain chain o ∧ n.containsOff o = true
    | .nil, chain, h => by simp [resolveIn] at h
    | .cons t ts, chain, h => by
      simp only [resolveIn] at h
      split at h
      · rename_i hc
        have hc' : t.containsOff o = true := by simpa [Tree.containsOff] using hc
        obtain ⟨n, hp, hn, hb, hnc⟩ := resolve_spec o t
        injection h with h
        subst h
        exact ⟨t, n, by simp [Forest.toList], hc', hp, hn, hb, hnc hc'⟩
      · obtain ⟨c, n, hc, rest⟩ := resolveIn_spec o ts chain h
        exact ⟨c, n, by simp [Forest.toList, hc], rest⟩
end

theorem resolveIn_eq_none (o : Nat) : ∀ (cs : Forest κ), (∀ c ∈ cs.toList, c.containsOff o = false) →
    resolveIn o cs = none
  | .nil, _ => by simp [resolveIn]
  | .cons t ts, h => by
    have ht : t.containsOff o = false := h t (by simp [Forest.toList])
    have : containsOff t.s t.e o = false := by simpa [Tree.containsOff] using ht
    simp only [resolveIn, this]
    exact resolveIn_eq_none o ts (fun c hc => h c (by simp [Forest.toList, hc]))

theorem nestedIn_mem {s e : Nat} : ∀ (cs : Forest κ) (c : Tree κ), NestedIn s e cs → c ∈ cs.toList →
    s ≤ c.s ∧ c.e ≤ e ∧ Nested c
  | .nil, c, _, hc => by simp [Forest.toList] at hc
  | .cons t ts, c, h, hc => by
    simp only [NestedIn] at h
    simp only [Forest.toList, List.mem_cons] at hc
    rcases hc with rfl | hc
    · exact ⟨h.1, h.2.1, h.2.2.1⟩
    · exact nestedIn_mem ts c h.2.2.2 hc

theorem nested_le : ∀ (t : Tree κ), Nested t → t.s ≤ t.e
  | .node _ _ _ _, h => by simp only [Nested] at h; exact h.1

/-- with nested spans, the end of a path lies inside its start -/
theorem path_inside {t m : Tree κ} {chain : List (Link κ)} (hp : Path t chain m) :
    Nested t → t.s ≤ m.s ∧ m.e ≤ t.e := by
  induction hp with
  | here t => intro _; exact ⟨Nat.le_refl _, Nat.le_refl _⟩
  | down t c n chain hc _ ih =>
    intro hn
    cases t with
    | node k s e cs =>
      simp only [Nested] at hn
      obtain ⟨h1, h2, h3⟩ := nestedIn_mem cs c hn.2 hc
      obtain ⟨h4, h5⟩ := ih h3
      exact ⟨Nat.le_trans h1 h4, Nat.le_trans h5 h2⟩

theorem contains_of_inside {t m : Tree κ} {o : Nat} (h : t.s ≤ m.s ∧ m.e ≤ t.e)
    (hm : m.containsOff o = true) : t.containsOff o = true := by
  simp only [Tree.containsOff, containsOff, Bool.and_eq_true, decide_eq_true_eq] at *
  omega

theorem path_ne_nil {t m : Tree κ} {chain : List (Link κ)} (hp : Path t chain m) : chain ≠ [] := by
  cases hp <;> simp

theorem path_last {t m : Tree κ} {chain : List (Link κ)} (hp : Path t chain m) :
    chain.getLast (path_ne_nil hp) = t.link := by
  cases hp <;> simp

/-- with the declaration containing `o`, every link of the returned chain contains `o` -/
theorem resolve_all_contain (o : Nat) (t : Tree κ) (ht : t.containsOff o = true) :
    ∀ l ∈ resolve o t, containsOff l.s l.e o = true := by
  obtain ⟨n, hp, _, hb, _⟩ := resolve_spec o t
  intro l hl
  rcases mem_dropLast_or_last _ (path_ne_nil hp) l hl with h | h
  · exact hb l h
  · rw [h, path_last hp]
    simpa [Tree.link, Tree.containsOff] using ht

theorem path_node_inv {k : κ} {s e : Nat} {cs : Forest κ} {chain : List (Link κ)} {m : Tree κ}
    (hp : Path (.node k s e cs) chain m) :
    (chain = [⟨k, s, e⟩] ∧ m = .node k s e cs) ∨
    (∃ c ch, c ∈ cs.toList ∧ Path c ch m ∧ chain = ch ++ [⟨k, s, e⟩]) := by
  cases hp with
  | here => exact .inl ⟨rfl, rfl⟩
  | down _ c _ ch hc hp' => exact .inr ⟨c, ch, hc, hp', rfl⟩

mutual
  /-- uniqueness: with nested spans and siblings disjoint at `o`, the only path to a node that
  contains `o` and has no child containing `o` is the one `resolve` returns -/
  theorem resolve_unique (o : Nat) : ∀ (t : Tree κ) (chain : List (Link κ)) (m : Tree κ),
      Nested t → StrictAt o t → Path t chain m → m.containsOff o = true → NoChildContains m o →
      chain = resolve o t
    | .node k s e cs, chain, m, hn, hs, hp, hm, hno => by
      simp only [Nested] at hn
      simp only [StrictAt] at hs
      rcases path_node_inv hp with ⟨h1, h2⟩ | ⟨c, ch, hc, hp', h1⟩
      · subst h2
        have := resolveIn_eq_none o cs hno
        simp [resolve, this, h1]
      · have := resolveIn_unique o cs s e c ch m hn.2 hs hc hp' hm hno
        simp [resolve, this, h1]
  theorem resolveIn_unique (o : Nat) : ∀ (cs : Forest κ) (s e : Nat) (c : Tree κ) (chain : List (Link κ)) (m : Tree κ),
      NestedIn s e cs → StrictIn o cs → c ∈ cs.toList → Path c chain m → m.containsOff o = true →
      NoChildContains m o → resolveIn o cs = some chain
    | .nil, _, _, c, _, _, _, _, hc, _, _, _ => by simp [Forest.toList] at hc
    | .cons t ts, s, e, c, chain, m, hn, hs, hc, hp, hm, hno => by
      simp only [NestedIn] at hn
      simp only [StrictIn] at hs
      simp only [Forest.toList, List.mem_cons] at hc
      rcases hc with h | hc
      · rw [h] at hp
        have hin := path_inside hp hn.2.2.1
        have hco := contains_of_inside hin hm
        have hco' : containsOff t.s t.e o = true := by simpa [Tree.containsOff] using hco
        have := resolve_unique o t chain m hn.2.2.1 hs.1 hp hm hno
        simp [resolveIn, hco', this]
      · obtain ⟨_, _, hnc⟩ := nestedIn_mem ts c hn.2.2.2 hc
        have hin := path_inside hp hnc
        have hco := contains_of_inside hin hm
        have ht : t.containsOff o = false := by
          cases h : t.containsOff o with
          | false => rfl
          | true => have := hs.2.2 h c hc; rw [hco] at this; exact absurd this (by simp)
        have ht' : containsOff t.s t.e o = false := by simpa [Tree.containsOff] using ht
        simp only [resolveIn, ht']
        exact resolveIn_unique o ts s e c chain m hn.2.2.2 hs.2.1 hc hp hm hno
end

end IsoVerif.Resolve
