/-
Lemmas about `IsoVerif.Resolve.resolve` over the generic span tree (structural induction over the
mutual `Tree` / `Forest`).
-/
import IsoVerif.Model.Resolve

namespace IsoVerif.Resolve
variable {κ : Type}

def Tree.link (t : Tree κ) : Link κ := ⟨t.kind, t.s, t.e⟩

/-- `chain` (innermost first) is the list of links on a path from the root `t` down to node `n`. -/
inductive Path : Tree κ → List (Link κ) → Tree κ → Prop where
  | here (t : Tree κ) : Path t [t.link] t
  | down (t c n : Tree κ) (chain : List (Link κ)) :
      c ∈ t.children.toList → Path c chain n → Path t (chain ++ [t.link]) n

/-- no resolvable child of `n` contains `o` -/
def NoChildContains (n : Tree κ) (o : Nat) : Prop := ∀ c ∈ n.children.toList, c.containsOff o = false

/-- every link but the last (the root) contains `o` -/
def BelowRootContain (chain : List (Link κ)) (o : Nat) : Prop :=
  ∀ l ∈ chain.dropLast, containsOff l.s l.e o = true

mutual
  /-- children's spans lie inside the parent's (recursively) -/
  def Nested : Tree κ → Prop
    | .node _ s e cs => s ≤ e ∧ NestedIn s e cs
  def NestedIn (s e : Nat) : Forest κ → Prop
    | .nil => True
    | .cons t ts => s ≤ t.s ∧ t.e ≤ e ∧ Nested t ∧ NestedIn s e ts
end

mutual
  /-- at most one child of every node contains `o` (siblings are disjoint at `o`) -/
  def StrictAt (o : Nat) : Tree κ → Prop
    | .node _ _ _ cs => StrictIn o cs
  def StrictIn (o : Nat) : Forest κ → Prop
    | .nil => True
    | .cons t ts => StrictAt o t ∧ StrictIn o ts ∧ (t.containsOff o = true → ∀ u ∈ ts.toList, u.containsOff o = false)
end

mutual
  /-- siblings' spans have disjoint interiors (they may touch in one point), recursively -/
  def SiblingsApart : Tree κ → Prop
    | .node _ _ _ cs => SiblingsApartIn cs
  def SiblingsApartIn : Forest κ → Prop
    | .nil => True
    | .cons t ts => SiblingsApart t ∧ SiblingsApartIn ts ∧ ∀ u ∈ ts.toList, t.e ≤ u.s ∨ u.e ≤ t.s
end

/-- `WellNested`: children inside the parent, siblings with disjoint interiors. -/
def WellNested (t : Tree κ) : Prop := Nested t ∧ SiblingsApart t

theorem resolveIn_none (o : Nat) : ∀ (cs : Forest κ), resolveIn o cs = none →
    ∀ c ∈ cs.toList, c.containsOff o = false
  | .nil, _, c, hc => by simp [Forest.toList] at hc
  | .cons t ts, h, c, hc => by
    simp only [resolveIn] at h
    split at h
    · exact absurd h (by simp)
    · rename_i hn
      simp only [Forest.toList, List.mem_cons] at hc
      rcases hc with rfl | hc
      · simpa [Tree.containsOff] using hn
      · exact resolveIn_none o ts h c hc

mutual
  /-- the result is a path of the tree ending in a node none of whose children contains `o`, and
  every node on it below the root contains `o` -/
  theorem resolve_spec (o : Nat) : ∀ (t : Tree κ),
      ∃ n, Path t (resolve o t) n ∧ NoChildContains n o ∧ BelowRootContain (resolve o t) o ∧
        (t.containsOff o = true → n.containsOff o = true)
    | .node k s e cs => by
      cases h : resolveIn o cs with
      | none =>
        refine ⟨.node k s e cs, ?_, ?_, ?_, fun h => h⟩
        · simp only [resolve, h]; exact Path.here _
        · exact fun c hc => resolveIn_none o cs h c hc
        · simp [resolve, h, BelowRootContain]
      | some chain =>
        obtain ⟨c, n, hc, hco, hp, hn, hb, hnc⟩ := resolveIn_spec o cs chain h
        refine ⟨n, ?_, hn, ?_, fun _ => hnc⟩
        · simp only [resolve, h]
          exact Path.down (.node k s e cs) c n chain hc hp
        · simp only [resolve, h, BelowRootContain]
          intro l hl
          rw [List.dropLast_concat] at hl
          -- l ∈ chain: either below c's root or c's own link
          have hne : chain ≠ [] := by
            cases hp <;> simp
          rcases List.mem_dropLast_or_eq_getLast hne hl with h1 | h2
          · exact hb l h1
          · have : chain.getLast hne = c.link := by
              cases hp with
              | here => simp
              | down t' c' n' ch' _ _ => simp
            rw [h2, this]
            simpa [Tree.link, Tree.containsOff] using hco
  theorem resolveIn_spec (o : Nat) : ∀ (cs : Forest κ) (chain : List (Link κ)), resolveIn o cs = some chain →
      ∃ c n, c ∈ cs.toList ∧ c.containsOff o = true ∧ Path c chain n ∧ NoChildContains n o ∧
        BelowRootContain chain o ∧ n.containsOff o = true
    | .nil, chain, h => by simp [resolveIn] at h
    | .cons t ts, chain, h => by
      simp only [resolveIn] at h
      split at h
      · rename_i hc
        have hc' : t.containsOff o = true := by simpa [Tree.containsOff] using hc
        obtain ⟨n, hp, hn, hb, hnc⟩ := resolve_spec o t
        injection h with h
        subst h
        exact ⟨t, n, by simp [Forest.toList], hc', hp, hn, hb, hnc hc'⟩
      · obtain ⟨c, n, hc, rest⟩ := resolveIn_spec o ts chain h
        exact ⟨c, n, by simp [Forest.toList, hc], rest⟩
end

end IsoVerif.Resolve
