/-
A small program logic for the parser model `IsoVerif.IsoParse`:

* `WF src st` — the invariant on the `PeekableLexer` state: `end_index_of_last_parsed_token ≤`
  start of the current token, the current token and the tokens to come are well-formed spans of
  `src` on character boundaries and sorted, the semantic tokens pushed so far are non-empty spans
  on boundaries, sorted, all before `end_index_of_last_parsed_token`.
* `Adv st st'` — `st'` is `st` or a later state that consumed at least the current token of `st`.
* `Spec src c p G` — from every well-formed state, `p` does not panic, keeps the invariant,
  advances; on `ok a` the value is good (`G a`: every span in it is a good span of `src`) and, when
  `c = true`, at least one token was consumed; on `err d` the diagnostic's span is good.
  Running out of fuel is allowed.
-/
import IsoVerif.Model.IsoParse
import IsoVerif.Lemmas.Lex

namespace IsoVerif.IsoParse
open IsoVerif.Lex IsoVerif.IsoLex IsoVerif.Gen.IsoTokens

/-! ## good positions and spans -/

def GoodPos (src : Bytes) (x : Nat) : Prop := x ≤ src.length ∧ isBoundary src x = true

structure GoodSpan (src : Bytes) (sp : Span) : Prop where
  le : sp.s ≤ sp.e
  s : GoodPos src sp.s
  e : GoodPos src sp.e

theorem goodPos_zero (src : Bytes) : GoodPos src 0 := ⟨Nat.zero_le _, by simp [isBoundary]⟩
theorem goodPos_len (src : Bytes) : GoodPos src src.length := ⟨Nat.le_refl _, by simp [isBoundary]⟩
theorem goodSpan_zero (src : Bytes) : GoodSpan src ⟨0, 0⟩ := ⟨Nat.le_refl _, goodPos_zero src, goodPos_zero src⟩

def DiagGood (src : Bytes) (d : Diag) : Prop :=
  match d.loc with
  | .span sp => GoodSpan src sp
  | .gen => True

/-! ## the spans inside a value -/

class Spans (α : Type) where
  spans : α → List Span

export Spans (spans)

instance : Spans Span := ⟨fun s => [s]⟩
instance : Spans Unit := ⟨fun _ => []⟩
instance : Spans Bool := ⟨fun _ => []⟩
instance : Spans Bytes := ⟨fun _ => []⟩
instance : Spans DirSet := ⟨fun _ => []⟩
instance : Spans (Tok IsoKind) := ⟨fun t => [⟨t.s, t.e⟩]⟩
instance {α : Type} [Spans α] : Spans (Loc α) := ⟨fun l => l.span :: spans l.item⟩
instance {α : Type} [Spans α] : Spans (Option α) := ⟨fun o => match o with | some a => spans a | none => []⟩
instance {α : Type} [Spans α] : Spans (List α) := ⟨fun l => l.flatMap spans⟩
instance {α β : Type} [Spans α] [Spans β] : Spans (α × β) := ⟨fun p => spans p.1 ++ spans p.2⟩
instance : Spans SemTok := ⟨fun t => [t.span]⟩

mutual
  def Value.spans : Value → List Span
    | .obj es => es.spans
    | _ => []
  def Entries.spans : Entries → List Span
    | .nil => []
    | .cons _ ns v vs tl => ns :: vs :: (v.spans ++ tl.spans)
end
instance : Spans Value := ⟨Value.spans⟩
instance : Spans Entries := ⟨Entries.spans⟩
instance : Spans Arg := ⟨fun a => spans a.name ++ spans a.value⟩
instance : Spans Directive := ⟨fun d => spans d.name ++ spans d.args⟩

def Ty.spans : Ty → List Span
  | .named _ _ => []
  | .list inner isp _ => isp :: inner.spans
instance : Spans Ty := ⟨Ty.spans⟩
instance : Spans VarDef := ⟨fun v => spans v.name ++ spans v.type ++ spans v.default⟩

mutual
  def Sel.spans : Sel → List Span
    | .scalar sp al n a _ => sp :: (Spans.spans al ++ Spans.spans n ++ Spans.spans a)
    | .object sp al n a _ set ss => sp :: ss :: (Spans.spans al ++ Spans.spans n ++ Spans.spans a ++ set.spans)
  def Sels.spans : Sels → List Span
    | .nil => []
    | .cons s tl => s.spans ++ tl.spans
end
instance : Spans Sel := ⟨Sel.spans⟩
instance : Spans Sels := ⟨Sels.spans⟩
instance : Spans SelSet := ⟨fun s => s.span :: spans s.sels⟩
instance : Spans SelBody := ⟨fun b => spans b.alias ++ spans b.name ++ spans b.args ++ spans b.set⟩

/-- every span of a declaration: AST nodes and semantic tokens -/
def Decl.spans : Decl → List Span
  | .field sp p n v d de set _ sem =>
    sp :: (Spans.spans p ++ Spans.spans n ++ Spans.spans v ++ Spans.spans d ++ Spans.spans de ++ Spans.spans set ++ Spans.spans sem)
  | .pointer sp p n v t d de set _ sem =>
    sp :: (Spans.spans p ++ Spans.spans n ++ Spans.spans v ++ Spans.spans t ++ Spans.spans d ++ Spans.spans de ++
      Spans.spans set ++ Spans.spans sem)
  | .entrypoint sp p n kw dot d sem =>
    sp :: kw :: dot :: (Spans.spans p ++ Spans.spans n ++ Spans.spans d ++ Spans.spans sem)
instance : Spans Decl := ⟨Decl.spans⟩
instance : Spans DeclBody := ⟨fun b => match b with
  | .field p n v d de set _ sem => spans p ++ spans n ++ spans v ++ spans d ++ spans de ++ spans set ++ spans sem
  | .pointer p n v t d de set _ sem => spans p ++ spans n ++ spans v ++ spans t ++ spans d ++ spans de ++ spans set ++ spans sem
  | .entrypoint p n kw dot d sem => kw :: dot :: (spans p ++ spans n ++ spans d ++ spans sem)⟩

/-- every span inside `a` is a good span of `src` -/
def Good {α : Type} [Spans α] (src : Bytes) (a : α) : Prop := ∀ sp ∈ spans a, GoodSpan src sp

/-! ## the state invariant -/

/-- the text of a token -/
def textOf (src : Bytes) (s e : Nat) : Bytes := (src.drop s).take (e - s)

/-- `source_with_quotes[1..len - 1]` does not panic on `b` -/
def QuoteOK (b : Bytes) : Prop := 2 ≤ b.length ∧ isBoundary b 1 = true ∧ isBoundary b (b.length - 1) = true
/-- `source[3..len - 3]` does not panic on `b` -/
def BlockOK (b : Bytes) : Prop := 6 ≤ b.length ∧ isBoundary b 3 = true ∧ isBoundary b (b.length - 3) = true

/-- what the parser relies on about the text of string tokens (a fact about the lexer) -/
def TextOK (src : Bytes) (t : Tok IsoKind) : Prop :=
  (t.kind = .StringLiteral → QuoteOK (textOf src t.s t.e)) ∧
  (t.kind = .BlockStringLiteral → BlockOK (textOf src t.s t.e))

/-- sorted, non-empty, good tokens, all starting at or after `lo` -/
def Chain (src : Bytes) : Nat → List (Tok IsoKind) → Prop
  | _, [] => True
  | lo, t :: ts => lo ≤ t.s ∧ t.s < t.e ∧ GoodPos src t.s ∧ GoodPos src t.e ∧ TextOK src t ∧ Chain src t.e ts

/-- semantic tokens (most recent first): non-empty good spans, sorted, all ending at or before `hi` -/
def SemSorted (src : Bytes) : List SemTok → Nat → Prop
  | [], _ => True
  | t :: ts, hi => t.span.s < t.span.e ∧ t.span.e ≤ hi ∧ GoodSpan src t.span ∧ SemSorted src ts t.span.s

theorem SemSorted.mono {src : Bytes} : ∀ {l : List SemTok} {hi hi' : Nat}, SemSorted src l hi → hi ≤ hi' → SemSorted src l hi'
  | [], _, _, _, _ => trivial
  | _ :: _, _, _, h, hle => ⟨h.1, Nat.le_trans h.2.1 hle, h.2.2.1, h.2.2.2⟩

structure WF (src : Bytes) (st : PL) : Prop where
  src_eq : st.src = src
  eolp : GoodPos src st.eolp
  eolp_le : st.eolp ≤ st.cur.s
  cur_s : GoodPos src st.cur.s
  cur_e : GoodPos src st.cur.e
  cur_le : st.cur.s ≤ st.cur.e
  cur_ne : st.cur.kind ≠ .EndOfFile → st.cur.s < st.cur.e
  cur_text : TextOK src st.cur
  chain : Chain src st.cur.e st.rest
  sem : SemSorted src st.sem st.eolp

structure Adv (st st' : PL) : Prop where
  eolp : st.eolp ≤ st'.eolp
  cur : st.cur.s ≤ st'.cur.s
  step : st' = st ∨ st.cur.e ≤ st'.eolp

theorem Adv.refl (st : PL) : Adv st st := ⟨Nat.le_refl _, Nat.le_refl _, .inl rfl⟩

theorem Adv.trans {a b c : PL} (h1 : Adv a b) (h2 : Adv b c) : Adv a c := by
  refine ⟨Nat.le_trans h1.eolp h2.eolp, Nat.le_trans h1.cur h2.cur, ?_⟩
  rcases h2.step with rfl | h
  · exact h1.step
  · rcases h1.step with rfl | h'
    · exact .inr h
    · exact .inr (Nat.le_trans h' h2.eolp)

/-- at least the token that was current in `st` has been consumed -/
def Consumed (st st' : PL) : Prop := st.cur.e ≤ st'.eolp

theorem Consumed.trans_left {a b c : PL} (h : Consumed a b) (h2 : Adv b c) : Consumed a c :=
  Nat.le_trans h h2.eolp

theorem Consumed.trans_right {a b c : PL} (h1 : Adv a b) (h2 : Adv b c) (h : Consumed b c) : Consumed a c := by
  rcases h1.step with rfl | h'
  · exact h
  · exact Nat.le_trans h' h2.eolp

/-! ## specifications -/

/-- see the header -/
def Spec {α : Type} (src : Bytes) (c : Bool) (p : P α) (G : α → Prop) : Prop :=
  ∀ st, WF src st →
    match p st with
    | .ok a st' => WF src st' ∧ Adv st st' ∧ G a ∧ (c = true → Consumed st st')
    | .err d st' => WF src st' ∧ Adv st st' ∧ DiagGood src d
    | .panic _ => False
    | .fuel => True

variable {src : Bytes}

theorem bind_apply {α β : Type} (p : P α) (f : α → P β) (st : PL) :
    (p >>= f) st = match p st with
      | .ok a st' => f a st'
      | .err d st' => .err d st'
      | .panic s => .panic s
      | .fuel => .fuel := rfl

theorem pure_apply {α : Type} (a : α) (st : PL) : (pure a : P α) st = .ok a st := rfl
theorem get_apply (st : PL) : get st = .ok st st := rfl
theorem peek_apply (st : PL) : peek st = .ok st.cur st := rfl
theorem fail_apply {α : Type} (d : Diag) (st : PL) : (fail d : P α) st = .err d st := rfl
theorem panic_apply {α : Type} (s : Site) (st : PL) : (panic s : P α) st = .panic s := rfl

theorem Spec.pure {α : Type} {G : α → Prop} (a : α) (h : G a) : Spec src false (pure a : P α) G := by
  intro st hwf
  exact ⟨hwf, Adv.refl st, h, by simp⟩

theorem Spec.fail {α : Type} {G : α → Prop} {c : Bool} (d : Diag) (h : DiagGood src d) : Spec src c (fail d : P α) G := by
  intro st hwf
  exact ⟨hwf, Adv.refl st, h⟩

theorem Spec.outOfFuel {α : Type} {G : α → Prop} {c : Bool} : Spec src c (outOfFuel : P α) G := by
  intro st _; trivial

theorem Spec.weaken {α : Type} {G G' : α → Prop} {c c' : Bool} {p : P α} (h : Spec src c p G)
    (hc : c' = true → c = true) (hG : ∀ a, G a → G' a) : Spec src c' p G' := by
  intro st hwf
  have := h st hwf
  cases hp : p st with
  | ok a st' => rw [hp] at this; exact ⟨this.1, this.2.1, hG a this.2.2.1, fun h' => this.2.2.2 (hc h')⟩
  | err d st' => rw [hp] at this; exact this
  | panic s => rw [hp] at this; exact this
  | fuel => trivial

theorem Spec.bind {α β : Type} {G1 : α → Prop} {G2 : β → Prop} {c1 c2 : Bool} {p : P α} {f : α → P β}
    (h1 : Spec src c1 p G1) (h2 : ∀ a, G1 a → Spec src c2 (f a) G2) : Spec src (c1 || c2) (p >>= f) G2 := by
  intro st hwf
  show match P.bind p f st with
    | .ok a st' => _
    | .err d st' => _
    | .panic _ => False
    | .fuel => True
  have hp := h1 st hwf
  unfold P.bind
  cases h : p st with
  | ok a st1 =>
    rw [h] at hp
    obtain ⟨hwf1, hadv1, hg1, hc1⟩ := hp
    have hf := h2 a hg1 st1 hwf1
    simp only
    cases h' : f a st1 with
    | ok b st2 =>
      rw [h'] at hf
      obtain ⟨hwf2, hadv2, hg2, hc2⟩ := hf
      refine ⟨hwf2, hadv1.trans hadv2, hg2, ?_⟩
      intro hc
      simp only [Bool.or_eq_true] at hc
      rcases hc with hc | hc
      · exact (hc1 hc).trans_left hadv2
      · exact Consumed.trans_right hadv1 hadv2 (hc2 hc)
    | err d st2 =>
      rw [h'] at hf
      exact ⟨hf.1, hadv1.trans hf.2.1, hf.2.2⟩
    | panic s => rw [h'] at hf; exact hf
    | fuel => trivial
  | err d st1 => rw [h] at hp; simpa using hp
  | panic s => rw [h] at hp; exact hp
  | fuel => trivial

/-- `match ← attempt p with | .ok a => k (.ok a) | .error d => k (.error d)` -/
theorem Spec.attemptBind {α β : Type} {G1 : α → Prop} {G2 : β → Prop} {c1 c2 c3 : Bool} {p : P α}
    {k : Except Diag α → P β}
    (h1 : Spec src c1 p G1) (hok : ∀ a, G1 a → Spec src c2 (k (.ok a)) G2)
    (herr : ∀ d, DiagGood src d → Spec src c3 (k (.error d)) G2) :
    Spec src ((c1 || c2) && c3) (attempt p >>= k) G2 := by
  intro st hwf
  show match P.bind (attempt p) k st with
    | .ok a st' => _
    | .err d st' => _
    | .panic _ => False
    | .fuel => True
  have hp := h1 st hwf
  unfold P.bind attempt
  cases h : p st with
  | ok a st1 =>
    rw [h] at hp
    obtain ⟨hwf1, hadv1, hg1, hc1⟩ := hp
    have hf := hok a hg1 st1 hwf1
    simp only
    cases h' : k (.ok a) st1 with
    | ok b st2 =>
      rw [h'] at hf
      obtain ⟨hwf2, hadv2, hg2, hc2⟩ := hf
      refine ⟨hwf2, hadv1.trans hadv2, hg2, ?_⟩
      intro hc
      simp only [Bool.and_eq_true, Bool.or_eq_true] at hc
      rcases hc.1 with hc | hc
      · exact (hc1 hc).trans_left hadv2
      · exact Consumed.trans_right hadv1 hadv2 (hc2 hc)
    | err d st2 =>
      rw [h'] at hf
      exact ⟨hf.1, hadv1.trans hf.2.1, hf.2.2⟩
    | panic s => rw [h'] at hf; exact hf
    | fuel => trivial
  | err d st1 =>
    rw [h] at hp
    obtain ⟨hwf1, hadv1, hd⟩ := hp
    have hf := herr d hd st1 hwf1
    simp only
    cases h' : k (.error d) st1 with
    | ok b st2 =>
      rw [h'] at hf
      obtain ⟨hwf2, hadv2, hg2, hc2⟩ := hf
      refine ⟨hwf2, hadv1.trans hadv2, hg2, ?_⟩
      intro hc
      simp only [Bool.and_eq_true, Bool.or_eq_true] at hc
      exact Consumed.trans_right hadv1 hadv2 (hc2 hc.2)
    | err d2 st2 =>
      rw [h'] at hf
      exact ⟨hf.1, hadv1.trans hf.2.1, hf.2.2⟩
    | panic s => rw [h'] at hf; exact hf
    | fuel => trivial
  | panic s => rw [h] at hp; exact hp
  | fuel => trivial

/-- reading the state: the continuation may use that it is well-formed -/
theorem Spec.getBind {β : Type} {G2 : β → Prop} {c : Bool} {f : PL → P β}
    (h : ∀ st0, WF src st0 → ∀ st, st = st0 → WF src st →
      match f st0 st with
      | .ok a st' => WF src st' ∧ Adv st st' ∧ G2 a ∧ (c = true → Consumed st st')
      | .err d st' => WF src st' ∧ Adv st st' ∧ DiagGood src d
      | .panic _ => False
      | .fuel => True) : Spec src c (get >>= f) G2 := by
  intro st hwf
  exact h st hwf st rfl hwf

end IsoVerif.IsoParse
