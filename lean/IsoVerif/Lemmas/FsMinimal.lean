/-
`diff` writes every path at most once (together with `mem_diff_write` this makes the minimality
statement a multiset statement).
-/
import IsoVerif.Lemmas.FsCompile

namespace IsoVerif.Fs
open IsoVerif.Util

variable {α : Type} [DecidableEq α]

def Op.wpath : Op α → Option (Path α)
  | .writeFile p _ => some p
  | _ => none

/-- the paths of the `WriteFile` operations, in order, with multiplicity -/
def writePaths (ops : List (Op α)) : List (Path α) := ops.filterMap Op.wpath

theorem writePaths_append (a b : List (Op α)) : writePaths (a ++ b) = writePaths a ++ writePaths b :=
  List.filterMap_append

theorem writePaths_flatMap {β : Type} (l : List β) (g : β → List (Op α)) :
    writePaths (l.flatMap g) = l.flatMap (fun x => writePaths (g x)) :=
  List.filterMap_flatMap

theorem mem_writePaths (ops : List (Op α)) (p : Path α) :
    p ∈ writePaths ops ↔ ∃ k, Op.writeFile p k ∈ ops := by
  simp only [writePaths, List.mem_filterMap]
  constructor
  · rintro ⟨op, hop, h⟩
    cases op with
    | writeFile q k => simp [Op.wpath] at h; subst h; exact ⟨k, hop⟩
    | deleteDirectory q => simp [Op.wpath] at h
    | createDirectory q => simp [Op.wpath] at h
    | deleteFile q => simp [Op.wpath] at h
  · rintro ⟨k, hk⟩
    exact ⟨_, hk, rfl⟩

theorem not_mem_of_lookup_none {κ ν : Type} [DecidableEq κ] (l : AList κ ν) (k : κ)
    (h : AList.lookup l k = none) (x : κ × ν) (hx : x ∈ l) : x.1 ≠ k := by
  induction l with
  | nil => simp at hx
  | cons y rest ih =>
    obtain ⟨k0, v0⟩ := y
    rw [lookup_cons] at h
    by_cases h0 : k0 = k
    · simp [h0] at h
    · simp only [h0, if_false] at h
      rcases List.mem_cons.mp hx with rfl | hmem
      · exact h0
      · exact ih h hmem

/-- chunks generated from the entries of a duplicate-free association list: if every chunk is
duplicate-free and every element of a chunk carries the key of its entry, the concatenation is
duplicate-free -/
theorem nodup_flatMap_keys {κ ν β : Type} [DecidableEq κ] (l : AList κ ν) (g : κ × ν → List β)
    (tag : β → Option κ) (hl : NodupKeys l) (hg : ∀ x ∈ l, (g x).Nodup)
    (htag : ∀ x ∈ l, ∀ b ∈ g x, tag b = some x.1) : (l.flatMap g).Nodup := by
  induction l with
  | nil => simp
  | cons y rest ih =>
    obtain ⟨k, v⟩ := y
    obtain ⟨h1, h2⟩ := hl
    simp only [List.flatMap_cons]
    rw [List.nodup_append]
    refine ⟨hg _ List.mem_cons_self, ih h2 (fun x hx => hg x (List.mem_cons_of_mem _ hx))
      (fun x hx => htag x (List.mem_cons_of_mem _ hx)), ?_⟩
    intro a ha b hb hab
    obtain ⟨x, hx, hbx⟩ := List.mem_flatMap.mp hb
    have t1 := htag _ List.mem_cons_self a ha
    have t2 := htag x (List.mem_cons_of_mem _ hx) b hbx
    rw [hab, t2] at t1
    simp only [Option.some.injEq] at t1
    exact not_mem_of_lookup_none rest k h1 x hx t1

theorem writePaths_wic (ofm : Option (Files α)) (dir : Path α) (x : α × (Nat × Bytes)) :
    writePaths (writeIfChanged ofm dir x) = [] ∨ writePaths (writeIfChanged ofm dir x) = [dir ++ [x.1]] := by
  obtain ⟨f, i, h⟩ := x
  simp only [writeIfChanged]
  split
  · split
    · right; rfl
    · left; rfl
  · right; rfl

theorem files_writes_nodup (ofm : Option (Files α)) (dir : Path α) (fm : Files α) (hfm : NodupKeys fm) :
    (writePaths (fm.flatMap (writeIfChanged ofm dir))).Nodup ∧
    ∀ p ∈ writePaths (fm.flatMap (writeIfChanged ofm dir)), ∃ f, p = dir ++ [f] := by
  rw [writePaths_flatMap]
  constructor
  · refine nodup_flatMap_keys fm _ (fun p => p.getLast?) hfm ?_ ?_
    · intro x _
      rcases writePaths_wic ofm dir x with h | h <;> rw [h] <;> simp
    · intro x _ b hb
      rcases writePaths_wic ofm dir x with h | h
      · rw [h] at hb; simp at hb
      · rw [h] at hb; simp at hb; subst hb; simp
  · intro p hp
    obtain ⟨x, _, hpx⟩ := List.mem_flatMap.mp hp
    rcases writePaths_wic ofm dir x with h | h
    · rw [h] at hpx; simp at hpx
    · rw [h] at hpx; simp at hpx; exact ⟨x.1, hpx⟩

theorem writePaths_newSelOps (old : State α) (e s : α) (fm : Files α) :
    writePaths (newSelOps old e s fm) =
      writePaths (fm.flatMap (writeIfChanged (oldFilesFor old e s) [e, s])) := by
  unfold newSelOps
  rw [writePaths_append]
  split <;> simp [writePaths, Op.wpath]

/-- **No path is written twice.** -/
theorem diff_writes_nodup (old new : State α) (hwf : new.WF) : (writePaths (diff old new)).Nodup := by
  -- deletions write nothing
  have h3 : writePaths (oldNestedOps new old.nestedFiles) = [] := by
    apply List.eq_nil_iff_forall_not_mem.mpr
    intro p hp
    obtain ⟨k, hk⟩ := (mem_writePaths _ p).mp hp
    have : Op.writeFile p k ∈ diff old new := by
      unfold diff; simp only [List.mem_append]; exact Or.inl (Or.inr hk)
    -- a write among the deletions would have to be a recorded new file *and* come from the old loops
    unfold oldNestedOps oldEntOps oldSelOps at hk
    simp only [List.mem_flatMap] at hk
    obtain ⟨x, _, hk⟩ := hk
    split at hk
    · simp at hk
    · simp only [List.mem_flatMap] at hk
      obtain ⟨y, _, hk⟩ := hk
      split at hk
      · simp at hk
      · simp only [List.mem_flatMap] at hk
        obtain ⟨z, _, hk⟩ := hk
        simp only [delFileIfGone] at hk
        split at hk <;> simp at hk
  have h4 : writePaths (oldRootOps new old.rootFiles) = [] := by
    apply List.eq_nil_iff_forall_not_mem.mpr
    intro p hp
    obtain ⟨k, hk⟩ := (mem_writePaths _ p).mp hp
    unfold oldRootOps at hk
    simp only [List.mem_flatMap] at hk
    obtain ⟨z, _, hk⟩ := hk
    simp only [delFileIfGone] at hk
    split at hk <;> simp at hk
  -- nested files: paths `[e, s, f]`
  have h1 : (writePaths (newNestedOps old new.nestedFiles)).Nodup ∧
      ∀ p ∈ writePaths (newNestedOps old new.nestedFiles), p.length = 3 := by
    unfold newNestedOps
    rw [writePaths_flatMap]
    have hent : ∀ x ∈ new.nestedFiles,
        (writePaths (newEntOps old x.1 x.2)).Nodup ∧
        ∀ p ∈ writePaths (newEntOps old x.1 x.2), ∃ s f, p = [x.1, s, f] := by
      intro x hx
      obtain ⟨e, sm⟩ := x
      have hle := lookup_of_mem _ _ _ hwf.ent hx
      unfold newEntOps
      rw [writePaths_flatMap]
      have hsel : ∀ y ∈ sm,
          (writePaths (newSelOps old e y.1 y.2)).Nodup ∧
          ∀ p ∈ writePaths (newSelOps old e y.1 y.2), ∃ f, p = [e, y.1, f] := by
        intro y hy
        obtain ⟨s, fm⟩ := y
        have hls := lookup_of_mem _ _ _ (hwf.sel e sm hle).1 hy
        rw [writePaths_newSelOps]
        obtain ⟨a, b⟩ := files_writes_nodup (oldFilesFor old e s) [e, s] fm (hwf.fil e sm s fm hle hls)
        exact ⟨a, fun p hp => by obtain ⟨f, hf⟩ := b p hp; exact ⟨f, by simpa using hf⟩⟩
      constructor
      · refine nodup_flatMap_keys sm _ (fun p => p[1]?) (hwf.sel e sm hle).1
          (fun y hy => (hsel y hy).1) ?_
        intro y hy b hb
        obtain ⟨f, hf⟩ := (hsel y hy).2 b hb
        subst hf; simp
      · intro p hp
        obtain ⟨y, hy, hpy⟩ := List.mem_flatMap.mp hp
        obtain ⟨f, hf⟩ := (hsel y hy).2 p hpy
        exact ⟨y.1, f, hf⟩
    constructor
    · refine nodup_flatMap_keys new.nestedFiles _ (fun p => p.head?) hwf.ent
        (fun x hx => (hent x hx).1) ?_
      intro x hx b hb
      obtain ⟨s, f, hf⟩ := (hent x hx).2 b hb
      subst hf; simp
    · intro p hp
      obtain ⟨x, hx, hpx⟩ := List.mem_flatMap.mp hp
      obtain ⟨s, f, hf⟩ := (hent x hx).2 p hpx
      subst hf; rfl
  -- root files: paths `[f]`
  have h2 : (writePaths (newRootOps old new.rootFiles)).Nodup ∧
      ∀ p ∈ writePaths (newRootOps old new.rootFiles), p.length = 1 := by
    unfold newRootOps
    obtain ⟨a, b⟩ := files_writes_nodup (some old.rootFiles) [] new.rootFiles hwf.root
    exact ⟨a, fun p hp => by obtain ⟨f, hf⟩ := b p hp; subst hf; rfl⟩
  unfold diff
  rw [writePaths_append, writePaths_append, writePaths_append, h3, h4]
  simp only [List.append_nil]
  rw [List.nodup_append]
  refine ⟨h1.1, h2.1, fun a ha b hb hab => ?_⟩
  have := h1.2 a ha
  rw [hab, h2.2 b hb] at this
  cases this

end IsoVerif.Fs
