/- Aggregator: the lemmas behind Props/C23.lean live in LspPosCore (offset → position, semantic
tokens) and LspPosHover (position → offset). -/
import IsoVerif.Lemmas.LspPosCore
import IsoVerif.Lemmas.LspPosHover
