/-
Sorted association lists with "insert unless present" (`Model/Core/Merge.lean`, section AMap):
sortedness is an invariant, a sorted list is determined by its `find` function, and from that the
algebra of `union` (= `BTreeMap` merge in which the left operand wins on common keys).
Core Lean only.
-/
import IsoVerif.Model.Core.Merge

namespace IsoVerif.Core.Merge

variable {κ ι : Type}

/-- what the theorems need of the key order -/
structure StrictTotal (lt : κ → κ → Bool) : Prop where
  irrefl : ∀ a, lt a a = false
  trans : ∀ a b c, lt a b = true → lt b c = true → lt a c = true
  total : ∀ a b, lt a b = false → lt b a = false → a = b

/-- node data is a function of the key -/
def Coherent (l : List (κ × ι)) : Prop :=
  ∀ e ∈ l, ∀ e' ∈ l, e.1 = e'.1 → e.2 = e'.2

/-- two maps agree on their common keys -/
def Agree (lt : κ → κ → Bool) (a b : List (κ × ι)) : Prop :=
  ∀ k x y, find lt k a = some x → find lt k b = some y → x = y

variable {lt : κ → κ → Bool}

theorem StrictTotal.asymm (h : StrictTotal lt) {a b : κ} (hab : lt a b = true) : lt b a = false := by
  cases hba : lt b a with
  | false => rfl
  | true =>
    have := h.trans a b a hab hba
    rw [h.irrefl] at this
    cases this

/-- `find` looks a key up: keys are compared with `lt` both ways -/
theorem find_cons (k k' : κ) (v' : ι) (rest : List (κ × ι)) :
    find lt k ((k', v') :: rest) = if lt k k' || lt k' k then find lt k rest else some v' := rfl

/-! ### sortedness -/

theorem sorted_cons_cons (a b : κ × ι) (rest : List (κ × ι)) :
    Sorted lt (a :: b :: rest) ↔ (lt a.1 b.1 = true ∧ Sorted lt (b :: rest)) := Iff.rfl

theorem Sorted.tail {a : κ × ι} {m : List (κ × ι)} (hs : Sorted lt (a :: m)) : Sorted lt m := by
  cases m with
  | nil => trivial
  | cons b rest => exact ((sorted_cons_cons a b rest).1 hs).2

theorem Sorted.cons_of {a : κ × ι} {m : List (κ × ι)}
    (hgt : ∀ e ∈ m, lt a.1 e.1 = true) (hs : Sorted lt m) : Sorted lt (a :: m) := by
  cases m with
  | nil => trivial
  | cons b rest => exact (sorted_cons_cons a b rest).2 ⟨hgt b (by simp), hs⟩

/-- in a sorted list every key of the tail is greater than the head key -/
theorem Sorted.allGt (h : StrictTotal lt) {a : κ × ι} {m : List (κ × ι)}
    (hs : Sorted lt (a :: m)) : ∀ e ∈ m, lt a.1 e.1 = true := by
  induction m generalizing a with
  | nil => intro e he; cases he
  | cons b rest ih =>
    intro e he
    have ⟨hab, hs'⟩ := (sorted_cons_cons a b rest).1 hs
    rcases List.mem_cons.1 he with rfl | he
    · exact hab
    · exact h.trans _ _ _ hab (ih hs' e he)

theorem sorted_cons_iff (h : StrictTotal lt) {a : κ × ι} {m : List (κ × ι)} :
    Sorted lt (a :: m) ↔ ((∀ e ∈ m, lt a.1 e.1 = true) ∧ Sorted lt m) :=
  ⟨fun hs => ⟨hs.allGt h, hs.tail⟩, fun ⟨hgt, hs⟩ => Sorted.cons_of hgt hs⟩

theorem mem_insertIfAbsent {k : κ} {v : ι} {m : List (κ × ι)} {e : κ × ι} :
    e ∈ insertIfAbsent lt k v m → e = (k, v) ∨ e ∈ m := by
  induction m with
  | nil =>
    intro he
    simp only [insertIfAbsent, List.mem_singleton] at he
    exact Or.inl he
  | cons b rest ih =>
    obtain ⟨k', v'⟩ := b
    simp only [insertIfAbsent]
    split
    · intro he
      rcases List.mem_cons.1 he with rfl | he
      · exact Or.inl rfl
      · exact Or.inr he
    · split
      · intro he
        rcases List.mem_cons.1 he with rfl | he
        · exact Or.inr (by simp)
        · rcases ih he with h | h
          · exact Or.inl h
          · exact Or.inr (List.mem_cons_of_mem _ h)
      · exact Or.inr

theorem insertIfAbsent_sorted (h : StrictTotal lt) (k : κ) (v : ι) {m : List (κ × ι)} :
    Sorted lt m → Sorted lt (insertIfAbsent lt k v m) := by
  induction m with
  | nil => intro _; trivial
  | cons b rest ih =>
    obtain ⟨k', v'⟩ := b
    intro hs
    simp only [insertIfAbsent]
    split
    · next h1 => exact (sorted_cons_cons _ _ _).2 ⟨h1, hs⟩
    · split
      · next h1 h2 =>
        refine Sorted.cons_of ?_ (ih hs.tail)
        intro e he
        rcases mem_insertIfAbsent he with rfl | he
        · exact h2
        · exact hs.allGt h e he
      · exact hs

theorem insertAll_nil (m : List (κ × ι)) : insertAll lt m [] = m := rfl

theorem insertAll_cons (m : List (κ × ι)) (e : κ × ι) (l : List (κ × ι)) :
    insertAll lt m (e :: l) = insertAll lt (insertIfAbsent lt e.1 e.2 m) l := rfl

theorem insertAll_sorted (h : StrictTotal lt) {m : List (κ × ι)} (l : List (κ × ι)) :
    Sorted lt m → Sorted lt (insertAll lt m l) := by
  induction l generalizing m with
  | nil => exact id
  | cons e l ih =>
    intro hs
    rw [insertAll_cons]
    exact ih (insertIfAbsent_sorted h _ _ hs)

theorem build_sorted (h : StrictTotal lt) (l : List (κ × ι)) : Sorted lt (build lt l) :=
  insertAll_sorted h l (m := []) trivial

theorem union_sorted (h : StrictTotal lt) {a : List (κ × ι)} (hs : Sorted lt a) (b : List (κ × ι)) :
    Sorted lt (union lt a b) :=
  insertAll_sorted h b hs

/-! ### `find` -/

theorem find_nil (k : κ) : find lt k ([] : List (κ × ι)) = none := rfl

theorem find_cons_self (h : StrictTotal lt) (k : κ) (v : ι) (rest : List (κ × ι)) :
    find lt k ((k, v) :: rest) = some v := by
  simp [find_cons, h.irrefl]

theorem find_cons_of_ne {k k' : κ} (hne : (lt k k' || lt k' k) = true) (v' : ι)
    (rest : List (κ × ι)) : find lt k ((k', v') :: rest) = find lt k rest := by
  simp [find_cons, hne]

/-- under a strict total order, "neither smaller nor greater" is equality -/
theorem StrictTotal.eq_of_not_or (h : StrictTotal lt) {a b : κ}
    (hab : (lt a b || lt b a) = false) : a = b := by
  rw [Bool.or_eq_false_iff] at hab
  exact h.total a b hab.1 hab.2

theorem find_eq_none_of_allGt {k : κ} {m : List (κ × ι)}
    (hgt : ∀ e ∈ m, lt k e.1 = true) : find lt k m = none := by
  induction m with
  | nil => rfl
  | cons b rest ih =>
    obtain ⟨k', v'⟩ := b
    have h1 : lt k k' = true := hgt (k', v') (by simp)
    rw [find_cons_of_ne (by simp [h1])]
    exact ih (fun e he => hgt e (List.mem_cons_of_mem _ he))

/-- the head key of a sorted list does not occur in the tail -/
theorem Sorted.find_tail (h : StrictTotal lt) {k : κ} {v : ι} {m : List (κ × ι)}
    (hs : Sorted lt ((k, v) :: m)) : find lt k m = none :=
  find_eq_none_of_allGt (hs.allGt h)

theorem find_some_mem (h : StrictTotal lt) {k : κ} {x : ι} {m : List (κ × ι)} :
    find lt k m = some x → (k, x) ∈ m := by
  induction m with
  | nil => intro hf; cases hf
  | cons b rest ih =>
    obtain ⟨k', v'⟩ := b
    rw [find_cons]
    cases hc : (lt k k' || lt k' k)
    · intro hf
      have := h.eq_of_not_or hc
      subst this
      simp only [Bool.false_eq_true, if_false] at hf
      cases hf
      simp
    · intro hf
      simp only [if_true] at hf
      exact List.mem_cons_of_mem _ (ih hf)

theorem find_isSome_of_mem (h : StrictTotal lt) {k : κ} {x : ι} {m : List (κ × ι)} :
    (k, x) ∈ m → ∃ y, find lt k m = some y := by
  induction m with
  | nil => intro hm; cases hm
  | cons b rest ih =>
    obtain ⟨k', v'⟩ := b
    intro hm
    rw [find_cons]
    cases hc : (lt k k' || lt k' k)
    · exact ⟨v', by simp⟩
    · simp only [if_true]
      rcases List.mem_cons.1 hm with heq | hm
      · cases heq
        simp [h.irrefl] at hc
      · exact ih hm

theorem find_eq_none_iff (h : StrictTotal lt) {k : κ} {m : List (κ × ι)} :
    find lt k m = none ↔ ∀ x, (k, x) ∉ m := by
  constructor
  · intro hf x hm
    obtain ⟨y, hy⟩ := find_isSome_of_mem h hm
    rw [hf] at hy
    cases hy
  · intro hn
    cases hf : find lt k m with
    | none => rfl
    | some x => exact absurd (find_some_mem h hf) (hn x)

/-- in a sorted list, `find` is membership -/
theorem mem_iff_find (h : StrictTotal lt) {m : List (κ × ι)} (hs : Sorted lt m) (k : κ) (x : ι) :
    (k, x) ∈ m ↔ find lt k m = some x := by
  refine ⟨?_, find_some_mem h⟩
  induction m with
  | nil => intro hm; cases hm
  | cons b rest ih =>
    obtain ⟨k', v'⟩ := b
    intro hm
    rcases List.mem_cons.1 hm with heq | hm
    · cases heq
      exact find_cons_self h _ _ _
    · have hlt : lt k' k = true := hs.allGt h (k, x) hm
      rw [find_cons_of_ne (by simp [hlt])]
      exact ih hs.tail hm

theorem find_insertIfAbsent (h : StrictTotal lt) {m : List (κ × ι)} (hs : Sorted lt m) (k k' : κ) (v : ι) :
    find lt k' (insertIfAbsent lt k v m) =
      match find lt k' m with
      | some x => some x
      | none => if lt k k' || lt k' k then none else some v := by
  induction m with
  | nil =>
    show (if (lt k' k || lt k k') = true then none else some v) =
      (if (lt k k' || lt k' k) = true then none else some v)
    rw [Bool.or_comm]
  | cons b rest ih =>
    obtain ⟨k0, v0⟩ := b
    simp only [insertIfAbsent]
    split
    · next h1 =>
      cases hc : (lt k' k || lt k k')
      · have := h.eq_of_not_or hc
        subst this
        have hn : find lt k' ((k0, v0) :: rest) = none := by
          apply find_eq_none_of_allGt
          intro e he
          rcases List.mem_cons.1 he with rfl | he
          · exact h1
          · exact h.trans _ _ _ h1 (hs.allGt h e he)
        rw [find_cons_self h, hn]
        simp [h.irrefl]
      · rw [find_cons_of_ne hc]
        rw [Bool.or_comm] at hc
        generalize find lt k' ((k0, v0) :: rest) = o
        cases o <;> simp [hc]
    · split
      · next h1 h2 =>
        rw [find_cons k' k0 v0, find_cons k' k0 v0]
        cases hc : (lt k' k0 || lt k0 k')
        · simp
        · simp only [if_true]
          exact ih hs.tail
      · next h1 h2 =>
        have hk : k = k0 := h.total _ _ (by simpa using h1) (by simpa using h2)
        subst hk
        generalize hf : find lt k' ((k, v0) :: rest) = o
        cases o with
        | some x => rfl
        | none =>
          cases hc : (lt k k' || lt k' k)
          · have := h.eq_of_not_or hc
            subst this
            rw [find_cons_self h] at hf
            cases hf
          · simp

theorem find_insertAll (h : StrictTotal lt) {m : List (κ × ι)} (hs : Sorted lt m) (l : List (κ × ι)) (k : κ) :
    find lt k (insertAll lt m l) =
      match find lt k m with
      | some x => some x
      | none => find lt k l := by
  induction l generalizing m with
  | nil =>
    rw [insertAll_nil, find_nil]
    cases find lt k m <;> rfl
  | cons e l ih =>
    obtain ⟨k0, v0⟩ := e
    rw [insertAll_cons, ih (insertIfAbsent_sorted h _ _ hs), find_insertIfAbsent h hs, find_cons]
    cases find lt k m with
    | some x => rfl
    | none =>
      show (match (if (lt k0 k || lt k k0) = true then none else some v0) with
        | some x => some x
        | none => find lt k l) = _
      rw [Bool.or_comm]
      cases (lt k k0 || lt k0 k) <;> simp

theorem find_build (h : StrictTotal lt) (l : List (κ × ι)) (k : κ) :
    find lt k (build lt l) = find lt k l :=
  find_insertAll h (m := []) trivial l k

theorem find_union (h : StrictTotal lt) {a : List (κ × ι)} (hs : Sorted lt a) (b : List (κ × ι)) (k : κ) :
    find lt k (union lt a b) =
      match find lt k a with
      | some x => some x
      | none => find lt k b :=
  find_insertAll h hs b k

/-! ### extensionality, and the algebra of `union` -/

/-- a sorted list is determined by its lookup function -/
theorem sorted_ext (h : StrictTotal lt) {a b : List (κ × ι)} :
    Sorted lt a → Sorted lt b → (∀ k, find lt k a = find lt k b) → a = b := by
  induction a generalizing b with
  | nil =>
    intro _ _ hf
    cases b with
    | nil => rfl
    | cons e b' =>
      obtain ⟨k, v⟩ := e
      have := hf k
      rw [find_cons_self h, find_nil] at this
      cases this
  | cons e a' ih =>
    obtain ⟨k, v⟩ := e
    intro hsa hsb hf
    cases b with
    | nil =>
      have := hf k
      rw [find_cons_self h, find_nil] at this
      cases this
    | cons e' b' =>
      obtain ⟨k2, v2⟩ := e'
      have hk : k = k2 := by
        apply h.total
        · cases h1 : lt k k2 with
          | false => rfl
          | true =>
            have hn : find lt k ((k2, v2) :: b') = none := by
              apply find_eq_none_of_allGt
              intro e he
              rcases List.mem_cons.1 he with rfl | he
              · exact h1
              · exact h.trans _ _ _ h1 (hsb.allGt h e he)
            have := hf k
            rw [find_cons_self h, hn] at this
            cases this
        · cases h1 : lt k2 k with
          | false => rfl
          | true =>
            have hn : find lt k2 ((k, v) :: a') = none := by
              apply find_eq_none_of_allGt
              intro e he
              rcases List.mem_cons.1 he with rfl | he
              · exact h1
              · exact h.trans _ _ _ h1 (hsa.allGt h e he)
            have := hf k2
            rw [find_cons_self h, hn] at this
            cases this
      subst hk
      have hv : v = v2 := by
        have := hf k
        rw [find_cons_self h, find_cons_self h] at this
        exact Option.some.inj this
      subst hv
      have : a' = b' := by
        apply ih hsa.tail hsb.tail
        intro k'
        cases hc : (lt k' k || lt k k')
        · have := h.eq_of_not_or hc
          subst this
          rw [hsa.find_tail h, hsb.find_tail h]
        · have := hf k'
          rw [find_cons_of_ne hc, find_cons_of_ne hc] at this
          exact this
      rw [this]

theorem merge_idem (h : StrictTotal lt) {a : List (κ × ι)} : Sorted lt a → union lt a a = a := by
  intro hs
  apply sorted_ext h (union_sorted h hs a) hs
  intro k
  rw [find_union h hs]
  cases find lt k a <;> rfl

theorem merge_assoc (h : StrictTotal lt) {a b c : List (κ × ι)} :
    Sorted lt a → Sorted lt b → union lt (union lt a b) c = union lt a (union lt b c) := by
  intro hsa hsb
  have hsab : Sorted lt (union lt a b) := union_sorted h hsa b
  apply sorted_ext h (union_sorted h hsab c) (union_sorted h hsa _)
  intro k
  rw [find_union h hsab, find_union h hsa, find_union h hsa, find_union h hsb]
  cases find lt k a with
  | some x => rfl
  | none => cases find lt k b <;> rfl

theorem merge_comm (h : StrictTotal lt) {a b : List (κ × ι)} :
    Sorted lt a → Sorted lt b → Agree lt a b → union lt a b = union lt b a := by
  intro hsa hsb hag
  apply sorted_ext h (union_sorted h hsa b) (union_sorted h hsb a)
  intro k
  rw [find_union h hsa, find_union h hsb]
  cases hfa : find lt k a with
  | none => cases find lt k b <;> rfl
  | some x =>
    cases hfb : find lt k b with
    | none => rfl
    | some y => rw [hag k x y hfa hfb]

theorem insertAll_congr (h : StrictTotal lt) {m : List (κ × ι)} (hs : Sorted lt m) {l l' : List (κ × ι)} :
    (∀ k, find lt k l = find lt k l') → insertAll lt m l = insertAll lt m l' := by
  intro hf
  apply sorted_ext h (insertAll_sorted h l hs) (insertAll_sorted h l' hs)
  intro k
  rw [find_insertAll h hs, find_insertAll h hs, hf k]

theorem find_eq_of_mem_iff (h : StrictTotal lt) {l l' : List (κ × ι)} :
    Coherent l → (∀ e, e ∈ l ↔ e ∈ l') → ∀ k, find lt k l = find lt k l' := by
  intro hc hm k
  cases hfl : find lt k l with
  | none =>
    cases hfl' : find lt k l' with
    | none => rfl
    | some y =>
      have := (hm _).2 (find_some_mem h hfl')
      exact absurd this ((find_eq_none_iff h).1 hfl y)
  | some x =>
    have hx := find_some_mem h hfl
    obtain ⟨y, hy⟩ := find_isSome_of_mem h ((hm _).1 hx)
    have hy' := (hm _).2 (find_some_mem h hy)
    have : x = y := hc _ hx _ hy' rfl
    rw [hy, this]

/-- the map built from a list of insertions depends only on the SET of insertions, when node data
is a function of the key -/
theorem insertAll_ext (h : StrictTotal lt) {m : List (κ × ι)} (hs : Sorted lt m) {l l' : List (κ × ι)} :
    Coherent l → (∀ e, e ∈ l ↔ e ∈ l') → insertAll lt m l = insertAll lt m l' :=
  fun hc hm => insertAll_congr h hs (find_eq_of_mem_iff h hc hm)

theorem mem_build_iff (h : StrictTotal lt) {l : List (κ × ι)} (hc : Coherent l) :
    ∀ e, e ∈ build lt l ↔ e ∈ l := by
  intro e
  obtain ⟨k, v⟩ := e
  rw [mem_iff_find h (build_sorted h l), find_build h]
  constructor
  · exact find_some_mem h
  · intro hm
    obtain ⟨y, hy⟩ := find_isSome_of_mem h hm
    have : v = y := hc _ hm _ (find_some_mem h hy) rfl
    rw [hy, this]

/-- appending insertions: building from `l ++ l'` is building from `l`, then inserting `l'` -/
theorem insertAll_append (m l l' : List (κ × ι)) :
    insertAll lt m (l ++ l') = insertAll lt (insertAll lt m l) l' := by
  simp only [insertAll, List.foldl_append]

end IsoVerif.Core.Merge
