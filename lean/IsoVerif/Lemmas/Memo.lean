/-
Lemmas for C04 (M-MEMO): the store invariant behind isolation, and injectivity of the
definition-site text `module_path:line:column`.
-/
import IsoVerif.Model.Memo

namespace IsoVerif.Memo

/-! ### isolation -/

/-- every cache entry under key `(key g, a)` holds `g`'s value at `a`, for some function of the program -/
def Inv (prog : List MemoFn) (key : FnDecl → Nat) (s : Store) : Prop :=
  ∀ k a v, s.lookup (k, a) = some v → ∃ g, g ∈ prog ∧ key g.decl = k ∧ v = g.body a

def KeyInjectiveOn (prog : List MemoFn) (key : FnDecl → Nat) : Prop :=
  ∀ f, f ∈ prog → ∀ g, g ∈ prog → key f.decl = key g.decl → f = g

theorem inv_nil (prog : List MemoFn) (key : FnDecl → Nat) : Inv prog key [] := by
  intro k a v h
  simp at h

theorem call_spec {prog : List MemoFn} {key : FnDecl → Nat} (hinj : KeyInjectiveOn prog key)
    {s : Store} (hs : Inv prog key s) {f : MemoFn} (hf : f ∈ prog) (a : Args) :
    (call key s f a).2 = f.body a ∧ Inv prog key (call key s f a).1 := by
  unfold call
  cases hl : s.lookup (key f.decl, a) with
  | some v =>
    obtain ⟨g, hg, hk, hv⟩ := hs _ _ _ hl
    have : g = f := hinj g hg f hf hk
    subst this
    exact ⟨hv, hs⟩
  | none =>
    refine ⟨rfl, ?_⟩
    intro k b v h
    simp only [List.lookup_cons] at h
    by_cases hkb : ((k, b) : NodeId) = (key f.decl, a)
    · have h1 : k = key f.decl := (Prod.mk.inj hkb).1
      have h2 : b = a := (Prod.mk.inj hkb).2
      subst h1 h2
      simp at h
      exact ⟨f, hf, rfl, h.symm⟩
    · have : (((k, b) : NodeId) == (key f.decl, a)) = false := by
        simpa using hkb
      rw [this] at h
      exact hs _ _ _ h

theorem run_spec {prog : List MemoFn} {key : FnDecl → Nat} (hinj : KeyInjectiveOn prog key) :
    ∀ (h : List (MemoFn × Args)) (s : Store), Inv prog key s → (∀ c, c ∈ h → c.1 ∈ prog) →
      (run key s h).2 = ownValues h ∧ Inv prog key (run key s h).1 := by
  intro h
  induction h with
  | nil => intro s hs _; exact ⟨rfl, hs⟩
  | cons c rest ih =>
    intro s hs hin
    obtain ⟨f, a⟩ := c
    have hf : f ∈ prog := hin (f, a) (List.mem_cons_self ..)
    obtain ⟨hv, hs1⟩ := call_spec hinj hs hf a
    obtain ⟨hvs, hs2⟩ := ih (call key s f a).1 hs1 (fun c hc => hin c (List.mem_cons_of_mem _ hc))
    simp only [run, ownValues, List.map_cons]
    refine ⟨?_, hs2⟩
    rw [hv]
    exact congrArg _ hvs

/-- two functions with one key: the second call of the pair is answered from the first one's entry -/
theorem run_two_collide (key : FnDecl → Nat) (f g : MemoFn) (a : Args) (hk : key f.decl = key g.decl) :
    (run key [] [(f, a), (g, a)]).2 = [f.body a, f.body a] := by
  simp [run, call, List.lookup, hk]

/-! ### the site text determines (module path, line, column) -/

def decVal (bs : Bytes) : Nat := bs.foldl (fun n b => 10 * n + (b - 48)) 0

theorem decAux_acc : ∀ (fuel n : Nat) (acc : Bytes), decAux fuel n acc = decAux fuel n [] ++ acc := by
  intro fuel
  induction fuel with
  | zero => intro n acc; simp [decAux]
  | succ fuel ih =>
    intro n acc
    simp only [decAux]
    by_cases h : n / 10 = 0
    · simp [h]
    · simp only [h, if_false]
      rw [ih (n / 10) ((48 + n % 10) :: acc), ih (n / 10) [48 + n % 10]]
      simp

theorem decVal_decAux : ∀ (fuel n : Nat), n < fuel → decVal (decAux fuel n []) = n := by
  intro fuel
  induction fuel with
  | zero => intro n h; omega
  | succ fuel ih =>
    intro n hn
    simp only [decAux]
    by_cases h : n / 10 = 0
    · simp only [h, if_true, decVal, List.foldl_cons, List.foldl_nil]
      omega
    · simp only [h, if_false]
      rw [decAux_acc]
      have hlt : n / 10 < fuel := by omega
      have := ih (n / 10) hlt
      simp only [decVal, List.foldl_append, List.foldl_cons, List.foldl_nil] at this ⊢
      rw [this]
      omega

theorem decBytes_injective {m n : Nat} (h : decBytes m = decBytes n) : m = n := by
  have h1 := decVal_decAux (m + 1) m (by omega)
  have h2 := decVal_decAux (n + 1) n (by omega)
  unfold decBytes at h
  rw [h] at h1
  omega

theorem decAux_digits : ∀ (fuel n : Nat) (b : Nat), b ∈ decAux fuel n [] → b ≠ 58 := by
  intro fuel
  induction fuel with
  | zero => intro n b h; simp [decAux] at h
  | succ fuel ih =>
    intro n b hb
    simp only [decAux] at hb
    by_cases h : n / 10 = 0
    · simp only [h, if_true, List.mem_singleton] at hb
      omega
    · simp only [h, if_false] at hb
      rw [decAux_acc] at hb
      rcases List.mem_append.mp hb with hb | hb
      · exact ih _ _ hb
      · simp only [List.mem_singleton] at hb
        omega

theorem split_first : ∀ (ds ds' r r' : List Nat), (∀ b, b ∈ ds → b ≠ 58) → (∀ b, b ∈ ds' → b ≠ 58) →
    ds ++ 58 :: r = ds' ++ 58 :: r' → ds = ds' ∧ r = r' := by
  intro ds
  induction ds with
  | nil =>
    intro ds' r r' _ h2 h
    cases ds' with
    | nil => simpa using h
    | cons x xs =>
      simp only [List.nil_append, List.cons_append, List.cons.injEq] at h
      exact absurd h.1.symm (h2 x (List.mem_cons_self ..))
  | cons d ds ih =>
    intro ds' r r' h1 h2 h
    cases ds' with
    | nil =>
      simp only [List.nil_append, List.cons_append, List.cons.injEq] at h
      exact absurd h.1 (h1 d (List.mem_cons_self ..))
    | cons x xs =>
      simp only [List.cons_append, List.cons.injEq] at h
      obtain ⟨e1, e2⟩ := ih xs r r' (fun b hb => h1 b (List.mem_cons_of_mem _ hb))
        (fun b hb => h2 b (List.mem_cons_of_mem _ hb)) h.2
      exact ⟨by rw [h.1, e1], e2⟩

theorem split_last (r r' ds ds' : List Nat) (h1 : ∀ b, b ∈ ds → b ≠ 58) (h2 : ∀ b, b ∈ ds' → b ≠ 58)
    (h : r ++ 58 :: ds = r' ++ 58 :: ds') : r = r' ∧ ds = ds' := by
  have hr := congrArg List.reverse h
  simp only [List.reverse_append, List.reverse_cons, List.append_assoc, List.singleton_append] at hr
  obtain ⟨e1, e2⟩ := split_first ds.reverse ds'.reverse r.reverse r'.reverse
    (fun b hb => h1 b (List.mem_reverse.mp hb)) (fun b hb => h2 b (List.mem_reverse.mp hb)) hr
  exact ⟨List.reverse_inj.mp e2, List.reverse_inj.mp e1⟩

theorem siteText_injective {d e : FnDecl} (h : siteText d = siteText e) :
    d.modulePath = e.modulePath ∧ d.line = e.line ∧ d.col = e.col := by
  unfold siteText at h
  have hd : ∀ n b, b ∈ decBytes n → b ≠ 58 := fun n b hb => decAux_digits _ _ b hb
  -- peel the column (last digit run), then the line
  have h' : (d.modulePath ++ 58 :: decBytes d.line) ++ 58 :: decBytes d.col
      = (e.modulePath ++ 58 :: decBytes e.line) ++ 58 :: decBytes e.col := by
    simpa [List.append_assoc] using h
  obtain ⟨e1, e2⟩ := split_last _ _ _ _ (hd d.col) (hd e.col) h'
  obtain ⟨e3, e4⟩ := split_last _ _ _ _ (hd d.line) (hd e.line) e1
  exact ⟨e3, decBytes_injective e4, decBytes_injective e2⟩

/-! ### key injectivity from the two stated facts -/

/-- The 64-bit hash (SipHash of the signature text, then the fold over the site text) does not collide
on the program's functions.  An explicit hypothesis: 64 bits cannot be injective on all texts. -/
def HashInjectiveOn (H : Bytes → Nat) (r : Recipe) (prog : List MemoFn) : Prop :=
  ∀ f, f ∈ prog → ∀ g, g ∈ prog → keyOf H r f.decl = keyOf H r g.decl →
    f.decl.sigText = g.decl.sigText ∧ siteText f.decl = siteText g.decl

/-- Rust language fact: two different function items cannot have their `#[memo]` attribute at the same
line and column of the same module (a module's items live in one file; `include!` and several
functions generated by one `macro_rules!` invocation are outside this statement). -/
def SiteUnique (prog : List MemoFn) : Prop :=
  ∀ f, f ∈ prog → ∀ g, g ∈ prog → f.decl.modulePath = g.decl.modulePath → f.decl.line = g.decl.line →
    f.decl.col = g.decl.col → f = g

theorem key_injective (H : Bytes → Nat) (r : Recipe) (prog : List MemoFn)
    (hH : HashInjectiveOn H r prog) (hlang : SiteUnique prog) : KeyInjectiveOn prog (keyOf H r) := by
  intro f hf g hg hk
  obtain ⟨_, hsite⟩ := hH f hf g hg hk
  obtain ⟨e1, e2, e3⟩ := siteText_injective hsite
  exact hlang f hf g hg e1 e2 e3

end IsoVerif.Memo
