/-
The intern transition system as a relation (`IStep`), projections of the program counters,
and the invariant `JInv`.
-/
import IsoVerif.Model.Intern
import IsoVerif.Lemmas.ArenaAux

namespace IsoVerif.InternT
open IsoVerif.Arena IsoVerif.ArenaT IsoVerif.Gen.ArenaConsts

inductive IStep (sh : Val → Nat) (s : ISt) (t : Tid) : ISt → Prop
  | startIntern (v : Val) : s.thr t = .idle → IStep sh s t (setIPc s t (.tryWrite v))
  | startLookup (v : Val) : s.thr t = .idle → IStep sh s t (setIPc s t (.lookup v))
  | startGet (r : Nat) (ar' : ArenaT.St) : s.thr t = .idle → ArenaT.step s.ar t (.startGet r) = some ar' →
      IStep sh s t (setIPc { s with ar := ar' } t .reading)
  | startLen (ar' : ArenaT.St) : s.thr t = .idle → ArenaT.step s.ar t .startLen = some ar' →
      IStep sh s t (setIPc { s with ar := ar' } t .reading)
  | tryOk (v : Val) : s.thr t = .tryWrite v → (s.lock (sh v)).writer = none → (s.lock (sh v)).readers = [] →
      IStep sh s t (setIPc { s with lock := upd s.lock (sh v) ⟨some t, []⟩ } t (.check v))
  | tryFail (v : Val) : s.thr t = .tryWrite v → ¬ ((s.lock (sh v)).writer = none ∧ (s.lock (sh v)).readers = []) →
      IStep sh s t (setIPc s t (.readLock v))
  | readLockOk (v : Val) : s.thr t = .readLock v → (s.lock (sh v)).writer = none →
      IStep sh s t (setIPc { s with lock := upd s.lock (sh v) ⟨none, t :: (s.lock (sh v)).readers⟩ } t (.readHeld v))
  | readLockBlocked (v : Val) : s.thr t = .readLock v → (s.lock (sh v)).writer ≠ none → IStep sh s t s
  | readHit (v : Val) (id : Nat) : s.thr t = .readHeld v → findIn s.ar (s.shard (sh v)) v = some id →
      IStep sh s t (setIPc s t (.readFound v id))
  | readMissed (v : Val) : s.thr t = .readHeld v → findIn s.ar (s.shard (sh v)) v = none →
      IStep sh s t (setIPc s t (.readMiss v))
  | readFoundRet (v : Val) (id : Nat) : s.thr t = .readFound v id →
      IStep sh s t (setIPc { s with lock := upd s.lock (sh v) ⟨(s.lock (sh v)).writer, (s.lock (sh v)).readers.erase t⟩, hist := .internRet t v id :: s.hist } t .idle)
  | readMissRel (v : Val) : s.thr t = .readMiss v →
      IStep sh s t (setIPc { s with lock := upd s.lock (sh v) ⟨(s.lock (sh v)).writer, (s.lock (sh v)).readers.erase t⟩ } t (.writeLock v))
  | writeLockOk (v : Val) : s.thr t = .writeLock v → (s.lock (sh v)).writer = none → (s.lock (sh v)).readers = [] →
      IStep sh s t (setIPc { s with lock := upd s.lock (sh v) ⟨some t, []⟩ } t (.check v))
  | writeLockBlocked (v : Val) : s.thr t = .writeLock v →
      ¬ ((s.lock (sh v)).writer = none ∧ (s.lock (sh v)).readers = []) → IStep sh s t s
  | checkHit (v : Val) (id : Nat) : s.thr t = .check v → findIn s.ar (s.shard (sh v)) v = some id →
      IStep sh s t (setIPc s t (.checkFound v id))
  | checkMiss (v : Val) (ar' : ArenaT.St) : s.thr t = .check v → findIn s.ar (s.shard (sh v)) v = none →
      ArenaT.step s.ar t (.startAdd v) = some ar' → IStep sh s t (setIPc { s with ar := ar' } t (.adding v))
  | checkFoundRet (v : Val) (id : Nat) : s.thr t = .checkFound v id →
      IStep sh s t (setIPc { s with lock := upd s.lock (sh v) Lock.free, hist := .internRet t v id :: s.hist } t .idle)
  | addDone (v : Val) (ar' : ArenaT.St) (t0 : Tid) (v0 : Elem) (r : Nat) (rest : List Ev) : s.thr t = .adding v →
      ArenaT.step s.ar t .step = some ar' → ar'.thr t = .idle → ar'.hist = .addRet t0 v0 r :: rest →
      IStep sh s t (setIPc { s with ar := ar' } t (.insert v r))
  | addMore (v : Val) (ar' : ArenaT.St) : s.thr t = .adding v → ArenaT.step s.ar t .step = some ar' →
      (∀ t0 v0 r rest, ¬ (ar'.thr t = .idle ∧ ar'.hist = .addRet t0 v0 r :: rest)) →
      IStep sh s t (setIPc { s with ar := ar' } t (.adding v))
  | insertStep (v : Val) (id : Nat) : s.thr t = .insert v id →
      IStep sh s t (setIPc { s with shard := upd s.shard (sh v) (id :: s.shard (sh v)) } t (.unlock v id))
  | unlockStep (v : Val) (id : Nat) : s.thr t = .unlock v id →
      IStep sh s t (setIPc { s with lock := upd s.lock (sh v) Lock.free, hist := .internRet t v id :: s.hist } t .idle)
  | lookupOk (v : Val) : s.thr t = .lookup v → (s.lock (sh v)).writer = none →
      IStep sh s t (setIPc { s with lock := upd s.lock (sh v) ⟨none, t :: (s.lock (sh v)).readers⟩ } t (.lookupHeld v))
  | lookupBlocked (v : Val) : s.thr t = .lookup v → (s.lock (sh v)).writer ≠ none → IStep sh s t s
  | lookupRet (v : Val) : s.thr t = .lookupHeld v →
      IStep sh s t (setIPc { s with lock := upd s.lock (sh v) ⟨(s.lock (sh v)).writer, (s.lock (sh v)).readers.erase t⟩, hist := .lookupRet t v (findIn s.ar (s.shard (sh v)) v) :: s.hist } t .idle)
  | readDone (ar' : ArenaT.St) : s.thr t = .reading → ArenaT.step s.ar t .step = some ar' → ar'.thr t = .idle →
      IStep sh s t (setIPc { s with ar := ar' } t .idle)
  | readMore (ar' : ArenaT.St) : s.thr t = .reading → ArenaT.step s.ar t .step = some ar' → ar'.thr t ≠ .idle →
      IStep sh s t (setIPc { s with ar := ar' } t .reading)

theorem istep_IStep {sh : Val → Nat} {s s' : ISt} {t : Tid} {a : IAct} (h : istep sh s t a = some s') :
    IStep sh s t s' := by
  cases a with
  | startIntern v =>
    simp only [istep] at h
    split at h
    · cases h; exact .startIntern v ‹_›
    · cases h
  | startLookup v =>
    simp only [istep] at h
    split at h
    · cases h; exact .startLookup v ‹_›
    · cases h
  | startGet r =>
    simp only [istep] at h
    split at h
    · split at h
      · cases h; exact .startGet r _ ‹_› ‹_›
      · cases h
    · cases h
  | startLen =>
    simp only [istep] at h
    split at h
    · split at h
      · cases h; exact .startLen _ ‹_› ‹_›
      · cases h
    · cases h
  | step =>
    simp only [istep] at h
    split at h
    · cases h
    · rename_i v hpc
      split at h
      · rename_i hc; cases h; exact .tryOk v hpc hc.1 hc.2
      · cases h; exact .tryFail v hpc ‹_›
    · rename_i v hpc
      split at h
      · cases h; exact .readLockOk v hpc ‹_›
      · cases h; exact .readLockBlocked v hpc ‹_›
    · rename_i v hpc
      split at h
      · cases h; exact .readHit v _ hpc ‹_›
      · cases h; exact .readMissed v hpc ‹_›
    · rename_i v id hpc; cases h; exact .readFoundRet v id hpc
    · rename_i v hpc; cases h; exact .readMissRel v hpc
    · rename_i v hpc
      split at h
      · rename_i hc; cases h; exact .writeLockOk v hpc hc.1 hc.2
      · cases h; exact .writeLockBlocked v hpc ‹_›
    · rename_i v hpc
      split at h
      · cases h; exact .checkHit v _ hpc ‹_›
      · split at h
        · cases h; exact .checkMiss v _ hpc ‹_› ‹_›
        · cases h
    · rename_i v id hpc; cases h; exact .checkFoundRet v id hpc
    · rename_i v hpc
      split at h
      · rename_i ar' har
        split at h
        · rename_i t0 v0 r rest hthr hhist
          cases h; exact .addDone v ar' t0 v0 r rest hpc har hthr hhist
        · rename_i hno
          cases h
          refine .addMore v ar' hpc har ?_
          intro t0 v0 r rest ⟨h1, h2⟩
          exact hno t0 v0 r rest h1 h2
      · cases h
    · rename_i v id hpc; cases h; exact .insertStep v id hpc
    · rename_i v id hpc; cases h; exact .unlockStep v id hpc
    · rename_i v hpc
      split at h
      · cases h; exact .lookupOk v hpc ‹_›
      · cases h; exact .lookupBlocked v hpc ‹_›
    · rename_i v hpc; cases h; exact .lookupRet v hpc
    · rename_i hpc
      split at h
      · rename_i ar' har
        split at h
        · cases h; exact .readDone ar' hpc har ‹_›
        · cases h; exact .readMore ar' hpc har ‹_›
      · cases h

/-! ### projections -/

/-- value whose shard the thread holds for writing -/
def wval : IPc → Option Val
  | .check v | .checkFound v _ | .adding v | .insert v _ | .unlock v _ => some v
  | _ => none

/-- value whose shard the thread holds for reading -/
def rval : IPc → Option Val
  | .readHeld v | .readFound v _ | .readMiss v | .lookupHeld v => some v
  | _ => none

/-- value that is being added and not yet in the set -/
def pend : IPc → Option Val
  | .adding v | .insert v _ => some v
  | _ => none

/-- `(v, id)` about to be returned after a successful set lookup -/
def found : IPc → Option (Val × Nat)
  | .readFound v id | .checkFound v id => some (v, id)
  | _ => none

def arBusy : IPc → Bool
  | .adding _ | .reading => true
  | _ => false

@[simp] theorem setIPc_thr (s : ISt) (t : Tid) (pc : IPc) (t' : Tid) :
    (setIPc s t pc).thr t' = if t' = t then pc else s.thr t' := rfl
@[simp] theorem setIPc_ar (s : ISt) (t : Tid) (pc : IPc) : (setIPc s t pc).ar = s.ar := rfl
@[simp] theorem setIPc_shard (s : ISt) (t : Tid) (pc : IPc) : (setIPc s t pc).shard = s.shard := rfl
@[simp] theorem setIPc_lock (s : ISt) (t : Tid) (pc : IPc) : (setIPc s t pc).lock = s.lock := rfl
@[simp] theorem setIPc_hist (s : ISt) (t : Tid) (pc : IPc) : (setIPc s t pc).hist = s.hist := rfl

theorem arVal_of_addRet {ar : ArenaT.St} (h : ArenaT.Inv ar) {t : Tid} {v : Val} {id : Nat}
    (hm : Ev.addRet t v id ∈ ar.hist) : arVal ar id = some v := by
  obtain ⟨p, hp, hv⟩ := h.slots t v id hm
  simp [arVal, hp, hv]

theorem findIn_some {ar : ArenaT.St} {ids : List Nat} {v : Val} {id : Nat} (h : findIn ar ids v = some id) :
    id ∈ ids ∧ arVal ar id = some v := by
  unfold findIn at h
  have h1 := List.mem_of_find?_eq_some h
  have h2 := List.find?_some h
  exact ⟨h1, by simpa using h2⟩

theorem findIn_none {ar : ArenaT.St} {ids : List Nat} {v : Val} (h : findIn ar ids v = none) :
    ∀ id ∈ ids, arVal ar id ≠ some v := by
  unfold findIn at h
  intro id hid
  have := List.find?_eq_none.1 h id hid
  simpa using this

/-! ### the invariant -/

structure JInv (sh : Val → Nat) (s : ISt) : Prop where
  arInv : ArenaT.Inv s.ar
  arIdle : ∀ t, arBusy (s.thr t) = false → s.ar.thr t = .idle
  addingVal : ∀ t v, s.thr t = .adding v → addVal (s.ar.thr t) = some v
  readingOk : ∀ t, s.thr t = .reading → addVal (s.ar.thr t) = none
  wlock : ∀ t v, wval (s.thr t) = some v → (s.lock (sh v)).writer = some t
  wlock' : ∀ k t, (s.lock k).writer = some t → ∃ v, wval (s.thr t) = some v ∧ sh v = k
  rlock : ∀ k t, t ∈ (s.lock k).readers ↔ ∃ v, rval (s.thr t) = some v ∧ sh v = k
  excl : ∀ k, (s.lock k).writer ≠ none → (s.lock k).readers = []
  rnodup : ∀ k, (s.lock k).readers.Nodup
  setDone : ∀ k id, id ∈ s.shard k → ∃ t v, Ev.addRet t v id ∈ s.ar.hist ∧ sh v = k
  setNodup : ∀ k, (s.shard k).Nodup
  setUniq : ∀ k id id' t t' v, id ∈ s.shard k → id' ∈ s.shard k →
    Ev.addRet t v id ∈ s.ar.hist → Ev.addRet t' v id' ∈ s.ar.hist → id = id'
  pendAbsent : ∀ t v, pend (s.thr t) = some v → ∀ id, id ∈ s.shard (sh v) → ∀ t', Ev.addRet t' v id ∉ s.ar.hist
  insertOk : ∀ t v id, s.thr t = .insert v id → Ev.addRet t v id ∈ s.ar.hist ∧ id ∉ s.shard (sh v)
  unlockOk : ∀ t v id, s.thr t = .unlock v id → Ev.addRet t v id ∈ s.ar.hist ∧ id ∈ s.shard (sh v)
  foundOk : ∀ t v id, found (s.thr t) = some (v, id) → id ∈ s.shard (sh v) ∧ ∃ t', Ev.addRet t' v id ∈ s.ar.hist
  allIn : ∀ t v id, Ev.addRet t v id ∈ s.ar.hist → id ∈ s.shard (sh v) ∨ s.thr t = .insert v id
  retOk : ∀ t v id, IEv.internRet t v id ∈ s.hist → id ∈ s.shard (sh v) ∧ ∃ t', Ev.addRet t' v id ∈ s.ar.hist
  lookOk : ∀ t v id, IEv.lookupRet t v (some id) ∈ s.hist → id ∈ s.shard (sh v) ∧ ∃ t', Ev.addRet t' v id ∈ s.ar.hist

end IsoVerif.InternT
