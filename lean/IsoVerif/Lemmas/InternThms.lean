/-
The intern invariant along every trace, and its consequences (C05, concurrent part).
-/
import IsoVerif.Lemmas.InternInv2

namespace IsoVerif.InternT
open IsoVerif.Arena IsoVerif.ArenaT IsoVerif.Gen.ArenaConsts

variable {sh : Val → Nat}

theorem inv_arZero (z : Val) : ArenaT.Inv (arZero z) where
  noWrap := by show initNextZero < W; decide
  base_ge := Nat.le_refl _
  base_le := by show minSize ≤ initNextZero; decide
  resv_range := by intro t i h; simp [arZero, initZero, resv] at h
  resv_uniq := by intro t t' i h; simp [arZero, initZero, resv] at h
  hist_range := by
    intro r h
    simp only [arZero, addRefs, List.mem_singleton] at h
    subst h
    exact ⟨Nat.le_refl _, by show minSize < initNextZero; decide⟩
  hist_resv := by intro t i h; simp [arZero, initZero, resv] at h
  hist_nodup := by simp [arZero, addRefs]
  cover := by
    intro i h1 h2
    left
    have h1' : minSize ≤ i := h1
    have h2' : i < initNextZero := h2
    have : initNextZero = minSize + 1 := by decide
    have : i = minSize := by omega
    subst this
    simp [arZero, addRefs]
  mutex_iff := by intro t; simp [arZero, initZero, inCrit]
  held_ok := by intro t i p h; simp [arZero, initZero, resv] at h
  fresh_ok := by intro t v i p h; simp [arZero, initZero] at h
  alloc_lt := (inv_initZero z).alloc_lt
  alloc_inj := (inv_initZero z).alloc_inj
  mem_fresh := (inv_initZero z).mem_fresh
  slots := by
    intro t v r h
    simp only [arZero, List.mem_singleton, Ev.addRet.injEq] at h
    obtain ⟨rfl, rfl, rfl⟩ := h
    exact ⟨0, by simp [arZero, initZero, idxA_minSize], by simp [arZero, initZero, idxB_minSize]⟩
  slots0 := by
    intro i h1 h2
    have h2' : i < minSize := h2
    omega
  get_exp := by intro t r v h; simp [arZero, initZero, gexp] at h
  get_ptr := by intro t r v q h; simp [arZero, initZero] at h
  get_ret := by intro t r v res h; simp [arZero] at h
  stores_ok := by intro a p h; simp [arZero, initZero] at h
  stores_nodup := by simp [arZero, initZero]
  len_le := by intro n h; simp [arZero, lenVals] at h
  len_sorted := by simp [arZero, lenVals]
  bucket_used := (inv_initZero z).bucket_used
  orphan := (inv_initZero z).orphan

theorem jinv_iinit : JInv sh iinit where
  arInv := inv_init
  arIdle := by intro t _; rfl
  addingVal := by intro t v h; simp [iinit] at h
  readingOk := by intro t h; simp [iinit] at h
  wlock := by intro t v h; simp [iinit, wval] at h
  wlock' := by intro k t h; simp [iinit, Lock.free] at h
  rlock := by intro k t; simp [iinit, Lock.free, rval]
  excl := by intro k _; rfl
  rnodup := by intro k; simp [iinit, Lock.free]
  setDone := by intro k id h; simp [iinit] at h
  setNodup := by intro k; simp [iinit]
  setUniq := by intro k id id' t t' v h; simp [iinit] at h
  pendAbsent := by intro t v h; simp [iinit, pend] at h
  insertOk := by intro t v id h; simp [iinit] at h
  unlockOk := by intro t v id h; simp [iinit] at h
  foundOk := by intro t v id h; simp [iinit, found] at h
  allIn := by intro t v id h; simp [iinit, init] at h
  retOk := by intro t v id h; simp [iinit] at h
  lookOk := by intro t v id h; simp [iinit] at h

theorem jinv_iinitZero (z : Val) : JInv sh (iinitZero sh z) where
  arInv := inv_arZero z
  arIdle := by intro t _; rfl
  addingVal := by intro t v h; simp [iinitZero] at h
  readingOk := by intro t h; simp [iinitZero] at h
  wlock := by intro t v h; simp [iinitZero, wval] at h
  wlock' := by intro k t h; simp [iinitZero, Lock.free] at h
  rlock := by intro k t; simp [iinitZero, Lock.free, rval]
  excl := by intro k _; rfl
  rnodup := by intro k; simp [iinitZero, Lock.free]
  setDone := by
    intro k id h
    simp only [iinitZero] at h
    split at h
    · simp only [List.mem_singleton] at h; subst_vars
      exact ⟨0, z, by simp [iinitZero, arZero], rfl⟩
    · cases h
  setNodup := by intro k; simp only [iinitZero]; split <;> simp
  setUniq := by
    intro k id id' t t' v h h'
    simp only [iinitZero] at h h'
    split at h
    · rename_i hk
      simp only [hk, if_true, List.mem_singleton] at h h'
      rw [h, h']
      intro _ _; rfl
    · cases h
  pendAbsent := by intro t v h; simp [iinitZero, pend] at h
  insertOk := by intro t v id h; simp [iinitZero] at h
  unlockOk := by intro t v id h; simp [iinitZero] at h
  foundOk := by intro t v id h; simp [iinitZero, found] at h
  allIn := by
    intro t v id h
    simp only [iinitZero, arZero, List.mem_singleton, Ev.addRet.injEq] at h
    obtain ⟨rfl, rfl, rfl⟩ := h
    left; simp [iinitZero]
  retOk := by intro t v id h; simp [iinitZero] at h
  lookOk := by intro t v id h; simp [iinitZero] at h

theorem ar_next_mono_run {s0 s : ISt} {tr : List ILabel} (hr : irun sh s0 tr = some s) :
    s0.ar.next ≤ s.ar.next := by
  induction tr generalizing s0 with
  | nil => simp [irun] at hr; subst hr; exact Nat.le_refl _
  | cons l ls ih =>
    simp only [irun] at hr
    split at hr
    · rename_i s1 hs1
      exact Nat.le_trans (ar_next_mono (istep_IStep hs1)) (ih hr)
    · cases hr

theorem jinv_run {s0 s : ISt} {tr : List ILabel} (h0 : JInv sh s0) (hr : irun sh s0 tr = some s)
    (hw : s.ar.next < W) : JInv sh s := by
  induction tr generalizing s0 with
  | nil => simp [irun] at hr; subst hr; exact h0
  | cons l ls ih =>
    simp only [irun] at hr
    split at hr
    · rename_i s1 hs1
      have hw1 : s1.ar.next < W := Nat.lt_of_le_of_lt (ar_next_mono_run hr) hw
      exact ih (jinv_step h0 (istep_IStep hs1) hw1) hr
    · cases hr

theorem ar_base_run {s0 s : ISt} {tr : List ILabel} (hr : irun sh s0 tr = some s) : s.ar.base = s0.ar.base := by
  induction tr generalizing s0 with
  | nil => simp [irun] at hr; subst hr; rfl
  | cons l ls ih =>
    simp only [irun] at hr
    split at hr
    · rename_i s1 hs1
      rw [ih hr]
      rcases ar_step_or_same (istep_IStep hs1) with h | h
      · rw [h]
      · exact base_step h
    · cases hr

/-! ### consequences -/

variable {s : ISt}

theorem eq_iff (hJ : JInv sh s) {t1 t2 : Tid} {v1 v2 : Val} {id1 id2 : Nat}
    (h1 : IEv.internRet t1 v1 id1 ∈ s.hist) (h2 : IEv.internRet t2 v2 id2 ∈ s.hist) :
    id1 = id2 ↔ v1 = v2 := by
  obtain ⟨hs1, ta, ha⟩ := hJ.retOk _ _ _ h1
  obtain ⟨hs2, tb, hb⟩ := hJ.retOk _ _ _ h2
  constructor
  · rintro rfl; exact addRet_functional hJ.arInv ha hb
  · rintro rfl; exact hJ.setUniq _ _ _ _ _ _ hs1 hs2 ha hb

theorem lookup_val (hJ : JInv sh s) {t : Tid} {v : Val} {id : Nat} (h : IEv.internRet t v id ∈ s.hist) :
    arVal s.ar id = some v ∧ ∃ t', Ev.addRet t' v id ∈ s.ar.hist := by
  obtain ⟨_, t', ha⟩ := hJ.retOk _ _ _ h
  exact ⟨arVal_of_addRet hJ.arInv ha, t', ha⟩

theorem quiescent_ar (hJ : JInv sh s) (hq : IQuiescent s) : ArenaT.Quiescent s.ar := by
  intro t; exact hJ.arIdle t (by rw [hq t]; rfl)

/-- at quiescence every index below `len` is the id of exactly one interned value, and that id
is in the shard of its value -/
theorem dense (hJ : JInv sh s) (hq : IQuiescent s) (i : Nat) (h1 : s.ar.base ≤ i) (h2 : i < s.ar.next) :
    ∃ v, arVal s.ar i = some v ∧ i ∈ s.shard (sh v) := by
  rcases hJ.arInv.cover i h1 h2 with hr | ⟨t, ht⟩
  · obtain ⟨t, v, hm⟩ := mem_addRefs.1 hr
    refine ⟨v, arVal_of_addRet hJ.arInv hm, ?_⟩
    rcases hJ.allIn t v i hm with h | h
    · exact h
    · rw [hq t] at h; cases h
  · rw [quiescent_resv (quiescent_ar hJ hq) t] at ht; cases ht

theorem shard_ids_range (hJ : JInv sh s) {k id : Nat} (h : id ∈ s.shard k) : s.ar.base ≤ id ∧ id < s.ar.next := by
  obtain ⟨t, v, hm, _⟩ := hJ.setDone k id h
  exact hJ.arInv.hist_range id (mem_addRefs.2 ⟨t, v, hm⟩)

/-- distinct ids in the table hold distinct values -/
theorem ids_injective (hJ : JInv sh s) {k k' id id' : Nat} {v : Val} (h : id ∈ s.shard k) (h' : id' ∈ s.shard k')
    (hv : arVal s.ar id = some v) (hv' : arVal s.ar id' = some v) : id = id' := by
  obtain ⟨t, w, hm, hk⟩ := hJ.setDone k id h
  obtain ⟨t', w', hm', hk'⟩ := hJ.setDone k' id' h'
  have e := arVal_of_addRet hJ.arInv hm; rw [hv] at e; cases e
  have e' := arVal_of_addRet hJ.arInv hm'; rw [hv'] at e'; cases e'
  subst hk; subst hk'
  exact hJ.setUniq _ _ _ _ _ _ h h' hm hm'

/-- readers and the writer of a shard lock exclude each other -/
theorem lock_excl (hJ : JInv sh s) {t t' : Tid} {v v' : Val} (hw : wval (s.thr t) = some v)
    (hr : rval (s.thr t') = some v' ∨ (wval (s.thr t') = some v' ∧ t' ≠ t)) : sh v ≠ sh v' := by
  intro e
  have w := hJ.wlock t v hw
  rcases hr with hr | ⟨hw', hne⟩
  · have : t' ∈ (s.lock (sh v)).readers := (hJ.rlock _ t').2 ⟨v', hr, e.symm⟩
    rw [hJ.excl _ (by rw [w]; simp)] at this
    cases this
  · have w' := hJ.wlock t' v' hw'
    rw [← e, w] at w'; cases w'; exact hne rfl


theorem dense_all (hJ : JInv sh s) (hq : IQuiescent s) (hb : s.ar.base = minSize) :
    (∀ i, i < ArenaT.len s.ar → ∃ v, arVal s.ar (minSize + i) = some v ∧ (minSize + i) ∈ s.shard (sh v)) ∧
    (∀ k k' id id' v, id ∈ s.shard k → id' ∈ s.shard k' → arVal s.ar id = some v → arVal s.ar id' = some v → id = id') ∧
    (∀ k id, id ∈ s.shard k → minSize ≤ id ∧ idIndex id < ArenaT.len s.ar) := by
  have hlen : ArenaT.len s.ar = s.ar.next - minSize := by unfold ArenaT.len; rw [hJ.arInv.next_mod]
  refine ⟨?_, ?_, ?_⟩
  · intro i hi
    exact dense hJ hq (minSize + i) (by omega) (by omega)
  · intro k k' id id' v h h' hv hv'
    exact ids_injective hJ h h' hv hv'
  · intro k id h
    have := shard_ids_range hJ h
    unfold idIndex
    omega

end IsoVerif.InternT
