/-
The planner's data: association lists, the meaning of a `State` as a tree (`treeOf`), well-formedness
of states, and the characterisation of `fromArtifacts` (`treeOf (fromArtifacts h arts) arts =
expectedGet arts`).
-/
import IsoVerif.Lemmas.FsBasic

namespace IsoVerif.Fs
open IsoVerif.Util

/-! ### association lists -/
section AList
variable {κ ν : Type} [DecidableEq κ]

@[simp] theorem lookup_nil (k : κ) : AList.lookup ([] : AList κ ν) k = none := rfl

theorem lookup_cons (k' : κ) (v : ν) (l : AList κ ν) (k : κ) :
    AList.lookup ((k', v) :: l) k = if k' = k then some v else AList.lookup l k := rfl

theorem lookup_append (l1 l2 : AList κ ν) (k : κ) :
    AList.lookup (l1 ++ l2) k =
      match AList.lookup l1 k with
      | some v => some v
      | none => AList.lookup l2 k := by
  induction l1 with
  | nil => simp
  | cons x rest ih =>
    obtain ⟨k', v⟩ := x
    simp only [List.cons_append, lookup_cons]
    by_cases h : k' = k <;> simp [h, ih]

theorem lookup_snoc_fresh (l : AList κ ν) (k : κ) (v : ν) (k' : κ) (h : AList.lookup l k = none) :
    AList.lookup (l ++ [(k, v)]) k' = if k = k' then some v else AList.lookup l k' := by
  rw [lookup_append]
  by_cases hk : k = k'
  · subst hk; simp [h, lookup_cons]
  · simp only [lookup_cons, hk, if_false, lookup_nil]
    cases AList.lookup l k' <;> rfl

theorem lookup_insert (l : AList κ ν) (k : κ) (v : ν) (k' : κ) :
    AList.lookup (AList.insert l k v) k' = if k = k' then some v else AList.lookup l k' := by
  induction l with
  | nil => simp [AList.insert, lookup_cons]
  | cons x rest ih =>
    obtain ⟨k0, v0⟩ := x
    simp only [AList.insert]
    by_cases h0 : k0 = k
    · subst h0
      simp only [if_true, lookup_cons]
      by_cases h : k0 = k' <;> simp [h]
    · simp only [h0, if_false, lookup_cons, ih]
      by_cases h1 : k0 = k'
      · subst h1
        have : ¬ k = k0 := fun h => h0 h.symm
        simp [this]
      · simp [h1]

theorem insert_ne_nil (l : AList κ ν) (k : κ) (v : ν) : AList.insert l k v ≠ [] := by
  cases l with
  | nil => simp [AList.insert]
  | cons x rest =>
    obtain ⟨k0, v0⟩ := x
    simp only [AList.insert]
    split <;> simp

def NodupKeys : AList κ ν → Prop
  | [] => True
  | (k, _) :: l => AList.lookup l k = none ∧ NodupKeys l

theorem nodupKeys_insert (l : AList κ ν) (k : κ) (v : ν) (h : NodupKeys l) :
    NodupKeys (AList.insert l k v) := by
  induction l with
  | nil => simp [AList.insert, NodupKeys]
  | cons x rest ih =>
    obtain ⟨k0, v0⟩ := x
    obtain ⟨h1, h2⟩ := h
    simp only [AList.insert]
    by_cases h0 : k0 = k
    · subst h0
      simpa [NodupKeys] using ⟨h1, h2⟩
    · simp only [h0, if_false, NodupKeys]
      refine ⟨?_, ih h2⟩
      rw [lookup_insert]
      have : ¬ k = k0 := fun h => h0 h.symm
      simp [this, h1]

theorem nodupKeys_split (pre suf : AList κ ν) (k : κ) (v : ν) (h : NodupKeys (pre ++ (k, v) :: suf)) :
    AList.lookup pre k = none ∧ AList.lookup suf k = none ∧ NodupKeys suf := by
  induction pre with
  | nil => exact ⟨rfl, h.1, h.2⟩
  | cons x rest ih =>
    obtain ⟨k0, v0⟩ := x
    obtain ⟨h1, h2⟩ := h
    obtain ⟨i1, i2, i3⟩ := ih h2
    refine ⟨?_, i2, i3⟩
    rw [lookup_cons]
    have h1 : AList.lookup (rest ++ (k, v) :: suf) k0 = none := h1
    by_cases h0 : k0 = k
    · subst h0
      rw [lookup_append] at h1
      simp [i1, lookup_cons] at h1
    · simp [h0, i1]

theorem nodupKeys_append_left (pre suf : AList κ ν) (h : NodupKeys (pre ++ suf)) : NodupKeys pre := by
  induction pre with
  | nil => trivial
  | cons x rest ih =>
    obtain ⟨k0, v0⟩ := x
    obtain ⟨h1, h2⟩ := h
    refine ⟨?_, ih h2⟩
    have h1 : AList.lookup (rest ++ suf) k0 = none := h1
    rw [lookup_append] at h1
    cases hl : AList.lookup rest k0 with
    | none => rfl
    | some w => rw [hl] at h1; simp at h1

theorem lookup_mid (pre suf : AList κ ν) (k : κ) (v : ν) (h : AList.lookup pre k = none) :
    AList.lookup (pre ++ (k, v) :: suf) k = some v := by
  rw [lookup_append, h]; simp [lookup_cons]

theorem lookup_mid_ne (pre suf : AList κ ν) (k : κ) (v : ν) (k' : κ) (hk : k ≠ k') :
    AList.lookup (pre ++ (k, v) :: suf) k' = AList.lookup (pre ++ suf) k' := by
  rw [lookup_append, lookup_append, lookup_cons]; simp [hk]

end AList

variable {α : Type} [DecidableEq α]

/-! ### the tree a state denotes -/

/-- the recorded (index, hash) of a path -/
def State.file (st : State α) : Path α → Option (Nat × Bytes)
  | [f] => AList.lookup st.rootFiles f
  | [e, s, f] => (oldFilesFor st e s).bind (fun fm => AList.lookup fm f)
  | _ => none

def State.isDir (st : State α) : Path α → Bool
  | [] => true
  | [e] => (AList.lookup st.nestedFiles e).any (fun sm => !sm.isEmpty)
  | [e, s] => (oldFilesFor st e s).isSome
  | _ => false

def content (arts : List (Artifact α)) (i : Nat) : Bytes :=
  match arts[i]? with
  | some a => a.content
  | none => []

/-- The tree a state denotes, file contents taken from the artifact list its indices point into. -/
def treeOf (st : State α) (arts : List (Artifact α)) (p : Path α) : Option Entry :=
  match st.file p with
  | some (i, _) => some (.file (content arts i))
  | none => bif st.isDir p then some .dir else none

@[simp] theorem file_nil (st : State α) : st.file [] = none := rfl
@[simp] theorem file_one (st : State α) (f : α) : st.file [f] = AList.lookup st.rootFiles f := rfl
@[simp] theorem file_two (st : State α) (e s : α) : st.file [e, s] = none := rfl
@[simp] theorem file_three (st : State α) (e s f : α) :
    st.file [e, s, f] = (oldFilesFor st e s).bind (fun fm => AList.lookup fm f) := rfl
@[simp] theorem file_long (st : State α) (a b c d : α) (r : List α) :
    st.file (a :: b :: c :: d :: r) = none := rfl
@[simp] theorem isDir_nil (st : State α) : st.isDir [] = true := rfl
@[simp] theorem isDir_two (st : State α) (e s : α) : st.isDir [e, s] = (oldFilesFor st e s).isSome := rfl
@[simp] theorem isDir_three (st : State α) (a b c : α) (r : List α) :
    st.isDir (a :: b :: c :: r) = false := rfl
theorem isDir_one (st : State α) (e : α) :
    st.isDir [e] = (AList.lookup st.nestedFiles e).any (fun sm => !sm.isEmpty) := rfl

/-- well-formed: duplicate-free keys at every level, no entity without a selectable -/
structure State.WF (st : State α) : Prop where
  root : NodupKeys st.rootFiles
  ent : NodupKeys st.nestedFiles
  sel : ∀ e sm, AList.lookup st.nestedFiles e = some sm → NodupKeys sm ∧ sm ≠ []
  fil : ∀ e sm s fm, AList.lookup st.nestedFiles e = some sm → AList.lookup sm s = some fm → NodupKeys fm

/-- every recorded index points into `arts`, and the recorded hash is the hash of that content -/
def State.Valid (hash : Bytes → Bytes) (st : State α) (arts : List (Artifact α)) : Prop :=
  ∀ p i h, st.file p = some (i, h) → ∃ a, arts[i]? = some a ∧ h = hash a.content

/-- name sanity: `R` separates root file names from entity names -/
def State.Sane (R : α → Bool) (st : State α) : Prop :=
  (∀ f v, AList.lookup st.rootFiles f = some v → R f = true) ∧
  (∀ e sm, AList.lookup st.nestedFiles e = some sm → R e = false)

def NamesSane (R : α → Bool) (arts : List (Artifact α)) : Prop :=
  ∀ a ∈ arts, match a.nested with
    | some (e, _) => R e = false
    | none => R a.fileName = true

theorem wf_empty : (State.empty : State α).WF :=
  ⟨trivial, trivial, fun _ _ h => by simp [State.empty] at h, fun _ _ _ _ h => by simp [State.empty] at h⟩

theorem treeOf_empty (arts : List (Artifact α)) (p : Path α) :
    treeOf (State.empty : State α) arts p = if p = [] then some .dir else none := by
  rcases p with _ | ⟨a, _ | ⟨b, _ | ⟨c, _ | ⟨d, r⟩⟩⟩⟩ <;>
    simp [treeOf, State.empty, oldFilesFor, isDir_one]

/-! ### `State.add` and `fromArtifacts` -/

theorem fromArtifactsAux_append (hash : Bytes → Bytes) (l1 l2 : List (Artifact α)) (i : Nat) (st : State α) :
    fromArtifactsAux hash (l1 ++ l2) i st = fromArtifactsAux hash l2 (i + l1.length) (fromArtifactsAux hash l1 i st) := by
  induction l1 generalizing i st with
  | nil => simp [fromArtifactsAux]
  | cons a rest ih =>
    simp only [List.cons_append, fromArtifactsAux, List.length_cons]
    rw [ih]
    congr 1
    omega

theorem fromArtifacts_snoc (hash : Bytes → Bytes) (arts : List (Artifact α)) (a : Artifact α) :
    fromArtifacts hash (arts ++ [a]) = State.add hash (fromArtifacts hash arts) a arts.length := by
  simp [fromArtifacts, fromArtifactsAux_append, fromArtifactsAux]

theorem snoc_induction {β : Type} {P : List β → Prop} (h0 : P [])
    (hs : ∀ l a, P l → P (l ++ [a])) : ∀ l, P l := by
  intro l
  have : ∀ r : List β, P r.reverse := by
    intro r
    induction r with
    | nil => exact h0
    | cons a r ih => simpa using hs _ a ih
  simpa using this l.reverse

theorem oldFilesFor_insertNested (st : State α) (e s f : α) (v : Nat × Bytes) (e' s' : α) :
    oldFilesFor { st with nestedFiles := insertNested st.nestedFiles e s f v } e' s' =
      if e = e' ∧ s = s' then
        some (AList.insert ((oldFilesFor st e s).getD []) f v)
      else oldFilesFor st e' s' := by
  simp only [oldFilesFor, insertNested, lookup_insert]
  by_cases he : e = e'
  · subst he
    simp only [true_and, if_true, Option.bind_some, lookup_insert]
    by_cases hs : s = s'
    · subst hs
      cases AList.lookup st.nestedFiles e with
      | none => simp
      | some sm => simp
    · simp only [hs, if_false]
      cases AList.lookup st.nestedFiles e with
      | none => simp
      | some sm => simp
  · simp [he]

theorem file_add (hash : Bytes → Bytes) (st : State α) (a : Artifact α) (i : Nat) (p : Path α) :
    (State.add hash st a i).file p = if a.path = p then some (i, hash a.content) else st.file p := by
  cases hn : a.nested with
  | none =>
    simp only [State.add, hn, Artifact.path]
    rcases p with _ | ⟨x, _ | ⟨y, _ | ⟨z, _ | ⟨d, r⟩⟩⟩⟩
    · simp
    · simp [lookup_insert]
    · simp
    · simp [oldFilesFor]
    · simp
  | some es =>
    obtain ⟨e, s⟩ := es
    simp only [State.add, hn, Artifact.path]
    rcases p with _ | ⟨x, _ | ⟨y, _ | ⟨z, _ | ⟨d, r⟩⟩⟩⟩
    · simp
    · simp
    · simp
    · simp only [file_three, oldFilesFor_insertNested]
      by_cases h : e = x ∧ s = y
      · obtain ⟨h1, h2⟩ := h
        subst h1; subst h2
        simp only [and_self, if_true, Option.bind_some, lookup_insert]
        by_cases hf : a.fileName = z
        · simp [hf]
        · have hne : ¬ ([e, s, a.fileName] = [e, s, z]) := by simp [hf]
          simp only [hf, hne, if_false]
          cases oldFilesFor st e s with
          | none => simp
          | some fm => simp
      · simp only [h, if_false]
        have : ¬ ([e, s, a.fileName] = [x, y, z]) := by
          intro hh; simp at hh; exact h ⟨hh.1, hh.2.1⟩
        simp [this]
    · simp

theorem isDir_add (hash : Bytes → Bytes) (st : State α) (a : Artifact α) (i : Nat) (p : Path α) :
    (State.add hash st a i).isDir p =
      (st.isDir p || (match a.nested with
        | some (e, s) => decide (p = [e] ∨ p = [e, s])
        | none => false)) := by
  cases hn : a.nested with
  | none =>
    simp only [State.add, hn]
    rcases p with _ | ⟨x, _ | ⟨y, _ | ⟨z, r⟩⟩⟩ <;> simp [isDir_one, oldFilesFor]
  | some es =>
    obtain ⟨e, s⟩ := es
    simp only [State.add, hn]
    rcases p with _ | ⟨x, _ | ⟨y, _ | ⟨z, r⟩⟩⟩
    · simp
    · simp only [isDir_one, insertNested, lookup_insert]
      by_cases he : e = x
      · subst he
        simp only [if_true, Option.any_some]
        generalize hX : AList.insert ((AList.lookup st.nestedFiles e).getD []) s
          (AList.insert ((AList.lookup ((AList.lookup st.nestedFiles e).getD []) s).getD []) a.fileName (i, hash a.content)) = X
        cases X with
        | nil => exact absurd hX (insert_ne_nil _ _ _)
        | cons y ys => simp
      · have h1 : ¬ ([x] = [e]) := by intro hh; simp at hh; exact he hh.symm
        have h2 : ¬ ([x] = [e, s]) := by simp
        simp [he, h1]
    · simp only [isDir_two, oldFilesFor_insertNested]
      by_cases h : e = x ∧ s = y
      · simp [h]
      · have : ¬ ([x, y] = [e, s]) := by
          intro hh; simp at hh; exact h ⟨hh.1.symm, hh.2.symm⟩
        simp [h, this]
    · simp

theorem wf_add (hash : Bytes → Bytes) (st : State α) (a : Artifact α) (i : Nat) (h : st.WF) :
    (State.add hash st a i).WF := by
  cases hn : a.nested with
  | none =>
    simp only [State.add, hn]
    exact ⟨nodupKeys_insert _ _ _ h.root, h.ent, h.sel, h.fil⟩
  | some es =>
    obtain ⟨e, s⟩ := es
    simp only [State.add, hn, insertNested]
    have hsm : NodupKeys ((AList.lookup st.nestedFiles e).getD []) := by
      cases hl : AList.lookup st.nestedFiles e with
      | none => trivial
      | some sm => exact (h.sel e sm hl).1
    have hfm : NodupKeys ((AList.lookup ((AList.lookup st.nestedFiles e).getD []) s).getD []) := by
      cases hl : AList.lookup st.nestedFiles e with
      | none => trivial
      | some sm =>
        simp only [Option.getD_some]
        cases hl2 : AList.lookup sm s with
        | none => trivial
        | some fm => exact h.fil e sm s fm hl hl2
    refine ⟨h.root, nodupKeys_insert _ _ _ h.ent, ?_, ?_⟩
    · intro e' sm' hl
      rw [lookup_insert] at hl
      by_cases he : e = e'
      · simp only [he, if_true, Option.some.injEq] at hl
        rw [← hl]
        exact ⟨nodupKeys_insert _ _ _ (by simpa [he] using hsm), insert_ne_nil _ _ _⟩
      · simp only [he, if_false] at hl
        exact h.sel e' sm' hl
    · intro e' sm' s' fm' hl hl2
      rw [lookup_insert] at hl
      by_cases he : e = e'
      · subst he
        simp only [if_true, Option.some.injEq] at hl
        rw [← hl, lookup_insert] at hl2
        by_cases hs : s = s'
        · simp only [hs, if_true, Option.some.injEq] at hl2
          rw [← hl2]
          exact nodupKeys_insert _ _ _ (by simpa [hs] using hfm)
        · simp only [hs, if_false] at hl2
          cases hl3 : AList.lookup st.nestedFiles e with
          | none => rw [hl3] at hl2; simp at hl2
          | some sm0 =>
            rw [hl3] at hl2
            exact h.fil e sm0 s' fm' hl3 (by simpa using hl2)
      · simp only [he, if_false] at hl
        exact h.fil e' sm' s' fm' hl hl2

theorem wf_fromArtifacts (hash : Bytes → Bytes) (arts : List (Artifact α)) :
    (fromArtifacts hash arts).WF := by
  induction arts using snoc_induction with
  | h0 => exact wf_empty
  | hs l a ih => rw [fromArtifacts_snoc]; exact wf_add hash _ a _ ih

theorem valid_fromArtifacts (hash : Bytes → Bytes) (arts : List (Artifact α)) :
    (fromArtifacts hash arts).Valid hash arts := by
  induction arts using snoc_induction with
  | h0 =>
    intro p i h hf
    rcases p with _ | ⟨x, _ | ⟨y, _ | ⟨z, _ | ⟨d, r⟩⟩⟩⟩ <;>
      simp [fromArtifacts, fromArtifactsAux, State.empty, oldFilesFor] at hf
  | hs l a ih =>
    intro p i h hf
    rw [fromArtifacts_snoc, file_add] at hf
    by_cases hp : a.path = p
    · simp only [hp, if_true, Option.some.injEq, Prod.mk.injEq] at hf
      refine ⟨a, ?_, hf.2.symm⟩
      rw [← hf.1]; simp
    · simp only [hp, if_false] at hf
      obtain ⟨b, hb, hh⟩ := ih p i h hf
      refine ⟨b, ?_, hh⟩
      rw [List.getElem?_append_left]
      · exact hb
      · exact (List.getElem?_eq_some_iff.mp hb).1

theorem sane_fromArtifacts (hash : Bytes → Bytes) (R : α → Bool) (arts : List (Artifact α))
    (h : NamesSane R arts) : (fromArtifacts hash arts).Sane R := by
  induction arts using snoc_induction with
  | h0 => exact ⟨fun f v hl => by simp [fromArtifacts, fromArtifactsAux, State.empty] at hl,
                 fun e sm hl => by simp [fromArtifacts, fromArtifactsAux, State.empty] at hl⟩
  | hs l a ih =>
    have hl : NamesSane R l := fun b hb => h b (by simp [hb])
    have ha := h a (by simp)
    obtain ⟨i1, i2⟩ := ih hl
    rw [fromArtifacts_snoc]
    cases hn : a.nested with
    | none =>
      rw [hn] at ha
      simp only [State.add, hn]
      refine ⟨fun f v hf => ?_, i2⟩
      rw [lookup_insert] at hf
      by_cases hk : a.fileName = f
      · rw [← hk]; exact ha
      · simp only [hk, if_false] at hf; exact i1 f v hf
    | some es =>
      obtain ⟨e, s⟩ := es
      rw [hn] at ha
      simp only [State.add, hn, insertNested]
      refine ⟨i1, fun e' sm hf => ?_⟩
      rw [lookup_insert] at hf
      by_cases hk : e = e'
      · rw [← hk]; exact ha
      · simp only [hk, if_false] at hf; exact i2 e' sm hf

theorem expectedGet_snoc (arts : List (Artifact α)) (a : Artifact α) (p : Path α) :
    expectedGet (arts ++ [a]) p =
      if a.path = p then some (.file a.content) else
      match expectedGet arts p with
      | some x => some x
      | none =>
        (match a.nested with
         | some (e, s) => if p = [e] ∨ p = [e, s] then some .dir else none
         | none => none) := by
  simp only [expectedGet, List.reverse_append, List.reverse_cons, List.reverse_nil, List.nil_append,
    List.singleton_append, List.find?_cons]
  by_cases hp : a.path = p
  · simp [hp]
  · simp only [hp, decide_false, if_false]
    cases hf : List.find? (fun a => decide (a.path = p)) arts.reverse with
    | some b => simp
    | none =>
      simp only
      by_cases hnil : p = []
      · simp [hnil]
      · simp only [hnil, if_false, List.any_append, List.any_cons, List.any_nil, Bool.or_false]
        cases hany : (arts.any fun a => match a.nested with
            | some (e, s) => decide (p = [e]) || decide (p = [e, s])
            | none => false) with
        | true => simp
        | false =>
          simp only [Bool.false_or]
          cases hn : a.nested with
          | none => simp
          | some es =>
            obtain ⟨e, s⟩ := es
            by_cases h1 : p = [e] <;> by_cases h2 : p = [e, s] <;> simp [h1, h2]

/-- **The state built from an artifact list denotes exactly the expected tree.** -/
theorem treeOf_fromArtifacts (hash : Bytes → Bytes) (arts : List (Artifact α)) (p : Path α) :
    treeOf (fromArtifacts hash arts) arts p = expectedGet arts p := by
  induction arts using snoc_induction generalizing p with
  | h0 =>
    have : fromArtifacts hash ([] : List (Artifact α)) = State.empty := rfl
    rw [this, treeOf_empty]
    simp [expectedGet]
  | hs l a ih =>
    have hval := valid_fromArtifacts hash l
    rw [expectedGet_snoc, fromArtifacts_snoc]
    unfold treeOf
    rw [file_add]
    by_cases hp : a.path = p
    · simp [hp, content]
    · simp only [hp, if_false]
      rw [← ih p]
      unfold treeOf
      cases hf : (fromArtifacts hash l).file p with
      | some ih' =>
        obtain ⟨i, h⟩ := ih'
        obtain ⟨b, hb, _⟩ := hval p i h hf
        have hi : i < l.length := (List.getElem?_eq_some_iff.mp hb).1
        simp only [content, List.getElem?_append_left hi]
      | none =>
        simp only
        rw [isDir_add hash _ a _ p]
        cases hd : (fromArtifacts hash l).isDir p with
        | true => simp
        | false =>
          cases hn : a.nested with
          | none => simp
          | some es => obtain ⟨e, s⟩ := es; simp

end IsoVerif.Fs
