/-
Schema and schema extensions after `update_sources`; `update_sources` cannot fail without a race
(repaired code); `initialize_sources` establishes `Reflects`.
-/
import IsoVerif.Lemmas.WatchBasic

namespace IsoVerif.Watch

/-! ### `readSchema` against `expectedSchema` -/

theorem readSchema_ok {fs : Fs} {p : Path} {c : Content} (h : readSchema fs p = .ok c) :
    expectedSchema fs p = some c := by
  unfold readSchema at h
  unfold expectedSchema
  cases hg : fs.get p with
  | none => simp [hg] at h
  | some n =>
    cases n with
    | dir => simp [hg] at h
    | file c' =>
      simp only [hg] at h ⊢
      by_cases hu : c'.utf8 = true
      · simp [hu] at h ⊢
        exact h
      · simp [hu] at h

theorem expectedSchema_isSome {fs : Fs} {p : Path} (h : (expectedSchema fs p).isSome = true) :
    ∃ c, readSchema fs p = .ok c ∧ expectedSchema fs p = some c := by
  unfold expectedSchema at h ⊢
  unfold readSchema
  cases hg : fs.get p with
  | none => simp [hg] at h
  | some n =>
    cases n with
    | dir => simp [hg] at h
    | file c' =>
      simp only [hg] at h ⊢
      by_cases hu : c'.utf8 = true
      · exact ⟨c', by simp [hu], by simp [hu]⟩
      · simp [hu] at h

/-! ### which handler touches which field -/

theorem createOrUpdateIso_rest (F : Facts) (fs : Fs) (db : Db) (p : Path) :
    (createOrUpdateIso F fs db p).1.schema = db.schema ∧
      (createOrUpdateIso F fs db p).1.exts = db.exts := by
  unfold createOrUpdateIso
  split
  · exact ⟨rfl, rfl⟩
  · split <;> exact ⟨rfl, rfl⟩

theorem readIsoFromFolder_rest (F : Facts) (fs : Fs) (db : Db) (d : Path) :
    (readIsoFromFolder F fs db d).1.schema = db.schema ∧
      (readIsoFromFolder F fs db d).1.exts = db.exts := by
  unfold readIsoFromFolder
  split <;> exact ⟨rfl, rfl⟩

theorem handleSourceFile_rest (F : Facts) (fs : Fs) (db : Db) (c : Change) :
    (handleSourceFile F fs db c).1.schema = db.schema ∧
      (handleSourceFile F fs db c).1.exts = db.exts := by
  cases c with
  | createOrModify p => exact createOrUpdateIso_rest F fs db p
  | rename s t =>
    simp only [handleSourceFile]
    split
    · exact createOrUpdateIso_rest F fs _ t
    · exact ⟨rfl, rfl⟩
  | remove p => exact ⟨rfl, rfl⟩

theorem handleSourceFolder_rest (F : Facts) (fs : Fs) (db : Db) (c : Change) :
    (handleSourceFolder F fs db c).1.schema = db.schema ∧
      (handleSourceFolder F fs db c).1.exts = db.exts := by
  cases c with
  | createOrModify p => exact readIsoFromFolder_rest F fs db p
  | rename s t => exact readIsoFromFolder_rest F fs _ t
  | remove p => exact ⟨rfl, rfl⟩

theorem createOrUpdateExt_schema (fs : Fs) (db : Db) (p : Path) :
    (createOrUpdateExt fs db p).1.schema = db.schema := by
  unfold createOrUpdateExt
  split <;> rfl

theorem handleExt_schema (cfg : Cfg) (fs : Fs) (db : Db) (c : Change) :
    (handleExt cfg fs db c).1.schema = db.schema := by
  cases c with
  | createOrModify p => exact createOrUpdateExt_schema fs db p
  | rename s t =>
    simp only [handleExt]
    split
    · exact createOrUpdateExt_schema fs db t
    · rfl
  | remove p => rfl

theorem handleSchema_exts (cfg : Cfg) (fs : Fs) (db : Db) (c : Change) :
    (handleSchema cfg fs db c).1.exts = db.exts := by
  cases c with
  | createOrModify p =>
    simp only [handleSchema]
    split <;> rfl
  | rename s t =>
    simp only [handleSchema]
    split <;> rfl
  | remove p => rfl

theorem handle_schema_of_ne (F : Facts) (cfg : Cfg) (fs : Fs) (db : Db) (c : Change) (k : Kind)
    (hk : k ≠ Kind.schema) : (handle F cfg fs db (c, k)).1.schema = db.schema := by
  cases k with
  | config => rfl
  | schema => exact absurd rfl hk
  | ext => exact handleExt_schema cfg fs db c
  | file => exact (handleSourceFile_rest F fs db c).1
  | folder => exact (handleSourceFolder_rest F fs db c).1

theorem handle_exts_of_ne (F : Facts) (cfg : Cfg) (fs : Fs) (db : Db) (c : Change) (k : Kind)
    (hk : k ≠ Kind.ext) : (handle F cfg fs db (c, k)).1.exts = db.exts := by
  cases k with
  | config => rfl
  | schema => exact handleSchema_exts cfg fs db c
  | ext => exact absurd rfl hk
  | file => exact (handleSourceFile_rest F fs db c).2
  | folder => exact (handleSourceFolder_rest F fs db c).2

theorem updateSources_cons (F : Facts) (cfg : Cfg) (fs : Fs) (db : Db) (e : SEv) (rest : List SEv) :
    updateSources F cfg fs db (e :: rest) =
      ((updateSources F cfg fs (handle F cfg fs db e).1 rest).1,
        (match (handle F cfg fs db e).2 with | some f => [f] | none => []) ++
          (updateSources F cfg fs (handle F cfg fs db e).1 rest).2) := rfl

theorem updateSources_schema (F : Facts) (cfg : Cfg) (fs : Fs) (evs : List SEv) (db : Db)
    (h : ∀ c, (c, Kind.schema) ∈ evs →
      isCreateOrModify c = true ∧ (expectedSchema fs cfg.schema).isSome = true) :
    (updateSources F cfg fs db evs).1.schema =
      if evs.any (fun e => decide (e.2 = Kind.schema)) = true then expectedSchema fs cfg.schema else db.schema := by
  induction evs generalizing db with
  | nil => simp [updateSources]
  | cons e rest ih =>
    have ih' := fun db' => ih db' (fun c hc => h c (List.mem_cons_of_mem _ hc))
    rw [updateSources_cons]
    simp only []
    rw [ih']
    obtain ⟨c, k⟩ := e
    by_cases hk : k = Kind.schema
    · subst hk
      obtain ⟨hc, hs⟩ := h c (by simp)
      obtain ⟨sc, hr, he⟩ := expectedSchema_isSome hs
      have hh : (handle F cfg fs db (c, Kind.schema)).1.schema = expectedSchema fs cfg.schema := by
        cases c with
        | createOrModify p => simp [handle, handleSchema, hr, he]
        | rename s t => simp [isCreateOrModify] at hc
        | remove p => simp [isCreateOrModify] at hc
      simp [hh]
    · have hh := handle_schema_of_ne F cfg fs db c k hk
      have hd : decide (k = Kind.schema) = false := decide_eq_false hk
      rw [hh]
      simp only [List.any_cons, hd, Bool.false_or]

theorem updateSources_exts_get (F : Facts) (cfg : Cfg) (fs : Fs) (evs : List SEv) (db : Db)
    (h : ∀ c, (c, Kind.ext) ∈ evs → ∃ x, c = .createOrModify x ∧ (expectedSchema fs x).isSome = true)
    (q : Path) :
    (updateSources F cfg fs db evs).1.exts.get q =
      if (Change.createOrModify q, Kind.ext) ∈ evs then expectedSchema fs q else db.exts.get q := by
  induction evs generalizing db with
  | nil => simp [updateSources]
  | cons e rest ih =>
    have ih' := fun db' => ih db' (fun c hc => h c (List.mem_cons_of_mem _ hc))
    rw [updateSources_cons]
    simp only []
    rw [ih']
    obtain ⟨c, k⟩ := e
    by_cases hk : k = Kind.ext
    · subst hk
      obtain ⟨x, hc, hs⟩ := h c (by simp)
      subst hc
      obtain ⟨sc, hr, he⟩ := expectedSchema_isSome hs
      have hh : (handle F cfg fs db (Change.createOrModify x, Kind.ext)).1.exts = db.exts.insert x sc := by
        simp [handle, handleExt, createOrUpdateExt, hr]
      rw [hh, AMap.get_insert]
      by_cases hx : x = q
      · subst hx
        simp [he]
      · have hx' : q ≠ x := fun h' => hx h'.symm
        simp [hx, hx']
    · have hh := handle_exts_of_ne F cfg fs db c k hk
      rw [hh]
      have : ((Change.createOrModify q, Kind.ext) ∈ (c, k) :: rest) ↔
          ((Change.createOrModify q, Kind.ext) ∈ rest) := by
        constructor
        · intro hm
          cases hm with
          | head => exact absurd rfl hk
          | tail _ hm => exact hm
        · exact List.mem_cons_of_mem _
      simp only [this]

/-- an extension event produced by `categorise` is about a configured extension -/
theorem categorizePath_ext {cfg : Cfg} {fs : Fs} {p : Path}
    (h : categorizePath cfg fs p = some Kind.ext) : cfg.exts.contains p = true := by
  unfold categorizePath at h
  split at h
  · simp at h
  · split at h
    · split at h <;> simp at h
    · split at h
      · simp at h
      · split at h
        · assumption
        · split at h <;> simp at h

theorem categorise_ext_mem (F : Facts) (cfg : Cfg) (fs : Fs) (evs : List Raw) (x : Path)
    (h : (Change.createOrModify x, Kind.ext) ∈ categorise F cfg fs evs) : cfg.exts.contains x = true := by
  unfold categorise at h
  rw [List.mem_filterMap] at h
  obtain ⟨r, _, hr⟩ := h
  cases r with
  | createFile p =>
    simp only [processRaw, Option.map_eq_some_iff] at hr
    obtain ⟨k, hk, he⟩ := hr
    cases he
    exact categorizePath_ext hk
  | createFolder p =>
    simp only [processRaw] at hr
    split at hr
    · simp only [Option.map_eq_some_iff] at hr
      obtain ⟨k, hk, he⟩ := hr
      cases he
      exact categorizePath_ext hk
    · simp at hr
  | data p =>
    simp only [processRaw] at hr
    split at hr
    · simp only [Option.map_eq_some_iff] at hr
      obtain ⟨k, hk, he⟩ := hr
      cases he
      exact categorizePath_ext hk
    · simp at hr
  | remove p =>
    simp only [processRaw, Option.map_eq_some_iff] at hr
    obtain ⟨k, hk, he⟩ := hr
    cases he
  | both s t =>
    simp only [processRaw, Option.map_eq_some_iff] at hr
    obtain ⟨k, hk, he⟩ := hr
    cases he
  | from_ p =>
    simp only [processRaw] at hr
    split at hr
    · simp only [existsOrRemove, Option.map_eq_some_iff] at hr
      obtain ⟨k, hk, he⟩ := hr
      split at he
      · cases he
        exact categorizePath_ext hk
      · cases he
    · simp at hr
  | to p =>
    simp only [processRaw] at hr
    split at hr
    · simp only [existsOrRemove, Option.map_eq_some_iff] at hr
      obtain ⟨k, hk, he⟩ := hr
      split at he
      · cases he
        exact categorizePath_ext hk
      · cases he
    · simp at hr
  | any p =>
    simp only [processRaw, existsOrRemove, Option.map_eq_some_iff] at hr
    obtain ⟨k, hk, he⟩ := hr
    split at he
    · cases he
      exact categorizePath_ext hk
    · cases he
  | other p => simp [processRaw] at hr

/-- the schema / extension part of `C20_refine` -/
theorem refine_schema (cfg : Cfg) (db : Db) (fs fs' : Fs) (evs : List Raw)
    (h : Reflects cfg db fs) (hd : DeliversAll repairedFacts cfg evs fs fs') :
    let db' := (updateSources repairedFacts cfg fs' db (categorise repairedFacts cfg fs' evs)).1
    db'.schema = expectedSchema fs' cfg.schema ∧
      ∀ p, db'.exts.get p = if cfg.exts.contains p = true then expectedSchema fs' p else none := by
  obtain ⟨_, hsch, hext⟩ := h
  intro db'
  refine ⟨?_, ?_⟩
  · show (updateSources repairedFacts cfg fs' db (categorise repairedFacts cfg fs' evs)).1.schema = _
    rw [updateSources_schema _ _ _ _ _ hd.inPlace.schemaEvents]
    split
    · rfl
    · rename_i hany
      rw [hsch]
      apply Classical.byContradiction
      intro hne
      obtain ⟨c, hc⟩ := hd.schemaReported hne
      apply hany
      rw [List.any_eq_true]
      exact ⟨(c, Kind.schema), hc, by simp⟩
  · intro p
    show (updateSources repairedFacts cfg fs' db (categorise repairedFacts cfg fs' evs)).1.exts.get p = _
    rw [updateSources_exts_get _ _ _ _ _ hd.inPlace.extEvents]
    split
    · rename_i hm
      rw [categorise_ext_mem _ _ _ _ _ hm]
      rfl
    · rename_i hm
      rw [hext]
      by_cases hc : cfg.exts.contains p = true
      · simp only [hc, if_true]
        apply Classical.byContradiction
        intro hne
        exact hm (hd.extReported p hc hne)
      · simp only [hc]
        rfl

/-! ### `update_sources` cannot fail without a race -/

/-- an event that the repaired `update_sources` handles without an error -/
def Safe (cfg : Cfg) (fs : Fs) (e : SEv) : Prop :=
  match e.2 with
  | .config => False
  | .schema => isCreateOrModify e.1 = true ∧ (expectedSchema fs cfg.schema).isSome = true
  | .ext => ∃ x, e.1 = .createOrModify x ∧ (expectedSchema fs x).isSome = true
  | .file =>
    match e.1 with
    | .createOrModify p => isFile fs p = true
    | .rename _ t => isFile fs t = true
    | .remove _ => True
  | .folder =>
    match e.1 with
    | .createOrModify p => isDir fs p = true
    | .rename _ t => isDir fs t = true
    | .remove _ => True

theorem isFile_get {fs : Fs} {p : Path} (h : isFile fs p = true) : ∃ c, fs.get p = some (.file c) := by
  unfold isFile at h
  split at h
  · rename_i c hc
    exact ⟨c, hc⟩
  · simp at h

theorem isFile_pathExists {fs : Fs} {p : Path} (h : isFile fs p = true) : pathExists fs p = true := by
  obtain ⟨c, hc⟩ := isFile_get h
  simp [pathExists, hc]

theorem isDir_of_exists_not_file {fs : Fs} {p : Path} (he : pathExists fs p = true)
    (hf : isFile fs p = false) : isDir fs p = true := by
  unfold pathExists at he
  unfold isFile at hf
  unfold isDir
  cases hg : fs.get p with
  | none => simp [hg] at he
  | some n =>
    cases n with
    | dir => rfl
    | file c => simp [hg] at hf

theorem createOrUpdateIso_ok (F : Facts) (hF : F.nonUtf8Skipped = true) (fs : Fs) (db : Db) (p : Path)
    (h : isFile fs p = true) : (createOrUpdateIso F fs db p).2 = none := by
  obtain ⟨c, hc⟩ := isFile_get h
  unfold createOrUpdateIso
  split
  · rfl
  · rw [readFile_file F hF fs p c hc]
    by_cases hu : c.utf8 = true
    · simp [hu]
    · simp [hu]

theorem readIsoFromFolder_ok (F : Facts) (hF : F.nonUtf8Skipped = true) (fs : Fs) (db : Db) (d : Path)
    (h : isDir fs d = true) : (readIsoFromFolder F fs db d).2 = none := by
  obtain ⟨l, hl, _⟩ := readFolder_dir F hF fs d h
  unfold readIsoFromFolder
  rw [hl]

theorem handle_safe (cfg : Cfg) (fs : Fs) (db : Db) (e : SEv) (h : Safe cfg fs e) :
    (handle repairedFacts cfg fs db e).2 = none := by
  obtain ⟨c, k⟩ := e
  cases k with
  | config => exact False.elim h
  | schema =>
    obtain ⟨hc, hs⟩ := h
    obtain ⟨sc, hr, _⟩ := expectedSchema_isSome hs
    cases c with
    | createOrModify p => simp [handle, handleSchema, hr]
    | rename s t => simp [isCreateOrModify] at hc
    | remove p => simp [isCreateOrModify] at hc
  | ext =>
    obtain ⟨x, hc, hs⟩ := h
    have hc' : c = Change.createOrModify x := hc
    subst hc'
    obtain ⟨sc, hr, _⟩ := expectedSchema_isSome hs
    simp [handle, handleExt, createOrUpdateExt, hr]
  | file =>
    cases c with
    | createOrModify p => exact createOrUpdateIso_ok repairedFacts rfl fs db p h
    | rename s t =>
      show (createOrUpdateIso repairedFacts fs { db with iso := db.iso.remove s } t).2 = none
      exact createOrUpdateIso_ok repairedFacts rfl fs _ t h
    | remove p => rfl
  | folder =>
    cases c with
    | createOrModify p => exact readIsoFromFolder_ok repairedFacts rfl fs db p h
    | rename s t => exact readIsoFromFolder_ok repairedFacts rfl fs _ t h
    | remove p => rfl

theorem updateSources_safe (cfg : Cfg) (fs : Fs) (evs : List SEv) (db : Db)
    (h : ∀ e ∈ evs, Safe cfg fs e) : (updateSources repairedFacts cfg fs db evs).2 = [] := by
  induction evs generalizing db with
  | nil => rfl
  | cons e rest ih =>
    rw [updateSources_cons]
    simp only []
    rw [handle_safe cfg fs db e (h e (by simp)),
      ih _ (fun e' he' => h e' (List.mem_cons_of_mem _ he'))]
    rfl

theorem categorizePath_file {cfg : Cfg} {fs : Fs} {p : Path}
    (h : categorizePath cfg fs p = some Kind.file) : isFile fs p = true := by
  unfold categorizePath at h
  split at h
  · simp at h
  · split at h
    · split at h
      · assumption
      · simp at h
    · split at h
      · simp at h
      · split at h
        · simp at h
        · split at h <;> simp at h

theorem categorizePath_folder {cfg : Cfg} {fs : Fs} {p : Path}
    (h : categorizePath cfg fs p = some Kind.folder) : isFile fs p = false := by
  unfold categorizePath at h
  split at h
  · simp at h
  · split at h
    · split at h
      · simp at h
      · rename_i hf
        simpa using hf
    · split at h
      · simp at h
      · split at h
        · simp at h
        · split at h <;> simp at h

theorem safe_createOrModify {cfg : Cfg} {fs : Fs} {p : Path} {k : Kind}
    (hk : categorizePath cfg fs p = some k) (hfk : k = Kind.file ∨ k = Kind.folder)
    (hex : pathExists fs p = true) : Safe cfg fs (Change.createOrModify p, k) := by
  rcases hfk with rfl | rfl
  · exact categorizePath_file hk
  · exact isDir_of_exists_not_file hex (categorizePath_folder hk)

theorem safe_rename {cfg : Cfg} {fs : Fs} {p : Path} {k : Kind} (s : Path)
    (hk : categorizePath cfg fs p = some k) (hfk : k = Kind.file ∨ k = Kind.folder)
    (hex : pathExists fs p = true) : Safe cfg fs (Change.rename s p, k) := by
  rcases hfk with rfl | rfl
  · exact categorizePath_file hk
  · exact isDir_of_exists_not_file hex (categorizePath_folder hk)

theorem safe_remove {cfg : Cfg} {fs : Fs} (p : Path) {k : Kind}
    (hfk : k = Kind.file ∨ k = Kind.folder) : Safe cfg fs (Change.remove p, k) := by
  rcases hfk with rfl | rfl <;> exact True.intro

theorem safe_existsOrRemove {cfg : Cfg} {fs : Fs} {p : Path} {c : Change} {k : Kind}
    (he : existsOrRemove cfg fs p = some (c, k)) (hfk : k = Kind.file ∨ k = Kind.folder) :
    Safe cfg fs (c, k) := by
  simp only [existsOrRemove, Option.map_eq_some_iff] at he
  obtain ⟨k', hk, heq⟩ := he
  split at heq
  · rename_i hex
    cases heq
    exact safe_createOrModify hk hfk hex
  · cases heq
    exact safe_remove p hfk

theorem processRaw_safe (cfg : Cfg) (fs' : Fs) (evs : List Raw) (hr : NoRace fs' evs)
    (hp : SchemaInPlace repairedFacts cfg evs fs') (r : Raw) (hmem : r ∈ evs) (e : SEv)
    (he : processRaw repairedFacts cfg fs' r = some e) : Safe cfg fs' e := by
  have hm : e ∈ categorise repairedFacts cfg fs' evs := List.mem_filterMap.2 ⟨r, hmem, he⟩
  obtain ⟨c, k⟩ := e
  by_cases hfk : k = Kind.file ∨ k = Kind.folder
  · have hN := hr r hmem
    cases r with
    | createFile p =>
      have hN' : pathExists fs' p = true := hN
      simp only [processRaw, Option.map_eq_some_iff] at he
      obtain ⟨k', hk, heq⟩ := he
      cases heq
      exact safe_createOrModify hk hfk hN'
    | createFolder p =>
      have hN' : pathExists fs' p = true := hN
      have he' : (categorizePath cfg fs' p).map (fun k => (Change.createOrModify p, k)) = some (c, k) := he
      simp only [Option.map_eq_some_iff] at he'
      obtain ⟨k', hk, heq⟩ := he'
      cases heq
      exact safe_createOrModify hk hfk hN'
    | data p =>
      simp only [processRaw] at he
      split at he
      · rename_i hf
        simp only [Option.map_eq_some_iff] at he
        obtain ⟨k', hk, heq⟩ := he
        cases heq
        exact safe_createOrModify hk hfk (isFile_pathExists hf)
      · simp at he
    | remove p =>
      simp only [processRaw, Option.map_eq_some_iff] at he
      obtain ⟨k', hk, heq⟩ := he
      cases heq
      exact safe_remove p hfk
    | both s t =>
      have hN' : pathExists fs' t = true := hN
      simp only [processRaw, Option.map_eq_some_iff] at he
      obtain ⟨k', hk, heq⟩ := he
      cases heq
      exact safe_rename s hk hfk hN'
    | from_ p =>
      have he' : existsOrRemove cfg fs' p = some (c, k) := he
      exact safe_existsOrRemove he' hfk
    | to p =>
      have he' : existsOrRemove cfg fs' p = some (c, k) := he
      exact safe_existsOrRemove he' hfk
    | any p =>
      have he' : existsOrRemove cfg fs' p = some (c, k) := he
      exact safe_existsOrRemove he' hfk
    | other p => simp [processRaw] at he
  · cases k with
    | config => exact absurd hm (hp.noConfig c)
    | schema => exact hp.schemaEvents c hm
    | ext => exact hp.extEvents c hm
    | file => exact absurd (Or.inl rfl) hfk
    | folder => exact absurd (Or.inr rfl) hfk

/-- `C20_alive` for the repaired facts -/
theorem alive_repaired (cfg : Cfg) (db : Db) (fs' : Fs) (evs : List Raw) (hr : NoRace fs' evs)
    (hp : SchemaInPlace repairedFacts cfg evs fs') :
    (updateSources repairedFacts cfg fs' db (categorise repairedFacts cfg fs' evs)).2 = [] := by
  apply updateSources_safe
  intro e he
  obtain ⟨r, hmem, hre⟩ := List.mem_filterMap.1 he
  exact processRaw_safe cfg fs' evs hr hp r hmem e hre

/-! ### `initialize_sources` -/

theorem readExts_get (fs : Fs) (l : List Path) (m : AMap) (h : readExts fs l = .ok m) (q : Path) :
    m.get q = if l.contains q = true then expectedSchema fs q else none := by
  induction l generalizing m with
  | nil =>
    simp only [readExts, Except.ok.injEq] at h
    subst h
    rfl
  | cons p rest ih =>
    simp only [readExts] at h
    split at h
    · simp at h
    · rename_i c hc
      split at h
      · simp at h
      · rename_i m' hm'
        simp only [Except.ok.injEq] at h
        subst h
        rw [AMap.get_insert, ih m' hm']
        by_cases hpq : p = q
        · subst hpq
          simp [readSchema_ok hc]
        · have hqp : (q == p) = false := by
            simp only [beq_eq_false_iff_ne, ne_eq]
            exact fun h' => hpq h'.symm
          simp only [hpq, if_false, List.contains_cons, hqp, Bool.false_or]

theorem expectedIso_some {cfg : Cfg} {fs : Fs} {p : Path} {c : Content}
    (h : expectedIso cfg fs p = some c) :
    isPrefix cfg.projectRoot p = true ∧ passesFilter p = true ∧ fs.get p = some (.file c) ∧
      c.utf8 = true := by
  unfold expectedIso at h
  split at h
  · rename_i hpf
    simp only [Bool.and_eq_true] at hpf
    split at h
    · rename_i c' hg
      split at h
      · rename_i hu
        simp only [Option.some.injEq] at h
        subst h
        exact ⟨hpf.1, hpf.2, hg, hu⟩
      · simp at h
    · simp at h
  · simp at h

theorem expectedIso_of {cfg : Cfg} {fs : Fs} {p : Path} {c : Content}
    (h : isPrefix cfg.projectRoot p = true ∧ passesFilter p = true ∧ fs.get p = some (.file c) ∧
      c.utf8 = true) : expectedIso cfg fs p = some c := by
  obtain ⟨h1, h2, h3, h4⟩ := h
  simp [expectedIso, h1, h2, h3, h4]

/-- `Reflects` is what `initialize_sources` establishes -/
theorem initialize_reflects (cfg : Cfg) (fs : Fs) (db : Db)
    (h : initializeSources repairedFacts cfg fs = .ok db) : Reflects cfg db fs := by
  unfold initializeSources at h
  split at h
  · simp at h
  · rename_i sc hsc
    split at h
    · simp at h
    · rename_i ex hex
      split at h
      · simp at h
      · rename_i l hl
        simp only [Except.ok.injEq] at h
        subst h
        have hdir : isDir fs cfg.projectRoot = true := by
          cases hd : isDir fs cfg.projectRoot with
          | true => rfl
          | false =>
            rw [readFolder_not_dir _ _ _ hd] at hl
            simp at hl
        obtain ⟨l', hl', hmem⟩ := readFolder_dir repairedFacts rfl fs _ hdir
        rw [hl] at hl'
        simp only [Except.ok.injEq] at hl'
        subst hl'
        refine ⟨?_, ?_, ?_⟩
        · intro p
          show AMap.get (insertAll [] l) p = _
          rw [get_insertAll [] l (expectedIso cfg fs)
            (fun p c hpc => expectedIso_of ((hmem p c).1 hpc)) p]
          split
          · rfl
          · rename_i hn
            cases hexp : expectedIso cfg fs p with
            | none => rfl
            | some c =>
              exfalso
              apply hn
              rw [List.mem_map]
              exact ⟨(p, c), (hmem p c).2 (expectedIso_some hexp), rfl⟩
        · exact (readSchema_ok hsc).symm
        · intro p
          exact readExts_get fs cfg.exts ex hex p

end IsoVerif.Watch
