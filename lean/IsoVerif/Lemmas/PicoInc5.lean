/-
C01, stage 2b/3: the two facts about `time_updated` (a re-execution that changes the value is
stamped beyond the previous `time_verified`; a re-execution reports at least the stored
`time_updated`), and the induction step of the specification of `upToDate`.
-/
import IsoVerif.Lemmas.PicoInc4

namespace IsoVerif.Pico

/-- the old run and the new run differ: some dependency read by the NEW run was re-stamped after
the node's previous verification, so the new `maxTu` lies beyond it -/
theorem bound_of_diverge {P : Prog} {s3 : Storage} {id : NodeId} {rev : Rev} {fr3 : Frame}
    {σx : Srcs} {mx : Maps} {vo vn : Nat} {Ro Rn : List Read}
    (hold : BigN P σx mx id vo Ro) (hnew : BigN P s3.srcs s3.maps id vn Rn)
    (hdf : ∀ rd, rd ∈ Ro → DepFor s3 rev rd) (hrd : ∀ rd, rd ∈ Rn → ReadOk s3 fr3 rd)
    (hE : rev.tv < s3.epoch) (hdiv : ¬ (vo = vn ∧ Ro = Rn)) : rev.tv < fr3.maxTu := by
  rcases BigE.diverge hold hnew with h | ⟨pre, r1, r2, p1, p2, hR1, hR2, ht, hne⟩
  · exact absurd h hdiv
  · have h1 := hdf r1 (by rw [hR1]; simp)
    have h2 := hrd r2 (by rw [hR2]; simp)
    cases r1 with
    | src k o1 =>
      cases r2 with
      | node q w => simp [Read.target] at ht
      | src k2 o2 =>
        simp only [Read.target, DepNode.source.injEq] at ht
        subst ht
        simp only [ReadOk] at h2
        simp only [DepFor] at h1
        obtain ⟨ho2, hk2⟩ := h2
        by_cases ho1 : o1.1.isSome = true
        · rw [if_pos ho1] at h1
          by_cases hs2 : o2.1.isSome = true
          · rw [if_pos hs2] at hk2
            obtain ⟨nd, hnd, hle⟩ := hk2
            by_cases hold' : nd.tu ≤ rev.tv
            · have := h1.2 ⟨nd, hnd, hold'⟩
              exact absurd (by rw [ho2, this]) hne
            · omega
          · rw [if_neg hs2] at hk2; omega
        · rw [if_neg ho1] at h1
          by_cases hs2 : o2.1.isSome = true
          · rw [if_pos hs2] at hk2
            obtain ⟨nd, hnd, hle⟩ := hk2
            have := h1.2.2 nd hnd
            omega
          · rw [if_neg hs2] at hk2
            exact absurd (by rw [h1.2.1, hk2.1]) hne
    | node q w1 =>
      cases r2 with
      | src k o => simp [Read.target] at ht
      | node q2 w2 =>
        simp only [Read.target, DepNode.derived.injEq] at ht
        subst ht
        simp only [ReadOk] at h2
        simp only [DepFor] at h1
        obtain ⟨rq, hq, hv, _, htu⟩ := h2
        obtain ⟨_, rq', hq', _, hval⟩ := h1
        rw [hq] at hq'; cases hq'
        by_cases hle : rq.tu ≤ rev.tv
        · have := hval hle
          exact absurd (by rw [← this, hv]) hne
        · omega

/-- the old run and the new run are the same but a recorded dependency was re-stamped: the new run
read it, so the new `maxTu` is at least the stored `time_updated` -/
theorem bound_of_changed {s3 : Storage} {rev : Rev} {fr3 : Frame} {R : List Read}
    (hrd : ∀ rd, rd ∈ R → ReadOk s3 fr3 rd)
    (hexact : ∀ d, d ∈ rev.deps → ∃ rd, rd ∈ R ∧ rd.kind = d.node)
    (htus : ∀ d, d ∈ rev.deps → rev.tu ≤ d.stamp)
    (hch : ∃ d, d ∈ rev.deps ∧ Changed s3 d) : rev.tu ≤ fr3.maxTu := by
  obtain ⟨d, hd, hc⟩ := hch
  obtain ⟨rd, hrdm, hk⟩ := hexact d hd
  have hok := hrd rd hrdm
  have hst := htus d hd
  unfold Changed at hc
  cases rd with
  | src k o =>
    simp only [ReadOk] at hok
    simp only [Read.kind] at hk
    by_cases ho : o.1.isSome = true
    · rw [if_pos ho] at hk hok
      rw [← hk] at hc
      obtain ⟨nd, hnd, hle⟩ := hok.2
      have := hc nd hnd
      omega
    · rw [if_neg ho] at hk hok
      rw [← hk] at hc
      simp only at hc
      have h1 := hok.1
      rw [hok.2.1] at h1
      cases hl : alookup s3.srcs k with
      | none => rw [hl] at hc; simp at hc
      | some nd =>
        have := keyObs_fst_some (m := s3.maps) hl
        rw [← h1] at this; cases this
  | node q w =>
    simp only [ReadOk] at hok
    simp only [Read.kind] at hk
    rw [← hk] at hc
    obtain ⟨rq, hq, _, _, htu⟩ := hok
    have := hc rq hq
    omega


/-- a recorded derived dependency comes from a callee read of the last run -/
theorem derived_dep_read {R : List Read} {d : Dep} {q : NodeId}
    (hx : ∃ rd, rd ∈ R ∧ rd.kind = d.node) (hq : d.node = .derived q) : ∃ w, Read.node q w ∈ R := by
  obtain ⟨rd, hrd, hk⟩ := hx
  cases rd with
  | src k o =>
    simp only [Read.kind] at hk
    rw [hq] at hk
    by_cases ho : o.1.isSome = true
    · rw [if_pos ho] at hk; cases hk
    · rw [if_neg ho] at hk; cases hk
  | node x w =>
    simp only [Read.kind] at hk
    rw [hq] at hk; cases hk
    exact ⟨w, hrd⟩

theorem keyObs_absent {s : Storage} (hmi : MapsInit s) (k : Key) (hl : alookup s.srcs k = none) :
    keyObs s.srcs s.maps k = (none, 0) := by
  cases k with
  | src n => exact keyObs_none_nonctr hl (fun i e => by cases e)
  | sing i => exact keyObs_none_nonctr hl (fun i e => by cases e)
  | ctr i => exact keyObs_ctr_absent hmi i hl

/-- all recorded dependencies are unchanged: the stored value is correct now, and the edge facts
hold with the new `time_verified` -/
theorem verified_ok {P : Prog} {s2 : Storage} {id : NodeId} {rev : Rev} {σx : Srcs} {mx : Maps} {Ro : List Read}
    (hbo : BigN P σx mx id rev.val Ro) (hdf : ∀ rd, rd ∈ Ro → DepFor s2 rev rd)
    (hun : ∀ d, d ∈ rev.deps → Unchanged P s2 d) (hst : ∀ d, d ∈ rev.deps → d.stamp ≤ rev.tv)
    (hmi : MapsInit s2) :
    BigN P s2.srcs s2.maps id rev.val Ro ∧
      ∀ rd, rd ∈ Ro → DepFor s2 (Rev.mk rev.val rev.tu s2.epoch rev.deps) rd := by
  have hper : ∀ rd, rd ∈ Ro → rd.holds P s2.srcs s2.maps ∧ DepFor s2 (Rev.mk rev.val rev.tu s2.epoch rev.deps) rd := by
    intro rd hrd
    have h0 := hdf rd hrd
    cases rd with
    | src k o =>
      simp only [DepFor] at h0 ⊢
      simp only [Read.holds]
      by_cases ho : o.1.isSome = true
      · rw [if_pos ho] at h0 ⊢
        obtain ⟨⟨d, hd, hk⟩, himp⟩ := h0
        have hu := hun d hd
        unfold Unchanged at hu; rw [hk] at hu
        obtain ⟨nd, hnd, hle⟩ := hu
        have hobs := himp ⟨nd, hnd, Nat.le_trans hle (hst d hd)⟩
        exact ⟨hobs, ⟨d, hd, hk⟩, fun _ => hobs⟩
      · rw [if_neg ho] at h0 ⊢
        obtain ⟨⟨d, hd, hk⟩, hoe, _⟩ := h0
        have hu := hun d hd
        unfold Unchanged at hu; rw [hk] at hu
        have hobs : keyObs s2.srcs s2.maps k = o := by rw [hoe]; exact keyObs_absent hmi k hu
        exact ⟨hobs, ⟨d, hd, hk⟩, hoe, fun nd hnd => by rw [hu] at hnd; cases hnd⟩
    | node q w =>
      simp only [DepFor] at h0 ⊢
      simp only [Read.holds]
      obtain ⟨⟨d, hd, hk⟩, rq, hq, _, hval⟩ := h0
      have hu := hun d hd
      unfold Unchanged at hu; rw [hk] at hu
      obtain ⟨rq', hq', htu, hdv, Rq, hRq⟩ := hu
      rw [hq] at hq'; cases hq'
      have hw : rq.val = w := hval (Nat.le_trans htu (hst d hd))
      refine ⟨⟨Rq, by rw [← hw]; exact hRq⟩, ⟨d, hd, hk⟩, rq, hq, ?_, fun _ => hw⟩
      intro hne
      rcases hdv with h1 | h1
      · exact absurd h1 hne
      · rw [h1]; exact Nat.le_refl _
  exact ⟨BigE.transfer hbo (fun r hr => (hper r hr).1), fun rd hrd => (hper rd hrd).2⟩


/-! ## a dependency is only verified if the current evaluation still reaches it -/

/-- a read of the last run still holds if a recorded dependency on what it read is unchanged -/
theorem read_holds_of_unchanged {P : Prog} {s2 : Storage} {rev : Rev} {rd : Read}
    (hdf : DepFor s2 rev rd) (hst : ∀ d, d ∈ rev.deps → d.stamp ≤ rev.tv) (hmi : MapsInit s2)
    (d : Dep) (hd : d ∈ rev.deps) (hk : d.node = rd.kind) (hu : Unchanged P s2 d) :
    rd.holds P s2.srcs s2.maps := by
  cases rd with
  | src k o =>
    simp only [DepFor] at hdf
    simp only [Read.holds]
    simp only [Read.kind] at hk
    unfold Unchanged at hu
    by_cases ho : o.1.isSome = true
    · rw [if_pos ho] at hdf hk
      rw [hk] at hu
      obtain ⟨nd, hnd, hle⟩ := hu
      exact hdf.2 ⟨nd, hnd, Nat.le_trans hle (hst d hd)⟩
    · rw [if_neg ho] at hdf hk
      rw [hk] at hu
      rw [hdf.2.1]; exact keyObs_absent hmi k hu
  | node q w =>
    simp only [DepFor] at hdf
    simp only [Read.holds]
    simp only [Read.kind] at hk
    unfold Unchanged at hu
    rw [hk] at hu
    obtain ⟨_, rq, hq, _, hval⟩ := hdf
    obtain ⟨rq', hq', htu, _, Rq, hRq⟩ := hu
    rw [hq] at hq'; cases hq'
    have hw : rq.val = w := hval (Nat.le_trans htu (hst d hd))
    exact ⟨Rq, by rw [← hw]; exact hRq⟩

/-- what a read observes under given sources is determined by its target -/
theorem holds_unique {P : Prog} {σ : Srcs} {m : Maps} {r1 r2 : Read} (ht : r1.target = r2.target)
    (h1 : r1.holds P σ m) (h2 : r2.holds P σ m) : r1 = r2 := by
  cases r1 with
  | src k1 o1 =>
    cases r2 with
    | node q w => simp [Read.target] at ht
    | src k2 o2 =>
      simp only [Read.target, DepNode.source.injEq] at ht
      subst ht
      simp only [Read.holds] at h1 h2
      rw [← h1, ← h2]
  | node q1 w1 =>
    cases r2 with
    | src k o => simp [Read.target] at ht
    | node q2 w2 =>
      simp only [Read.target, DepNode.derived.injEq] at ht
      subst ht
      simp only [Read.holds] at h1 h2
      obtain ⟨R1, hR1⟩ := h1
      obtain ⟨R2, hR2⟩ := h2
      rw [(BigE.det hR1 hR2).1]

theorem kind_derived {rd : Read} {q : NodeId} (h : rd.kind = .derived q) : ∃ w, rd = .node q w :=
  kind_derived' h

/-- the dependencies recorded before `d` are unchanged: the current evaluation of the node (`hnow`)
still calls the callee `d` stands for, so that callee evaluates under the current sources -/
theorem dep_reached {P : Prog} {s2 : Storage} {id : NodeId} {rev : Rev} {σx : Srcs} {mx : Maps} {Ro R : List Read}
    {v : Nat} (hbo : BigN P σx mx id rev.val Ro) (hnow : BigN P s2.srcs s2.maps id v R)
    (hoo : rev.deps.map (·.node) = pushAll [] (Ro.map Read.kind))
    (hdf : ∀ rd, rd ∈ Ro → DepFor s2 rev rd) (hst : ∀ d, d ∈ rev.deps → d.stamp ≤ rev.tv) (hmi : MapsInit s2)
    (D1 : List Dep) (d : Dep) (D2 : List Dep) (hdec : rev.deps = D1 ++ d :: D2)
    (hun : ∀ d', d' ∈ D1 → Unchanged P s2 d') (q : NodeId) (hq : d.node = .derived q) :
    ∃ w R', BigN P s2.srcs s2.maps q w R' := by
  -- the read that `d` records, and the reads before it
  have hmap : pushAll [] (Ro.map Read.kind) = D1.map (·.node) ++ d.node :: D2.map (·.node) := by
    rw [← hoo, hdec]; simp
  obtain ⟨K1, K2, hK, hK1⟩ := pushAll_split _ _ _ _ hmap
  obtain ⟨R1, Rr, hRo, hR1, hRr⟩ := List.map_eq_append_iff.1 hK
  obtain ⟨rd, R2, hRr', hrdk, _⟩ := List.map_eq_cons_iff.1 hRr
  subst hRr'
  -- every read before it still holds
  have hR1holds : ∀ r, r ∈ R1 → r.holds P s2.srcs s2.maps := by
    intro r hr
    have hkin : r.kind ∈ K1 := by rw [← hR1]; exact List.mem_map_of_mem hr
    obtain ⟨d', hd', hk'⟩ := List.mem_map.1 (hK1 _ hkin)
    have hd'm : d' ∈ rev.deps := by rw [hdec]; exact List.mem_append_left _ hd'
    exact read_holds_of_unchanged (hdf r (by rw [hRo]; exact List.mem_append_left _ hr)) hst hmi d' hd'm hk' (hun d' hd')
  have hRholds := BigE.reads_hold hnow
  have hfin : ∀ r2, r2 ∈ R → r2.target = .derived q → ∃ w R', BigN P s2.srcs s2.maps q w R' := by
    intro r2 hr2 ht
    cases r2 with
    | src k o => simp [Read.target] at ht
    | node x w =>
      simp only [Read.target, DepNode.derived.injEq] at ht
      subst ht
      obtain ⟨R', hR'⟩ := hRholds _ hr2
      exact ⟨w, R', hR'⟩
  obtain ⟨w0, hrd⟩ := kind_derived (hrdk.trans hq)
  have hrdt : rd.target = .derived q := by rw [hrd]; rfl
  rcases BigE.diverge hbo hnow with ⟨_, hsame⟩ | ⟨pre, r1, r2, p1, p2, hE1, hE2, ht, hne⟩
  · exact hfin rd (by rw [← hsame, hRo]; simp) hrdt
  · rw [hRo] at hE1
    rcases List.append_eq_append_iff.1 hE1 with ⟨a', ha1, ha2⟩ | ⟨c', hc1, hc2⟩
    · -- pre = R1 ++ a'
      cases a' with
      | nil =>
        simp at ha2
        exact hfin r2 (by rw [hE2]; simp) (by rw [← ht, ← ha2.1]; exact hrdt)
      | cons x a'' =>
        simp at ha2
        exact hfin rd (by rw [hE2, ha1, ← ha2.1]; simp) hrdt
    · -- R1 = pre ++ c'
      cases c' with
      | nil =>
        simp at hc2
        exact hfin r2 (by rw [hE2]; simp) (by rw [← ht, hc2.1]; exact hrdt)
      | cons x c'' =>
        simp at hc2
        have hr1 : r1 ∈ R1 := by rw [hc1, ← hc2.1]; simp
        have := holds_unique ht (hR1holds r1 hr1) (hRholds r2 (by rw [hE2]; simp))
        exact absurd this hne

end IsoVerif.Pico
