/-
Lemmas for C13_holes: the lexical-context automaton of `Model/TsLex.lean` and the embedding functions of
the holes.  Core Lean only.
-/
import IsoVerif.Model.TsLex

namespace IsoVerif.TsLex

theorem run_append (s : St) (a b : Text) : run s (a ++ b) = run (run s a) b := by
  simp [run, List.foldl_append]

theorem run_cons (s : St) (c : Nat) (t : Text) : run s (c :: t) = run (step s c) t := rfl

theorem confined_append (f : Fam) (s : St) (a b : Text) :
    confined f s (a ++ b) = (confined f s a && confined f (run s a) b) := by
  induction a generalizing s with
  | nil => simp [confined, run]
  | cons c rest ih =>
    simp only [List.cons_append, confined, run_cons, ih, Bool.and_assoc]

/-- Lifting: text that returns the automaton to the state it started in does not change the lexical
state of anything after the hole. -/
theorem lex_lift (pre e suf : Text) (s : St) (hpre : lexState pre = s) (he : run s e = s) :
    lexState (pre ++ e ++ suf) = lexState (pre ++ suf) := by
  unfold lexState at *
  rw [run_append, run_append, run_append, hpre, he]

/-- one-state family invariant: if every char keeps `s` in `s` -/
theorem loop_ok (f : Fam) (s : St) (hf : f.has s = true) (p : Nat → Bool)
    (hp : ∀ c, p c = true → step s c = s) (t : Text) (h : t.all p = true) :
    confined f s t = true ∧ run s t = s := by
  induction t with
  | nil => simp [confined, run]
  | cons c rest ih =>
    simp only [List.all_cons, Bool.and_eq_true] at h
    have hc := hp c h.1
    have := ih h.2
    simp only [confined, run_cons, hc, hf, this.1, this.2, Bool.and_self, and_self]

theorem desc_inv (t : Text) :
    (confined .block .block (escapeCommentEnd t ++ [10]) = true ∧ run .block (escapeCommentEnd t ++ [10]) = .block) ∧
    (t.head? ≠ some 47 →
      confined .block .blockStar (escapeCommentEnd t ++ [10]) = true ∧
      run .blockStar (escapeCommentEnd t ++ [10]) = .block) := by
  fun_induction escapeCommentEnd t with
  | case1 => decide
  | case2 rest ih =>
    obtain ⟨⟨ih1, ih2⟩, _⟩ := ih
    simp [confined, run_cons, step, Fam.has, ih1, ih2]
  | case3 c rest hne ih =>
    obtain ⟨⟨ih1, ih2⟩, ih3⟩ := ih
    by_cases hc : c = 42
    · subst hc
      have hr : rest.head? ≠ some 47 := by
        intro h
        cases rest with
        | nil => simp at h
        | cons d r => simp at h; subst h; exact hne r rfl rfl
      obtain ⟨ih4, ih5⟩ := ih3 hr
      simp [confined, run_cons, step, Fam.has, ih4, ih5]
    · refine ⟨?_, ?_⟩
      · simp [confined, run_cons, step, Fam.has, hc, ih1, ih2]
      · intro h47
        have : c ≠ 47 := by intro h; subst h; simp at h47
        simp [confined, run_cons, step, Fam.has, hc, this, ih1, ih2]

/-- descriptions: after `*/ ↦ *\/` nothing closes the doc comment (for EVERY text) -/
theorem desc_ok (t : Text) :
    confined .block .block (escapeCommentEnd t ++ [10]) = true ∧ run .block (escapeCommentEnd t ++ [10]) = .block :=
  (desc_inv t).1

theorem isHex_ne {c : Nat} (h : isHex c = true) : c ≠ 92 ∧ c ≠ 34 ∧ c ≠ 39 ∧ c ≠ 10 ∧ c ≠ 13 := by
  simp [isHex] at h
  omega

theorem step_dq_plain {c : Nat} (h1 : c ≠ 92) (h2 : c ≠ 34) (h3 : c ≠ 10) (h4 : c ≠ 13) : step .dq c = .dq := by
  simp [step, h1, h2, h3, h4]

theorem step_sq_plain {c : Nat} (h1 : c ≠ 92) (h2 : c ≠ 39) (h3 : c ≠ 10) (h4 : c ≠ 13) : step .sq c = .sq := by
  simp [step, h1, h2, h3, h4]

theorem step_dq_hex {c : Nat} (h : isHex c = true) : step .dq c = .dq := by
  have := isHex_ne h
  apply step_dq_plain <;> omega

theorem step_sq_hex {c : Nat} (h : isHex c = true) : step .sq c = .sq := by
  have := isHex_ne h
  apply step_sq_plain <;> omega

theorem step_dq_bs : step .dq 92 = .dqEsc := by decide
theorem step_sq_bs : step .sq 92 = .sqEsc := by decide
theorem step_dqEsc (c : Nat) : step .dqEsc c = .dq := rfl
theorem step_sqEsc (c : Nat) : step .sqEsc c = .sq := rfl

/-- string arguments in a double-quoted context: the iso lexer only lets `"` through as `\"` -/
theorem strDouble_ok (t : Text) (h : strArgDomain t = true) :
    confined .dq .dq t = true ∧ run .dq t = .dq := by
  fun_induction strArgDomain t with
  | case1 => simp [confined, run]
  | case2 c rest hc ih =>
    obtain ⟨ih1, ih2⟩ := ih h
    simp [confined, run_cons, step_dq_bs, step_dqEsc, Fam.has, ih1, ih2]
  | case3 c hn hu h1 h2 h3 h4 rest' ih =>
    simp only [Bool.and_eq_true] at h
    obtain ⟨⟨⟨⟨a1, a2⟩, a3⟩, a4⟩, a5⟩ := h
    obtain ⟨ih1, ih2⟩ := ih a5
    simp [confined, run_cons, step_dq_bs, step_dqEsc, step_dq_hex, a1, a2, a3, a4, Fam.has, ih1, ih2]
  | case4 => simp at h
  | case5 => simp at h
  | case6 c rest hne ih =>
    simp only [Bool.and_eq_true, bne_iff_ne, ne_eq] at h
    obtain ⟨⟨⟨⟨⟨⟨⟨a1, a2⟩, a3⟩, a4⟩, a5⟩, a6⟩, a7⟩, a8⟩ := h
    obtain ⟨ih1, ih2⟩ := ih a8
    simp [confined, run_cons, step_dq_plain a1 a2 a4 a5, Fam.has, ih1, ih2]

/-- string arguments spliced VERBATIM into a single-quoted context (the code before dc59a0f): safe when the text
has no apostrophe -/
theorem strSingle_ok (t : Text) (h : strArgDomain t = true) (hs : t.contains 39 = false) :
    confined .sq .sq t = true ∧ run .sq t = .sq := by
  fun_induction strArgDomain t with
  | case1 => simp [confined, run]
  | case2 c rest hc ih =>
    simp only [List.contains_cons, Bool.or_eq_false_iff] at hs
    obtain ⟨ih1, ih2⟩ := ih h hs.2.2
    simp [confined, run_cons, step_sq_bs, step_sqEsc, Fam.has, ih1, ih2]
  | case3 c hn hu h1 h2 h3 h4 rest' ih =>
    simp only [Bool.and_eq_true] at h
    obtain ⟨⟨⟨⟨a1, a2⟩, a3⟩, a4⟩, a5⟩ := h
    simp only [List.contains_cons, Bool.or_eq_false_iff] at hs
    obtain ⟨ih1, ih2⟩ := ih a5 hs.2.2.2.2.2.2
    simp [confined, run_cons, step_sq_bs, step_sqEsc, step_sq_hex, a1, a2, a3, a4, Fam.has, ih1, ih2]
  | case4 => simp at h
  | case5 => simp at h
  | case6 c rest hne ih =>
    simp only [Bool.and_eq_true, bne_iff_ne, ne_eq] at h
    obtain ⟨⟨⟨⟨⟨⟨⟨a1, a2⟩, a3⟩, a4⟩, a5⟩, a6⟩, a7⟩, a8⟩ := h
    simp only [List.contains_cons, Bool.or_eq_false_iff, beq_eq_false_iff_ne, ne_eq] at hs
    obtain ⟨ih1, ih2⟩ := ih a8 hs.2
    have h39 : c ≠ 39 := fun e => hs.1 e.symm
    simp [confined, run_cons, step_sq_plain a1 h39 a4 a5, Fam.has, ih1, ih2]

/-- the escaped operation text: every apostrophe and backslash of a text without raw line breaks is neutralised -/
theorem escapeJsSq_ok (t : Text) (h : (t.all fun c => c != 10 && c != 13) = true) :
    confined .sq .sq (escapeJsSq t) = true ∧ run .sq (escapeJsSq t) = .sq := by
  induction t with
  | nil => simp [escapeJsSq, confined, run]
  | cons c rest ih =>
    simp only [List.all_cons, Bool.and_eq_true, bne_iff_ne, ne_eq] at h
    obtain ⟨⟨c10, c13⟩, hrest⟩ := h
    obtain ⟨ih1, ih2⟩ := ih hrest
    have hhead : rest.head? ≠ some 10 := by
      cases rest with
      | nil => simp
      | cons d r =>
        simp only [List.all_cons, Bool.and_eq_true, bne_iff_ne, ne_eq] at hrest
        simp [hrest.1.1]
    unfold escapeJsSq
    by_cases h92 : c = 92
    · subst h92
      simp [hhead, confined, run_cons, step_sq_bs, step_sqEsc, Fam.has, ih1, ih2]
    · by_cases h39 : c = 39
      · subst h39
        simp [confined, run_cons, step_sq_bs, step_sqEsc, Fam.has, ih1, ih2]
      · simp [h92, h39, confined, run_cons, step_sq_plain h92 h39 c10 c13, Fam.has, ih1, ih2]

/-- what the iso lexer lets through contains no raw line break -/
theorem strArgDomain_no_linebreak (t : Text) (h : strArgDomain t = true) :
    (t.all fun c => c != 10 && c != 13) = true := by
  fun_induction strArgDomain t with
  | case1 => simp
  | case2 c rest hc ih =>
    have := ih h
    simp only [List.all_cons, this, Bool.and_true, Bool.and_eq_true, bne_iff_ne, ne_eq]
    simp at hc
    omega
  | case3 c hn hu h1 h2 h3 h4 rest' ih =>
    simp only [Bool.and_eq_true] at h
    obtain ⟨⟨⟨⟨a1, a2⟩, a3⟩, a4⟩, a5⟩ := h
    have := ih a5
    have b1 := isHex_ne a1
    have b2 := isHex_ne a2
    have b3 := isHex_ne a3
    have b4 := isHex_ne a4
    simp only [List.all_cons, this, Bool.and_true, Bool.and_eq_true, bne_iff_ne, ne_eq]
    simp at hu
    omega
  | case4 => simp at h
  | case5 => simp at h
  | case6 c rest hne ih =>
    simp only [Bool.and_eq_true, bne_iff_ne, ne_eq] at h
    obtain ⟨⟨⟨⟨⟨⟨⟨a1, a2⟩, a3⟩, a4⟩, a5⟩, a6⟩, a7⟩, a8⟩ := h
    have := ih a8
    simp [List.all_cons, this, a4, a5]

theorem header_ok (t : Text) (hs : (t.all fun c => !isLineTerminator c) = true) :
    confined .line .line t = true ∧ run .line t = .line := by
  refine loop_ok .line .line (by decide) _ ?_ t hs
  intro c hc
  simp at hc
  simp [step, hc]

theorem path_ok (t : Text) (hs : (t.all fun c => c != 39 && c != 92 && c != 10 && c != 13) = true) :
    confined .sq .sq t = true ∧ run .sq t = .sq := by
  refine loop_ok .sq .sq (by decide) _ ?_ t hs
  intro c hc
  simp only [Bool.and_eq_true, bne_iff_ne, ne_eq] at hc
  obtain ⟨⟨⟨a1, a2⟩, a3⟩, a4⟩ := hc
  exact step_sq_plain a2 a1 a3 a4

theorem isNameChar_ne {c : Nat} (h : isNameChar c = true) :
    c ≠ 92 ∧ c ≠ 34 ∧ c ≠ 39 ∧ c ≠ 10 ∧ c ≠ 13 ∧ c ≠ 47 ∧ c ≠ 96 := by
  simp [isNameChar] at h
  omega

/-- names stay in code position -/
theorem name_ok (t : Text) (h : t.all isNameChar = true) :
    confined .code .code t = true ∧ run .code t = .code := by
  refine loop_ok .code .code (by decide) _ ?_ t h
  intro c hc
  obtain ⟨_, a2, a3, _, _, a6, a7⟩ := isNameChar_ne hc
  simp [step, stepCode, a2, a3, a6, a7]

/-- names are also harmless inside quotes (`fieldName: "<name>"`, `'./<Type>/<field>/…'`) -/
theorem name_ok_quoted (t : Text) (h : t.all isNameChar = true) :
    (confined .dq .dq t = true ∧ run .dq t = .dq) ∧ (confined .sq .sq t = true ∧ run .sq t = .sq) := by
  refine ⟨loop_ok .dq .dq (by decide) _ ?_ t h, loop_ok .sq .sq (by decide) _ ?_ t h⟩
  · intro c hc
    obtain ⟨a1, a2, a3, a4, a5, _, _⟩ := isNameChar_ne hc
    exact step_dq_plain a1 a2 a4 a5
  · intro c hc
    obtain ⟨a1, a2, a3, a4, a5, _, _⟩ := isNameChar_ne hc
    exact step_sq_plain a1 a3 a4 a5

/-- All holes at once: inside the hole's domain and under its `safe` condition, the embedded text is
confined to the hole's context and ends where it started. -/
theorem holeOk_of_safe (h : Hole) (t : Text) (hd : h.domain t = true) (hs : h.safe t = true) :
    holeOk h (h.embed t) = true := by
  cases h with
  | desc =>
    have := desc_ok t
    simp [holeOk, Hole.term, Hole.fam, Fam.base, Hole.embed, this.1, this.2]
  | strSingle =>
    simp only [Hole.domain] at hd
    have := escapeJsSq_ok t (strArgDomain_no_linebreak t hd)
    simp [holeOk, Hole.term, Hole.fam, Fam.base, Hole.embed, this.1, this.2]
  | strDouble =>
    simp only [Hole.domain] at hd
    have := strDouble_ok t hd
    simp [holeOk, Hole.term, Hole.fam, Fam.base, Hole.embed, this.1, this.2]
  | header =>
    simp only [Hole.safe] at hs
    have := header_ok t hs
    simp [holeOk, Hole.term, Hole.fam, Fam.base, Hole.embed, this.1, this.2]
  | path =>
    simp only [Hole.safe] at hs
    have := path_ok t hs
    simp [holeOk, Hole.term, Hole.fam, Fam.base, Hole.embed, this.1, this.2]
  | name =>
    simp only [Hole.domain] at hd
    have hn : t.all isNameChar = true := by
      cases t with
      | nil => simp [nameDomain] at hd
      | cons c r =>
        simp only [nameDomain, Bool.and_eq_true] at hd
        exact hd.2
    have := name_ok t hn
    simp [holeOk, Hole.term, Hole.fam, Fam.base, Hole.embed, this.1, this.2]

end IsoVerif.TsLex
