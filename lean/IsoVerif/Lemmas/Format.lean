/-
Lemmas for C22 (the iso-literal formatter): the fold `run`/`step` and its separators-and-tokens
view `segRun` compute the same thing; the output depends on the kept tokens only; separators are
whitespace, non-empty where the grammar/lexical tables require it, and contain a line feed before
every entry at which the parser consults "comma or line break".
-/
import IsoVerif.Model.Format

namespace IsoVerif.Lemmas.Format
open IsoVerif.Util IsoVerif.Format IsoVerif.Gen.Legend

/-! ## one kept token: separator and new indent, shared by `step` and `segRun` -/

/-- the separator written before a kept token and the indent after it (`none`: a panic) -/
def parts (last : LineBehavior) (indent : Int) (t : FTok) : Option (Bytes × Int) :=
  let dedent : Option Int :=
    if t.st.ic == .dedent then (if indent ≤ -128 then none else some (indent - 1))
    else some indent
  match dedent with
  | none => none
  | some i1 =>
    match separator last t.st.lb i1 with
    | none => none
    | some sep =>
      if t.st.ic == .indent then (if i1 ≥ 127 then none else some (sep, i1 + 1))
      else some (sep, i1)

theorem step_skip (s : FSt) (t : FTok) (hk : t.st.lb.shouldKeep = false) : step s t = .ok s := by
  simp [step, hk]

theorem segRun_skip (last : LineBehavior) (indent : Int) (t : FTok) (ts : List FTok)
    (hk : t.st.lb.shouldKeep = false) : segRun last indent (t :: ts) = segRun last indent ts := by
  simp [segRun, hk]

theorem step_kept_some (s : FSt) (t : FTok) (hk : t.st.lb.shouldKeep = true) (sep : Bytes)
    (i2 : Int) (h : parts s.last s.indent t = some (sep, i2)) :
    step s t = .ok ⟨s.out ++ sep ++ t.text, t.st.lb, i2⟩ := by
  cases hic : t.st.ic
  · simp only [parts, step, hk, hic] at h ⊢
    simp at h ⊢
    cases hs : separator s.last t.st.lb s.indent <;> simp [hs] at h ⊢
    by_cases h2 : 127 ≤ s.indent <;> simp [h2] at h ⊢
    · omega
    · exact h.2
  · simp only [parts, step, hk, hic] at h ⊢
    simp at h ⊢
    by_cases h1 : s.indent ≤ -128 <;> simp [h1] at h ⊢
    cases hs : separator s.last t.st.lb (s.indent - 1) <;> simp [hs] at h ⊢
    exact h
  · simp only [parts, step, hk, hic] at h ⊢
    simp at h ⊢
    cases hs : separator s.last t.st.lb s.indent <;> simp [hs] at h ⊢
    exact h

theorem step_kept_none (s : FSt) (t : FTok) (hk : t.st.lb.shouldKeep = true)
    (h : parts s.last s.indent t = none) : ∃ e, step s t = .error e := by
  cases hic : t.st.ic
  · simp only [parts, step, hk, hic] at h ⊢
    simp at h ⊢
    cases hs : separator s.last t.st.lb s.indent <;> simp [hs] at h ⊢
    by_cases h2 : 127 ≤ s.indent <;> simp [h2] at h ⊢
  · simp only [parts, step, hk, hic] at h ⊢
    simp at h ⊢
    by_cases h1 : s.indent ≤ -128 <;> simp [h1] at h ⊢
    cases hs : separator s.last t.st.lb (s.indent - 1) <;> simp [hs] at h ⊢
  · simp only [parts, step, hk, hic] at h ⊢
    simp at h ⊢
    cases hs : separator s.last t.st.lb s.indent <;> simp [hs] at h ⊢

theorem segRun_kept (last : LineBehavior) (indent : Int) (t : FTok) (ts : List FTok)
    (hk : t.st.lb.shouldKeep = true) :
    segRun last indent (t :: ts) =
      match parts last indent t with
      | none => none
      | some (sep, i2) =>
        match segRun t.st.lb i2 ts with
        | none => none
        | some (segs, l) => some ((sep, t) :: segs, l) := by
  rw [segRun]
  cases hic : t.st.ic
  · simp only [parts, hk, hic]
    simp
    cases hs : separator last t.st.lb indent <;> simp
    by_cases h2 : 127 ≤ indent <;> simp [h2]
    rcases segRun t.st.lb (indent + 1) ts with _ | ⟨segs, l⟩ <;> rfl
  · simp only [parts, hk, hic]
    simp
    by_cases h1 : indent ≤ -128 <;> simp [h1]
    cases hs : separator last t.st.lb (indent - 1) <;> simp
    rcases segRun t.st.lb (indent - 1) ts with _ | ⟨segs, l⟩ <;> rfl
  · simp only [parts, hk, hic]
    simp
    cases hs : separator last t.st.lb indent <;> simp
    rcases segRun t.st.lb indent ts with _ | ⟨segs, l⟩ <;> rfl

theorem separator_some_of_nonneg (last new : LineBehavior) (i : Int) (h : 0 ≤ i) :
    ∃ sep, separator last new i = some sep := by
  unfold separator
  split
  · have : ¬ i < 0 := by omega
    simp [this]
  · split <;> simp

theorem isWs_lineBreak (n : Nat) : isWs (lineBreak n) = true := by
  simp only [isWs, lineBreak, List.all_cons, List.all_eq_true, Bool.and_eq_true]
  refine ⟨by decide, ?_⟩
  intro x hx
  rw [List.mem_replicate] at hx
  rw [hx.2]; decide

theorem separator_ws (last new : LineBehavior) (i : Int) (sep : Bytes)
    (h : separator last new i = some sep) : isWs sep = true := by
  unfold separator at h
  split at h
  · split at h
    · simp at h
    · simp at h; subst h; exact isWs_lineBreak _
  · split at h <;> (simp at h; subst h; decide)

theorem separator_nonempty (last new : LineBehavior) (i : Int) (sep : Bytes)
    (h : separator last new i = some sep) (hne : sepNonEmpty last new = true) :
    sep.isEmpty = false := by
  unfold separator at h
  unfold sepNonEmpty at hne
  split at h
  · split at h
    · simp at h
    · simp at h; subst h; simp [lineBreak]
  · split at h
    · simp at h; subst h; rfl
    · simp_all

theorem separator_nl (last new : LineBehavior) (i : Int) (sep : Bytes)
    (h : separator last new i = some sep) (hs : new.startsNewLine = true) :
    sep.contains nl = true := by
  unfold separator at h
  simp only [hs, Bool.or_true, if_true] at h
  split at h
  · simp at h
  · simp at h; subst h; simp [lineBreak]

theorem parts_sep (last : LineBehavior) (indent : Int) (t : FTok) (sep : Bytes) (i2 : Int)
    (h : parts last indent t = some (sep, i2)) : ∃ i1, separator last t.st.lb i1 = some sep := by
  cases hic : t.st.ic
  · simp only [parts, hic] at h
    simp at h
    cases hs : separator last t.st.lb indent <;> simp [hs] at h
    exact ⟨indent, by rw [hs, h.2.1]⟩
  · simp only [parts, hic] at h
    simp at h
    by_cases h1 : indent ≤ -128 <;> simp [h1] at h
    cases hs : separator last t.st.lb (indent - 1) <;> simp [hs] at h
    exact ⟨indent - 1, by rw [hs, h.1]⟩
  · simp only [parts, hic] at h
    simp at h
    cases hs : separator last t.st.lb indent <;> simp [hs] at h
    exact ⟨indent, by rw [hs, h.1]⟩

theorem parts_total (last : LineBehavior) (indent : Int) (t : FTok) (rest : List FTok)
    (h : indentBounded indent (t :: rest) = true) :
    ∃ sep i2, parts last indent t = some (sep, i2) ∧ indentBounded i2 rest = true := by
  cases hic : t.st.ic
  · simp only [indentBounded, parts, hic] at h ⊢
    simp at h ⊢
    obtain ⟨sep, hs⟩ := separator_some_of_nonneg last t.st.lb indent h.1.1
    have : ¬ 127 ≤ indent := by omega
    simp [hs, this]
    exact ⟨_, _, ⟨rfl, rfl⟩, h.2⟩
  · simp only [indentBounded, parts, hic] at h ⊢
    simp at h ⊢
    obtain ⟨sep, hs⟩ := separator_some_of_nonneg last t.st.lb (indent - 1) (by omega)
    have : ¬ indent ≤ -128 := by omega
    simp [hs, this]
    exact ⟨_, _, ⟨rfl, rfl⟩, h.2⟩
  · simp only [indentBounded, parts, hic] at h ⊢
    simp at h ⊢
    obtain ⟨sep, hs⟩ := separator_some_of_nonneg last t.st.lb indent h.1.1
    simp [hs]
    exact ⟨_, _, ⟨rfl, rfl⟩, h.2⟩

/-! ## `run` versus `segRun` -/

def flat (segs : List (Bytes × FTok)) : Bytes := segs.flatMap fun p => p.1 ++ p.2.text

theorem run_cons (s : FSt) (t : FTok) (ts : List FTok) :
    run s (t :: ts) = match step s t with
      | .error e => .error e
      | .ok s' => run s' ts := rfl

theorem kept_cons_skip (t : FTok) (ts : List FTok) (hk : t.st.lb.shouldKeep = false) :
    kept (t :: ts) = kept ts := by
  simp [kept, hk]

theorem kept_cons_kept (t : FTok) (ts : List FTok) (hk : t.st.lb.shouldKeep = true) :
    kept (t :: ts) = t :: kept ts := by
  simp [kept, hk]

theorem run_ok_segRun (toks : List FTok) (s0 s : FSt) (h : run s0 toks = .ok s) :
    ∃ segs, segRun s0.last s0.indent toks = some (segs, s.last) ∧ s.out = s0.out ++ flat segs := by
  induction toks generalizing s0 with
  | nil =>
    simp only [run, Except.ok.injEq] at h
    subst h
    exact ⟨[], by simp [segRun], by simp [flat]⟩
  | cons t ts ih =>
    rw [run_cons] at h
    cases hk : t.st.lb.shouldKeep
    · rw [step_skip s0 t hk] at h
      rw [segRun_skip _ _ _ _ hk]
      exact ih s0 h
    · cases hp : parts s0.last s0.indent t with
      | none =>
        obtain ⟨e, he⟩ := step_kept_none s0 t hk hp
        rw [he] at h
        simp at h
      | some pr =>
        obtain ⟨sep, i2⟩ := pr
        rw [step_kept_some s0 t hk sep i2 hp] at h
        obtain ⟨segs, h1, h2⟩ := ih _ h
        refine ⟨(sep, t) :: segs, ?_, ?_⟩
        · rw [segRun_kept _ _ _ _ hk, hp]
          simp only at h1 ⊢
          rw [h1]
        · rw [h2]
          simp [flat, List.flatMap_cons]

theorem run_kept (toks : List FTok) (s : FSt) : run s toks = run s (kept toks) := by
  induction toks generalizing s with
  | nil => rfl
  | cons t ts ih =>
    cases hk : t.st.lb.shouldKeep
    · rw [kept_cons_skip t ts hk, run_cons, step_skip s t hk]
      exact ih s
    · rw [kept_cons_kept t ts hk, run_cons, run_cons]
      cases step s t with
      | error e => rfl
      | ok s' => exact ih s'

theorem format_kept (toks : List FTok) : format toks = format (kept toks) := by
  unfold format
  rw [run_kept toks]

theorem run_total (toks : List FTok) (s : FSt) (h : indentBounded s.indent (kept toks) = true) :
    ∃ s', run s toks = .ok s' := by
  induction toks generalizing s with
  | nil => exact ⟨s, rfl⟩
  | cons t ts ih =>
    cases hk : t.st.lb.shouldKeep
    · rw [kept_cons_skip t ts hk] at h
      rw [run_cons, step_skip s t hk]
      exact ih s h
    · rw [kept_cons_kept t ts hk] at h
      obtain ⟨sep, i2, hp, hb⟩ := parts_total s.last s.indent t _ h
      rw [run_cons, step_kept_some s t hk sep i2 hp]
      exact ih _ hb

theorem format_total (toks : List FTok) (h : indentBounded 1 (kept toks) = true) :
    ∃ out, format toks = .ok out := by
  obtain ⟨s', hs⟩ := run_total toks initSt h
  unfold format
  rw [hs]
  exact ⟨_, rfl⟩

/-! ## facts about `segRun` -/

theorem segRun_kept_inv (last : LineBehavior) (indent : Int) (t : FTok) (ts : List FTok)
    (hk : t.st.lb.shouldKeep = true) (segs : List (Bytes × FTok)) (l : LineBehavior)
    (h : segRun last indent (t :: ts) = some (segs, l)) :
    ∃ sep i1 i2 segs', separator last t.st.lb i1 = some sep ∧
      segRun t.st.lb i2 ts = some (segs', l) ∧ segs = (sep, t) :: segs' := by
  rw [segRun_kept _ _ _ _ hk] at h
  cases hp : parts last indent t with
  | none => simp [hp] at h
  | some pr =>
    obtain ⟨sep, i2⟩ := pr
    simp only [hp] at h
    cases hr : segRun t.st.lb i2 ts with
    | none => simp [hr] at h
    | some r =>
      obtain ⟨segs', l'⟩ := r
      simp only [hr, Option.some.injEq, Prod.mk.injEq] at h
      obtain ⟨i1, hs⟩ := parts_sep _ _ _ _ _ hp
      exact ⟨sep, i1, i2, segs', hs, h.2 ▸ hr, h.1.symm⟩

theorem segRun_map_ws (toks : List FTok) (last : LineBehavior) (indent : Int)
    (segs : List (Bytes × FTok)) (l : LineBehavior)
    (h : segRun last indent toks = some (segs, l)) :
    segs.map (·.2) = kept toks ∧ (∀ p ∈ segs, isWs p.1 = true) := by
  induction toks generalizing last indent segs with
  | nil =>
    simp only [segRun, Option.some.injEq, Prod.mk.injEq] at h
    rw [← h.1]
    simp [kept]
  | cons t ts ih =>
    cases hk : t.st.lb.shouldKeep
    · rw [segRun_skip _ _ _ _ hk] at h
      rw [kept_cons_skip t ts hk]
      exact ih _ _ _ h
    · obtain ⟨sep, i1, i2, segs', hs, hr, rfl⟩ := segRun_kept_inv _ _ _ _ hk _ _ h
      obtain ⟨ih1, ih2⟩ := ih _ _ _ hr
      rw [kept_cons_kept t ts hk]
      refine ⟨by simp [ih1], ?_⟩
      intro p hp
      rw [List.mem_cons] at hp
      rcases hp with rfl | hp
      · exact separator_ws _ _ _ _ hs
      · exact ih2 p hp

theorem segRun_breaks (toks : List FTok) (last : LineBehavior) (indent : Int)
    (segs : List (Bytes × FTok)) (l : LineBehavior)
    (h : segRun last indent toks = some (segs, l)) :
    ∀ p ∈ segs, p.2.st.lb.startsNewLine = true → p.1.contains nl = true := by
  induction toks generalizing last indent segs with
  | nil =>
    simp only [segRun, Option.some.injEq, Prod.mk.injEq] at h
    rw [← h.1]
    simp
  | cons t ts ih =>
    cases hk : t.st.lb.shouldKeep
    · rw [segRun_skip _ _ _ _ hk] at h
      exact ih _ _ _ h
    · obtain ⟨sep, i1, i2, segs', hs, hr, rfl⟩ := segRun_kept_inv _ _ _ _ hk _ _ h
      intro p hp hsn
      rw [List.mem_cons] at hp
      rcases hp with rfl | hp
      · exact separator_nl _ _ _ _ hs hsn
      · exact ih _ _ _ hr p hp hsn

theorem segments_inv (toks : List FTok) (segs : List (Bytes × FTok)) (trailer : Bytes)
    (h : segments toks = some (segs, trailer)) :
    ∃ l, segRun (.inl false false) 1 toks = some (segs, l) ∧
      trailer = if l.endsLine then [nl] else [] := by
  unfold segments at h
  cases hr : segRun (.inl false false) 1 toks with
  | none => simp [hr] at h
  | some r =>
    obtain ⟨segs', l⟩ := r
    simp only [hr, Option.some.injEq, Prod.mk.injEq] at h
    exact ⟨l, by rw [h.1], h.2.symm⟩

theorem format_segments (toks : List FTok) (out : Bytes) (h : format toks = .ok out) :
    ∃ segs trailer, segments toks = some (segs, trailer) ∧ out = render segs trailer ∧
      segs.map (·.2) = kept toks ∧ (∀ p ∈ segs, isWs p.1 = true) ∧ isWs trailer = true := by
  unfold format at h
  cases hr : run initSt toks with
  | error e => simp [hr] at h
  | ok s =>
    simp only [hr, FOut.ok.injEq] at h
    obtain ⟨segs, h1, h2⟩ := run_ok_segRun toks initSt s hr
    have h1' : segRun (.inl false false) 1 toks = some (segs, s.last) := h1
    obtain ⟨hm, hw⟩ := segRun_map_ws _ _ _ _ _ h1'
    refine ⟨segs, if s.last.endsLine then [nl] else [], ?_, ?_, hm, hw, ?_⟩
    · simp [segments, h1']
    · rw [← h, h2]
      simp only [render, initSt, List.nil_append]
      split <;> simp [flat]
    · split <;> decide

theorem breakTable : breakTableOk = true := by decide

theorem segments_breaks (toks : List FTok) (segs : List (Bytes × FTok)) (trailer : Bytes)
    (h : segments toks = some (segs, trailer)) :
    ∀ p ∈ segs, breakConsulted.contains p.2.st = true → p.1.contains nl = true := by
  obtain ⟨l, hr, _⟩ := segments_inv toks segs trailer h
  intro p hp hc
  apply segRun_breaks _ _ _ _ _ hr p hp
  have hb := breakTable
  unfold breakTableOk at hb
  rw [List.all_eq_true] at hb
  exact hb _ (List.contains_iff_mem.mp hc)

/-! ## separators where gluing would change a token boundary -/

theorem glueTable : glueTableOk = true := by decide +kernel

theorem follows_glue (a b : SemTok) (h : follows a b = true) :
    sepNonEmpty a.lb b.lb = true ∨
      ∀ ca ∈ classes a, ∀ cb ∈ classes b, glueSafe ca cb = true := by
  unfold follows at h
  rw [List.any_eq_true] at h
  obtain ⟨⟨k, vs⟩, hmem, hk⟩ := h
  simp only [Bool.and_eq_true, beq_iff_eq, List.contains_iff_mem] at hk
  obtain ⟨rfl, hb⟩ := hk
  have ht := glueTable
  unfold glueTableOk at ht
  rw [List.all_eq_true] at ht
  have ht1 := ht _ hmem
  simp only [List.all_eq_true] at ht1
  have ht2 := ht1 b hb
  rw [Bool.or_eq_true] at ht2
  rcases ht2 with h1 | h2
  · exact Or.inl h1
  · right
    rw [List.all_eq_true] at h2
    intro ca hca cb hcb
    have := h2 ca hca
    rw [List.all_eq_true] at this
    exact this cb hcb

theorem clsOk_cons (t : FTok) (ts : List FTok) :
    clsOk (t :: ts) = ((!t.text.isEmpty && (classes t.st).contains (clsOf t.text)) && clsOk ts) := by
  simp [clsOk]

theorem glued_aux (toks : List FTok) (a : FTok) (x : Bytes) (indent : Int)
    (segs : List (Bytes × FTok)) (l : LineBehavior)
    (h : segRun a.st.lb indent toks = some (segs, l))
    (ha : (classes a.st).contains (clsOf a.text) = true)
    (hadj : adjOk (a :: kept toks) = true) (hcls : clsOk toks = true) :
    gluedBadly ((x, a) :: segs) = false := by
  induction toks generalizing a x indent segs with
  | nil =>
    simp only [segRun, Option.some.injEq, Prod.mk.injEq] at h
    rw [← h.1]
    rfl
  | cons t ts ih =>
    rw [clsOk_cons, Bool.and_eq_true, Bool.and_eq_true] at hcls
    cases hk : t.st.lb.shouldKeep
    · rw [segRun_skip _ _ _ _ hk] at h
      rw [kept_cons_skip t ts hk] at hadj
      exact ih a x indent segs h ha hadj hcls.2
    · obtain ⟨sep, i1, i2, segs', hs, hr, rfl⟩ := segRun_kept_inv _ _ _ _ hk _ _ h
      rw [kept_cons_kept t ts hk] at hadj
      simp only [adjOk, Bool.and_eq_true] at hadj
      have ih' := ih t sep i2 segs' hr hcls.1.2 hadj.2 hcls.2
      simp only [gluedBadly, Bool.or_eq_false_iff]
      refine ⟨?_, ih'⟩
      rcases follows_glue _ _ hadj.1 with h1 | h2
      · rw [separator_nonempty _ _ _ _ hs h1]
        rfl
      · rw [h2 _ (List.contains_iff_mem.mp ha) _ (List.contains_iff_mem.mp hcls.1.2)]
        simp

theorem glued_top (toks : List FTok) (last : LineBehavior) (indent : Int)
    (segs : List (Bytes × FTok)) (l : LineBehavior)
    (h : segRun last indent toks = some (segs, l))
    (hadj : adjOk (kept toks) = true) (hcls : clsOk toks = true) :
    gluedBadly segs = false := by
  induction toks generalizing last indent segs with
  | nil =>
    simp only [segRun, Option.some.injEq, Prod.mk.injEq] at h
    rw [← h.1]
    rfl
  | cons t ts ih =>
    rw [clsOk_cons, Bool.and_eq_true, Bool.and_eq_true] at hcls
    cases hk : t.st.lb.shouldKeep
    · rw [segRun_skip _ _ _ _ hk] at h
      rw [kept_cons_skip t ts hk] at hadj
      exact ih _ _ _ h hadj hcls.2
    · obtain ⟨sep, i1, i2, segs', hs, hr, rfl⟩ := segRun_kept_inv _ _ _ _ hk _ _ h
      rw [kept_cons_kept t ts hk] at hadj
      exact glued_aux ts t sep i2 segs' l hr hcls.1.2 hadj hcls.2

theorem segments_separated (toks : List FTok) (segs : List (Bytes × FTok)) (trailer : Bytes)
    (h : segments toks = some (segs, trailer))
    (hadj : adjOk (kept toks) = true) (hcls : clsOk toks = true) : gluedBadly segs = false := by
  obtain ⟨l, hr, _⟩ := segments_inv toks segs trailer h
  exact glued_top toks _ _ segs l hr hadj hcls

/-! ## the parser's view -/

theorem zip_fst_eq {α β : Type} (v v' : List (α × β)) (h : v.map (·.1) = v'.map (·.1)) :
    ∀ p ∈ List.zip v v', p.1.1 = p.2.1 := by
  induction v generalizing v' with
  | nil => simp
  | cons a as ih =>
    cases v' with
    | nil => simp
    | cons b bs =>
      simp only [List.map_cons, List.cons.injEq] at h
      intro p hp
      simp only [List.zip_cons_cons, List.mem_cons] at hp
      rcases hp with rfl | hp
      · exact h.1
      · exact ih bs h.2 p hp

theorem meaning_of_segments {δ : Type} (parse : List (FTok × Bool) → Option δ)
    (hp : ∀ (v v' : List (FTok × Bool)) (d : δ), v.map (·.1) = v'.map (·.1) →
      (∀ p ∈ List.zip v v', breakConsulted.contains p.1.1.st = true → p.1.2 = true → p.2.2 = true) →
      parse v = some d → parse v' = some d)
    (toks : List FTok) (flags : List Bool) (d : δ)
    (hlen : flags.length = (kept toks).length)
    (hin : parse (List.zip (kept toks) flags) = some d)
    (segs : List (Bytes × FTok)) (trailer : Bytes) (h : segments toks = some (segs, trailer)) :
    parse (segs.map fun p => (p.2, p.1.contains nl)) = some d := by
  obtain ⟨l, hr, _⟩ := segments_inv toks segs trailer h
  obtain ⟨hm, _⟩ := segRun_map_ws _ _ _ _ _ hr
  have hfst : (List.zip (kept toks) flags).map (·.1) =
      (segs.map fun p => (p.2, p.1.contains nl)).map (·.1) := by
    rw [List.map_fst_zip (by omega), List.map_map, ← hm]
    rfl
  refine hp _ _ d hfst ?_ hin
  intro p hpm hc _
  have heq := zip_fst_eq _ _ hfst p hpm
  have hp2 := (List.of_mem_zip hpm).2
  rw [List.mem_map] at hp2
  obtain ⟨q, hq, hqe⟩ := hp2
  rw [← hqe]
  rw [← hqe] at heq
  simp only at heq ⊢
  rw [heq] at hc
  exact segments_breaks toks segs trailer h q hq hc

end IsoVerif.Lemmas.Format
