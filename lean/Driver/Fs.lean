/-
Line-protocol driver for the M-FS model (C17, C18, C19).  Names are `String`s.
Input line:   op \t arg… \t => \t impl-answer-field…
Output line:  model-answer \t oracle-verdict          (fields of the answer separated by spaces)

Encodings (see harness/fs/src/main.rs):
  ArtSet  `-` | item{,item}   item = `path=hex`, path = `f` | `e/s/f`        OptArtSet `none` | ArtSet
  Tree    `absent` | `@=hex` | entry{,entry}   entry = `./` | `rel/` | `rel=hex`     (sorted)
  Ops     `-` | op{,op}       op = `D:p` | `C:p` | `W:p:idx` | `X:p`,  p = `.` | rel
-/
import IsoVerif.Model.Fs
import IsoVerif.Model.Md5
import IsoVerif.Gen.FsFacts

open IsoVerif IsoVerif.Util IsoVerif.Fs

namespace FsDrv

abbrev P := Path String
abbrev A := Artifact String

def hash : Bytes → Bytes := Md5.md5Hex

def splitArrow (fs : List String) : List String × List String :=
  (fs.takeWhile (· != "=>"), (fs.dropWhile (· != "=>")).drop 1)

def sortS (l : List String) : List String := l.mergeSort (fun a b => decide (a ≤ b))

def joinOrDash (l : List String) : String := if l.isEmpty then "-" else ",".intercalate l

def allSome {β : Type} : List (Option β) → Option (List β)
  | [] => some []
  | none :: _ => none
  | some x :: rest => (allSome rest).map (x :: ·)

/-! ### parsing / printing -/

def parseArt (item : String) : Option A :=
  match item.splitOn "=" with
  | [p, h] =>
    match hexDecode h, p.splitOn "/" with
    | some c, [f] => some ⟨none, f, c⟩
    | some c, [e, s, f] => some ⟨some (e, s), f, c⟩
    | _, _ => none
  | _ => none

def parseArts (s : String) : Option (List A) :=
  if s == "-" then some [] else allSome ((s.splitOn ",").map parseArt)

def pathStr (p : P) : String := if p.isEmpty then "." else "/".intercalate p

def parsePath (s : String) : P := if s == "." then [] else s.splitOn "/"

def parseOp (s : String) : Option (Op String) :=
  match s.splitOn ":" with
  | ["D", p] => some (.deleteDirectory (parsePath p))
  | ["C", p] => some (.createDirectory (parsePath p))
  | ["X", p] => some (.deleteFile (parsePath p))
  | ["W", p, i] => i.toNat?.map (fun n => .writeFile (parsePath p) n)
  | _ => none

def parseOps (s : String) : Option (List (Op String)) :=
  if s == "-" then some [] else allSome ((s.splitOn ",").map parseOp)

def opStr : Op String → String
  | .deleteDirectory p => "D:" ++ pathStr p
  | .createDirectory p => "C:" ++ pathStr p
  | .writeFile p i => "W:" ++ pathStr p ++ ":" ++ toString i
  | .deleteFile p => "X:" ++ pathStr p

def parseEntry (s : String) : Option (P × Entry) :=
  if s == "./" then some ([], .dir)
  else if s.endsWith "/" then some (((s.dropEnd 1).toString).splitOn "/", .dir)
  else match s.splitOn "=" with
    | [p, h] => (hexDecode h).map (fun c => (p.splitOn "/", .file c))
    | _ => none

/-- `none` = not a well-formed tree (the harness answers `badinit` as well) -/
def parseTree (s : String) : Option (Fs String) :=
  if s == "absent" then some []
  else if s.startsWith "@=" then (hexDecode (s.drop 2).toString).map (fun c => [([], .file c)])
  else
    match allSome ((s.splitOn ",").map parseEntry) with
    | none => none
    | some es =>
      let paths := es.map (·.1)
      let wf := paths.contains [] &&
        es.all (fun (p, _) => p.isEmpty || Fs.get es p.dropLast == some .dir) &&
        (paths.eraseDups.length == paths.length)
      if wf then some es else none

def entryStr : P × Entry → String
  | (p, .dir) => if p.isEmpty then "./" else pathStr p ++ "/"
  | (p, .file c) => pathStr p ++ "=" ++ hexEnc c

def treeStr (fs : Fs String) : String :=
  match Fs.get fs [] with
  | none => "absent"
  | some (.file c) => "@=" ++ hexEnc c
  | some .dir => ",".intercalate (sortS (fs.map entryStr))

/-- The tree `expectedGet arts` denotes, printed: evaluated on every artifact path and ancestor. -/
def expectedTreeStr (arts : List A) : String :=
  let cands : List P := ([] :: arts.flatMap (fun a =>
    match a.nested with
    | some (e, s) => [[e], [e, s], a.path]
    | none => [a.path])).eraseDups
  let es := cands.filterMap (fun p => (expectedGet arts p).map (fun e => (p, e)))
  ",".intercalate (sortS (es.map entryStr))

/-- name sanity: no root file is named like an entity -/
def sane (arts : List A) : Bool :=
  arts.all fun a => a.nested.isSome || arts.all fun b =>
    match b.nested with
    | some (e, _) => e != a.fileName
    | none => true

def hasNested (arts : List A) : Bool := arts.any (·.nested.isSome)

/-- `err:injected` iff the loop reached operation `k` -/
def errKind (arts : List A) (fs : Fs String) (ops : List (Op String)) (fault : Option Nat) : String :=
  match fault with
  | none => "err:io"
  | some k =>
    if k < ops.length && (applyAll arts fs (ops.take k) 0 none).2 == .ok then "err:injected" else "err:io"

def headStr (arts : List A) (fs : Fs String) (ops : List (Op String)) (fault : Option Nat)
    (r : Fs String × Outcome) : String :=
  match r.2 with
  | .ok => "ok:" ++ toString (countWrites ops)
  | .panic => "panic"
  | .ioError => errKind arts fs ops fault

def parseFault (s : String) : Option (Option Nat) :=
  if s == "-" then some none else s.toNat?.map some

/-! ### fs.plan -/

def planOps (old : Option (List A)) (new : List A) : List (Op String) :=
  match old with
  | none => recreateAll Gen.FsFacts.createRoot (fromArtifacts hash new)
  | some o => diff (fromArtifacts hash o) (fromArtifacts hash new)

def lastContent (arts : List A) (p : P) : Option Bytes :=
  (arts.reverse.find? fun a => a.path = p).map (·.content)

/-- C18_minimal evaluated on an operation list: the written paths are exactly the paths of `new`
whose content hash is new or differs, each once. -/
def minimalOk (old new : List A) (ops : List (Op String)) : Bool :=
  let written := ops.filterMap fun | .writeFile p _ => some p | _ => none
  let should := (new.map (·.path)).eraseDups.filter fun p =>
    match lastContent old p, lastContent new p with
    | some c, some c' => hash c != hash c'
    | _, _ => true
  written.eraseDups.length == written.length && written.all should.contains && should.all written.contains

def staleTree : Fs String :=
  [([], .dir), (["stale.ts"], .file [1]), (["User"], .dir), (["User", "x"], .dir),
   (["User", "x", "f.ts"], .file [2]), (["iso.ts"], .dir), (["iso.ts", "inner"], .file [3])]

def plan (args impl : List String) : String :=
  match args with
  | [oldS, newS] =>
    let old? := if oldS == "none" then some none else (parseArts oldS).map some
    match old?, parseArts newS with
    | some old, some new =>
      let mops := planOps old new
      let canon := joinOrDash (sortS (mops.map opStr))
      let raw := match impl with | [_, r] => r | _ => "?"
      let verdict :=
        match impl with
        | [_, r] =>
          match parseOps r with
          | none => "bad:unparsable-impl-answer"
          | some iops =>
            if !(sane ((old.getD []) ++ new)) then "ok" else
            match old with
            | none =>
              let inits : List (Fs String) := [[], [([], .dir)], staleTree]
              let good := inits.all fun fs0 =>
                let r := applyAll new fs0 iops 0 none
                r.2 == .ok && treeStr r.1 == expectedTreeStr new
              if good then "ok" else if hasNested new then "bad:first:plan" else "bad:first:plan:no-nested"
            | some o =>
              match parseTree (expectedTreeStr o) with
              | none => "bad:oracle-internal"
              | some fs0 =>
                let r := applyAll new fs0 iops 0 none
                if !(r.2 == .ok && treeStr r.1 == expectedTreeStr new) then "bad:next:plan"
                else if !(minimalOk o new iops) then "bad:next:not-minimal"
                else "ok"
        | _ => "bad:unparsable-impl-answer"
      canon ++ " " ++ raw ++ "\t" ++ verdict
    | _, _ => "bad-request\tok"
  | _ => "bad-request\tok"

/-! ### fs.apply -/

def apply (args impl : List String) : String :=
  match args with
  | [initS, artsS, opsS, faultS, judgeS] =>
    match parseArts artsS, parseOps opsS, parseFault faultS with
    | some arts, some ops, some fault =>
      match parseTree initS with
      | none => "badinit\tok"
      | some fs0 =>
        let r := applyAll arts fs0 ops 0 fault
        let model := headStr arts fs0 ops fault r ++ " " ++ treeStr r.1
        let verdict :=
          if judgeS == "1" && fault.isNone then
            match impl with
            | [h, t] =>
              if !(h.startsWith "ok:") then
                (if hasNested arts then "bad:apply:io-error" else "bad:apply:io-error:no-nested")
              else if t != expectedTreeStr arts then "bad:apply:tree-differs" else "ok"
            | _ => "bad:unparsable-impl-answer"
          else "ok"
        model ++ "\t" ++ verdict
    | _, _, _ => "bad-request\tok"
  | _ => "bad-request\tok"

/-! ### fs.session -/

inductive Step
  | compile (arts : List A) (fault : Option Nat)
  | diag
  | newSession

def parseStep (s : String) : Option Step :=
  if s == "v" then some .diag
  else if s == "n" then some .newSession
  else match s.splitOn "|" with
    | ["c", a, k] =>
      match parseArts a, parseFault k with
      | some arts, some fault => some (.compile arts fault)
      | _, _ => none
    | _ => none

def flag (st : Option (State String)) : String := if st.isSome then "S" else "N"

def stepModel (s : Session String) : Step → Session String × String
  | .newSession => ({ s with fsState := none }, "new")
  | .diag =>
    let (s', _) := compile Gen.FsFacts.createRoot Gen.FsFacts.resetOnIoError hash s none none
    let same := if treeStr s.fs == treeStr s'.fs then "same" else "changed"
    (s', s!"diag:{same}:{flag s.fsState}{flag s'.fsState}")
  | .compile arts fault =>
    let (ops, _) := getOps Gen.FsFacts.createRoot hash arts s.fsState
    let (s', res) := compile Gen.FsFacts.createRoot Gen.FsFacts.resetOnIoError hash s (some arts) fault
    let out := match res with
      | .ok => s!"ok:{countWrites ops}:{treeStr s'.fs}"
      | .ioError => errKind arts s.fs ops fault
      | .panic => "panic"
      | .diagnostics => "diag"
    (s', out)

def runModel : Session String → List Step → List String
  | _, [] => []
  | s, st :: rest =>
    let (s', out) := stepModel s st
    out :: runModel s' rest

structure OState where
  hasState : Bool := false      -- the session holds an in-memory state (a compile of it succeeded or failed)
  failed : Bool := false        -- a compile failed since the last successful one
  freshSinceFail : Bool := false

/-- The property, evaluated on the implementation's answers only. -/
def oracle (judged : Bool) : OState → List Step → List String → String
  | _, [], [] => "ok"
  | o, .newSession :: steps, "new" :: ans =>
    oracle judged { o with hasState := false, freshSinceFail := o.failed } steps ans
  | o, .diag :: steps, a :: ans =>
    match a.splitOn ":" with
    | ["diag", "same", "SS"] | ["diag", "same", "NN"] => oracle judged o steps ans
    | _ => "bad:diag-touched"
  | o, .compile arts _ :: steps, a :: ans =>
    let ctx := if o.failed then (if o.freshSinceFail then "recover-fresh" else "recover-same")
               else if o.hasState then "next" else "first"
    let j := judged && sane arts
    if a == "err:injected" then oracle judged { o with hasState := true, failed := true, freshSinceFail := false } steps ans
    else if a == "panic" then "bad:panic"
    else if a == "err:io" then
      if j then "bad:io-error:" ++ ctx ++ (if hasNested arts then "" else ":no-nested")
      else oracle judged { o with hasState := true, failed := true, freshSinceFail := false } steps ans
    else match a.splitOn ":" with
      | ["ok", _, t] =>
        if j && t != expectedTreeStr arts then "bad:tree-differs:" ++ ctx
        else oracle judged { hasState := true, failed := false, freshSinceFail := false } steps ans
      | _ => "bad:unparsable-impl-answer"
  | _, _, _ => "bad:unparsable-impl-answer"

def allArts : List Step → List A
  | [] => []
  | .compile arts _ :: rest => arts ++ allArts rest
  | _ :: rest => allArts rest

def session (args impl : List String) : String :=
  match args with
  | initS :: stepsS =>
    match allSome (stepsS.map parseStep) with
    | none => "bad-request\tok"
    | some steps =>
      match parseTree initS with
      | none => "badinit\tok"
      | some fs0 =>
        let model := " ".intercalate (runModel { fsState := none, fs := fs0 } steps)
        -- not judged: the artifact directory's path holds a plain file, or names outside the
        -- sanity hypothesis (a root file named like an entity) anywhere in the session
        let judged := !(initS.startsWith "@") && sane (allArts steps)
        model ++ "\t" ++ oracle judged {} steps impl
  | _ => "bad-request\tok"

/-! ### fs.real: sessions of the real `compile()`; the artifact lists come with the answer -/

inductive RItem
  | echo (s : String)                    -- printed as is
  | reset (s : String)                   -- printed as is; the in-memory state is gone
  | step (st : Step) (implOutcome : String)

def realItems : List String → List String → Option Nat → Option (List RItem)
  | [], [], _ => some []
  | [], _ :: _, _ => none
  | tok :: ts, fs, fault =>
    if tok == "N" then
      match fs with
      | "new" :: fs' => (realItems ts fs' fault).map (.reset "new" :: ·)
      | _ => none
    else if tok.startsWith "V" then
      match fs with
      | "V:ok" :: fs' => (realItems ts fs' fault).map (.echo "V:ok" :: ·)
      | "V:reset" :: fs' => (realItems ts fs' fault).map (.reset "V:reset" :: ·)
      | _ => none
    else if tok.startsWith "F" then realItems ts fs ((tok.drop 1).toString.toNat?)
    else if tok == "C" then
      match fs with
      | a :: o :: fs' =>
        if a == "A:none" then (realItems ts fs' none).map (fun r => .echo a :: .step .diag o :: r)
        else if a == "A:unknown" then (realItems ts fs' none).map (fun r => .echo a :: .reset o :: r)
        else if a.startsWith "A:" then
          match parseArts (a.drop 2).toString with
          | some arts => (realItems ts fs' none).map (fun r => .echo a :: .step (.compile arts fault) o :: r)
          | none => none
        else none
      | _ => none
    else none

def runModelR : Session String → List RItem → List String
  | _, [] => []
  | s, .echo x :: rest => x :: runModelR s rest
  | s, .reset x :: rest => x :: runModelR { s with fsState := none } rest
  | s, .step st _ :: rest =>
    let (s', out) := stepModel s st
    out :: runModelR s' rest

def oracleSteps : List RItem → List Step × List String
  | [] => ([], [])
  | .echo _ :: rest => oracleSteps rest
  | .reset x :: rest =>
    let (a, b) := oracleSteps rest
    (.newSession :: a, (if x == "panic" then "panic!" else "new") :: b)
  | .step st o :: rest =>
    let (a, b) := oracleSteps rest
    (st :: a, o :: b)

def real (args impl : List String) : String :=
  match args with
  | _seed :: toks =>
    match realItems toks impl none with
    | none => (if impl == ["bad-request"] || impl == ["panic"] then " ".intercalate impl else "unparsable") ++ "\tbad:unparsable-impl-answer"
    | some items =>
      let model := " ".intercalate (runModelR { fsState := none, fs := [] } items)
      let (steps, answers) := oracleSteps items
      let verdict := if answers.contains "panic!" then "bad:panic" else oracle (sane (allArts steps)) {} steps answers
      model ++ "\t" ++ verdict
  | _ => "bad-request\tok"

end FsDrv

def handle (fs : List String) : String :=
  let (req, impl) := FsDrv.splitArrow fs
  match req with
  | "fs.plan" :: args => FsDrv.plan args impl
  | "fs.apply" :: args => FsDrv.apply args impl
  | "fs.session" :: args => FsDrv.session args impl
  | "fs.real" :: args => FsDrv.real args impl
  | _ => "bad-request\tok"

def main : IO Unit := runDriver handle
