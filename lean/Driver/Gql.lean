/-
Line-protocol driver for M-GQL (C29, C30).
Request:  op \t hex(document)          op ∈ exec | sdl | schema | ext
Answer of the implementation (fields):
   exec / schema / ext :  accept TREE | reject | panic
   sdl                 :  accept TREE RT | reject | panic     RT = same | reject | panic | TREE'
Output: model-answer \t verdict
-/
import IsoVerif.Model.Util
import IsoVerif.Model.GqlOracle

open IsoVerif IsoVerif.Util IsoVerif.Gql

def splitArrow (fs : List String) : List String × List String :=
  (fs.takeWhile (· != "=>"), (fs.dropWhile (· != "=>")).drop 1)

def docOfHex (h : String) : Option Str :=
  match hexDecode h with
  | some b =>
    match bytesStr? b with
    | some s => some (cps s)
    | none => none
  | none => none

def outcomeStr : Outcome → String
  | .accept t => "accept " ++ strOfCps t
  | .reject => "reject"
  | .panic => "panic"

def outcomeOfFields : List String → Option Outcome
  | ["reject"] => some .reject
  | ["panic"] => some .panic
  | ["accept", t] => some (.accept (cps t))
  | _ => none

def rtStr (tree : Outcome) (rt : Option Outcome) : String :=
  match rt with
  | none => ""
  | some o =>
    if o == tree then " same"
    else match o with
      | .accept t => " " ++ strOfCps t
      | .reject => " reject"
      | .panic => " panic"

def handle (fs : List String) : String :=
  let (req, impl) := splitArrow fs
  match req with
  | [op, h] =>
    match docOfHex h with
    | none => "bad-op\tok"
    | some doc =>
      if op == "exec" then
        let model := outcomeStr (relayExec doc)
        let verdict := match outcomeOfFields impl with
          | some o => c29ExecVerdict doc o
          | none => "bad:unparsable-impl-answer"
        model ++ "\t" ++ verdict
      else if op == "sdl" then
        let m := relaySdl doc
        let model := outcomeStr m ++ rtStr m (relayRoundTrip doc)
        let verdict :=
          match impl with
          | ["accept", t, rt] =>
            let o := Outcome.accept (cps t)
            let rto : Option Outcome :=
              if rt == "same" then none
              else if rt == "reject" then some .reject
              else if rt == "panic" then some .panic
              else some (.accept (cps rt))
            c29SdlVerdict doc o rto
          | _ =>
            match outcomeOfFields impl with
            | some o => c29SdlVerdict doc o none
            | none => "bad:unparsable-impl-answer"
        model ++ "\t" ++ verdict
      else if op == "schema" || op == "ext" then
        let ext := op == "ext"
        let model := outcomeStr (isoSchema ext doc)
        let verdict := match outcomeOfFields impl with
          | some o => c30Verdict ext doc o
          | none => "bad:unparsable-impl-answer"
        model ++ "\t" ++ verdict
      else "bad-op\tok"
  | _ => "bad-op\tok"

def main : IO Unit := runDriver handle
