/-
Line-protocol driver for the M-CONC models (C05, C06).
Input line:   op \t arg… \t => \t impl-answer-field…
Output line:  model-answer \t oracle-verdict          (fields of the answer separated by spaces)

The scheduled engines (`arena.sched`, `intern.sched`) run the transition systems of
`Model/ArenaTrace.lean` / `Model/Intern.lean` under the same schedule as the real threads: one
tick = release a thread from the hook yield point it is parked at and run it to the next one.
-/
import IsoVerif.Model.Util
import IsoVerif.Model.Intern
import IsoVerif.Model.InternSeq

open IsoVerif IsoVerif.Util IsoVerif.Gen.ArenaConsts

def splitArrow (fs : List String) : List String × List String :=
  (fs.takeWhile (· != "=>"), (fs.dropWhile (· != "=>")).drop 1)

def boolStr (b : Bool) : String := if b then "true" else "false"
def joinWith (sep : String) (l : List String) : String := sep.intercalate l
def orDash (s : String) : String := if s.isEmpty then "-" else s

/-! ### bit level -/
namespace BitDrv
open IsoVerif.Arena

def consts (impl : List String) : String :=
  let model := s!"{minShift} {u32Bits} {minSize} {numSizes} {maxIndex} {shardShift} {shards} {smallMaxLen}"
  let verdict := match impl.map String.toNat? with
    | [some ms, some ub, some mz, some ns, some mi, some ss, some sh, some sm] =>
      if mz = 2 ^ ms ∧ ns + ms = ub ∧ ub = 32 ∧ mi + mz = 2 ^ 32 - 1 ∧ sh = 2 ^ ss ∧ sm < 256 then "ok" else "bad:consts"
    | _ => "bad:unparsable-impl-answer"
  model ++ "\t" ++ verdict

def indexOp (args impl : List String) : String :=
  match args.map String.toNat? with
  | [some i] =>
    let model := match index i with
      | none => "panic"
      | some (a, b) => s!"{a} {b} {bucketCapacity a}"
    let verdict := match impl with
      | ["panic"] => if i = 0 then "ok" else "bad:index-panic"
      | [sa, sb, sc] => match sa.toNat?, sb.toNat?, sc.toNat? with
        | some a, some b, some c =>
          if i = 0 then "bad:index-zero"
          else if i = c + b ∧ (i < minSize ∨ (a < numSizes ∧ b < c)) then "ok" else "bad:index"
        | _, _, _ => "bad:unparsable-impl-answer"
      | _ => "bad:unparsable-impl-answer"
    model ++ "\t" ++ verdict
  | _ => "bad-op\tok"

def capOp (args impl : List String) : String :=
  match args.map String.toNat? with
  | [some a] =>
    let model := toString (bucketCapacity a)
    let verdict := match impl.map String.toNat? with
      | [some c] => if (a ≤ 31 → c = 2 ^ (31 - a)) ∧ (31 < a → c = 0) then "ok" else "bad:capacity"
      | _ => "bad:unparsable-impl-answer"
    model ++ "\t" ++ verdict
  | _ => "bad-op\tok"

end BitDrv

/-! ### shared: per-thread bookkeeping of a scheduled run -/

structure Book where
  labels : Array (List String)   -- newest first
  results : Array (List String)  -- newest first
  done : Array Bool

def Book.init (n : Nat) : Book := ⟨Array.replicate n [], Array.replicate n [], Array.replicate n false⟩
def Book.label (b : Book) (t : Nat) (l : String) : Book := { b with labels := b.labels.modify t (l :: ·) }
def Book.result (b : Book) (t : Nat) (r : String) : Book := { b with results := b.results.modify t (r :: ·) }
def Book.finish (b : Book) (t : Nat) : Book := { (b.label t "en") with done := b.done.set! t true }
def Book.allDone (b : Book) : Bool := b.done.all id

def Book.fmt (b : Book) : List String :=
  (List.range b.labels.size).map fun t =>
    let ls := (b.labels[t]!).reverse
    let rs := (b.results[t]!).reverse
    s!"t{t}:{joinWith "." ls}:{orDash (joinWith "," rs)}"

def parseSchedule (s : String) : List Nat :=
  s.toList.filterMap fun c => if c.isDigit then some (c.toNat - 48) else none

/-- schedule, then round robin until every thread has finished (bounded) -/
def runSchedule {σ : Type} (tick : σ → Nat → σ) (allDone : σ → Bool) (n : Nat) (s : σ) (sch : List Nat) : σ :=
  let s1 := sch.foldl tick s
  let rec rounds (fuel : Nat) (s : σ) : σ :=
    match fuel with
    | 0 => s
    | f + 1 => if allDone s then s else rounds f ((List.range n).foldl tick s)
  rounds 4000 s1

def parseThreads (impl : List String) : List (List String × List String) :=
  (impl.filter (fun f => f.startsWith "t" && (f.splitOn ":").length == 3)).map fun f =>
    match f.splitOn ":" with
    | [_, ls, rs] => (ls.splitOn ".", if rs == "-" then [] else rs.splitOn ",")
    | _ => ([], [])

def fieldVal (impl : List String) (key : String) : Option String :=
  (impl.find? (·.startsWith key)).map (fun f => (f.drop key.length).toString)

/-! ### the arena under a schedule -/
namespace ArenaDrv
open IsoVerif.ArenaT

inductive AOp
  | add (v : Nat) | getOwn (j : Nat) | getPre (k : Nat) | getZero | len

def zeroVal : Nat := 777777
def preBase : Nat := 100000

def parseOp (x : String) : Option AOp :=
  let t := (x.drop 1).toString
  match x.take 1 |>.toString with
  | "a" => t.toNat?.map .add
  | "o" => t.toNat?.map .getOwn
  | "p" => t.toNat?.map .getPre
  | "z" => some .getZero
  | "l" => some .len
  | _ => none

def parseProgs (s : String) : List (List AOp) :=
  (s.splitOn ";").map fun p => ((p.splitOn ",").filter (fun x => x != "" && x != "-")).filterMap parseOp

def code : Pc → String
  | .idle => "op"
  | .addFetch _ => "af"
  | .addLoad _ _ => "al"
  | .slowLock _ _ => "sl"
  | .slowRecheck _ _ => "sr"
  | .slowUnlockFound _ _ _ => "su"
  | .slowStore _ _ _ => "ss"
  | .slowUnlock _ _ _ => "sk"
  | .addWrite _ _ _ => "aw"
  | .getCheck _ _ => "gc"
  | .getLoad _ _ => "gl"
  | .getRead _ _ _ => "gr"
  | .lenLoad => "ll"
  | .panicked => "panic"

def evResult : Ev → String
  | .addRet _ _ r => s!"r{r - minSize}"
  | .getRet _ _ _ (.ok v) => s!"v{v}"
  | .getRet _ _ _ _ => "ub"
  | .lenRet _ n => s!"n{n}"

structure Sim where
  st : St
  progs : Array (List AOp)
  own : Array (List Nat)       -- biased refs of the thread's own adds, oldest first
  book : Book
  zero : Bool
  broken : Bool := false

/-- sequential add by an uncontrolled thread (prefill) -/
def seqAdd (st : St) (t : Nat) (v : Nat) : St :=
  match step st t (.startAdd v) with
  | none => st
  | some s1 =>
    let rec go (fuel : Nat) (s : St) : St :=
      match fuel with
      | 0 => s
      | f + 1 => match s.thr t with
        | .idle => s
        | _ => match step s t .step with
          | some s' => go f s'
          | none => s
    go 10 s1

def refOf (sim : Sim) (t : Nat) : AOp → Option Nat
  | .getOwn j => (sim.own[t]!)[j]?
  | .getPre k => some (minSize + (if sim.zero then 1 else 0) + k)
  | .getZero => some minSize
  | _ => none

def tick (sim : Sim) (t : Nat) : Sim :=
  if t ≥ sim.progs.size then sim
  else if sim.book.done[t]! then sim
  else
    match sim.st.thr t with
    | .idle =>
      match sim.progs[t]! with
      | [] => { sim with book := sim.book.finish t }
      | op :: rest =>
        let act : Option Act := match op with
          | .add v => some (.startAdd v)
          | .len => some .startLen
          | o => (refOf sim t o).map .startGet
        match act.bind (step sim.st t) with
        | none => { sim with broken := true, book := sim.book.finish t }
        | some st' =>
          { sim with st := st', progs := sim.progs.set! t rest, book := sim.book.label t (code (st'.thr t)) }
    | _ =>
      match step sim.st t .step with
      | none => { sim with broken := true, book := sim.book.finish t }
      | some st' =>
        let newEv := if st'.hist.length > sim.st.hist.length then st'.hist.head? else none
        let book := match newEv with
          | some e => sim.book.result t (evResult e)
          | none => sim.book
        let own := match newEv with
          | some (.addRet _ _ r) => sim.own.modify t (· ++ [r])
          | _ => sim.own
        let book := match st'.thr t with
          | .idle => if (sim.progs[t]!).isEmpty then book.finish t else book.label t "op"
          | pc => book.label t (code pc)
        { sim with st := st', own := own, book := book }

def initSim (zero : Bool) (prefill : Nat) (progs : List (List AOp)) : Sim :=
  let st0 := if zero then initZero zeroVal else init
  let st := (List.range prefill).foldl (fun s k => seqAdd s 99 (preBase + k)) st0
  let n := progs.length
  let book := (List.range n).foldl (fun b t =>
    if (progs.getD t []).isEmpty then b.finish t else b.label t "op") (Book.init n)
  { st := st, progs := progs.toArray, own := Array.replicate n [], book := book, zero := zero }

def count (l : List Nat) (x : Nat) : Nat := (l.filter (· == x)).length

def run (args impl : List String) : String :=
  match args with
  | [z, pre, progsS, schS] =>
    let zero := z == "1"
    let prefill := pre.toNat?.getD 0
    let progs := parseProgs progsS
    let n := progs.length
    let sim := runSchedule tick (fun s => s.book.allDone) n (initSim zero prefill progs) (parseSchedule schS)
    let adds : List Nat := progs.flatMap fun p => p.filterMap fun | .add v => some v | _ => none
    let expected := (List.range prefill).map (preBase + ·) ++ adds
    let dropS := if zero then "drop=static" else
      match dropArena sim.st with
      | .ok dropped _ =>
        let dc := (expected.filter fun e => count dropped e > 0).length
        let bad := (expected.filter fun e => count dropped e != 1).length
        s!"drop={dc}/{bad}"
      | .panicNull => "drop=panic"
      | .ub => "drop=ub"
    let model := if sim.broken then "model-stuck" else
      joinWith " " (sim.book.fmt ++ [s!"len={len sim.st}", dropS])
    -- oracle on the implementation's answer
    let verdict :=
      if impl == ["hang"] then "bad:hang" else
      let ths := parseThreads impl
      if ths.length != n then "bad:unparsable-impl-answer" else
      let base := prefill + (if zero then 1 else 0)
      let refs : List Nat := ths.flatMap fun (_, rs) => rs.filterMap fun r =>
        if r.startsWith "r" then (r.drop 1).toString.toNat? else none
      let dup := refs.any fun r => count refs r != 1
      let low := refs.any fun r => r < base
      -- read back
      let rbBad := (List.range n).any fun t =>
        let ops := progs.getD t []
        let rs := (ths.getD t ([], [])).2
        let ownVals := ops.filterMap fun | .add v => some v | _ => none
        (ops.zip rs).any fun (op, r) => match op with
          | .getOwn j => r != s!"v{ownVals.getD j 0}"
          | .getPre k => r != s!"v{preBase + k}"
          | .getZero => r != s!"v{zeroVal}"
          | .add _ => !(r.startsWith "r")
          | .len => !(r.startsWith "n")
      let total := base + adds.length
      let lenBad := (fieldVal impl "len=") != some (toString total) ||
        (ths.any fun (_, rs) =>
          let ns := rs.filterMap fun r => if r.startsWith "n" then (r.drop 1).toString.toNat? else none
          ns.any (fun x => x < base || x > total) || !(ns.zip (ns.drop 1)).all (fun (a, b) => a ≤ b))
      let dropBad := if zero then fieldVal impl "drop=" != some "static"
        else fieldVal impl "drop=" != some s!"{expected.length}/0"
      if dup || low then "bad:dup-ref" else if rbBad then "bad:readback" else if lenBad then "bad:len"
      else if dropBad then "bad:drop" else "ok"
    model ++ "\t" ++ verdict
  | _ => "bad-op\tok"

end ArenaDrv

/-! ### the intern table under a schedule -/
namespace InternDrv
open IsoVerif.ArenaT IsoVerif.InternT

inductive IOp
  | intern (v : Nat) | query (v : Nat) | getOwn (j : Nat) | len

def parseOp (x : String) : Option IOp :=
  let t := (x.drop 1).toString
  match x.take 1 |>.toString with
  | "i" => t.toNat?.map .intern
  | "q" => t.toNat?.map .query
  | "o" => t.toNat?.map .getOwn
  | "l" => some .len
  | _ => none

def parseProgs (s : String) : List (List IOp) :=
  (s.splitOn ";").map fun p => ((p.splitOn ",").filter (fun x => x != "" && x != "-")).filterMap parseOp

/-- FNV-1a (64 bit) of the 8 little-endian bytes of `v`: `derive(Hash)` on `struct HVal(u64)`
with `fnv::FnvHasher` -/
def fnv1a (v : Nat) : UInt64 :=
  (List.range 8).foldl (fun (h : UInt64) k =>
    (h ^^^ (UInt64.ofNat ((v >>> (8 * k)) % 256))) * 0x100000001b3) 0xcbf29ce484222325

/-- `hash_and_shard`: `(hash >> hashShift) & hashMask` with the generated constants -/
def shardOf (v : Nat) : Nat := ((fnv1a v).toNat >>> hashShift) &&& hashMask

def hooked : IPc → Bool
  | .readHeld _ | .readMiss _ | .lookupHeld _ => false
  | _ => true

def code (s : ISt) (t : Nat) : String :=
  match s.thr t with
  | .idle => "op"
  | .tryWrite v => s!"tw{shardOf v}"
  | .readLock _ => "rd"
  | .readFound _ _ => "rf"
  | .writeLock _ => "wr"
  | .check _ => "ck"
  | .checkFound _ _ => "cf"
  | .adding _ => ArenaDrv.code (s.ar.thr t)
  | .insert _ _ => "in"
  | .unlock _ _ => "un"
  | .lookup _ => "sg"
  | .reading => ArenaDrv.code (s.ar.thr t)
  | .readHeld _ | .readMiss _ | .lookupHeld _ => "??"

structure Sim where
  st : ISt
  progs : Array (List IOp)
  own : Array (List Nat)
  book : Book
  broken : Bool := false

/-- run thread `t` from the hook it is parked at to the next hook (or to the end of its operation) -/
def stepToHook (s : ISt) (t : Nat) : Option ISt :=
  match istep shardOf s t .step with
  | none => none
  | some s1 =>
    let rec go (fuel : Nat) (s : ISt) : Option ISt :=
      match fuel with
      | 0 => some s
      | f + 1 => if hooked (s.thr t) then some s else
        match istep shardOf s t .step with
        | some s' => go f s'
        | none => none
    go 4 s1

def newResults (old new : ISt) : List String :=
  let a := if new.hist.length > old.hist.length then
      match new.hist.head? with
      | some (.internRet _ _ id) => [s!"i{id - minSize}"]
      | some (.lookupRet _ _ (some id)) => [s!"s{id - minSize}"]
      | some (.lookupRet _ _ none) => ["none"]
      | none => []
    else []
  let b := if new.ar.hist.length > old.ar.hist.length then
      match new.ar.hist.head? with
      | some (.getRet _ _ _ (.ok v)) => [s!"v{v}"]
      | some (.getRet _ _ _ _) => ["ub"]
      | some (.lenRet _ n) => [s!"n{n}"]
      | _ => []
    else []
  a ++ b

def tick (sim : Sim) (t : Nat) : Sim :=
  if t ≥ sim.progs.size then sim
  else if sim.book.done[t]! then sim
  else
    match sim.st.thr t with
    | .idle =>
      match sim.progs[t]! with
      | [] => { sim with book := sim.book.finish t }
      | op :: rest =>
        let act : Option IAct := match op with
          | .intern v => some (.startIntern v)
          | .query v => some (.startLookup v)
          | .len => some .startLen
          | .getOwn j => ((sim.own[t]!)[j]?).map .startGet
        match act.bind (istep shardOf sim.st t) with
        | none => { sim with broken := true, book := sim.book.finish t }
        | some st' => { sim with st := st', progs := sim.progs.set! t rest, book := sim.book.label t (code st' t) }
    | _ =>
      match stepToHook sim.st t with
      | none => { sim with broken := true, book := sim.book.finish t }
      | some st' =>
        let rs := newResults sim.st st'
        let book := rs.foldl (fun b r => b.result t r) sim.book
        let own := match st'.hist.head? with
          | some (.internRet t' _ id) =>
            if st'.hist.length > sim.st.hist.length && t' == t then sim.own.modify t (· ++ [id]) else sim.own
          | _ => sim.own
        let book := match st'.thr t with
          | .idle => if (sim.progs[t]!).isEmpty then book.finish t else book.label t "op"
          | _ => book.label t (code st' t)
        { sim with st := st', own := own, book := book }

def initSim (zero : Bool) (progs : List (List IOp)) : Sim :=
  let n := progs.length
  let book := (List.range n).foldl (fun b t =>
    if (progs.getD t []).isEmpty then b.finish t else b.label t "op") (Book.init n)
  { st := if zero then iinitZero shardOf ArenaDrv.zeroVal else iinit,
    progs := progs.toArray, own := Array.replicate n [], book := book }

def run (args impl : List String) : String :=
  match args with
  | [z, progsS, schS] =>
    let zero := z == "1"
    let progs := parseProgs progsS
    let n := progs.length
    let sim := runSchedule tick (fun s => s.book.allDone) n (initSim zero progs) (parseSchedule schS)
    let len := ArenaT.len sim.st.ar
    let tbl := (List.range len).map fun i => match arVal sim.st.ar (minSize + i) with
      | some v => toString v
      | none => "?"
    let model := if sim.broken then "model-stuck" else
      joinWith " " (sim.book.fmt ++ [s!"len={len}", s!"tbl={orDash (joinWith "," tbl)}"])
    let verdict :=
      if impl == ["hang"] then "bad:hang" else
      let ths := parseThreads impl
      if ths.length != n then "bad:unparsable-impl-answer" else
      let itbl : List String := match fieldVal impl "tbl=" with
        | some "-" => []
        | some s => s.splitOn ","
        | none => ["??"]
      -- (value, id) pairs of every completed intern; lookups; reads
      let pairs : List (Nat × Nat) := (List.range n).flatMap fun t =>
        ((progs.getD t []).zip (ths.getD t ([], [])).2).filterMap fun (op, r) => match op with
          | .intern v => if r.startsWith "i" then ((r.drop 1).toString.toNat?).map (v, ·) else some (v, 1000000)
          | _ => none
      let eqBad := pairs.any fun (v1, i1) => pairs.any fun (v2, i2) => decide (v1 = v2) != decide (i1 = i2)
      let lookBad := pairs.any fun (v, i) => itbl[i]? != some (toString v)
      let qBad := (List.range n).any fun t =>
        let ops := progs.getD t []
        let rs := (ths.getD t ([], [])).2
        let ownVals := ops.filterMap fun | .intern v => some v | _ => none
        (ops.zip rs).any fun (op, r) => match op with
          | .query v =>
            if r == "none" then false
            else if r.startsWith "s" then itbl[((r.drop 1).toString.toNat?).getD 1000000]? != some (toString v) else true
          | .getOwn j => r != s!"v{ownVals.getD j 0}"
          | .len => !(r.startsWith "n")
          | .intern _ => false
      let distinct : List Nat := (pairs.map (·.1) ++ (if zero then [ArenaDrv.zeroVal] else [])).eraseDups
      let denseBad := fieldVal impl "len=" != some (toString distinct.length) || itbl.length != distinct.length ||
        itbl.eraseDups.length != itbl.length || (zero && itbl.head? != some (toString ArenaDrv.zeroVal))
      if eqBad then "bad:eq-iff" else if lookBad then "bad:lookup" else if qBad then "bad:query"
      else if denseBad then "bad:dense" else "ok"
    model ++ "\t" ++ verdict
  | _ => "bad-op\tok"

end InternDrv

/-! ### sequential engines -/
namespace SeqDrv
open IsoVerif.InternSeq

instance : Inhabited T := ⟨.leaf 0⟩

def ordChar : Ordering → Char
  | .lt => '<' | .eq => '=' | .gt => '>'

def isUtf8 (b : Util.Bytes) : Bool := (String.fromUTF8? (ByteArray.mk b.toArray)).isSome

def internSeq (args impl : List String) : String :=
  match args with
  | [itemsS] =>
    match (itemsS.splitOn ",").mapM hexDecode with
    | none => "bad-op\tok"
    | some items =>
      let pairs := items.flatMap fun a => items.map fun b => (a, b)
      let eq := String.ofList (pairs.map fun (a, b) => if a == b then '1' else '0')
      let cmp := String.ofList (pairs.map fun (a, b) => ordChar (cmpBytes a b))
      let scmp := String.ofList (pairs.map fun (a, b) => if isUtf8 a && isUtf8 b then ordChar (cmpBytes a b) else 'x')
      let look := String.ofList (items.map fun _ => '1')
      let model := s!"{eq} {cmp} {scmp} {look} true true true"
      -- the oracle is the definition itself: ids equal iff bytes equal, order = text order, lookup = text
      let verdict := match impl with
        | [ieq, icmp, iscmp, ilook, st, de, em] =>
          if ieq != eq then "bad:eq-iff" else if icmp != cmp || iscmp != scmp then "bad:order"
          else if ilook != look then "bad:lookup" else if st != "true" || de != "true" || em != "true" then "bad:dense"
          else "ok"
        | _ => "bad:unparsable-impl-answer"
      model ++ "\t" ++ verdict
  | _ => "bad-op\tok"

def small (args impl : List String) : String :=
  match args.mapM hexDecode with
  | some [a, b] =>
    let sa := fromBytes a
    let sb := fromBytes b
    let kind := if isSmall sa then "small" else "large"
    let model := s!"{kind} {(deref sa).length} {hexEnc (deref sa)} {boolStr (sbEq sa sb)} {boolStr (serdeRoundTrip sa == sa)} true"
    let verdict := match impl with
      | [k, l, h, e, rt, hs] =>
        if h != hexEnc a || l != toString a.length then "bad:smallbytes-deref"
        else if e != boolStr (a == b) then "bad:smallbytes-eq"
        else if rt != "true" then "bad:smallbytes-serde"
        else if hs != "true" then "bad:smallbytes-hash"
        else if k != (if a.length ≤ smallMaxLen then "small" else "large") then "bad:smallbytes-boundary"
        else "ok"
      | _ => "bad:unparsable-impl-answer"
    model ++ "\t" ++ verdict
  | _ => "bad-op\tok"

/-- `Path::iter()` on the generated paths: split on `/`, drop empty components -/
def comps (p : Util.Bytes) : List Util.Bytes :=
  let rec go (rest : Util.Bytes) (cur : Util.Bytes) (acc : List Util.Bytes) : List Util.Bytes :=
    match rest with
    | [] => (if cur.isEmpty then acc else cur.reverse :: acc).reverse
    | c :: cs => if c == 47 then go cs [] (if cur.isEmpty then acc else cur.reverse :: acc) else go cs (c :: cur) acc
  go p [] []

/-- intern the components of one path top-down into a node table (ids in order of creation) -/
def pathTable (cs : List Util.Bytes) (names : List Util.Bytes) (nodes : List PathNode) : List Util.Bytes × List PathNode × Option Nat :=
  cs.foldl (fun (acc : List Util.Bytes × List PathNode × Option Nat) c =>
    let (names, nodes, parent) := acc
    let (names, nid) := match names.findIdx? (· == c) with
      | some i => (names, i)
      | none => (names ++ [c], names.length)
    let node : PathNode := ⟨nid, parent⟩
    match nodes.findIdx? (· == node) with
    | some i => (names, nodes, some i)
    | none => (names, nodes ++ [node], some nodes.length)) (names, nodes, none)

def path (args impl : List String) : String :=
  match args.mapM hexDecode with
  | some [a, b] =>
    let ca := comps a
    let cb := comps b
    if ca.isEmpty || cb.isEmpty then
      ("panic\t" ++ (if impl == ["panic"] then "ok" else "bad:path-panic"))
    else
      let (names, nodes, pa) := pathTable ca [] []
      let (names, nodes, pb) := pathTable cb names nodes
      let node := fun i => nodes.getD i ⟨0, none⟩
      let look := fun i => names.getD i []
      let o := cmpPathId node look (nodes.length + 1) (pa.getD 0) (pb.getD 0)
      let back := (joinWith "/" (ca.map fun c => bytesStrLossy c))
      let model := s!"{ordChar o} {boolStr (pa == pb)} {hexEnc (strBytes back)}"
      let verdict := match impl with
        | [io, ie, ib] =>
          if io != String.singleton (ordChar (cmpList cmpBytes ca cb)) then "bad:path-order"
          else if ie != boolStr (ca == cb) then "bad:path-eq"
          else if ib != hexEnc (strBytes back) then "bad:path-lookup" else "ok"
        | _ => "bad:unparsable-impl-answer"
      model ++ "\t" ++ verdict
  | _ => "bad-op\tok"

/-! serde -/

inductive D
  | leaf (n : Nat) | pair (a b : D) | my (k : Nat) | str (k : Nat)
  deriving Inhabited

partial def parseD (cs : List Char) : Option (D × List Char) :=
  let num (cs : List Char) : Nat × List Char :=
    let ds := cs.takeWhile Char.isDigit
    ((String.ofList ds).toNat?.getD 0, cs.drop ds.length)
  match cs with
  | 'L' :: r => let (n, r) := num r; some (.leaf n, r)
  | 'M' :: r => let (n, r) := num r; some (.my n, r)
  | 'S' :: r => let (n, r) := num r; some (.str n, r)
  | 'P' :: '(' :: r =>
    match parseD r with
    | some (a, ',' :: r2) =>
      match parseD r2 with
      | some (b, ')' :: r3) => some (.pair a b, r3)
      | _ => none
    | _ => none
  | _ => none

/-- the data with every id unfolded; `nodes[k]` is (canonical id, value) of the `k`-th interned
node of the request: two nodes with equal values are the same `MyId` (that is what interning does) -/
def toT (nodes : Array (Nat × T)) : D → T
  | .leaf n => .leaf n
  | .pair a b => .pair (toT nodes a) (toT nodes b)
  | .my k => let (i, v) := nodes.getD k (0, .leaf 0); .ref 0 i v
  | .str k => .ref 1 k (.leaf k)

def buildNodes (ds : List D) : Array (Nat × T) :=
  ds.foldl (fun (acc : Array (Nat × T)) d =>
    let v := toT acc d
    let i := match acc.findIdx? (fun p => p.2 == v) with
      | some j => (acc.getD j (0, .leaf 0)).1
      | none => acc.size
    acc.push (i, v)) #[]

def wireStr : Wire → String
  | .leaf n => s!"L{n}"
  | .pair a b => s!"P({wireStr a},{wireStr b})"
  | .value ty w => s!"V{ty}({wireStr w})"
  | .backref ty k => s!"B{ty}:{k}"

partial def parseWire (cs : List Char) : Option (Wire × List Char) :=
  let num (cs : List Char) : Nat × List Char :=
    let ds := cs.takeWhile Char.isDigit
    ((String.ofList ds).toNat?.getD 0, cs.drop ds.length)
  match cs with
  | 'L' :: r => let (n, r) := num r; some (.leaf n, r)
  | 'B' :: r =>
    let (ty, r) := num r
    match r with
    | ':' :: r2 => let (k, r3) := num r2; some (.backref ty k, r3)
    | _ => none
  | 'V' :: r =>
    let (ty, r) := num r
    match r with
    | '(' :: r2 =>
      match parseWire r2 with
      | some (w, ')' :: r3) => some (.value ty w, r3)
      | _ => none
    | _ => none
  | 'P' :: '(' :: r =>
    match parseWire r with
    | some (a, ',' :: r2) =>
      match parseWire r2 with
      | some (b, ')' :: r3) => some (.pair a b, r3)
      | _ => none
    | _ => none
  | _ => none

def serde (args impl : List String) : String :=
  match args with
  | [_pool, nodesS, treeS] =>
    let nodeDs := if nodesS == "-" then [] else (nodesS.splitOn ";").filterMap fun s => (parseD s.toList).map (·.1)
    match parseD treeS.toList with
    | none => "bad-op\tok"
    | some (d, _) =>
      let t := toT (buildNodes nodeDs) d
      let w := (enc t st0).1
      let I : Nat → S → Nat := fun _ _ => 0
      let rt := match roundTrip I t with
        | some t' => strip t' == strip t
        | none => false
      let model := s!"{wireStr w} {boolStr rt} {boolStr rt} true"
      let verdict := match impl with
        | [iw, j, b, again] =>
          -- decode the IMPLEMENTATION's wire with the model decoder: must give back the value
          let decOk := match parseWire iw.toList with
            | some (w', []) => match dec I w' tb0 with
              | some (t', _) => strip t' == strip t
              | none => false
            | _ => false
          if !decOk then "bad:serde-wire" else if j != "true" || b != "true" then "bad:serde-roundtrip"
          else if again != "true" then "bad:serde-guard" else "ok"
        | _ => "bad:unparsable-impl-answer"
      model ++ "\t" ++ verdict
  | _ => "bad-op\tok"

end SeqDrv

/-- uncontrolled threads (OS schedule): only the oracle and the schedule-independent summary -/
def arenaStress (args impl : List String) : String :=
  match args.map String.toNat? with
  | [some th, some per] =>
    let n := th * per
    let model := s!"uniq=true readback=true len={n} drop={n}/0"
    let verdict :=
      if fieldVal impl "uniq=" != some "true" then "bad:dup-ref"
      else if fieldVal impl "readback=" != some "true" then "bad:readback"
      else if fieldVal impl "len=" != some (toString n) then "bad:len"
      else if fieldVal impl "drop=" != some s!"{n}/0" then "bad:drop" else "ok"
    model ++ "\t" ++ verdict
  | _ => "bad-op\tok"

def internStress (args impl : List String) : String :=
  match args.map String.toNat? with
  | [some th, some per, some distinct] =>
    let vals := ((List.range th).flatMap fun t => (List.range per).map fun j => (t * 7919 + j * 104729) % distinct).eraseDups
    let model := s!"eq=true lookup=true dense=true len={vals.length}"
    let verdict :=
      if fieldVal impl "eq=" != some "true" then "bad:eq-iff"
      else if fieldVal impl "lookup=" != some "true" then "bad:lookup"
      else if fieldVal impl "dense=" != some "true" || fieldVal impl "len=" != some (toString vals.length) then "bad:dense"
      else "ok"
    model ++ "\t" ++ verdict
  | _ => "bad-op\tok"

def handle (fs : List String) : String :=
  let (req, impl) := splitArrow fs
  match req with
  | ["arena.consts"] => BitDrv.consts impl
  | "arena.index" :: args => BitDrv.indexOp args impl
  | "arena.cap" :: args => BitDrv.capOp args impl
  | "arena.sched" :: args => ArenaDrv.run args impl
  | "arena.stress" :: args => arenaStress args impl
  | "intern.stress" :: args => internStress args impl
  | "intern.sched" :: args => InternDrv.run args impl
  | "intern.seq" :: args => SeqDrv.internSeq args impl
  | "small.bytes" :: args => SeqDrv.small args impl
  | "path.cmp" :: args => SeqDrv.path args impl
  | "serde.rt" :: args => SeqDrv.serde args impl
  | _ => "bad-op\tok"

def main : IO Unit := runDriver handle
