/-
Scratch driver for the projgen smoke test (NOT a lake target; run with
`lake env lean --run Driver/Projgen.lean < wire-lines`).  For every input line: parse it as a
project and print it back; the smoke test compares the output byte for byte with its input.
A line that does not parse is answered by `parse-error`.
-/
import IsoVerif.Model.Core.Wire

open IsoVerif.Core.Wire

partial def loop (h : IO.FS.Stream) (out : IO.FS.Stream) : IO Unit := do
  let line ← h.getLine
  if line.isEmpty then return ()
  let l := (line.dropEndWhile (fun c => c == '\n' || c == '\r')).toString
  match parseProject l with
  | some p => out.putStrLn (printProject p)
  | none => out.putStrLn "parse-error"
  loop h out

def main : IO Unit := do
  let stdin ← IO.getStdin
  let stdout ← IO.getStdout
  loop stdin stdout
