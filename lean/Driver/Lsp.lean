/-
Line-protocol driver for the language-server models (engines `pos`, `format`, `lspstate` of hx_lsp).
Input line:   op \t arg… \t => \t impl-answer-field…
Output line:  model-answer \t oracle-verdict
The verdict is the property's oracle evaluated on the *implementation's* answer.
-/
import IsoVerif.Model.LspPos
import IsoVerif.Model.Format
import IsoVerif.Model.LspState
import IsoVerif.Gen.LspPicoFacts

open IsoVerif IsoVerif.Util

def splitArrow (fs : List String) : List String × List String :=
  (fs.takeWhile (· != "=>"), (fs.dropWhile (· != "=>")).drop 1)

def natsStr (l : List Nat) : String := " ".intercalate (l.map toString)

/-! ## parsing of the literal / token encoding -/

open IsoVerif.Gen.Legend in
def parseLb (s : String) : Option LineBehavior :=
  match s.toList with
  | ['S', a] => some (.starts (a == '1'))
  | ['E', a] => some (.ends (a == '1'))
  | ['I', a, b] => some (.inl (a == '1') (b == '1'))
  | ['O'] => some .ownLine
  | ['R'] => some .remove
  | _ => none

open IsoVerif.Gen.Legend in
def parseIc (s : String) : Option IndentChange :=
  match s with
  | "i" => some .indent
  | "d" => some .dedent
  | "s" => some .same
  | _ => none

open IsoVerif.Gen.Legend in
def parseCode (parts : List String) : Option SemTok :=
  match parts with
  | [l, b, c] => do
    let l ← l.toNat?
    let b ← parseLb b
    let c ← parseIc c
    pure ⟨l, b, c⟩
  | _ => none

structure Lit where
  start : Nat
  len : Nat
  accepted : Bool
  toks : List (Nat × Nat × Gen.Legend.SemTok)

def parseTok (s : String) : Option (Nat × Nat × Gen.Legend.SemTok) :=
  match s.splitOn "-" with
  | [a, b, c] => do
    let a ← a.toNat?
    let b ← b.toNat?
    let c ← parseCode (c.splitOn ".")
    pure (a, b, c)
  | _ => none

def parseLit (s : String) : Option Lit :=
  match s.splitOn ":" with
  | [a, b, st, ts] => do
    let a ← a.toNat?
    let b ← b.toNat?
    let toks ← if ts == "" then some [] else (ts.splitOn ",").mapM parseTok
    pure ⟨a, b, st == "A", toks⟩
  | _ => none

def parseLits (s : String) : Option (List Lit) :=
  if s == "-" then some [] else (s.splitOn ";").mapM parseLit

def parseSpans (s : String) : Option (List (Nat × Nat)) :=
  if s == "-" then some [] else
  (s.splitOn ",").mapM fun p =>
    match p.splitOn ":" with
    | [a, b] => do pure ((← a.toNat?), (← b.toNat?))
    | _ => none

/-! ## engine pos (C23) -/
namespace PosDrv
open LspPos

def boundaries (s : Bytes) : List Nat := (List.range (s.length + 1)).filter (isBoundary s)

def posStr (p : Nat × Nat) : String := s!"{p.1} {p.2}"

def rangeStr (r : (Nat × Nat) × (Nat × Nat)) : String := s!"{posStr r.1} {posStr r.2}"

def loc (args impl : List String) : String :=
  match args with
  | [h, o] =>
    match hexDecode h, o.toNat? with
    | some content, some off =>
      let model := match charIndexToPosition content off with
        | .ok p => posStr p
        | .panic _ => "panic"
      let good := decide (off ≤ content.length) && isBoundary content off
      let verdict :=
        if !good then "ok" else
        match impl with
        | [l, c] =>
          let spec := utf16Pos content off
          if l.toNat? != some spec.1 then "bad:line"
          else if c.toNat? != some spec.2 then "bad:utf16-col" else "ok"
        | _ => "bad:panic-on-boundary"
      model ++ "\t" ++ verdict
    | _, _ => "bad-op\tok"
  | _ => "bad-op\tok"

def dlds (args impl : List String) : String :=
  match args with
  | [h] =>
    match hexDecode h with
    | some t =>
      let model := posStr (deltaLineDeltaStart t)
      let spec := utf16Pos t t.length
      let verdict := match impl with
        | [a, b] => if a.toNat? == some spec.1 && b.toNat? == some spec.2 then "ok" else "bad:delta-utf16"
        | _ => "bad:unparsable-impl-answer"
      model ++ "\t" ++ verdict
    | none => "bad-op\tok"
  | _ => "bad-op\tok"

def idx (args impl : List String) : String :=
  match args with
  | [h, l, c] =>
    match hexDecode h, l.toNat?, c.toNat? with
    | some src, some line, some ch =>
      let model := toString (getIndexOfLineChar src line ch)
      let want := (boundaries src).find? fun o => utf16Pos src o == (line, ch)
      let verdict := match want with
        | none => "ok"
        | some o =>
          if impl == [toString o] then "ok"
          else if impl == ["panic"] then "bad:hover-panic"
          else if line == 0 then "bad:hover-line0" else "bad:hover-utf16"
      model ++ "\t" ++ verdict
    | _, _, _ => "bad-op\tok"
  | _ => "bad-op\tok"

def hover (args impl : List String) : String :=
  match args with
  | [h, sp, l, c] =>
    match hexDecode h, parseSpans sp, l.toNat?, c.toNat? with
    | some content, some spans, some line, some ch =>
      let model := match hoverOffset content spans (line, ch) with
        | .ok none => "none"
        | .ok (some (k, o)) => s!"{k} {o}"
        | .panic _ => "panic"
      -- the literal and offset the position designates, if any
      let cands := (List.zip (List.range spans.length) spans).flatMap fun (k, (s, n)) =>
        ((List.range (n + 1)).filter fun o =>
          isBoundary content (s + o) && utf16Pos content (s + o) == (line, ch)).map fun o => (k, o)
      let verdict := match cands.head? with
        | none => "ok"
        | some (k, o) =>
          if impl == [toString k, toString o] then "ok"
          else if impl == ["panic"] then "bad:hover-panic"
          else if line == (utf16Pos content ((spans.getD k (0, 0)).1)).1 then "bad:hover-line0"
          else "bad:hover-utf16"
      model ++ "\t" ++ verdict
    | _, _, _, _ => "bad-op\tok"
  | _ => "bad-op\tok"

def range (args impl : List String) : String :=
  match args with
  | [h, b, s, e] =>
    match hexDecode h, b.toNat?, s.toNat?, e.toNat? with
    | some content, some base, some s, some e =>
      let model := match locationRange content base s e with
        | .ok r => rangeStr r
        | .panic _ => "panic"
      let good := decide (base + e ≤ content.length) && isBoundary content (base + s) &&
        isBoundary content (base + e)
      let spec := rangeStr (utf16Pos content (base + s), utf16Pos content (base + e))
      let verdict := if !good then "ok"
        else if " ".intercalate impl == spec then "ok" else "bad:utf16-col"
      model ++ "\t" ++ verdict
    | _, _, _, _ => "bad-op\tok"
  | _ => "bad-op\tok"

/-- first index at which `pat` occurs in `s` -/
def findSub (s pat : Bytes) : Option Nat :=
  (List.range (s.length + 1)).find? fun i => (s.drop i).take pat.length == pat

/-- End-to-end go-to-definition of `entrypoint Query.<name>`: the answer must be the range of the
name in `field Query.<name>` of the defining file, under `utf16Pos` of *that* file. -/
def goto (args impl : List String) : String :=
  match args with
  | [ha, _hc, _l, _c, hn] =>
    match hexDecode ha, hexDecode hn with
    | some a, some name =>
      let pre := strBytes "field Query."
      match findSub a (pre ++ name) with
      | none => "bad-op\tok"
      | some i =>
        let o1 := i + pre.length
        let o2 := o1 + name.length
        let spec := s!"src/ga.ts {posStr (utf16Pos a o1)} {posStr (utf16Pos a o2)}"
        let got := " ".intercalate impl
        spec ++ "\t" ++ (if got == spec then "ok"
          else if got == "panic" then "bad:goto-panic"
          else if got == "none" then "bad:goto-missing" else "bad:goto-range")
    | _, _ => "bad-op\tok"
  | _ => "bad-op\tok"

def litToks (lits : List Lit) : List LitToks :=
  (lits.filter (·.accepted)).map fun l => ⟨l.start, l.toks.map fun (s, e, st) => ⟨s, e, st.lsp⟩⟩

def tokData (ts : List LspTok) : String :=
  let flat := ts.flatMap fun t => [t.deltaLine, t.deltaStart, t.length, t.ty, 0]
  if flat.isEmpty then s!"T 0" else s!"T {ts.length} {natsStr flat}"

def rangesModel (content : Bytes) (lits : List Lit) : Option String :=
  let rs := lits.map fun l => rangeOfExtraction content l.start l.len
  if rs.any (fun r => match r with | .panic _ => true | _ => false) then none
  else
    let flat := rs.flatMap fun r => match r with
      | .ok (a, b) => [a.1, a.2, b.1, b.2]
      | .panic _ => []
    some (if flat.isEmpty then s!"R 0" else s!"R {lits.length} {natsStr flat}")

/-- groups of five numbers -/
def fives : List Nat → Option (List LspTok)
  | [] => some []
  | a :: b :: c :: d :: _ :: rest => (fives rest).map (⟨a, b, c, d⟩ :: ·)
  | _ => none

def doc (args impl : List String) : String :=
  match args with
  | [h, ls] =>
    match hexDecode h, parseLits ls with
    | some content, some lits =>
      let lt := litToks lits
      let model :=
        match lspTokens content lt, rangesModel content lits with
        | .ok ts, some rs => tokData ts ++ " " ++ rs
        | _, _ => "panic"
      -- oracle on the implementation's answer
      let verdict :=
        match impl with
        | [t, r] =>
          let tn := (t.splitOn " ").drop 2 |>.filterMap String.toNat?
          let rn := (r.splitOn " ").drop 2 |>.filterMap String.toNat?
          let specR := lits.flatMap fun l =>
            let a := utf16Pos content l.start
            let b := utf16Pos content (l.start + l.len)
            [a.1, a.2, b.1, b.2]
          if !(spansOk content 0 (absSpans lt)) then "bad:token-spans-malformed"
          else match fives tn with
            | none => "bad:unparsable-impl-answer"
            | some toks =>
              let dec := decode toks
              if dec != expectedTokens content lt then "bad:tokens-utf16"
              else if !(increasing dec) then "bad:tokens-order"
              else if rn != specR then "bad:edit-range"
              else "ok"
        | _ => "bad:" ++ (impl.headD "empty")
      model ++ "\t" ++ verdict
    | _, _ => "bad-op\tok"
  | _ => "bad-op\tok"

end PosDrv

/-! ## engine format (C22) -/
namespace FmtDrv
open Format LspPos

def sliceB (content : Bytes) (a b : Nat) : Bytes := (content.take b).drop a

def ftoks (content : Bytes) (l : Lit) : List FTok :=
  l.toks.map fun (s, e, st) => ⟨sliceB content (l.start + s) (l.start + e), st⟩

/-- a removed token directly after a token that ends its line -/
def commaAfterLineEnd : List FTok → Bool
  | a :: b :: rest => (a.st.lb.endsLine && !b.st.lb.shouldKeep) || commaAfterLineEnd (b :: rest)
  | _ => false

def parseOutTok (s : String) : Option FTok :=
  match s.splitOn "." with
  | h :: code => do
    let t ← hexDecode h
    let st ← parseCode code
    pure ⟨t, st⟩
  | _ => none

def obsVerdict (toks : List FTok) (obs : String) : String :=
  match obs.splitOn "," with
  | [re, same, idem, outs] =>
    if re != "ok" then "bad:reject:" ++ re
    else if same != "same" then "bad:meaning"
    else
      let out := if outs == "-" then some [] else (outs.splitOn "+").mapM parseOutTok
      if out != some (kept toks) then "bad:tokens"
      else if idem != "idem" then
        (if commaAfterLineEnd toks then "bad:nonidem:comma-after-line-end" else "bad:nonidem")
      else "ok"
  | _ => "bad:unparsable-impl-answer"

def doc (args impl : List String) : String :=
  match args with
  | [h, ls] =>
    match hexDecode h, parseLits ls with
    | some content, some lits =>
      let acc := lits.filter (·.accepted)
      let edits := acc.map fun l =>
        (rangeOfExtraction content l.start l.len, format (ftoks content l))
      let bad := edits.any fun e => match e with
        | (.ok _, .ok _) => false
        | _ => true
      let modelE :=
        if bad then "panic" else
        let parts := edits.map fun e => match e with
          | (.ok (a, b), .ok out) => s!" {a.1} {a.2} {b.1} {b.2} {hexEnc out}"
          | _ => ""
        s!"E {acc.length}" ++ String.join parts
      let implO := match impl with
        | [_, o] => " " ++ o
        | _ => ""
      let model := if bad then "panic" else modelE ++ implO
      let verdict :=
        match impl with
        | [e, o] =>
          let ef := (e.splitOn " ").drop 2
          -- groups of 5: four numbers + hex
          let rec ranges : List String → List Nat
            | a :: b :: c :: d :: _ :: rest =>
              [a.toNat?.getD 0, b.toNat?.getD 0, c.toNat?.getD 0, d.toNat?.getD 0] ++ ranges rest
            | _ => []
          let specR := acc.flatMap fun l =>
            let a := utf16Pos content l.start
            let b := utf16Pos content (l.start + l.len)
            [a.1, a.2, b.1, b.2]
          let allToks := acc.map (ftoks content)
          if !(allToks.all fun ts => ts.all fun t => inLegend t.st) then "bad:entry-not-in-legend"
          else if !(allToks.all fun ts => adjOk (kept ts) && clsOk ts) then "bad:grammar-table"
          else if ranges ef != specR then "bad:edit-range"
          else
            let os := if o == "O -" then [] else (o.splitOn " ").drop 1
            if os.length != acc.length then "bad:" ++ o
            else
              let vs := (List.zip allToks os).map fun (ts, ob) => obsVerdict ts ob
              (vs.find? (· != "ok")).getD "ok"
        | ["E 0"] => "ok"
        | _ => "bad:" ++ (impl.headD "empty")
      model ++ "\t" ++ verdict
    | _, _ => "bad-op\tok"
  | _ => "bad-op\tok"

end FmtDrv

/-! ## engine lspstate (C21) -/
namespace StateDrv
open LspState

/-- pico as it is now (regenerated from crates/pico/src/database.rs) -/
def tracked : Bool := Gen.LspPicoFacts.absentReadIsTracked

def files : List String := ["src/a.ts", "src/b.ts", "src/c.ts"]

def content (s : String) : Option (Option Bytes) :=
  if s == "~" then some none else (hexDecode s).map some

def effStr (v : Srv) : String :=
  "eff" ++ String.join (files.map fun f =>
    s!" {f}=" ++ (match observed v f with | none => "~" | some b => hexEnc b))

/-- driver state: the model server and whether the history contained an on-disk removal -/
structure DSt where
  srv : Srv := {}
  sawRemove : Bool := false

def step (d : DSt) (req impl : List String) : DSt × String :=
  let v := d.srv
  match req with
  | "case" :: _ => ({}, "-\tok")
  | ["init", a, b, c] =>
    match content a, content b, content c with
    | some a, some b, some c =>
      if a.isNone && b.isNone && c.isNone then (d, "bad-op\tok") else
      let disk : FMap := [("src/a.ts", a), ("src/b.ts", b), ("src/c.ts", c)]
      ({ srv := start disk }, "ok\tok")
    | _, _, _ => (d, "bad-op\tok")
  | ["open", f, h] =>
    match hexDecode h with
    | some t => ({ d with srv := srvStep tracked v (.didOpen f t) }, "ok\tok")
    | none => (d, "bad-op\tok")
  | ["change", f, h] =>
    match hexDecode h with
    | some t => ({ d with srv := srvStep tracked v (.didChange f t) }, "ok\tok")
    | none => (d, "bad-op\tok")
  | ["close", f] => ({ d with srv := srvStep tracked v (.didClose f) }, "ok\tok")
  | ["write", f, h] =>
    match hexDecode h with
    | some t => ({ d with srv := srvStep tracked v (.diskWrite f t) }, "ok\tok")
    | none => (d, "bad-op\tok")
  | ["remove", f] => ({ srv := srvStep tracked v (.diskRemove f), sawRemove := true }, "ok\tok")
  | "check" :: _ =>
    -- the answer is computed from the state *before* this check populates the memo table
    let cmp := impl.getLastD ""
    let model := effStr v ++ " " ++ cmp
    let staleNow := files.any (staleVisible v)
    let verdict :=
      if cmp == "agree" || cmp == "bothpanic" then "ok"
      else if cmp.startsWith "nondet:" then "bad:fresh-servers-disagree"
      else if cmp.startsWith "panic:" then
        (if d.sawRemove then "bad:panic-after-disk-remove"
         else "bad:" ++ cmp)
      else if cmp.startsWith "differ:" then
        (if staleNow then "bad:stale-after-first-open" else "bad:stale:" ++ String.ofList (cmp.toList.drop 7))
      else "bad:unparsable-impl-answer"
    if cmp.startsWith "panic:" || cmp == "bothpanic" then
      -- the real server died and the harness restarted it: every open buffer is re-sent
      let anyOpen := files.any fun f => (v.st.bufs.get f).isSome
      ({ d with srv := { st := v.st, openCounter := anyOpen, stale := [] } }, model ++ "\t" ++ verdict)
    else
      ({ d with srv := srvStep tracked v .check }, model ++ "\t" ++ verdict)
  | _ => (d, "bad-op\tok")

end StateDrv

def handle (v : StateDrv.DSt) (fs : List String) : StateDrv.DSt × String :=
  let (req, impl) := splitArrow fs
  match req with
  | "pos.loc" :: args => (v, PosDrv.loc args impl)
  | "pos.dlds" :: args => (v, PosDrv.dlds args impl)
  | "pos.idx" :: args => (v, PosDrv.idx args impl)
  | "pos.hover" :: args => (v, PosDrv.hover args impl)
  | "pos.range" :: args => (v, PosDrv.range args impl)
  | "pos.doc" :: args => (v, PosDrv.doc args impl)
  | "pos.goto" :: args => (v, PosDrv.goto args impl)
  | "fmt.doc" :: args => (v, FmtDrv.doc args impl)
  | _ => StateDrv.step v req impl

def main : IO Unit := runDriverS handle ({} : StateDrv.DSt)
