/-
Line-protocol driver for M-SWC (C28).
Input line:   swc.lit \t lit-hex \t esm|cjs \t file-dir \t project_root \t artifact_directory|- \t form \t tag
              \t => \t hdr:… \t swc-outcome \t kept|changed \t art:…
Output line:  model-answer (space separated) \t oracle-verdict
The verdict is the property evaluated on the implementation's answer fields only.
-/
import IsoVerif.Model.Util
import IsoVerif.Model.Swc

open IsoVerif IsoVerif.Util IsoVerif.Swc IsoVerif.Gen.SwcLits

def splitArrow (fs : List String) : List String × List String :=
  (fs.takeWhile (· != "=>"), (fs.dropWhile (· != "=>")).drop 1)

def toCps (s : String) : Str := s.toList.map Char.toNat
def ofCps (s : Str) : String := String.ofList (s.map Char.ofNat)
def hexCps (s : Str) : String := hexEnc (strBytes (ofCps s))
def unhexCps (h : String) : Option Str := (hexDecode h).bind fun b => (bytesStr? b).map toCps

def parseForm (form : String) (lit : Str) : Option (IsoArgs × FnArgs) :=
  let base := if form.endsWith ".n" then (form.dropEnd 2).toString else form
  match base with
  | "bare" => some (.one lit, .absent)
  | "call1" => some (.one lit, .one)
  | "call0" => some (.one lit, .wrongCount)
  | "call2" => some (.one lit, .wrongCount)
  | "subst" => some (.subst, .absent)
  | "subst1" => some (.subst, .one)
  | "nontpl" => some (.notTemplate, .absent)
  | "noargs" => some (.wrongCount, .absent)
  | "twoargs" => some (.wrongCount, .absent)
  | "twoargs1" => some (.wrongCount, .one)
  | _ => none

def outcomeStr : Outcome → String
  | .importDefault p i => s!"imp:{hexCps p}:{hexCps i}"
  | .requireDefault p => s!"req:{hexCps p}"
  | .argument => "arg"
  | .identity => "identity"
  | .error k => s!"err:{k}"
  | .panic => "panic"

def fileDirComps (d : String) : List Str := components (toCps d)

/-- Signature of a literal the parser's header accepts but the transform does not match. -/
def noMatchSig (lit : Str) : String :=
  match parseHeaderRest lit with
  | none => "other"
  | some (_, _, _, rest) =>
    let hdr := lit.take (lit.length - rest.length)
    let before := hdr.takeWhile (· != lexPeriod)
    let after := (hdr.dropWhile (· != lexPeriod)).drop 1
    let spaced := (before.getLast?.map isLexWs).getD false || (after.head?.map isLexWs).getD false
    if hdr.contains 65279 then "bom-in-header"
    else if spaced then "spaces-around-dot"
    else "other"

def wrongTargetSig (lit : Str) : String :=
  match parseHeaderRest lit with
  | some (_, _, _, 64 :: _) => "directive-glued-to-field"
  | some (_, _, _, c :: _) => if isLexWs c then "wrong-target" else "name-runs-on"
  | _ => "wrong-target"

/-- The property on the implementation's answer. -/
def oracle (lit : Str) (fileDir : List Str) (esm : Bool) (iso : IsoArgs) (fn : FnArgs) (impl : List String) : String :=
  match impl with
  | [hdr, swc, kept, art] =>
    if kept != "kept" then "bad:other-code-changed" else
    match iso, hdr.splitOn ":" with
    | .one _, ["hdr", k, _, _] =>
      let isImp := swc.startsWith "imp:"
      let isReq := swc.startsWith "req:"
      if swc == "panic" then "bad:panic"
      else if swc == "err:invalid-keyword" then "bad:classify:" ++ noMatchSig lit
      else if swc.startsWith "other" then "bad:unexpected-output"
      else if k == "entrypoint" then
        if !(isImp || isReq) then "bad:classify:entrypoint-as-field"
        else if isImp != esm then "bad:module-setting"
        else
          match (swc.splitOn ":")[1]? >>= unhexCps, unhexCps (art.drop 4).toString with
          | some p, some a =>
            if resolveFrom fileDir p != some (splitOn pathSep a) then "bad:path:" ++ wrongTargetSig lit
            else if !isRelativeSpecifier p then
              (if p.head? == some pathSep then "bad:path:absolute-specifier" else "bad:path:bare-specifier")
            else "ok"
          | _, _ => "bad:unparsable-impl-answer"
      else
        if isImp || isReq then "bad:classify:field-as-entrypoint"
        else
          let want := match fn with
            | .one => "arg"
            | .absent => "identity"
            | .wrongCount => "err:fn-one-arg"
          if swc == want then "ok" else "bad:identity"
    | _, _ => "ok"
  | _ => "bad:unparsable-impl-answer"

def handleLit (args impl : List String) : String :=
  match args with
  | [litH, modS, dirS, prS, adS, formS, _tag] =>
    match unhexCps litH with
    | none => "bad-op\tok"
    | some lit =>
      match parseForm formS lit with
      | none => "bad-form kept art:-\tok"
      | some (iso, fn) =>
        let cfg : Cfg := { projectRoot := toCps prS,
                           artifactDirectory := if adS == "-" then none else some (toCps adS),
                           esm := modS != "cjs" }
        let fileDir := fileDirComps dirS
        let hdr := parseHeader lit
        let hdrS := match hdr with
          | some (k, t, f) => s!"hdr:{ofCps k}:{ofCps t}:{ofCps f}"
          | none => "hdr:none"
        let out := compileIsoCall fileDir cfg iso fn
        let artS := match hdr with
          | some (k, t, f) =>
            if parserKind k == some 0 then
              match compilerArtifact cfg t f with
              | some comps => "art:" ++ hexCps (joinSep pathSep comps)
              | none => "art:escapes-root"
            else "art:-"
          | none => "art:-"
        let model := s!"{hdrS} {outcomeStr out} kept {artS}"
        model ++ "\t" ++ oracle lit fileDir cfg.esm iso fn impl
  | _ => "bad-op\tok"

def handle (fs : List String) : String :=
  let (req, impl) := splitArrow fs
  match req with
  | "swc.lit" :: args => handleLit args impl
  | _ => "bad-op\tok"

def main : IO Unit := runDriver handle
