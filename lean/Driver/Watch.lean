/-
Line-protocol driver for the M-WATCH model (C20).
Input line:   watch.run \t projseed \t tree \t step… \t => \t impl-answer-field…
Output line:  model-answer \t oracle-verdict          (fields of the answer separated by spaces)

Encodings (harness/watch/src/tree.rs): tree `-` | `path=cid,…` (`cid` = `u<n>` | `b<n>` | `D`),
step `edits|events|g/n`, lists separated by `;`.  Answer fields per step:
  fs:<tree>  ev:<categorised>|ev:none  us:ok|us:none|us:err:<classes>  db:<iso>|<schema>|<exts>
  fr:<iso>|<schema>|<exts> | fr:init-error:<class>   A:same | A:diff:…
The model predicts every field except `A:` when its own database differs from its own fresh read
(then the implementation's field is echoed; the oracle judges it).  `A:same` whenever the model's
database equals what the model's `initializeSources` reads is the composition with C01 (memoised =
from scratch): equal sources, equal artifacts and diagnostics.

Oracle (on the implementation's answer and the request only): watch-mode database = fresh database,
artifacts/diagnostics equal, no fatal `update_sources` error, no panic; plus the theorem's hypotheses
`DeliversAll` / `NoRace` evaluated on the request's event batches (a batch of the event table that
is not truthful is a defect of the table, `bad:hyp:…`).
-/
import IsoVerif.Model.Util
import IsoVerif.Model.Watch

open IsoVerif IsoVerif.Util IsoVerif.Watch

namespace WatchDrv

def cfg : Cfg :=
  { projectRoot := [strBytes "src"]
    artifactDir := [strBytes "src", strBytes "__isograph"]
    schema := [strBytes "schema.graphql"]
    exts := [[strBytes "schema-extension.graphql"]]
    config := [strBytes "isograph.config.json"] }

variable (F : Facts)

def splitArrow (fs : List String) : List String × List String :=
  (fs.takeWhile (· != "=>"), (fs.dropWhile (· != "=>")).drop 1)

def allSome {β : Type} : List (Option β) → Option (List β)
  | [] => some []
  | none :: _ => none
  | some x :: rest => (allSome rest).map (x :: ·)

def parsePath (s : String) : Path := (s.splitOn "/").map strBytes

def pathStr (p : Path) : String := "/".intercalate (p.map bytesStrLossy)

def parseCid (s : String) : Option Content :=
  if s.startsWith "u" then (s.drop 1).toString.toNat?.map (fun n => ⟨n, true⟩)
  else if s.startsWith "b" then (s.drop 1).toString.toNat?.map (fun n => ⟨n, false⟩)
  else none

def cidStr (c : Content) : String := (if c.utf8 then "u" else "b") ++ toString c.id

def parseNode (s : String) : Option Node :=
  if s == "D" then some .dir else (parseCid s).map .file

def parseTree (s : String) : Option Fs :=
  if s == "-" then some []
  else allSome ((s.splitOn ",").map fun item =>
    match item.splitOn "=" with
    | [p, v] => (parseNode v).map (fun n => (parsePath p, n))
    | _ => none)

def sortS (l : List String) : List String := l.mergeSort (fun a b => decide (a ≤ b))

def dedupS : List String → List String
  | a :: b :: rest => if a == b then dedupS (b :: rest) else a :: dedupS (b :: rest)
  | l => l

def joinOrDash (sep : String) (l : List String) : String := if l.isEmpty then "-" else sep.intercalate l

/-- keys compared as the byte strings `a/b/c`, like the `BTreeMap<String, _>` of the harness -/
def bytesLe : List UInt8 → List UInt8 → Bool
  | [], _ => true
  | _ :: _, [] => false
  | a :: as, b :: bs => a < b || (a == b && bytesLe as bs)

def sortByPath {β : Type} (l : List (Path × β)) : List (Path × β) :=
  l.mergeSort (fun a b => bytesLe (pathString a.1) (pathString b.1))

/-- effective bindings only, sorted -/
def fsEntries (fs : Fs) : List (Path × Node) :=
  let rec go (seen : List Path) : Fs → List (Path × Node)
    | [] => []
    | (p, n) :: rest => if seen.contains p then go seen rest else (p, n) :: go (p :: seen) rest
  sortByPath (go [] fs)

def treeStr (fs : Fs) : String :=
  joinOrDash "," ((fsEntries fs).map fun (p, n) =>
    pathStr p ++ "=" ++ (match n with | .dir => "D" | .file c => cidStr c))

def mapEntries (m : AMap) : List (Path × Content) :=
  let rec go (seen : List Path) : AMap → List (Path × Content)
    | [] => []
    | (p, c) :: rest => if seen.contains p then go seen rest else (p, c) :: go (p :: seen) rest
  sortByPath (go [] m)

def mapStr (m : AMap) : String :=
  joinOrDash "," ((mapEntries m).map fun (p, c) => pathStr p ++ "=" ++ cidStr c)

def dbStr (db : Db) : String :=
  mapStr db.iso ++ "|" ++ (match db.schema with | some c => cidStr c | none => "none") ++ "|" ++ mapStr db.exts

def fatalStr : Fatal → String
  | .utf8 => "utf8" | .read => "read" | .traverse => "traverse" | .schemaNotFound => "schema-not-found"
  | .canonicalize => "canonicalize" | .notAFile => "not-a-file" | .configPanic => "panic"

/-! ### edits (the harness performs them with `std::fs`; same applicability conditions) -/

inductive Edit
  | write (p : Path) (c : Content)
  | mkdir (p : Path)
  | rm (p : Path)
  | rmr (p : Path)
  | mv (s d : Path)
  | mvOut (p : Path)
  | mvInFile (p : Path) (c : Content)
  | mvInDir (p : Path) (cs : List Content)

def movedInNames : List String := ["m0.ts", "m1.tsx", "m2.md", "m3.js"]

def parseEdit (s : String) : Option Edit :=
  match s.splitOn ":" with
  | ["w", p, c] => (parseCid c).map (.write (parsePath p))
  | ["mk", p] => some (.mkdir (parsePath p))
  | ["rm", p] => some (.rm (parsePath p))
  | ["rmr", p] => some (.rmr (parsePath p))
  | ["mv", s, d] => some (.mv (parsePath s) (parsePath d))
  | ["mvo", p] => some (.mvOut (parsePath p))
  | ["mvi", p, c] => (parseCid c).map (.mvInFile (parsePath p))
  | ["mvd", p, cs] =>
    (if cs == "-" then some [] else allSome ((cs.splitOn "+").map parseCid)).map (.mvInDir (parsePath p))
  | _ => none

def parseRaw (s : String) : Option Raw :=
  match s.splitOn ":" with
  | ["c", p] => some (.createFile (parsePath p))
  | ["cd", p] => some (.createFolder (parsePath p))
  | ["d", p] => some (.data (parsePath p))
  | ["r", p] => some (.remove (parsePath p))
  | ["rd", p] => some (.remove (parsePath p))
  | ["b", s, d] => some (.both (parsePath s) (parsePath d))
  | ["f", p] => some (.from_ (parsePath p))
  | ["t", p] => some (.to (parsePath p))
  | ["a", p] => some (.any (parsePath p))
  | ["x", p] => some (.other (parsePath p))
  | ["m", p] => some (.other (parsePath p))
  | _ => none

structure Step where
  edits : List Edit
  events : List Raw

def parseList {β : Type} (f : String → Option β) (s : String) : Option (List β) :=
  if s == "-" then some [] else allSome ((s.splitOn ";").map f)

def parseStep (s : String) : Option Step :=
  match s.splitOn "|" with
  | [e, v, _] =>
    match parseList parseEdit e, parseList parseRaw v with
    | some es, some vs => some ⟨es, vs⟩
    | _, _ => none
  | _ => none

def fsSet (fs : Fs) (p : Path) (n : Node) : Fs := (p, n) :: fs.filter (fun qn => !decide (qn.1 = p))

def fsEraseBelow (fs : Fs) (p : Path) : Fs := fs.filter (fun qn => !isPrefix p qn.1)

def parentIsDir (fs : Fs) (p : Path) : Bool :=
  match p.dropLast with
  | [] => true
  | q => isDir fs q

def applicable (fs : Fs) : Edit → Bool
  | .write p _ => parentIsDir fs p && !isDir fs p
  | .mkdir p => parentIsDir fs p && !pathExists fs p
  | .rm p => isFile fs p
  | .rmr p => isDir fs p
  | .mv s d => pathExists fs s && !pathExists fs d && parentIsDir fs d && !isPrefix s d
  | .mvOut p => pathExists fs p
  | .mvInFile p _ => parentIsDir fs p && !pathExists fs p
  | .mvInDir p _ => parentIsDir fs p && !pathExists fs p

def applyEdit (fs : Fs) : Edit → Fs
  | .write p c => fsSet fs p (.file c)
  | .mvInFile p c => fsSet fs p (.file c)
  | .mkdir p => fsSet fs p .dir
  | .rm p => fsEraseBelow fs p
  | .rmr p => fsEraseBelow fs p
  | .mvOut p => fsEraseBelow fs p
  | .mv s d =>
    let moved := (fs.filter (fun qn => isPrefix s qn.1)).map fun qn => (d ++ qn.1.drop s.length, qn.2)
    moved ++ fsEraseBelow fs s
  | .mvInDir p cs =>
    let names := movedInNames
    let files := (List.range cs.length).zip cs |>.map fun (i, c) =>
      (p ++ [strBytes (names.getD (i % names.length) "m")], Node.file c)
    files ++ fsSet fs p .dir

/-! ### the model's answer -/

def changeStr (k : String) : Change → String
  | .createOrModify p => k ++ "+:" ++ pathStr p
  | .remove p => k ++ "-:" ++ pathStr p
  | .rename s t => k ++ ">:" ++ pathStr s ++ ":" ++ pathStr t

def sevStr : SEv → String
  | (c, .config) => changeStr "C" c
  | (c, .schema) => changeStr "S" c
  | (c, .ext) => changeStr "X" c
  | (c, .file) => changeStr "F" c
  | (c, .folder) => changeStr "D" c

def freshStr (fs : Fs) : String :=
  match initializeSources F cfg fs with
  | .ok db => "fr:" ++ dbStr db
  | .error e => "fr:init-error:" ++ fatalStr e

/-- `some reason` when the decidable form of the theorem's hypotheses (`deliversAllB`, `noRaceB`; sound
by `Lemmas/WatchCheck.lean`) fails for this batch -/
def hypFails (evs : List Raw) (fs fs' : Fs) : Option String :=
  if !deliversAllB F cfg evs fs fs' then
    (if !(((fs.map (·.1)) ++ (fs'.map (·.1))).all (sourcesOkAt F cfg evs fs fs')) then some "delivers-all:sources"
     else some "delivers-all:schema")
  else if !noRaceB fs' evs then some "race"
  else none

structure Acc where
  out : List String      -- reversed
  hyp : Option String

/-- runs the steps; `impl` is only consulted to echo an `A:` field the model does not predict -/
partial def runSteps (impl : Array String) (fs : Fs) (db : Db) (steps : List Step) (acc : Acc) : Acc :=
  match steps with
  | [] => acc
  | st :: rest =>
    let rec applyAll (fs : Fs) : List Edit → Option Fs
      | [] => some fs
      | e :: es => if applicable fs e then applyAll (applyEdit fs e) es else none
    match applyAll fs st.edits with
    | none => { acc with out := "inapplicable" :: acc.out }
    | some fs' =>
      let out := ("fs:" ++ treeStr fs') :: acc.out
      let cat := categorise F cfg fs' st.events
      let hyp := match acc.hyp with
        | some h => some h
        | none => hypFails F st.events fs fs'
      if cat.isEmpty then
        let out := "us:none" :: "ev:none" :: out
        finish impl fs' db rest { out := out, hyp := hyp }
      else
        let out := ("ev:" ++ ";".intercalate (cat.map sevStr)) :: out
        let r := updateSources F cfg fs' db cat
        if r.2.isEmpty then
          finish impl fs' r.1 rest { out := "us:ok" :: out, hyp := hyp }
        else
          let cls := dedupS (sortS (r.2.map fatalStr))
          { out := "end" :: ("us:err:" ++ "+".intercalate cls) :: out, hyp := hyp }
where
  finish (impl : Array String) (fs' : Fs) (db : Db) (rest : List Step) (acc : Acc) : Acc :=
    -- `compile` itself is not modelled: when the implementation's recompile panicked the harness
    -- answers `state-lost end`; that is echoed (the oracle reports it as `alive:compile-panic`)
    if impl.getD acc.out.length "" == "state-lost" then { acc with out := "end" :: "state-lost" :: acc.out } else
    let dbS := dbStr db
    let frS := freshStr F fs'
    let out := frS :: ("db:" ++ dbS) :: acc.out
    let a :=
      if frS == "fr:" ++ dbS then "A:same"
      else (impl.getD out.length "A:?")
    runSteps impl fs' db rest { acc with out := a :: out }

def modelAnswer (req impl : List String) : String × Option String :=
  match req with
  | _ :: _ :: tree :: steps =>
    match parseTree tree, allSome (steps.map parseStep) with
    | some fs, some sts =>
      let first := "fs:" ++ treeStr fs
      match initializeSources F cfg fs with
      | .error e => (first ++ " init-error:" ++ fatalStr e, none)
      | .ok db =>
        let acc := runSteps F impl.toArray fs db sts { out := [("db:" ++ dbStr db), first], hyp := none }
        (" ".intercalate acc.out.reverse, acc.hyp)
    | _, _ => ("malformed", none)
  | _ => ("malformed", none)

/-! ### the oracle, on the implementation's answer -/

def parseMap (s : String) : List (String × String) :=
  if s == "-" then []
  else (s.splitOn ",").filterMap fun item =>
    match item.splitOn "=" with
    | [k, v] => some (k, v)
    | _ => none

/-- narrow classifier of a database that differs from the fresh one -/
def classifyDiff (db fr : String) (events : List Raw) : String :=
  match db.splitOn "|", fr.splitOn "|" with
  | [iso, sc, ex], [fiso, fsc, fex] =>
    let m := parseMap iso
    let fm := parseMap fiso
    let missing := fm.filter fun kv => !(m.any fun x => x.1 == kv.1)
    let extra := m.filter fun kv => !(fm.any fun x => x.1 == kv.1)
    let changed := fm.filter fun kv => m.any fun x => x.1 == kv.1 && x.2 != kv.2
    if let k :: _ := missing then
      let kp := parsePath k.1
      let evPaths := events.flatMap fun e => match e with
        | .remove p | .any p | .from_ p => [p]
        | .both s _ => [s]
        | _ => []
      if evPaths.any (fun a => strPrefix a kp && !isPrefix a kp) then "db:missing:string-prefix"
      else "db:missing"
    else if let k :: _ := extra then
      if !passesFilter (parsePath k.1) then "db:extra:unfiltered"
      else if k.2.startsWith "b" then "db:extra:non-utf8"
      else "db:extra:stale"
    else if !changed.isEmpty then "db:content-stale"
    else if sc != fsc then "db:schema-stale"
    else if ex != fex then "db:extensions-stale"
    else "db:differs"
  | _, _ => "db:unparsable"

def oracle (req impl : List String) (hyp : Option String) : String :=
  let steps := (req.drop 3).map parseStep
  let rec go (fields : List String) (step : Nat) (lastDb : String) : String :=
    match fields with
    | [] => "ok"
    | f :: rest =>
      if f.startsWith "fs:" then go rest (step + 1) lastDb
      else if f.startsWith "us:err:" then "bad:alive:fatal:" ++ (f.drop 7).toString
      else if f == "state-lost" || f == "panic" then "bad:alive:compile-panic"
      else if f == "ev:panic" then "bad:alive:categorise-panic"
      else if f.startsWith "db:" then go rest step (f.drop 3).toString
      else if f.startsWith "fr:init-error:" then "bad:db:fresh-init-error:" ++ (f.drop 14).toString
      else if f.startsWith "fr:" then
        let fr := (f.drop 3).toString
        if fr == lastDb then go rest step lastDb
        else
          -- `step` counts `fs:` fields; the first belongs to the initial compile
          let evs := match steps.getD (step - 2) none with
            | some st => st.events
            | none => []
          "bad:" ++ classifyDiff lastDb fr evs
      else if f.startsWith "A:diff" then "bad:arts:" ++ (f.drop 2).toString
      else go rest step lastDb
  match go impl 0 "" with
  | "ok" => (match hyp with | some h => "bad:hyp:" ++ h | none => "ok")
  | v => v

def handleLine (fields : List String) : String :=
  let (req, impl) := splitArrow fields
  match req with
  | "watch.run" :: _ =>
    let (ans, hyp) := modelAnswer F req impl
    ans ++ "\t" ++ oracle req impl hyp
  | _ => "unknown-op\tok"

end WatchDrv

/-- `HX_WATCH_FACTS=original` runs the model of the code as it was before the F10 repairs (used to
validate the model against a build of the unrepaired sources); default: the facts of the current source. -/
def main : IO Unit := do
  let v ← IO.getEnv "HX_WATCH_FACTS"
  let F := match v with
    | some "original" => originalFacts
    | some "repaired" => repairedFacts
    | _ => currentFacts
  runDriver (WatchDrv.handleLine F)
