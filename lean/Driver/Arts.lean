/-
Line-protocol driver of the `arts` family (C08, C13, C14, C24).

Input line:   op \t arg… \t => \t impl-answer-field…
Output line:  model-answer (space separated) \t oracle-verdict

Which fields of the implementation's answer the model reproduces, and which it only echoes (they are
measurements: parse flags of the external TypeScript oracle, exit classes, counts), is said per op below.
The verdict is always computed from the implementation's answer.

  ovl / ovlnc / ovlws (C24) reproduces: `ok` + the members of WhitespaceCharacter + the ordered overload patterns of iso.ts
  hole              (C13)  reproduces: `outside` | `ok` + the embedded text(s); echoes the swc parse flags
  artsp             (C13)  echoes everything (the answer is the external parser's verdict on every artifact)
  artsi             (C13)  reproduces: `ok` + the resolved target of every relative import; echoes the lists
  det*              (C14)  reproduces: `same`; echoes the counts
  cm                (C08)  reproduces: `nopanic` | the signature of the modelled panic site; echoes the rest
  co / raw / watch  (C08)  echoes everything (oracle only: unmodelled sites, raw mutations, watch mode)
-/
import IsoVerif.Model.Util
import IsoVerif.Model.IsoOverload
import IsoVerif.Gen.IsoOverloadLits
import IsoVerif.Model.TsLex
import IsoVerif.Model.Core.Wire
import IsoVerif.Model.Core.Imports
import IsoVerif.Model.Core.Determinism
import IsoVerif.Model.Core.ArtsPanic

open IsoVerif IsoVerif.Util

def splitArrow (fs : List String) : List String × List String :=
  (fs.takeWhile (· != "=>"), (fs.dropWhile (· != "=>")).drop 1)

def sp (xs : List String) : String := " ".intercalate xs

/-- `.` = empty list, else comma-separated hex items -/
def unhexList (s : String) : Option (List Bytes) :=
  if s == "." then some [] else (s.splitOn ",").mapM hexDecode

def hexList (xs : List Bytes) : String :=
  if xs.isEmpty then "." else ",".intercalate (xs.map hexEnc)

def unhexStrs (s : String) : Option (List String) :=
  (unhexList s).bind fun bs => bs.mapM bytesStr?

def hexStrs (xs : List String) : String := hexList (xs.map strBytes)

/-! ## C24 -/
namespace Ovl
open IsoVerif.IsoOverload IsoVerif.Core

def declOf (d : Core.Decl) : IsoOverload.Decl :=
  ⟨match d with | .clientField _ => .field | .clientPointer _ => .pointer | .entrypoint _ => .entrypoint,
   strBytes d.parent, strBytes d.name⟩

/-- `Whitespace<In>` with the member set read back from the IMPLEMENTATION's iso.ts -/
def stripWith (ws : List Bytes) : Nat → Bytes → Bytes
  | 0, lit => lit
  | fuel + 1, lit =>
    match ws.find? (fun m => !m.isEmpty && startsWith lit m) with
    | some m => stripWith ws fuel (lit.drop m.length)
    | none => lit

def acceptsWith (ws : List Bytes) (pat lit : Bytes) : Bool := startsWith (stripWith ws (lit.length + 1) lit) pat

/-- TypeScript overload resolution over the IMPLEMENTATION's pattern list -/
def firstPat (ws : List Bytes) : List Bytes → Bytes → Option Bytes
  | [], _ => none
  | p :: ps, lit => if acceptsWith ws p lit then some p else firstPat ws ps lit

/-- the value of a template literal: CR LF and CR become LF (ECMAScript TV) -/
def cook : Bytes → Bytes
  | [] => []
  | 13 :: 10 :: rest => 10 :: cook rest
  | 13 :: rest => 10 :: cook rest
  | b :: rest => b :: cook rest

/-- leading white space that `parse_iso_literal` accepts before the keyword and that the generated file must
strip: space, tab, LF, and CR / CR LF as they reach the type (cooked) -/
def leads : List Bytes :=
  [[], [10, 32, 32], [32, 9], [10, 10, 9], [9], [9, 9], [10, 9, 9], [13, 10, 9], [13], [32, 13, 10, 32]]
def rests : List Bytes := [[], [32, 123], [40], [32, 64, 99, 111, 109, 112, 111, 110, 101, 110, 116], [10], [123]]

def nonCanonical (variant : String) (d : IsoOverload.Decl) : Bytes :=
  match variant with
  | "twospace" => keyword d.kind ++ [32, 32] ++ d.ty ++ [46] ++ d.name ++ [32, 123]
  | "dotspace" => keyword d.kind ++ [32] ++ d.ty ++ [32, 46, 32] ++ d.name ++ [32, 123]
  | "tabsep" => keyword d.kind ++ [9] ++ d.ty ++ [46] ++ d.name ++ [32, 123]
  | _ => pattern d

/-- the literal of an `ovlws` case as written in the source file -/
def wsLead (variant : String) : Bytes :=
  match variant with
  | "ws-tab" => [9]
  | "ws-tabs" => [9, 9]
  | "ws-cr" => [13]
  | "ws-crlf" => [13, 10, 9]
  | "ws-ff" => [12]
  | "ws-bom" => [0xEF, 0xBB, 0xBF]
  | _ => []

def charName (rest : Bytes) : String :=
  match rest with
  | 32 :: _ => "space" | 9 :: _ => "tab" | 10 :: _ => "lf" | 13 :: _ => "cr" | 12 :: _ => "ff" | 11 :: _ => "vt"
  | 0xEF :: 0xBB :: 0xBF :: _ => "bom"
  | b :: _ => "x" ++ hexEncode [b]
  | [] => "none"

/-- `none` = resolves to its own overload -/
def failure (ws ps : List Bytes) (d : IsoOverload.Decl) (lead rest : Bytes) : Option String :=
  let lit := cook lead ++ pattern d ++ rest
  if firstPat ws ps lit == some (pattern d) then none
  else if firstPat ws ps (pattern d ++ rest) == some (pattern d) then
    -- the header itself resolves: the leading white space is what is not stripped
    some ("leading-whitespace-not-stripped:" ++ charName (stripWith ws (lit.length + 1) (cook lead)))
  else some "canonical-mismatch"

def firstSome {α β} (xs : List α) (f : α → Option β) : Option β :=
  xs.foldl (fun acc x => match acc with | some b => some b | none => f x) none

def run (variant : Option String) (wire : String) (impl : List String) : String :=
  match Core.Wire.parseProject wire with
  | none => "bad-wire\tok"
  | some p =>
    let decls := p.decls.map fun d => declOf d.2
    let model := sp ["ok", hexList Gen.IsoOverloadLits.whitespace, hexList ((overloads decls).map pattern)]
    let verdict :=
      match impl with
      | ["ok", wsH, pats] =>
        match unhexList wsH, unhexList pats with
        | some ws, some ps =>
          if decls.any (fun d => !ps.contains (pattern d)) then "bad:missing-overload"
          else match variant with
            | none =>
              match firstSome decls (fun d => firstSome leads fun l => firstSome rests fun r => failure ws ps d l r) with
              | none => "ok"
              | some f => "bad:" ++ f
            | some v =>
              if v.startsWith "ws-" then
                match firstSome decls (fun d => firstSome rests fun r => failure ws ps d (wsLead v) r) with
                | none => "ok"
                | some f => "bad:" ++ f
              else if decls.all (fun d => firstPat ws ps (nonCanonical v d) == some (pattern d)) then "ok"
              else "bad:noncanonical-header"
        | _, _ => "bad:unparsable-impl-answer"
      | _ => "ok"       -- rejected / panic: no iso.ts to judge (the disagreement with the model is reported)
    model ++ "\t" ++ verdict

end Ovl

/-! ## C13 holes -/
namespace Holes
open IsoVerif.TsLex

def enc (t : Text) : String := hexEnc (encodeUtf8 t)

def sigOf : Hole → String
  | .desc => "hole:doc-comment-terminator"
  | .strSingle => "hole:single-quote-in-operation-text"
  | .strDouble => "hole:double-quote-in-string-value"
  | .header => "hole:header-line-terminator"
  | .path => "hole:import-path-quote"
  | .name => "hole:name"

def dotdot : Text := [46, 46, 47, 46, 46, 47, 46, 46, 47]     -- "../../../"

def check (h : Hole) (implHex : String) : Option String :=
  match hexDecode implHex with
  | none => some "bad:unparsable-impl-answer"
  | some b => if holeOk h (decodeUtf8 b) then none else some ("bad:" ++ sigOf h)

def run (kind hex : String) (impl : List String) : String :=
  match hexDecode hex with
  | none => "bad-hex\tok"
  | some bytes =>
    let valid := (bytesStr? bytes).isSome
    let t := decodeUtf8 bytes
    let echo := fun (n : Nat) => sp (impl.drop n)
    let parseFail := fun (flags : String) (k : String) =>
      if flags.toList.all (· == '1') then "ok" else "bad:hole:parse-fail:" ++ k
    match kind with
    | "desc" =>
      if !(valid && descDomain t) then "outside\tok" else
      let model := sp ["ok", enc (Hole.embed .desc t), echo 2]
      let verdict := match impl with
        | ["ok", e, flags] => (check .desc e).getD (parseFail flags "desc")
        | _ => "ok"
      model ++ "\t" ++ verdict
    | "strarg" =>
      if !(valid && strArgDomain t) then "outside\tok" else
      let model := sp ["ok", enc (Hole.embed .strSingle t), enc (Hole.embed .strDouble t), echo 3]
      let verdict := match impl with
        | ["ok", e1, e2, flags] =>
          match check .strSingle e1 with
          | some v => v
          | none => (check .strDouble e2).getD (parseFail flags "strarg")
        | _ => "ok"
      model ++ "\t" ++ verdict
    | "header" =>
      if !(valid && headerDomain t) then "outside\tok" else
      let model := sp ["ok", enc (Hole.embed .header t), echo 2]
      let verdict := match impl with
        | ["ok", e, flags] => (check .header e).getD (parseFail flags "header")
        | _ => "ok"
      model ++ "\t" ++ verdict
    | "path" =>
      if !(valid && pathDomain t) then "outside\tok" else
      let model := sp ["ok", enc (dotdot ++ Hole.embed .path t), echo 2]
      let verdict := match impl with
        | ["ok", e, flags] => (check .path e).getD (parseFail flags "path")
        | _ => "ok"
      model ++ "\t" ++ verdict
    | _ => "bad-kind\tok"

end Holes

/-! ## C13 artifacts -/
namespace Arts
open IsoVerif.Core.Imports

/-- class of an unresolved import: the stem of the target, with its directory when that is a generated
`__…` field directory -/
def targetClass (target : String) : String :=
  let comps := target.splitOn "/"
  let last := comps.getLast?.getD ""
  let stem := if last.endsWith ".ts" then (last.dropEnd 3).toString else last
  match comps.dropLast.getLast? with
  | some d => if d.startsWith "__" && d != "__isograph" then d ++ "/" ++ stem else stem
  | none => stem

/-- classes that are open findings; reported last so that they never hide a different class on the same case -/
def lowPriority : List String := ["parameters_type", "__link/output_type"]

def runParse (impl : List String) : String :=
  let model := sp impl
  let verdict :=
    match impl with
    | "ok" :: fails :: _ =>
      match unhexStrs fails with
      | none => "bad:unparsable-impl-answer"
      | some [] => "ok"
      | some (f :: _) => "bad:" ++ f
    | _ => "ok"
  model ++ "\t" ++ verdict

def runImports (impl : List String) : String :=
  match impl with
  | ["ok", resolved, paths, sources, ifiles, ispecs, bare] =>
    match unhexStrs resolved, unhexStrs paths, unhexStrs sources, unhexStrs ifiles, unhexStrs ispecs with
    | some rs, some ps, some ss, some fs, some specs =>
      let mine := (fs.zip specs).map fun (f, s) => resolveStr f s
      let model := sp ["ok", hexStrs mine, paths, sources, ifiles, ispecs, bare]
      let bad := (rs.filter fun r => !resolvesIn ps ss r).map targetClass
      let verdict :=
        match bad.filter (fun c => !lowPriority.contains c), bad with
        | c :: _, _ => "bad:import-unresolved:" ++ c
        | [], c :: _ => "bad:import-unresolved:" ++ c
        | [], [] => if fs.length == specs.length && rs.length == fs.length then "ok" else "bad:unparsable-impl-answer"
      model ++ "\t" ++ verdict
    | _, _, _, _, _ => sp impl ++ "\tbad:unparsable-impl-answer"
  | _ => sp impl ++ "\tok"     -- rejected / panic: nothing generated

end Arts

/-! ## C14 -/
namespace Det

def run (impl : List String) : String :=
  let model := sp ("same" :: impl.drop 1)
  let verdict :=
    match impl with
    | m :: _ =>
      if m == "same" then "ok"
      else if m.startsWith "differ:" then "bad:nondeterministic:" ++ (m.drop 7).toString
      else "bad:" ++ m
    | [] => "bad:empty-answer"
  model ++ "\t" ++ verdict

end Det

/-! ## C08 -/
namespace Crash
open IsoVerif.Core

def verdictOf (impl : List String) : String :=
  match impl with
  | m :: _ =>
    -- `config-rejected`: the configuration file itself is malformed (outside the property's quantifier)
    if m == "nopanic" || m == "skipped-cyclic" || m == "config-rejected" then "ok" else "bad:" ++ m
  | [] => "bad:empty-answer"

def runModelled (wire : String) (impl : List String) : String :=
  match Core.Wire.parseProject wire with
  | none => "bad-wire\tok"
  | some p => sp (ArtsPanic.outcomeStr p :: impl.drop 1) ++ "\t" ++ verdictOf impl

def runEcho (impl : List String) : String := sp impl ++ "\t" ++ verdictOf impl

end Crash

def handle (fs : List String) : String :=
  let (req, impl) := splitArrow fs
  match req with
  | ["ovl", wire] => Ovl.run none wire impl
  | ["ovlnc", v, wire] => Ovl.run (some v) wire impl
  | ["ovlws", v, wire] => Ovl.run (some v) wire impl
  | ["hole", kind, hex] => Holes.run kind hex impl
  | "artsp" :: _ => Arts.runParse impl
  | "artsdemop" :: _ => Arts.runParse impl
  | "artsi" :: _ => Arts.runImports impl
  | "artsdemoi" :: _ => Arts.runImports impl
  | "det" :: _ => Det.run impl
  | "detdiag" :: _ => Det.run impl
  | "detdup" :: _ => Det.run impl
  | "detep" :: _ => Det.run impl
  | ["cm", _, wire] => Crash.runModelled wire impl
  | "co" :: _ => Crash.runEcho impl
  | "cof" :: _ => Crash.runEcho impl
  | "raw" :: _ => Crash.runEcho impl
  | "watch" :: _ => Crash.runEcho impl
  | _ => "bad-op\tok"

def main : IO Unit := runDriver handle
