/-
Line-protocol driver for M-PICO (C01, C02, C03).
Input line:   op \t arg… \t => \t impl-answer-field…
Output line:  model-answer \t oracle-verdict
The engine tag on the `case` line (c01 / c02 / c03) selects which property's oracle gives the verdict.
-/
import IsoVerif.Model.Util
import IsoVerif.Model.Pico
import IsoVerif.Model.PicoOracle
import IsoVerif.Model.PicoIntern
import IsoVerif.Model.PicoSpec

open IsoVerif IsoVerif.Util IsoVerif.Pico IsoVerif.Pico.Oracle IsoVerif.Pico.Intern

def fuelD : Nat := 48

def splitArrow (fs : List String) : List String × List String :=
  (fs.takeWhile (· != "=>"), (fs.dropWhile (· != "=>")).drop 1)

/-! ### parsing -/

def tokNum (t : String) : Option Nat := (t.drop 1).toString.toNat?

partial def parseExpr : List String → Option (Expr × List String)
  | [] => none
  | t :: rest =>
    match t.toList.head? with
    | some 'l' => (tokNum t).map (fun n => (.lit n, rest))
    | some 'p' => some (.param, rest)
    | some 's' => (parseExpr rest).map (fun (k, r) => (.src k, r))
    | some 'g' => (tokNum t).map (fun n => (.sing (n % 2), rest))
    | some 't' => (tokNum t).map (fun n => (.trk (n % 2), rest))
    | some 'c' => do
      let f ← tokNum t
      let (a, r) ← parseExpr rest
      pure (.call f a, r)
    | some '+' => do
      let (a, r) ← parseExpr rest
      let (b, r) ← parseExpr r
      pure (.add a b, r)
    | some '=' => do
      let (a, r) ← parseExpr rest
      let (b, r) ← parseExpr r
      pure (.eq a b, r)
    | some '?' => do
      let (c, r) ← parseExpr rest
      let (a, r) ← parseExpr r
      let (b, r) ← parseExpr r
      pure (.ite c a b, r)
    | some 'h' => (parseExpr rest).map (fun (k, r) => (.half k, r))
    | _ => none

def parseFn (field : String) : Option Fn :=
  match field.splitOn ":" with
  | [k, e] =>
    match k.toNat?, parseExpr ((e.splitOn " ").filter (· != "")) with
    | some kind, some (body, []) => some ⟨kind, body⟩
    | _, _ => none
  | _ => none

def parseProg (fields : List String) : Option Prog := fields.mapM parseFn

def parseOp (req : List String) : Option Op :=
  let n (s : String) := s.toNat?
  match req with
  | ["set", k, v] => do pure (.set (← n k) (← n v))
  | ["rem", k] => do pure (.rem (← n k))
  | ["sset", i, v] => do pure (.sset ((← n i) % 2) (← n v))
  | ["srem", i] => do pure (.srem ((← n i) % 2))
  | ["tins", m, k] => do pure (.tins ((← n m) % 2) (← n k))
  | ["trem", m, k] => do pure (.trem ((← n m) % 2) (← n k))
  | ["call", f, a] => do pure (.call (← n f) (← n a))
  | ["look", f, a] => do pure (.look (← n f) (← n a))
  | ["retain", f, a] => do pure (.retain (← n f) (← n a))
  | ["unretain", f, a] => do pure (.unretain (← n f) (← n a))
  | ["nevergc", f, a] => do pure (.nevergc (← n f) (← n a))
  | ["gc"] => some .gc
  | _ => none

/-! ### printing -/

def panicStr : Panic → String
  | .absentSource => "absent"
  | .cyclic => "cyclic"
  | .missingNode => "missing"
  | .gcMissing => "gcmissing"
  | .fuel => "fuel"

def runsStr (r : List Nat) : String :=
  if r.isEmpty then "-" else ",".intercalate (r.map toString)

def outStr (o : Out) (isCall : Bool) (runs : List Nat) : String :=
  let suffix := if isCall then " " ++ runsStr runs else ""
  match o with
  | .ok => "ok"
  | .val v => s!"val {v}" ++ suffix
  | .panic p => "panic:" ++ panicStr p ++ suffix
  | .noref => "noref"
  | .dead => "dead"

/-! ### state -/

structure St where
  engine : String
  P : Prog
  s : Storage
  I : Ideal
  g : GcSpec
  implRuns : List Nat
  hadPanic : Bool
  absentRead : List Key
  removed : List Key
  layer : Layer
  /-- so far every call found every stored node (and the called node) strictly evaluable from scratch -/
  cleanSoFar : Bool

def St.init : St :=
  ⟨"c01", [], Storage.init 10 0, Ideal.init, GcSpec.init 10, [], false, [], [], Layer.init, true⟩

def isPresent (σ : Srcs) (k : Key) : Bool := (alookup σ.vals k).isSome

def isSingLike : Key → Bool
  | .src _ => false
  | _ => true

/-- the implementation's answer to a call / look: value or panic class -/
def implRes (impl : List String) : Option (Sum Nat String) :=
  match impl with
  | "val" :: v :: _ => v.toNat?.map Sum.inl
  | p :: _ => if p.startsWith "panic:" then some (Sum.inr (p.drop 6).toString) else none
  | [] => none

def implRunsOf (impl : List String) : Option (List Nat) :=
  match impl with
  | ["val", _, r] => some (parseRuns r)
  | [_, r] => some (parseRuns r)
  | _ => none

/-! ### C01 -/

/-- every source key read by a from-scratch evaluation of `id` (also on the way to a panic) -/
def scratchKeys (P : Prog) (I : Ideal) (id : NodeId) : List Key :=
  (visit fuelD P { I with nodes := [], trace := [], stack := [], ran := [] } id).1.trace

def c01Call (st : St) (I' : Ideal) (id : NodeId) (impl : List String) : String × Bool :=
  -- returns (verdict, mismatch)
  let scratch := evalS fuelD st.P I'.σ.vals I'.σ.maps [] id
  match scratch with
  | .panic .fuel => ("ok", false)
  | _ =>
    let agrees := match implRes impl, scratch with
      | some (.inl v), .ok v' => v == v'
      | some (.inr c), .panic p => c == panicStr p
      | _, _ => false
    if agrees then ("ok", false)
    else
      let keys := scratchKeys st.P I' id
      let sig :=
        if st.hadPanic then "stale-after-panic"
        else if keys.any (fun k => isSingLike k && isPresent I'.σ k && st.absentRead.contains k) then "stale-absent-singleton"
        else if keys.any (fun k => !(isPresent I'.σ k) && st.removed.contains k) then "stale-after-remove"
        else match implRes impl, scratch with
          | some (.inr _), .ok _ => "panic-instead-of-value"
          | some (.inl _), .panic _ => "value-instead-of-panic"
          | none, _ => "unparsable-impl-answer"
          | _, _ => "stale-other"
      ("bad:" ++ sig, true)

/-! ### C02 -/

def classOfOverrun (Ibefore Iafter : Ideal) (n : NodeId) : Nat × String :=
  match alookup Ibefore.nodes n with
  | none => (2, "rerun-unclassified")
  | some nd =>
    let keys := itransSources Iafter.nodes n
    let changed := keys.any (fun k => chgOf Iafter k > nd.checkedAt)
    let eqw := keys.any (fun k => (alookup Iafter.eqw k).getD 0 > nd.ranOp)
    if changed then (1, "rerun-spurious-dep")
    else if eqw then (3, "rerun-equal-write")
    else (4, "rerun-unrelated-write")

def c02Call (st : St) (I' : Ideal) (s' : Storage) (impl : List String) : String :=
  if I'.tainted || st.I.tainted then "ok" else
  match implRunsOf impl with
  | none => "bad:unparsable-impl-answer"
  | some ir =>
    let d := deltas st.implRuns ir
    let over := (List.range d.length).filter (fun f => d.getD f 0 > count I'.ran f)
    if over.isEmpty then "ok"
    else
      -- name the failure: which nodes did the (agreeing) model execute beyond the ideal ones?
      let newLog := s'.log.take (s'.log.length - st.s.log.length)
      let extra := newLog.filter (fun n => !(I'.ran.contains n) && over.contains n.fn)
      if s'.runs != ir || extra.isEmpty then "bad:rerun-unclassified"
      else
        let cls := extra.map (classOfOverrun st.I I')
        let best := cls.foldl (fun acc c => if c.1 > acc.1 then c else acc) (0, "rerun-unclassified")
        "bad:" ++ best.2

/-! ### C03 -/

def c03 (st : St) (I' : Ideal) (op : Op) (impl : List String) (changed : Bool) : GcSpec × String :=
  let g := st.g
  let g := if changed then { g with promised := [], lastChangeOp := I'.opn } else g
  match op with
  | .call f a =>
    let id := nodeOf st.P f a
    match implRes impl with
    | some (.inl v) =>
      let verdict :=
        match alookup g.promised id with
        | some pv =>
          let d := deltas st.implRuns ((implRunsOf impl).getD [])
          if d.any (· > 0) then "bad:gc-rerun-root"
          else if pv.isSome && pv != some v then "bad:gc-value-changed" else "ok"
        | none => "ok"
      ({ g with recent := id :: g.recent.erase id, refs := if g.refs.contains id then g.refs else id :: g.refs,
                lastVal := ainsert g.lastVal id (v, I'.opn), collectable := g.collectable.erase id,
                promised := if verdict == "ok" then g.promised else aerase g.promised id }, verdict)
    | _ =>
      (g, if (alookup g.promised id).isSome then "bad:gc-call-panic" else "ok")
  | .look f a =>
    let id := nodeOf st.P f a
    match alookup g.promised id, implRes impl with
    | some (some pv), some (.inl v) => (g, if pv == v then "ok" else "bad:gc-value-changed")
    | some _, some (.inr _) => (g, "bad:gc-lookup-failed")
    | _, _ => (g, "ok")
  | .retain f a =>
    let id := nodeOf st.P f a
    if impl == ["ok"] then
      ({ g with retained := retainInc g.retained id, guards := id :: g.guards,
                staleRetain := g.staleRetain || g.collectable.contains id }, "ok")
    else (g, "ok")
  | .unretain f a =>
    let id := nodeOf st.P f a
    if impl == ["ok"] then ({ g with retained := retainDec g.retained id, guards := g.guards.erase id }, "ok") else (g, "ok")
  | .nevergc f a =>
    let id := nodeOf st.P f a
    if impl == ["ok"] then ({ g with guards := g.guards.erase id }, "ok") else (g, "ok")
  | .gc =>
    if impl == ["ok"] then
      -- roots that were called after the last source change: nothing can justify re-running them
      let fresh := g.roots.filter (fun r => match alookup g.lastVal r with
        | some (_, whenOp) => whenOp > g.lastChangeOp
        | none => false)
      let keep := iclosure I'.nodes (closureFuel I'.nodes fresh) fresh []
      let promised := keep.map (fun n => (n, if fresh.contains n then (alookup g.lastVal n).map (·.1) else none))
      let alive := iclosure I'.nodes (closureFuel I'.nodes g.roots) g.roots []
      let gone := (g.lastVal.map (·.1)).filter (fun n => !(alive.contains n) && !(g.collectable.contains n))
      ({ g with promised := promised, collectable := gone ++ g.collectable }, "ok")
    else if impl == ["dead"] then (g, "ok")
    else (g, if st.hadPanic then "bad:gc-panic-after-failed-call"
             else if g.staleRetain then "bad:gc-panic-stale-retain"
             else "bad:gc-panic-root-was-evicted")
  | _ => (g, "ok")

/-! ### one line -/

def handle (st : St) (fs : List String) : St × String :=
  let (req, impl) := splitArrow fs
  match req with
  | "case" :: _ :: capS :: rest =>
    let cap := max 1 (capS.toNat?.getD 10)
    let eng := rest.headD "c01"
    ({ St.init with engine := eng, s := Storage.init cap 0, g := GcSpec.init cap }, "ok\tok")
  | "prog" :: _ :: fns =>
    match parseProg fns with
    | some P => ({ st with P := P, s := Storage.init st.s.cap P.length, implRuns := List.replicate P.length 0 }, "ok\tok")
    | none => (st, "bad-op\tok")
  | ["where", vS] =>
    if impl == ["dead"] || st.s.poisoned then (st, "dead\tok") else
    let v := vS.toNat?.getD 0
    let ans := match whereIs st.s st.layer v with
      | .noref => "noref"
      | .missing => "panic:missing"
      | .inNode n => s!"in {n.fn} {n.arg}"
      | .none => "none"
    -- C03: an interned reference obtained from a promised query must still point into a live value
    let holders := st.g.promised.filter (fun p => (fnOf st.P p.1.fn).kind == 3 &&
      (match alookup st.I.nodes p.1 with | some nd => nd.val == v | none => false))
    let bad := !holders.isEmpty && (impl == ["none"] || impl == ["panic:missing"])
    let verdict := if st.engine == "c03" && bad then "bad:intern-ref-dangling" else "ok"
    (st, ans ++ "\t" ++ verdict)
  | _ =>
    match parseOp req with
    | none => (st, "bad-op\tok")
    | some (op : Op) =>
      -- the model
      let ((s' : Storage), (o : Out)) := step fuelD st.P st.s op
      let isCall := match op with | .call _ _ => true | _ => false
      let layer' := Layer.step st.P st.s s' op st.layer
      let modelAns := outStr o isCall s'.runs
      let st := { st with layer := layer' }
      if impl == ["dead"] then ({ st with s := s' }, modelAns ++ "\tok") else
      -- the oracles' own bookkeeping
      let I0 : Ideal := { st.I with ran := [], opn := st.I.opn + 1 }
      let I1 : Ideal := I0.applySrc op
      let changed := I1.clock != I0.clock
      let removed := match op with
        | .rem k => if st.removed.contains (.src k) then st.removed else .src k :: st.removed
        | .srem i => if st.removed.contains (.sing i) then st.removed else .sing i :: st.removed
        | _ => st.removed
      match op with
      | .call f a =>
        let id := nodeOf st.P f a
        let (I2, r) := visit fuelD st.P I1 id
        let I2 := { I2 with stack := [], tainted := I2.tainted || (match r with | .panic _ => true | _ => false) }
        let strictOk (n : NodeId) : Bool := match evalS fuelD st.P I2.σ.vals I2.σ.maps [] n with | .ok _ => true | .panic _ => false
        let cleanNow := st.cleanSoFar && strictOk id && st.s.derived.all (fun p => strictOk p.1)
        let (v1, mismatch) := c01Call st I2 id impl
        let v1 := if mismatch && cleanNow then v1 ++ ":CLEAN" else v1
        let v2 := c02Call st I2 s' impl
        let (g', v3) := c03 st I2 op impl changed
        let implPanic := match implRes impl with | some (.inr _) => true | _ => false
        let keys := scratchKeys st.P I2 id
        let absentNow := keys.filter (fun k => !(isPresent I2.σ k) && !(st.absentRead.contains k))
        -- the ideal memoiser and the implementation have drifted apart once the implementation ran
        -- fewer bodies than the ideal one (it served a node the ideal one considers out of date —
        -- C01's business) or more (already reported): C02 makes no claim for the rest of the case
        let drift := match implRunsOf impl with
          | some ir => let d := deltas st.implRuns ir
                       (List.range d.length).any (fun f => d.getD f 0 != count I2.ran f)
          | none => true
        let I3 := { I2 with tainted := I2.tainted || mismatch || implPanic || drift }
        -- when a GC dropped nodes the ideal memoiser cannot know; nodes the model no longer holds are forgotten after gc (see gc below)
        let st' := { st with s := s', I := I3, g := g', implRuns := (implRunsOf impl).getD st.implRuns,
                             cleanSoFar := cleanNow, hadPanic := st.hadPanic || implPanic, absentRead := absentNow ++ st.absentRead, removed := removed }
        let verdict := match st.engine with
          | "c01" => v1 | "c02" => v2 | "c03" => v3
          | _ => if v1 != "ok" then v1 else if v2 != "ok" then v2 else v3
        (st', modelAns ++ "\t" ++ verdict)
      | .gc =>
        let (g', v3) := c03 st I1 op impl changed
        -- C02 allows re-execution of what the collector discarded: the ideal memoiser forgets the
        -- nodes that the (agreeing) model no longer holds
        let I2 := { I1 with nodes := I1.nodes.filter (fun p => (alookup s'.derived p.1).isSome) }
        let st' := { st with s := s', I := I2, g := g', removed := removed }
        let verdict := match st.engine with
          | "c03" => v3 | "c01" => "ok" | "c02" => "ok" | _ => v3
        (st', modelAns ++ "\t" ++ verdict)
      | _ =>
        let (g', v3) := c03 st I1 op impl changed
        let st' := { st with s := s', I := I1, g := g', removed := removed }
        let verdict := match st.engine with
          | "c03" => v3 | "c01" => "ok" | "c02" => "ok" | _ => v3
        (st', modelAns ++ "\t" ++ verdict)

def main : IO Unit := runDriverS handle St.init
