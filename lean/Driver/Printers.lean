/-
Line-protocol driver of the `printers` family (C11, C12, C26, C27).

Input line:   <prop>.<op> \t arg… \t => \t impl-answer-field…
Output line:  model-answer \t oracle-verdict

ops: `op` (one entrypoint / refetch query: wire line of the dump hook), `param` (one parameter
type), `persisted` (C26: the persisted documents file of a project), `alias` (engine alias),
`fail` (the project did not compile: no model answer).
The prefix selects the oracle evaluated on the IMPLEMENTATION's answer.
-/
import IsoVerif.Model.Core.Oracles

open IsoVerif IsoVerif.Core

def splitArrow (fs : List String) : List String × List String :=
  (fs.takeWhile (· != "=>"), (fs.dropWhile (· != "=>")).drop 1)


def handle (fs : List String) : String :=
  let (req, impl) := splitArrow fs
  match req with
  | [] => "bad-op\tok"
  | op :: args =>
    match op.splitOn "." with
    | [prop, "op"] =>
      match args with
      | [_spec, wire, dg] => Drv.opLine prop (Drv.toks wire) (Drv.toks dg) impl
      | _ => "bad-op\tok"
    | [prop, "param"] =>
      match args with
      | [_spec, wire] => Drv.paramLine prop (Drv.toks wire) impl
      | _ => "bad-op\tok"
    | [_, "persisted"] =>
      match args with
      | [_spec, wires, table, plain] => Drv.persistedLine (Drv.toks wires) (Drv.toks table) (Drv.toks plain) impl
      | _ => "bad-op\tok"
    | [prop, "alias"] => Drv.aliasLine prop args impl
    | [_, "alias2"] => Drv.alias2Line args impl
    | [_, "fail"] => "-\tok"
    | _ => "bad-op\tok"

def main : IO Unit := IsoVerif.Util.runDriver handle
