/-
Line-protocol driver for M-MEMO (property C04).
Input line:   op \t arg… \t => \t impl-answer-field…
Output line:  model-answer \t oracle-verdict

  samesig.hist \t call;call;…      call = qid/base/arg,arg,…  (`-` = no argument)
      the history is replayed on the store model, keyed with `currentRecipe` over the real
      `DefaultHasher` values of the harness functions' signature texts (table from T4).
      oracle (on the implementation's answer): every call returned its own function's value
      `base + Σ args`; otherwise `bad:same-signature-collision[:same-module]` when the value is the
      own value of another function of the history with the same signature text, else
      `bad:wrong-value`.
  samesig.key \t qid \t base \t args \t key
      model: `found <own value>` iff `key` is the key the model computes for qid, else `missing`
      (ties T4's prediction and the Lean fold to the key the real macro built).
-/
import IsoVerif.Model.Util
import IsoVerif.Model.Memo

open IsoVerif IsoVerif.Util IsoVerif.Memo

def splitArrow (fs : List String) : List String × List String :=
  (fs.takeWhile (· != "=>"), (fs.dropWhile (· != "=>")).drop 1)

def natOfDigits (s : String) : Option Nat :=
  if s.isEmpty || s.length > 6 || !(s.toList.all Char.isDigit) then none else s.toNat?

def parseArgs (s : String) : Option (List Nat) :=
  if s == "-" then some [] else (s.splitOn ",").mapM natOfDigits

structure Call where
  site : Gen.MemoSigs.Site
  base : Nat
  args : List Nat

def Call.own (c : Call) : Nat := c.base + c.args.sum
def Call.fn (c : Call) : MemoFn := ⟨declOf c.site, fun a => c.base + a.sum⟩

def parseCall (s : String) : Option Call :=
  match s.splitOn "/" with
  | [qid, baseS, argS] =>
    match Gen.MemoSigs.harnessSites.filter (fun st => st.qid == qid), baseS.toNat?, parseArgs argS with
    | [st], some base, some args =>
      if baseS.toList.all Char.isDigit && args.length == st.arity then some ⟨st, base, args⟩ else none
    | _, _, _ => none
  | _ => none

def modelKey : FnDecl → Nat := keyOf harnessHash currentRecipe

def joinSp (xs : List String) : String := " ".intercalate xs

def histVerdict (calls : List Call) (impl : List String) : String :=
  if impl == ["panic"] then "bad:panic" else
  if impl.length != calls.length then "bad:unparsable-impl-answer" else
  let rec go : List Call → List String → String
    | c :: cs, v :: vs =>
      match v.toNat? with
      | none => "bad:unparsable-impl-answer"
      | some n =>
        if n == c.own then go cs vs
        else
          match calls.find? (fun o => o.site.qid != c.site.qid && o.site.sig == c.site.sig && o.base + c.args.sum == n) with
          | some o =>
            if o.site.modulePath == c.site.modulePath then "bad:same-signature-collision:same-module"
            else "bad:same-signature-collision"
          | none => "bad:wrong-value"
    | _, _ => "ok"
  go calls impl

def hist (args impl : List String) : String :=
  match args with
  | [callsS] =>
    match (callsS.splitOn ";").mapM parseCall with
    | none => "bad-request\tok"
    | some calls =>
      let (_, vals) := run modelKey [] (calls.map fun c => (c.fn, c.args))
      joinSp (vals.map toString) ++ "\t" ++ histVerdict calls impl
  | _ => "bad-request\tok"

def keyProbe (args impl : List String) : String :=
  match args with
  | [qid, baseS, argS, keyS] =>
    match parseCall (qid ++ "/" ++ baseS ++ "/" ++ argS), (if keyS.toList.all Char.isDigit then keyS.toNat? else none) with
    | some c, some key =>
      if key ≥ 2 ^ 64 then "bad-request\tok" else
      let model := if modelKey (declOf c.site) == key then s!"found {c.own}" else "missing"
      let verdict :=
        match impl with
        | ["missing"] => "ok"
        | ["found", v] => if v.toNat? == some c.own then "ok" else "bad:wrong-value"
        | ["panic"] => "bad:panic"
        | _ => "bad:unparsable-impl-answer"
      model ++ "\t" ++ verdict
    | _, _ => "bad-request\tok"
  | _ => "bad-request\tok"

def handle (fs : List String) : String :=
  let (req, impl) := splitArrow fs
  match req with
  | "samesig.hist" :: args => hist args impl
  | "samesig.key" :: args => keyProbe args impl
  | _ => "bad-request\tok"

def main : IO Unit := runDriver handle
