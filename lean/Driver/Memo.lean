/-
Line-protocol driver for M-MEMO (property C04).
Input line:   op \t arg… \t => \t impl-answer-field…
Output line:  model-answer \t oracle-verdict

  samesig.hist \t call;call;…      call = qid/base/arg,arg,…  (`-` = no argument)
      the history is replayed on the store model, keyed with `currentRecipe` over the real
      `DefaultHasher` values of the harness functions' signature texts (table from T4).
      oracle (on the implementation's answer): every call returned its own function's value
      `base + Σ args`; otherwise, when the value is the own value of another function of the history
      with the same signature text: `bad:same-signature-collision:macro-generated` if the two share
      module path, line and column (one definition site), `…:same-module` if only the module path,
      plain `bad:same-signature-collision` else; any other value is `bad:wrong-value`.
      A function T4 cannot place (macro generated, include!-d) is named
      `~sigtag~arity~module_path~line~column~label`: its site comes from the request, and the unknown
      `DefaultHasher` value of its signature text is the table's default (equal for equal sigtags,
      which is all the hit/miss behaviour depends on).
  samesig.key \t qid \t base \t args \t key
      model: `found <own value>` iff `key` is the key the model computes for qid, else `missing`
      (ties T4's prediction and the Lean fold to the key the real macro built).
-/
import IsoVerif.Model.Util
import IsoVerif.Model.Memo

open IsoVerif IsoVerif.Util IsoVerif.Memo

def splitArrow (fs : List String) : List String × List String :=
  (fs.takeWhile (· != "=>"), (fs.dropWhile (· != "=>")).drop 1)

def natOfDigits (s : String) : Option Nat :=
  if s.isEmpty || s.length > 6 || !(s.toList.all Char.isDigit) then none else s.toNat?

def parseArgs (s : String) : Option (List Nat) :=
  if s == "-" then some [] else (s.splitOn ",").mapM natOfDigits

structure Call where
  qid : String
  decl : FnDecl
  arity : Nat
  base : Nat
  args : List Nat

def Call.own (c : Call) : Nat := c.base + c.args.sum
def Call.fn (c : Call) : MemoFn := ⟨c.decl, fun a => c.base + a.sum⟩

def utf8 (s : String) : Memo.Bytes := s.toUTF8.toList.map UInt8.toNat

/-- `qid ↦ (declaration, arity)`: from T4's table, or from the request for a `~…` name -/
def resolve (qid : String) : Option (FnDecl × Nat) :=
  if qid.startsWith "~" then
    match qid.splitOn "~" with
    | ["", tag, arityS, mp, lineS, colS, label] =>
      match natOfDigits arityS, natOfDigits lineS, natOfDigits colS with
      | some ar, some l, some c =>
        if tag.isEmpty || mp.isEmpty || label.isEmpty then none
        else some ({ modulePath := utf8 mp, line := l, col := c, name := utf8 label, sigText := utf8 ("~" ++ tag) }, ar)
      | _, _, _ => none
    | _ => none
  else
    match Gen.MemoSigs.harnessSites.filter (fun st => st.qid == qid) with
    | [st] => some (declOf st, st.arity)
    | _ => none

def parseCall (s : String) : Option Call :=
  match s.splitOn "/" with
  | [qid, baseS, argS] =>
    match resolve qid, baseS.toNat?, parseArgs argS with
    | some (d, ar), some base, some args =>
      if baseS.toList.all Char.isDigit && args.length == ar then some ⟨qid, d, ar, base, args⟩ else none
    | _, _, _ => none
  | _ => none

def modelKey : FnDecl → Nat := keyOf harnessHash currentRecipe

def joinSp (xs : List String) : String := " ".intercalate xs

def histVerdict (calls : List Call) (impl : List String) : String :=
  if impl == ["panic"] then "bad:panic" else
  if impl.length != calls.length then "bad:unparsable-impl-answer" else
  let rec go : List Call → List String → String
    | c :: cs, v :: vs =>
      match v.toNat? with
      | none => "bad:unparsable-impl-answer"
      | some n =>
        if n == c.own then go cs vs
        else
          match calls.find? (fun o => o.qid != c.qid && o.decl.sigText == c.decl.sigText && o.base + c.args.sum == n) with
          | some o =>
            if o.decl.modulePath == c.decl.modulePath && o.decl.line == c.decl.line && o.decl.col == c.decl.col then
              "bad:same-signature-collision:macro-generated"
            else if o.decl.modulePath == c.decl.modulePath then "bad:same-signature-collision:same-module"
            else "bad:same-signature-collision"
          | none => "bad:wrong-value"
    | _, _ => "ok"
  go calls impl

def hist (args impl : List String) : String :=
  match args with
  | [callsS] =>
    match (callsS.splitOn ";").mapM parseCall with
    | none => "bad-request\tok"
    | some calls =>
      let (_, vals) := run modelKey [] (calls.map fun c => (c.fn, c.args))
      joinSp (vals.map toString) ++ "\t" ++ histVerdict calls impl
  | _ => "bad-request\tok"

def keyProbe (args impl : List String) : String :=
  match args with
  | [qid, baseS, argS, keyS] =>
    match (if qid.startsWith "~" then none else parseCall (qid ++ "/" ++ baseS ++ "/" ++ argS)),
        (if keyS.toList.all Char.isDigit then keyS.toNat? else none) with
    | some c, some key =>
      if key ≥ 2 ^ 64 then "bad-request\tok" else
      let model := if modelKey c.decl == key then s!"found {c.own}" else "missing"
      let verdict :=
        match impl with
        | ["missing"] => "ok"
        | ["found", v] => if v.toNat? == some c.own then "ok" else "bad:wrong-value"
        | ["panic"] => "bad:panic"
        | _ => "bad:unparsable-impl-answer"
      model ++ "\t" ++ verdict
    | _, _ => "bad-request\tok"
  | _ => "bad-request\tok"

def handle (fs : List String) : String :=
  let (req, impl) := splitArrow fs
  match req with
  | "samesig.hist" :: args => hist args impl
  | "samesig.key" :: args => keyProbe args impl
  | _ => "bad-request\tok"

def main : IO Unit := runDriver handle
