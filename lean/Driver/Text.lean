/-
Line-protocol driver for the M-TEXT models (signedsource, text_with_carats).
Input line:   op \t arg… \t => \t impl-answer-field…
Output line:  model-answer \t oracle-verdict          (fields of the answer separated by spaces)
-/
import IsoVerif.Model.Signed
import IsoVerif.Model.Md5
import IsoVerif.Model.CaratsSpec

open IsoVerif IsoVerif.Util

def splitArrow (fs : List String) : List String × List String :=
  (fs.takeWhile (· != "=>"), (fs.dropWhile (· != "=>")).drop 1)

def boolStr (b : Bool) : String := if b then "true" else "false"

/-- Replace the character starting at byte offset `pos` (a boundary) by the bytes `rep`. -/
def editAt (s : Bytes) (pos : Nat) (rep : Bytes) : Bytes :=
  let rest := s.drop pos
  let clen := match rest with
    | [] => 0
    | _ :: tl => 1 + (tl.takeWhile (fun b => !(Carats.isLead b))).length
  s.take pos ++ rep ++ rest.drop clen

namespace SignedDrv
open Signed Gen.SignedLits

def h := Md5.md5Hex

/-- Signature classifier for oracle failures (DESIGN §4). -/
def classify (data : Bytes) : String :=
  let occ := (List.range (data.length + 1)).filter (fun i => isPrefix newToken (data.drop i))
  let bare := occ.any (fun i => !(i ≥ 11 && isPrefix signingToken (data.drop (i - 11))))
  if isSigned data then "prior-signature"
  else if bare then "bare-token"
  else if occ.length > 1 then "several-tokens"
  else "other"

/-- byte offsets covered by the hex digits of *some* signature of `s` -/
def inSomeSignature (s : Bytes) (pos : Nat) : Bool :=
  (List.range (s.length + 1)).any fun i =>
    matchHere (s.drop i) && decide (i + hashSliceStart ≤ pos) && decide (pos < i + hashSliceStart + reHexLen)

def c33 (args impl : List String) : String :=
  match args with
  | [dataH, posS, repH] =>
    match hexDecode dataH, posS.toNat?, hexDecode repH with
    | some data, some pos, some rep =>
      match trySignFile h data with
      | none => "none\t" ++ (if impl == ["none"] then "ok" else "ok")
      | some signed =>
        let v1 := isValidSignature h signed
        let edited := editAt signed pos rep
        let v2 := isValidSignature h edited
        let model := s!"{hexEnc signed} {boolStr v1} {boolStr v2}"
        -- oracle on the implementation's answer
        let verdict :=
          match impl with
          | [isH, iv1, iv2] =>
            match hexDecode isH with
            | some isigned =>
              let hasTok := contains signingToken data
              let iedited := editAt isigned pos rep
              -- the edit is outside the signature(s): it does not touch the hex digits of any signature
              let outside := !(inSomeSignature isigned pos)
              if hasTok && iv1 != "true" then "bad:verify:" ++ classify data
              else if hasTok && iv1 == "true" && outside && iedited != isigned && iv2 == "true" then "bad:tamper-accepted"
              else "ok"
            | none => "bad:unparsable-impl-answer"
          | _ => "bad:unparsable-impl-answer"
        model ++ "\t" ++ verdict
    | _, _, _ => "bad-op\tok"
  | _ => "bad-op\tok"

end SignedDrv

namespace CaratsDrv
open Carats CaratsSpec

def rowStr : Option (Nat × Nat) → String
  | none => "none"
  | some (r, _) => toString r

def render (args impl : List String) : String :=
  match args with
  | [textH, oS, sS, eS] =>
    match hexDecode textH, oS.toNat?, sS.toNat?, eS.toNat? with
    | some text, some o, some s, some e =>
      let model := match Carats.render text o s e 2 with
        | .ok t r => s!"ok {hexEnc t} {rowStr r}"
        | .panic _ => "panic"
      let verdict :=
        match impl with
        | ["panic"] => if oracle text (o + s) (o + e) 2 [] none true then "ok" else "bad:panic"
        | ["ok", outH, rowS] =>
          match hexDecode outH with
          | some out =>
            let row := if rowS == "none" then none else rowS.toNat?
            if oracle text (o + s) (o + e) 2 out row false then "ok"
            else
              let (so, sr) := specRender text (o + s) (o + e) 2
              if sr != row then "bad:row" else
              if so != out then "bad:carets" else "bad:other"
          | none => "bad:unparsable-impl-answer"
        | _ => "bad:unparsable-impl-answer"
      model ++ "\t" ++ verdict
    | _, _, _, _ => "bad-op\tok"
  | _ => "bad-op\tok"

end CaratsDrv

def handle (fs : List String) : String :=
  let (req, impl) := splitArrow fs
  match req with
  | "signed.c33" :: args => SignedDrv.c33 args impl
  | "carats.render" :: args => CaratsDrv.render args impl
  | _ => "bad-op\tok"

def main : IO Unit := runDriver handle
