/-
Line-protocol driver for the iso-literal family (lexer, parser, position resolution).
Input line:   op \t arg… \t => \t impl-answer-field…
Output line:  model-answer \t oracle-verdict

  iso.lex     <hex>          tokens of the lexer model
  iso.parse   <hex> <0|1>    parser model; oracle C07 on the implementation's answer:
                             no panic; every span `@s:e` of the tree, every semantic token and the
                             diagnostic span satisfy s ≤ e ≤ |text| on character boundaries;
                             semantic tokens non-empty, increasing and disjoint
  iso.resolve <hex>          resolve model on the model's parse for EVERY offset; oracle C32 on the
                             implementation's dumped span tree and chains: tree well nested and of the
                             shape T5 extracted; every chain is a root path of the tree whose non-root
                             nodes contain the offset and whose last node has no child containing it
-/
import IsoVerif.Model.Util
import IsoVerif.Model.IsoLex
import IsoVerif.Model.IsoParse
import IsoVerif.Model.Resolve

open IsoVerif IsoVerif.Util IsoVerif.Lex IsoVerif.IsoLex IsoVerif.Gen.IsoTokens IsoVerif.IsoParse

def splitArrow (fs : List String) : List String × List String :=
  (fs.takeWhile (· != "=>"), (fs.dropWhile (· != "=>")).drop 1)

namespace LexDrv
def render (s : List UInt8) : String :=
  let toks := isoTokens s
  let body := toks.map fun t => s!"{t.kind.name}:{t.s}:{t.e}"
  String.intercalate "," (body ++ [s!"eof:{s.length}:{s.length}"])

def run (args _impl : List String) : String :=
  match args with
  | [h] => match hexDecode h with
    | some s => render s ++ "\tok"
    | none => "bad-op\tok"
  | _ => "bad-op\tok"
end LexDrv

namespace ParseDrv

def str (b : List UInt8) : String := bytesStrLossy b
def sp (s : Span) : String := s!"@{s.s}:{s.e}"
def nm (l : Loc (List UInt8)) : String := str l.item ++ sp l.span
def lst (xs : List String) : String := "[" ++ String.intercalate ";" xs ++ "]"

mutual
  def value : Value → String
    | .var n => "$" ++ str n
    | .int i => "i" ++ toString i
    | .bool b => if b then "btrue" else "bfalse"
    | .str s => "s" ++ hexEnc s
    | .null => "n"
    | .obj es => "{" ++ String.intercalate ";" (entries es) ++ "}"
  def entries : Entries → List String
    | .nil => []
    | .cons n ns v vs tl => (str n ++ sp ns ++ ":" ++ value v ++ sp vs) :: entries tl
end

def args (a : List (Loc Arg)) : String :=
  lst (a.map fun x => "A(" ++ nm x.item.name ++ "," ++ value x.item.value.item ++ sp x.item.value.span ++ ")" ++ sp x.span)

def dirs (d : Loc (List (Loc Directive))) : String :=
  lst (d.item.map fun x => "D(" ++ nm x.item.name ++ "," ++ args x.item.args ++ ")" ++ sp x.span) ++ sp d.span

def ty : Ty → String
  | .named n nn => str n ++ (if nn then "!" else "")
  | .list inner isp nn => "[" ++ ty inner ++ sp isp ++ "]" ++ (if nn then "!" else "")

def vars (v : List (Loc VarDef)) : String :=
  lst (v.map fun x =>
    let d := match x.item.default with
      | none => "-"
      | some d => value d.item ++ sp d.span
    "V(" ++ nm x.item.name ++ "," ++ ty x.item.type.item ++ sp x.item.type.span ++ "," ++ d ++ ")" ++ sp x.span)

def desc : Option (Loc (List UInt8)) → String
  | none => "-"
  | some d => "d" ++ hexEnc d.item ++ sp d.span

def alias : Option (Loc (List UInt8)) → String
  | none => "-"
  | some a => nm a

def dirset : DirSet → String
  | .none => "none"
  | .updatable => "updatable"
  | .loadable b => "loadable:" ++ (if b then "true" else "false")

mutual
  def sel : Sel → String
    | .scalar s al n a d => "S(" ++ alias al ++ "," ++ nm n ++ "," ++ args a ++ "," ++ dirset d ++ ")" ++ sp s
    | .object s al n a d set ss =>
      "O(" ++ alias al ++ "," ++ nm n ++ "," ++ args a ++ "," ++ dirset d ++ "," ++
        "{" ++ String.intercalate ";" (sels set) ++ "}" ++ sp ss ++ ")" ++ sp s
  def sels : Sels → List String
    | .nil => []
    | .cons s tl => sel s :: sels tl
end

def selset (s : SelSet) : String := "{" ++ String.intercalate ";" (sels s.sels) ++ "}" ++ sp s.span

def semTok (t : SemTok) : String :=
  (match legend.lookup t.st.name with
   | some v => v
   | none => "?" ++ t.st.name) ++ sp t.span

def semToks (l : List SemTok) : String :=
  if l.isEmpty then "-" else String.intercalate ";" (l.map semTok)

def decl : Decl → String
  | .field s p n v d de set ex sem =>
    "F(" ++ nm p ++ "," ++ nm n ++ "," ++ vars v ++ "," ++ dirs d ++ "," ++ desc de ++ "," ++ selset set ++ "," ++ str ex ++ ")" ++ sp s
      ++ " " ++ semToks sem
  | .pointer s p n v t d de set ex sem =>
    "P(" ++ nm p ++ "," ++ nm n ++ "," ++ vars v ++ "," ++ ty t.item ++ sp t.span ++ "," ++ dirs d ++ "," ++ desc de ++ "," ++
      selset set ++ "," ++ str ex ++ ")" ++ sp s ++ " " ++ semToks sem
  | .entrypoint s p n kw dot d sem =>
    "E(" ++ nm p ++ "," ++ nm n ++ ",kw" ++ sp kw ++ ",dot" ++ sp dot ++ "," ++ dirs d ++ ")" ++ sp s ++ " " ++ semToks sem

def outcome : Outcome → String
  | .ok d => "ok " ++ decl d
  | .diag d => "diag " ++ d.kind.name ++ " " ++
      (match d.loc with
       | .span s => s!"{s.s}:{s.e}"
       | .gen => "gen")
  | .panic _ => "panic"
  | .fuel => "fuel"

/-! oracle on the implementation's answer -/

def digitsOf : List Char → List Char × List Char
  | cs => (cs.takeWhile Char.isDigit, cs.dropWhile Char.isDigit)

def natOf (ds : List Char) : Nat := ds.foldl (fun a c => a * 10 + (c.toNat - 48)) 0

/-- all `@s:e` in a string -/
partial def spansIn : List Char → List (Nat × Nat)
  | [] => []
  | '@' :: cs =>
    let (a, r) := digitsOf cs
    match r with
    | ':' :: r2 =>
      let (b, r3) := digitsOf r2
      if a.isEmpty || b.isEmpty then spansIn r3 else (natOf a, natOf b) :: spansIn r3
    | _ => spansIn r
  | _ :: cs => spansIn cs

def spanOk (text : List UInt8) (s : Nat × Nat) : Option String :=
  if s.1 > s.2 then some "span-order"
  else if s.2 > text.length then some "span-range"
  else if !(isBoundary text s.1 && isBoundary text s.2) then some "span-boundary"
  else none

def firstBad (text : List UInt8) : List (Nat × Nat) → Option String
  | [] => none
  | s :: tl => match spanOk text s with
    | some b => some b
    | none => firstBad text tl

def tokensSorted : List (Nat × Nat) → Bool
  | [] => true
  | [a] => a.1 < a.2
  | a :: b :: tl => a.1 < a.2 && a.2 ≤ b.1 && tokensSorted (b :: tl)

def oracle (text : List UInt8) (impl : List String) : String :=
  match impl with
  | ["panic"] => "bad:panic"
  | ["ok", tree, toks] =>
    match firstBad text (spansIn tree.toList) with
    | some b => "bad:ast-" ++ b
    | none =>
      let ts := spansIn toks.toList
      match firstBad text ts with
      | some b => "bad:token-" ++ b
      | none => if tokensSorted ts then "ok" else "bad:tokens-order"
  | ["diag", _, loc] =>
    if loc == "gen" || loc == "none" then "ok"
    else match firstBad text (spansIn ("@" ++ loc).toList) with
      | some b => "bad:diag-" ++ b
      | none => "ok"
  | _ => "bad:unparsable-impl-answer"

def run (a impl : List String) : String :=
  match a with
  | h :: ex :: _ => match hexDecode h with   -- an optional third field names the generator class
    | some s =>
      let exportName := if ex == "1" then some [120] else none
      outcome (parseIso s exportName) ++ "\t" ++ oracle s impl
    | none => "bad-op\tok"
  | _ => "bad-op\tok"

end ParseDrv

namespace ResolveDrv
open IsoVerif.Resolve IsoVerif.Gen.ResolveShape

/-! model side -/

mutual
  def dumpTree : Tree NodeKind → String
    | .node k s e cs =>
      let kids := dumpForest cs
      s!"{k.name}@{s}:{e}" ++ (if kids.isEmpty then "" else "(" ++ String.intercalate "," kids ++ ")")
  def dumpForest : Forest NodeKind → List String
    | .nil => []
    | .cons t ts => dumpTree t :: dumpForest ts
end

def chainStr (c : List (Link NodeKind)) : String :=
  String.intercalate ">" (c.map fun l => s!"{l.kind.name}@{l.s}:{l.e}")

/-- run-compress the chains of offsets `o, o+1, …, len` -/
def runs (t : Tree NodeKind) (len : Nat) : String :=
  let chains := (List.range (len + 1)).map fun o => chainStr (resolve o t)
  let rec go (o : Nat) (cs : List String) (cur : Option (Nat × Nat × String)) (acc : List String) : List String :=
    match cs with
    | [] => (match cur with
      | some (a, b, c) => (s!"{a}-{b}={c}" :: acc).reverse
      | none => acc.reverse)
    | c :: tl =>
      match cur with
      | some (a, b, c0) =>
        if c0 == c then go (o + 1) tl (some (a, o, c0)) acc
        else go (o + 1) tl (some (o, o, c)) (s!"{a}-{b}={c0}" :: acc)
      | none => go (o + 1) tl (some (o, o, c)) acc
  String.intercalate ";" (go 0 chains none [])

/-! oracle side: the dumped generic tree and the chains of the implementation -/

structure GNode where
  kind : String
  s : Nat
  e : Nat
  kids : Array GNode
  deriving Inhabited

partial def parseNode (cs : List Char) : Option (GNode × List Char) :=
  let name := cs.takeWhile (fun c => c.isAlphanum)
  let r := cs.dropWhile (fun c => c.isAlphanum)
  match r with
  | '@' :: r1 =>
    let (a, r2) := ParseDrv.digitsOf r1
    match r2 with
    | ':' :: r3 =>
      let (b, r4) := ParseDrv.digitsOf r3
      if name.isEmpty || a.isEmpty || b.isEmpty then none else
      let mk (kids : Array GNode) : GNode := ⟨String.ofList name, ParseDrv.natOf a, ParseDrv.natOf b, kids⟩
      match r4 with
      | '(' :: r5 =>
        let rec kidsLoop (cs : List Char) (acc : Array GNode) : Option (Array GNode × List Char) :=
          match parseNode cs with
          | none => none
          | some (k, rest) =>
            match rest with
            | ',' :: rest' => kidsLoop rest' (acc.push k)
            | ')' :: rest' => some (acc.push k, rest')
            | _ => none
        match kidsLoop r5 #[] with
        | some (kids, rest) => some (mk kids, rest)
        | none => none
      | _ => some (mk #[], r4)
    | _ => none
  | _ => none

def inside (p c : GNode) : Bool := p.s ≤ c.s && c.e ≤ p.e && c.s ≤ c.e
def apart (a b : GNode) : Bool := a.e ≤ b.s || b.e ≤ a.s

partial def wellNested (n : GNode) : Bool :=
  n.s ≤ n.e && n.kids.all (fun c => inside n c && wellNested c) &&
  (List.range n.kids.size).all fun i => (List.range i).all fun j => apart n.kids[i]! n.kids[j]!

/-- kinds a `#[resolve_field]` of inner type `t` can show up as -/
def kindsOfInner (t : String) : List String :=
  if t == "Selection" then ["ScalarSelection", "ObjectSelection"]
  else if t == "VariableDeclaration" then ["VariableDeclarationInner"]
  else if t == "TypeAnnotationDeclaration" then ["TypeAnnotation"]
  else [t]

/-- do the children kinds follow the `#[resolve_field]` fields T5 extracted? -/
def shapeMatches : List (String × String × String) → List String → Bool
  | [], ks => ks.isEmpty
  | (_, shape, inner) :: fs, ks =>
    let ok (k : String) := (kindsOfInner inner).contains k
    if shape == "single" then
      match ks with
      | k :: tl => ok k && shapeMatches fs tl
      | [] => false
    else if shape == "option" then
      match ks with
      | k :: tl => if ok k then shapeMatches fs tl else shapeMatches fs ks
      | [] => shapeMatches fs []
    else shapeMatches fs (ks.dropWhile ok)

partial def shapeOk (n : GNode) : Bool :=
  let fields := match structs.lookup n.kind with
    | some fs => fs
    | none => []   -- wrappers and the hand-written TypeAnnotation impl: leaves
  shapeMatches fields (n.kids.toList.map (·.kind)) && n.kids.all shapeOk

def parseLink (s : String) : Option (String × Nat × Nat) :=
  match s.splitOn "@" with
  | [k, sp] => match sp.splitOn ":" with
    | [a, b] => match a.toNat?, b.toNat? with
      | some x, some y => some (k, x, y)
      | _, _ => none
    | _ => none
  | _ => none

/-- walk the chain (root first) down the dumped tree; returns the innermost node -/
partial def walk (n : GNode) : List (String × Nat × Nat) → Option GNode
  | [] => some n
  | (k, s, e) :: tl =>
    match n.kids.toList.find? (fun c => c.kind == k && c.s == s && c.e == e) with
    | some c => walk c tl
    | none => none

def checkRun (root : GNode) (lo hi : Nat) (chain : String) : Option String :=
  match (chain.splitOn ">").mapM parseLink with
  | none => some "chain-syntax"
  | some links =>
    match links.reverse with
    | [] => some "chain-empty"
    | (k, s, e) :: below =>
      if !(k == root.kind && s == root.s && e == root.e) then some "chain-root"
      else if !(below.all fun (_, s, e) => s ≤ lo && hi ≤ e) then some "ancestor-not-containing"
      else match walk root below with
        | none => some "chain-not-a-path"
        | some inner =>
          -- the property proper: if the declaration contains the offset, so does the result, and no
          -- resolvable child of the result contains any offset of the run
          if inner.kids.any (fun c => c.s ≤ hi && lo ≤ c.e) then some "not-innermost" else none

def oracle (text : List UInt8) (impl : List String) : String :=
  match impl with
  | ["panic"] => "bad:panic"
  | ["noparse"] => "ok"
  | ["tree", tree, rs] =>
    match parseNode tree.toList with
    | some (root, []) =>
      if !wellNested root then "bad:not-nested"
      else if !shapeOk root then "bad:shape"
      else
        let rec go (expect : Nat) : List String → String
          | [] => if expect == text.length + 1 then "ok" else "bad:runs"
          | r :: tl =>
            match r.splitOn "=" with
            | [range, chain] =>
              match range.splitOn "-" with
              | [a, b] =>
                match a.toNat?, b.toNat? with
                | some lo, some hi =>
                  if lo != expect || hi < lo then "bad:runs"
                  else match checkRun root lo hi chain with
                    | some b => "bad:" ++ b
                    | none => go (hi + 1) tl
                | _, _ => "bad:runs"
              | _ => "bad:runs"
            | _ => "bad:runs"
        go 0 (rs.splitOn ";")
    | _ => "bad:tree-syntax"
  | _ => "bad:unparsable-impl-answer"

def run (a impl : List String) : String :=
  match a with
  | [h] => match hexDecode h with
    | some s =>
      let model := match parseIso s (some [120]) with
        | .ok d => let t := astOf d; "tree " ++ dumpTree t ++ " " ++ runs t s.length
        | .diag _ => "noparse"
        | .panic _ => "panic"
        | .fuel => "fuel"
      model ++ "\t" ++ oracle s impl
    | none => "bad-op\tok"
  | _ => "bad-op\tok"

end ResolveDrv

def handle (fs : List String) : String :=
  let (req, impl) := splitArrow fs
  match req with
  | "iso.lex" :: args => LexDrv.run args impl
  | "iso.parse" :: args => ParseDrv.run args impl
  | "iso.resolve" :: args => ResolveDrv.run args impl
  | _ => "bad-op\tok"

def main : IO Unit := runDriver handle
