/-
Line-protocol driver for the iso-literal family (lexer, parser, position resolution).
Input line:   op \t arg… \t => \t impl-answer-field…
Output line:  model-answer \t oracle-verdict

  iso.lex     <hex>          tokens of the lexer model
  iso.parse   <hex> <0|1>    parser model; oracle C07 on the implementation's answer:
                             no panic; every span `@s:e` of the tree, every semantic token and the
                             diagnostic span satisfy s ≤ e ≤ |text| on character boundaries;
                             semantic tokens non-empty, increasing and disjoint
-/
import IsoVerif.Model.Util
import IsoVerif.Model.IsoLex
import IsoVerif.Model.IsoParse

open IsoVerif IsoVerif.Util IsoVerif.Lex IsoVerif.IsoLex IsoVerif.Gen.IsoTokens IsoVerif.IsoParse

def splitArrow (fs : List String) : List String × List String :=
  (fs.takeWhile (· != "=>"), (fs.dropWhile (· != "=>")).drop 1)

namespace LexDrv
def render (s : List UInt8) : String :=
  let toks := isoTokens s
  let body := toks.map fun t => s!"{t.kind.name}:{t.s}:{t.e}"
  String.intercalate "," (body ++ [s!"eof:{s.length}:{s.length}"])

def run (args _impl : List String) : String :=
  match args with
  | [h] => match hexDecode h with
    | some s => render s ++ "\tok"
    | none => "bad-op\tok"
  | _ => "bad-op\tok"
end LexDrv

namespace ParseDrv

def str (b : List UInt8) : String := bytesStrLossy b
def sp (s : Span) : String := s!"@{s.s}:{s.e}"
def nm (l : Loc (List UInt8)) : String := str l.item ++ sp l.span
def lst (xs : List String) : String := "[" ++ String.intercalate ";" xs ++ "]"

mutual
  def value : Value → String
    | .var n => "$" ++ str n
    | .int i => "i" ++ toString i
    | .bool b => if b then "btrue" else "bfalse"
    | .str s => "s" ++ hexEnc s
    | .null => "n"
    | .obj es => "{" ++ String.intercalate ";" (entries es) ++ "}"
  def entries : Entries → List String
    | .nil => []
    | .cons n ns v vs tl => (str n ++ sp ns ++ ":" ++ value v ++ sp vs) :: entries tl
end

def args (a : List (Loc Arg)) : String :=
  lst (a.map fun x => "A(" ++ nm x.item.name ++ "," ++ value x.item.value.item ++ sp x.item.value.span ++ ")" ++ sp x.span)

def dirs (d : Loc (List (Loc Directive))) : String :=
  lst (d.item.map fun x => "D(" ++ nm x.item.name ++ "," ++ args x.item.args ++ ")" ++ sp x.span) ++ sp d.span

def ty : Ty → String
  | .named n nn => str n ++ (if nn then "!" else "")
  | .list inner isp nn => "[" ++ ty inner ++ sp isp ++ "]" ++ (if nn then "!" else "")

def vars (v : List (Loc VarDef)) : String :=
  lst (v.map fun x =>
    let d := match x.item.default with
      | none => "-"
      | some d => value d.item ++ sp d.span
    "V(" ++ nm x.item.name ++ "," ++ ty x.item.type.item ++ sp x.item.type.span ++ "," ++ d ++ ")" ++ sp x.span)

def desc : Option (Loc (List UInt8)) → String
  | none => "-"
  | some d => "d" ++ hexEnc d.item ++ sp d.span

def alias : Option (Loc (List UInt8)) → String
  | none => "-"
  | some a => nm a

def dirset : DirSet → String
  | .none => "none"
  | .updatable => "updatable"
  | .loadable b => "loadable:" ++ (if b then "true" else "false")

mutual
  def sel : Sel → String
    | .scalar s al n a d => "S(" ++ alias al ++ "," ++ nm n ++ "," ++ args a ++ "," ++ dirset d ++ ")" ++ sp s
    | .object s al n a d set ss =>
      "O(" ++ alias al ++ "," ++ nm n ++ "," ++ args a ++ "," ++ dirset d ++ "," ++
        "{" ++ String.intercalate ";" (sels set) ++ "}" ++ sp ss ++ ")" ++ sp s
  def sels : Sels → List String
    | .nil => []
    | .cons s tl => sel s :: sels tl
end

def selset (s : SelSet) : String := "{" ++ String.intercalate ";" (sels s.sels) ++ "}" ++ sp s.span

def semTok (t : SemTok) : String :=
  (match legend.lookup t.st.name with
   | some v => v
   | none => "?" ++ t.st.name) ++ sp t.span

def semToks (l : List SemTok) : String :=
  if l.isEmpty then "-" else String.intercalate ";" (l.map semTok)

def decl : Decl → String
  | .field s p n v d de set ex sem =>
    "F(" ++ nm p ++ "," ++ nm n ++ "," ++ vars v ++ "," ++ dirs d ++ "," ++ desc de ++ "," ++ selset set ++ "," ++ str ex ++ ")" ++ sp s
      ++ " " ++ semToks sem
  | .pointer s p n v t d de set ex sem =>
    "P(" ++ nm p ++ "," ++ nm n ++ "," ++ vars v ++ "," ++ ty t.item ++ sp t.span ++ "," ++ dirs d ++ "," ++ desc de ++ "," ++
      selset set ++ "," ++ str ex ++ ")" ++ sp s ++ " " ++ semToks sem
  | .entrypoint s p n kw dot d sem =>
    "E(" ++ nm p ++ "," ++ nm n ++ ",kw" ++ sp kw ++ ",dot" ++ sp dot ++ "," ++ dirs d ++ ")" ++ sp s ++ " " ++ semToks sem

def outcome : Outcome → String
  | .ok d => "ok " ++ decl d
  | .diag d => "diag " ++ d.kind.name ++ " " ++
      (match d.loc with
       | .span s => s!"{s.s}:{s.e}"
       | .gen => "gen")
  | .panic _ => "panic"
  | .fuel => "fuel"

/-! oracle on the implementation's answer -/

def digitsOf : List Char → List Char × List Char
  | cs => (cs.takeWhile Char.isDigit, cs.dropWhile Char.isDigit)

def natOf (ds : List Char) : Nat := ds.foldl (fun a c => a * 10 + (c.toNat - 48)) 0

/-- all `@s:e` in a string -/
partial def spansIn : List Char → List (Nat × Nat)
  | [] => []
  | '@' :: cs =>
    let (a, r) := digitsOf cs
    match r with
    | ':' :: r2 =>
      let (b, r3) := digitsOf r2
      if a.isEmpty || b.isEmpty then spansIn r3 else (natOf a, natOf b) :: spansIn r3
    | _ => spansIn r
  | _ :: cs => spansIn cs

def spanOk (text : List UInt8) (s : Nat × Nat) : Option String :=
  if s.1 > s.2 then some "span-order"
  else if s.2 > text.length then some "span-range"
  else if !(isBoundary text s.1 && isBoundary text s.2) then some "span-boundary"
  else none

def firstBad (text : List UInt8) : List (Nat × Nat) → Option String
  | [] => none
  | s :: tl => match spanOk text s with
    | some b => some b
    | none => firstBad text tl

def tokensSorted : List (Nat × Nat) → Bool
  | [] => true
  | [a] => a.1 < a.2
  | a :: b :: tl => a.1 < a.2 && a.2 ≤ b.1 && tokensSorted (b :: tl)

def oracle (text : List UInt8) (impl : List String) : String :=
  match impl with
  | ["panic"] => "bad:panic"
  | ["ok", tree, toks] =>
    match firstBad text (spansIn tree.toList) with
    | some b => "bad:ast-" ++ b
    | none =>
      let ts := spansIn toks.toList
      match firstBad text ts with
      | some b => "bad:token-" ++ b
      | none => if tokensSorted ts then "ok" else "bad:tokens-order"
  | ["diag", _, loc] =>
    if loc == "gen" || loc == "none" then "ok"
    else match firstBad text (spansIn ("@" ++ loc).toList) with
      | some b => "bad:diag-" ++ b
      | none => "ok"
  | _ => "bad:unparsable-impl-answer"

def run (a impl : List String) : String :=
  match a with
  | [h, ex] => match hexDecode h with
    | some s =>
      let exportName := if ex == "1" then some [120] else none
      outcome (parseIso s exportName) ++ "\t" ++ oracle s impl
    | none => "bad-op\tok"
  | _ => "bad-op\tok"

end ParseDrv

def handle (fs : List String) : String :=
  let (req, impl) := splitArrow fs
  match req with
  | "iso.lex" :: args => LexDrv.run args impl
  | "iso.parse" :: args => ParseDrv.run args impl
  | _ => "bad-op\tok"

def main : IO Unit := runDriver handle
