/-
Line-protocol driver of the `merge` family (C15, C16).

Input line:   <op> \t arg… \t => \t impl-answer-field…
Output line:  model-answer \t oracle-verdict

ops
* `validate \t <tag> \t <wire project>`: model answer `ok` | `diag k1 k2 …` (sorted, de-duplicated
  kinds of `Validate.validate`).  Oracle (on the IMPLEMENTATION's answer): tag `valid` ⇒ `ok`;
  tag `fault:<kind>` / `defect:<name>` with the program being ill-formed ⇒ at least one diagnostic.
* `arrange \t <T> \t <wire P> \t <wire T(P)>`: see the section on C15 below.
-/
import IsoVerif.Model.Core.Wire
import IsoVerif.Model.Core.Validate
import IsoVerif.Model.Core.Merge
import IsoVerif.Model.Util

open IsoVerif IsoVerif.Core

namespace Drv

def splitArrow (fs : List String) : List String × List String :=
  (fs.takeWhile (· != "=>"), (fs.dropWhile (· != "=>")).drop 1)

/-- insertion sort + dedup on strings (bytewise order on ASCII) -/
def insertSorted (x : String) : List String → List String
  | [] => [x]
  | y :: ys => if x < y then x :: y :: ys else if x == y then y :: ys else y :: insertSorted x ys

def sortDedup (xs : List String) : List String := xs.foldl (fun acc x => insertSorted x acc) []

def validateAnswer (p : Project) : String :=
  let ks := sortDedup ((Validate.validate p).map Validate.Kind.name)
  if ks.isEmpty then "ok"
  else if ks.contains "panic" then "panic"
  else " ".intercalate ("diag" :: ks)

/-- oracle of C16 on the implementation's answer -/
def validateVerdict (tag : String) (impl : List String) : String :=
  let accepted := impl == ["ok"]
  let rejected := impl.head? == some "diag" && impl.length ≥ 2
  if tag == "valid" || tag.startsWith "valid:" then
    if accepted then "ok" else "bad:valid-rejected:" ++ "+".intercalate (impl.drop 1)
  else if tag.startsWith "fault:" then
    if rejected then "ok" else "bad:mutant-accepted:" ++ (tag.drop 6).toString
  else if tag == "defect:nullable-list-variable" then
    -- a VALID program
    if accepted then "ok" else "bad:valid-rejected:nullable-list-variable:" ++ "+".intercalate (impl.drop 1)
  else if tag.startsWith "defect:" then
    if rejected then "ok" else "bad:mutant-accepted:" ++ (tag.drop 7).toString
  else "ok"

def validateLine (args impl : List String) : String :=
  match args with
  | [tag, wire] =>
    match Wire.parseProject wire with
    | none => "bad-wire\tok"
    | some p => validateAnswer p ++ "\t" ++ validateVerdict tag impl
  | _ => "bad-op\tok"

/-! ### C15: engine `arrange`

Request `arrange \t <T> \t <wire P> \t <wire T(P)>`; implementation's answer
`st=<P>/<T(P)>` then per entrypoint of P (sorted by `Type.field`)
`ep=<Type.field> P=<map> T=<map> ops=<same|diff>`
where `<map>` is the merged map the entrypoint's printers were given, in the map's own ITERATION order, in
the text form of harness/merge/src/dump.rs, and `ops` says whether `query_text.ts` and
`normalization_ast.ts` are byte-identical in the two compiles.
The model computes `st` from `Validate.validate`, the maps from `Merge.entrypointMap` printed in the order
of `Merge.cmpKey` (the derived `Ord` of `NormalizationKey`, source locations included), and predicts
`ops = same` iff its two texts are equal.
Oracle, on the implementation's answer alone: T(P) compiles and every `ops` is `same`; a failure is
classified from the implementation's two maps (`maps-differ:…` when they differ as sets of entries,
`order:…` when only the order differs). -/

def hx (s : String) : String := if s.isEmpty then "-" else Wire.encStr s

mutual
partial def valueText : Merge.LV → String
  | .var v => "$" ++ hx v
  | .int i => "i" ++ toString i
  | .bool b => if b then "b1" else "b0"
  | .str s => "\"" ++ hx s
  | .float s => "f." ++ hx s
  | .null => "n"
  | .enum e => "e." ++ hx e
  | .list _ vs => "l[" ++ ",".intercalate (vs.map valueText) ++ "]"
  | .object _ fs => "o{" ++ ",".intercalate (fs.map fun kv => hx kv.1 ++ "=" ++ valueText kv.2) ++ "}"
end

def argsText (as : List Merge.LArg) : String :=
  "{" ++ ",".intercalate (as.map fun a => hx a.name ++ "=" ++ valueText a.value) ++ "}"

def keyText : Merge.KeyK → String
  | .discriminator => "D"
  | .id => "I"
  | .serverField n a => "F." ++ hx n ++ argsText a
  | .clientPointer n a => "P." ++ hx n ++ argsText a
  | .inlineFragment t => "T." ++ hx t
  | .panic => "X"

def concText : Option String → String
  | some t => "C." ++ hx t
  | none => "A"

def bit (b : Bool) : String := if b then "1" else "0"

def insertKeep (x : String) : List String → List String
  | [] => [x]
  | y :: ys => if x < y || x == y then x :: y :: ys else y :: insertKeep x ys

def sortKeep (xs : List String) : List String := xs.foldl (fun acc x => insertKeep x acc) []

/-- stable insertion sort by a comparison -/
def insertBy {α : Type} (cmp : α → α → Ordering) (x : α) : List α → List α
  | [] => [x]
  | y :: ys => if cmp x y == .lt then x :: y :: ys else y :: insertBy cmp x ys

def sortBy {α : Type} (cmp : α → α → Ordering) (xs : List α) : List α :=
  xs.foldl (fun acc x => insertBy cmp x acc) []

/-- text of the nested map below the nodes of `es` (paths relative to the current level), entries in the
implementation's iteration order -/
partial def mapText (p : Project) (es : List (List Merge.KeyK × Merge.Payload)) : String :=
  let nodes := es.filter fun e => e.1.length == 1
  let nodes := sortBy (fun a b => Merge.cmpKey p (a.1.headD .panic) (b.1.headD .panic)) nodes
  let texts := nodes.map fun e =>
    match e.1 with
    | [k] =>
      let kids := es.filterMap fun e' =>
        match e'.1 with
        | k' :: rest => if k' == k && !rest.isEmpty then some (rest, e'.2) else none
        | [] => none
      let kt := keyText k
      match e.2 with
      | .scalar f n a => "s(" ++ kt ++ ";" ++ bit f ++ ";" ++ hx n ++ ";" ++ argsText a ++ ")"
      | .linked f n a c => "l(" ++ kt ++ ";" ++ bit f ++ ";" ++ hx n ++ ";" ++ argsText a ++ ";" ++ concText c ++ ";" ++ mapText p kids ++ ")"
      | .clientObj f n a c => "c(" ++ kt ++ ";" ++ bit f ++ ";" ++ hx n ++ ";" ++ argsText a ++ ";" ++ concText c ++ ";" ++ mapText p kids ++ ")"
      | .frag t => "f(" ++ kt ++ ";" ++ hx t ++ ";" ++ mapText p kids ++ ")"
      | .panic msg => "panic(" ++ msg ++ ")"
    | _ => ""
  "[" ++ ",".intercalate texts ++ "]"

def mergedText (p : Project) (m : Merge.MergedMap) : String :=
  match Merge.panicOf m with
  | some msg => "panic:" ++ msg.replace " " "_"
  | none => mapText p (m.map fun e => (e.2.keys, e.2.payload))

def epMapText (p : Project) (ty name : String) : String :=
  match Merge.entrypointMap p ty name with
  | none => "none"
  | some m => mergedText p m

def statusOf (p : Project) : String :=
  let ks := (Validate.validate p).map Validate.Kind.name
  if ks.isEmpty then (if Merge.projectCoherent p then "ok" else "incoherent")
  else if ks.contains "panic" then "panic" else "diag"

def arrangeAnswer (p q : Project) : List String :=
  let sp := statusOf p
  let sq := statusOf q
  let st := "st=" ++ sp ++ "/" ++ sq
  if sp != "ok" || sq != "ok" then [st] else
  let eps := sortDedup (p.entrypoints.map fun e => e.parent ++ "." ++ e.name)
  let qeps := q.entrypoints.map fun e => e.parent ++ "." ++ e.name
  st :: eps.flatMap fun ep =>
    match p.entrypoints.find? (fun e => e.parent ++ "." ++ e.name == ep) with
    | none => []
    | some e =>
      let tp := epMapText p e.parent e.name
      if !qeps.contains ep then ["ep=" ++ ep, "P=" ++ tp, "T=missing", "ops=diff"] else
      let tq := epMapText q e.parent e.name
      ["ep=" ++ ep, "P=" ++ tp, "T=" ++ tq, "ops=" ++ (if tp == tq then "same" else "diff")]

/-! #### classification of a failure, from the implementation's two map texts -/

/-- split on the commas at bracket depth 0 -/
def splitTop (cs : List Char) : List (List Char) :=
  let rec go : List Char → Nat → List Char → List (List Char) → List (List Char)
    | [], _, cur, acc => (cur.reverse :: acc).reverse
    | c :: rest, d, cur, acc =>
      if c == ',' && d == 0 then go rest d [] (cur.reverse :: acc)
      else if c == '(' || c == '[' || c == '{' then go rest (d + 1) (c :: cur) acc
      else if c == ')' || c == ']' || c == '}' then go rest (d - 1) (c :: cur) acc
      else go rest d (c :: cur) acc
  go cs 0 [] []

/-- the entries of a map text `[e1,e2,…]` -/
def entriesOf (m : String) : List String :=
  let cs := m.toList
  match cs with
  | '[' :: rest =>
    let body := rest.dropLast
    if body.isEmpty then [] else (splitTop body).map String.ofList
  | _ => []

/-- `(text before the nested map, nested map)` of an entry `l(…;[…])`, `c(…)`, `f(…)`; `none` for `s(…)` -/
def nestedOf (e : String) : Option (String × String) :=
  if e.startsWith "s(" || e.startsWith "panic(" then none else
  -- the nested map is the last `;`-separated field at depth 1
  let cs := e.toList
  let rec go : List Char → Nat → Nat → Nat → Nat
    | [], _, _, last => last
    | c :: rest, i, d, last =>
      if c == ';' && d == 1 then go rest (i + 1) d (i + 1)
      else if c == '(' || c == '[' || c == '{' then go rest (i + 1) (d + 1) last
      else if c == ')' || c == ']' || c == '}' then go rest (i + 1) (d - 1) last
      else go rest (i + 1) d last
  let at_ := go cs 0 0 0
  some (String.ofList (cs.take at_), String.ofList ((cs.drop at_).dropLast))

partial def canonMap (m : String) : String :=
  "[" ++ ",".intercalate (sortKeep ((entriesOf m).map canonEntry)) ++ "]"
where
  canonEntry (e : String) : String :=
    match nestedOf e with
    | none => e
    | some (pre, nested) => pre ++ canonMap nested ++ ")"

/-- the key part of an entry text: between the first `(` and the first `;` at depth 1 -/
def keyOf (e : String) : String :=
  let cs := (e.toList.dropWhile (· != '(')).drop 1
  let rec go : List Char → Nat → List Char → List Char
    | [], _, acc => acc.reverse
    | c :: rest, d, acc =>
      if c == ';' && d == 0 then acc.reverse
      else if c == '(' || c == '[' || c == '{' then go rest (d + 1) (c :: acc)
      else if c == ')' || c == ']' || c == '}' then go rest (d - 1) (c :: acc)
      else go rest d (c :: acc)
  String.ofList (go cs 0 [])

def hasSub (s sub : String) : Bool := (s.splitOn sub).length > 1

/-- two keys that swapped places: what distinguishes them -/
def keyDifference (a b : String) : String :=
  let headOf := fun (k : String) => (k.splitOn "{").headD ""
  if headOf a != headOf b then "field-name" else
  let kinds := fun (k : String) =>
    (if hasSub k "=\"" then ["string"] else []) ++ (if hasSub k "=$" then ["variable"] else [])
      ++ (if hasSub k "=o{" then ["object"] else []) ++ (if hasSub k "=l[" then ["list"] else [])
      ++ (if hasSub k "=e." then ["enum"] else [])
      ++ (if hasSub k "=i" || hasSub k "=b" || hasSub k "=n" || hasSub k "=f." then ["literal"] else [])
  let ks := sortDedup (kinds a ++ kinds b)
  let composite := ks.contains "object" || ks.contains "list"
  if a == b then "same-text:" ++ "+".intercalate ks
  else if composite then "composite-args:" ++ "+".intercalate ks
  else "plain-args:" ++ "+".intercalate ks

/-- first place (depth first) where two maps with the same canonical text iterate differently -/
partial def orderClass (a b : String) : Option String :=
  let ea := entriesOf a
  let eb := entriesOf b
  let ca := ea.map (fun e => (canonMap ("[" ++ e ++ "]")))
  let cb := eb.map (fun e => (canonMap ("[" ++ e ++ "]")))
  if ca != cb then
    match (List.zip (List.zip ea eb) (List.zip ca cb)).find? (fun x => x.2.1 != x.2.2) with
    | some x => some (keyDifference (keyOf x.1.1) (keyOf x.1.2))
    | none => some "length"
  else
    (List.zip ea eb).findSome? fun x =>
      match nestedOf x.1, nestedOf x.2 with
      | some (_, na), some (_, nb) => orderClass na nb
      | _, _ => none

/-- oracle of C15 on the implementation's answer -/
def arrangeVerdict (t : String) (impl : List String) : String :=
  match impl.head? with
  | none => "bad:no-answer"
  | some st =>
    if st == "st=ok/ok" then
      let rec go : List String → Option String → Option String → String
        | [], _, _ => "ok"
        | f :: rest, pm, tm =>
          if f.startsWith "ep=" then go rest none none
          else if f.startsWith "P=" then go rest (some (f.drop 2).toString) tm
          else if f.startsWith "T=" then go rest pm (some (f.drop 2).toString)
          else if f == "ops=diff" then
            match pm, tm with
            | some a, some b =>
              if canonMap a == canonMap b then "bad:order:" ++ (orderClass a b).getD "none"
              else
                let composite := hasSub b "=o{" || hasSub b "=l["
                "bad:maps-differ:" ++ t ++ (if composite then ":composite-arg" else ":other")
            | _, _ => "bad:maps-differ:" ++ t ++ ":missing"
          else go rest pm tm
      go (impl.drop 1) none none
    else if st.startsWith "st=ok/" then "bad:rearranged-rejected:" ++ t ++ ":" ++ (st.drop 6).toString
    else "ok"   -- P itself is not accepted: nothing to compare

def arrangeLine (args impl : List String) : String :=
  match args with
  | [t, wp, wq] =>
    match Wire.parseProject wp, Wire.parseProject wq with
    | some p, some q => " ".intercalate (arrangeAnswer p q) ++ "\t" ++ arrangeVerdict t impl
    | _, _ => "bad-wire\tok"
  | _ => "bad-op\tok"

end Drv

def handle (fs : List String) : String :=
  let (req, impl) := Drv.splitArrow fs
  match req with
  | "validate" :: args => Drv.validateLine args impl
  | "arrange" :: args => Drv.arrangeLine args impl
  | _ => "bad-op\tok"

def main : IO Unit := IsoVerif.Util.runDriver handle
