/-
Line-protocol driver of the `merge` family (C15, C16).

Input line:   <op> \t arg… \t => \t impl-answer-field…
Output line:  model-answer \t oracle-verdict

ops
* `validate \t <tag> \t <wire project>`: model answer `ok` | `diag k1 k2 …` (sorted, de-duplicated
  kinds of `Validate.validate`).  Oracle (on the IMPLEMENTATION's answer): tag `valid` ⇒ `ok`;
  tag `fault:<kind>` / `defect:<name>` with the program being ill-formed ⇒ at least one diagnostic.
* `arrange \t <T> \t <wire P> \t <wire T(P)>`: see `Driver.Merge.arrangeLine`.
-/
import IsoVerif.Model.Core.Wire
import IsoVerif.Model.Core.Validate
import IsoVerif.Model.Core.Merge
import IsoVerif.Model.Util

open IsoVerif IsoVerif.Core

namespace Drv

def splitArrow (fs : List String) : List String × List String :=
  (fs.takeWhile (· != "=>"), (fs.dropWhile (· != "=>")).drop 1)

/-- insertion sort + dedup on strings (bytewise order on ASCII) -/
def insertSorted (x : String) : List String → List String
  | [] => [x]
  | y :: ys => if x < y then x :: y :: ys else if x == y then y :: ys else y :: insertSorted x ys

def sortDedup (xs : List String) : List String := xs.foldl (fun acc x => insertSorted x acc) []

def validateAnswer (p : Project) : String :=
  let ks := sortDedup ((Validate.validate p).map Validate.Kind.name)
  if ks.isEmpty then "ok"
  else if ks.contains "panic" then "panic"
  else " ".intercalate ("diag" :: ks)

/-- oracle of C16 on the implementation's answer -/
def validateVerdict (tag : String) (impl : List String) : String :=
  let accepted := impl == ["ok"]
  let rejected := impl.head? == some "diag" && impl.length ≥ 2
  if tag == "valid" then
    if accepted then "ok" else "bad:valid-rejected:" ++ "+".intercalate (impl.drop 1)
  else if tag.startsWith "fault:" then
    if rejected then "ok" else "bad:mutant-accepted:" ++ (tag.drop 6).toString
  else if tag == "defect:nullable-list-variable" then
    -- a VALID program
    if accepted then "ok" else "bad:valid-rejected:nullable-list-variable:" ++ "+".intercalate (impl.drop 1)
  else if tag.startsWith "defect:" then
    if rejected then "ok" else "bad:mutant-accepted:" ++ (tag.drop 7).toString
  else "ok"

def validateLine (args impl : List String) : String :=
  match args with
  | [tag, wire] =>
    match Wire.parseProject wire with
    | none => "bad-wire\tok"
    | some p => validateAnswer p ++ "\t" ++ validateVerdict tag impl
  | _ => "bad-op\tok"

/-! ### C15: engine `arrange`

Request `arrange \t <T> \t <wire P> \t <wire T(P)>`; implementation's answer
`st=<P>/<T(P)>` then per entrypoint of P (sorted by `Type.field`)
`ep=<Type.field> P=<map> T=<map> ord=<same|diff:class> ops=<same|diff>`
where `<map>` is the merged map of the entrypoint in canonical text (entries sorted by their text; see
harness/merge/src/dump.rs), `ord` says whether the two compiles iterate over equal maps in the same order
(an observation of the implementation's interning / source-location order, which the model does not
have: it is ECHOED), `ops` whether `query_text.ts` and `normalization_ast.ts` are byte-identical.
The model computes `st` from `Validate.validate`, the maps from `Merge.entrypointMap`, and predicts
`ops = same` iff its two maps have the same text and `ord = same`.
Oracle, on the implementation's answer alone: T(P) compiles and every `ops` is `same`. -/

open IsoVerif.Core.Merge in
def hx (s : String) : String := if s.isEmpty then "-" else Wire.encStr s

mutual
partial def valueText : Value → String
  | .var v => "$" ++ hx v
  | .int i => "i" ++ toString i
  | .bool b => if b then "b1" else "b0"
  | .str s => "\"" ++ hx s
  | .float s => "f." ++ hx s
  | .null => "n"
  | .enum e => "e." ++ hx e
  | .list vs => "l[" ++ ",".intercalate (vs.map valueText) ++ "]"
  | .object fs => "o{" ++ ",".intercalate (fs.map fun kv => hx kv.1 ++ "=" ++ valueText kv.2) ++ "}"
end

def argsText (as : List Merge.LArg) : String :=
  "{" ++ ",".intercalate (as.map fun a => hx a.name ++ "=" ++ valueText a.value) ++ "}"

def keyText : Merge.KeyK → String
  | .discriminator => "D"
  | .id => "I"
  | .serverField n a => "F." ++ hx n ++ argsText a
  | .clientPointer n a => "P." ++ hx n ++ argsText a
  | .inlineFragment t => "T." ++ hx t
  | .panic => "X"

def concText : Option String → String
  | some t => "C." ++ hx t
  | none => "A"

def bit (b : Bool) : String := if b then "1" else "0"

def insertKeep (x : String) : List String → List String
  | [] => [x]
  | y :: ys => if x < y || x == y then x :: y :: ys else y :: insertKeep x ys

def sortKeep (xs : List String) : List String := xs.foldl (fun acc x => insertKeep x acc) []

/-- canonical text of the nested map below the nodes of `es` (paths relative to the current level) -/
partial def mapText (es : List (List Merge.KeyK × Merge.Payload)) : String :=
  let nodes := es.filter fun e => e.1.length == 1
  let texts := nodes.map fun e =>
    match e.1 with
    | [k] =>
      let kids := es.filterMap fun e' =>
        match e'.1 with
        | k' :: rest => if k' == k && !rest.isEmpty then some (rest, e'.2) else none
        | [] => none
      let kt := keyText k
      match e.2 with
      | .scalar f n a => "s(" ++ kt ++ ";" ++ bit f ++ ";" ++ hx n ++ ";" ++ argsText a ++ ")"
      | .linked f n a c => "l(" ++ kt ++ ";" ++ bit f ++ ";" ++ hx n ++ ";" ++ argsText a ++ ";" ++ concText c ++ ";" ++ mapText kids ++ ")"
      | .clientObj f n a c => "c(" ++ kt ++ ";" ++ bit f ++ ";" ++ hx n ++ ";" ++ argsText a ++ ";" ++ concText c ++ ";" ++ mapText kids ++ ")"
      | .frag t => "f(" ++ kt ++ ";" ++ hx t ++ ";" ++ mapText kids ++ ")"
      | .panic msg => "panic(" ++ msg ++ ")"
    | _ => ""
  "[" ++ ",".intercalate (sortKeep texts) ++ "]"

def mergedText (m : Merge.MergedMap) : String :=
  match Merge.panicOf m with
  | some msg => "panic:" ++ msg.replace " " "_"
  | none => mapText (m.map fun e => (e.2.keys, e.2.payload))

def epMapText (p : Project) (ty name : String) : String :=
  match Merge.entrypointMap p ty name with
  | none => "none"
  | some m => mergedText m

def statusOf (p : Project) : String :=
  let ks := (Validate.validate p).map Validate.Kind.name
  if ks.isEmpty then (if Merge.projectCoherent p then "ok" else "incoherent")
  else if ks.contains "panic" then "panic" else "diag"

/-- value of the first field `key=…` after position of `ep=<name>` in the implementation's answer -/
def implField (impl : List String) (ep key : String) : Option String :=
  let after := (impl.dropWhile (· != "ep=" ++ ep)).drop 1
  let mine := after.takeWhile (fun f => !f.startsWith "ep=")
  (mine.find? (·.startsWith (key ++ "="))).map fun f => (f.drop (key.length + 1)).toString

def arrangeAnswer (p q : Project) (impl : List String) : List String :=
  let sp := statusOf p
  let sq := statusOf q
  let st := "st=" ++ sp ++ "/" ++ sq
  if sp != "ok" || sq != "ok" then [st] else
  let eps := sortDedup (p.entrypoints.map fun e => e.parent ++ "." ++ e.name)
  let qeps := q.entrypoints.map fun e => e.parent ++ "." ++ e.name
  st :: eps.flatMap fun ep =>
    match p.entrypoints.find? (fun e => e.parent ++ "." ++ e.name == ep) with
    | none => []
    | some e =>
      let tp := epMapText p e.parent e.name
      if !qeps.contains ep then ["ep=" ++ ep, "P=" ++ tp, "T=missing", "ord=same", "ops=diff"] else
      let tq := epMapText q e.parent e.name
      let ord := (implField impl ep "ord").getD "same"
      ["ep=" ++ ep, "P=" ++ tp, "T=" ++ tq, "ord=" ++ ord,
       "ops=" ++ (if tp == tq && ord == "same" then "same" else "diff")]

/-- oracle of C15 on the implementation's answer: classes are narrow on purpose -/
def arrangeVerdict (t : String) (impl : List String) : String :=
  match impl.head? with
  | none => "bad:no-answer"
  | some st =>
    if st == "st=ok/ok" then
      -- first entrypoint whose operations differ
      let rec go : List String → Option String → Option String → Option String → String
        | [], _, _, _ => "ok"
        | f :: rest, pm, tm, ord =>
          if f.startsWith "ep=" then go rest none none none
          else if f.startsWith "P=" then go rest (some f) tm ord
          else if f.startsWith "T=" then go rest pm (some f) ord
          else if f.startsWith "ord=" then go rest pm tm (some f)
          else if f == "ops=diff" then
            let sameMaps := match pm, tm with
              | some a, some b => (a.drop 2).toString == (b.drop 2).toString
              | _, _ => false
            if sameMaps then "bad:order:" ++ ((ord.getD "ord=diff:?").drop 9).toString
            else
              let composite := match tm with
                | some b => (b.splitOn "=o{").length > 1 || (b.splitOn "=l[").length > 1
                | none => false
              "bad:maps-differ:" ++ t ++ (if composite then ":composite-arg" else ":other")
          else go rest pm tm ord
      go (impl.drop 1) none none none
    else if st.startsWith "st=ok/" then "bad:rearranged-rejected:" ++ t ++ ":" ++ (st.drop 6).toString
    else "ok"   -- P itself is not accepted: nothing to compare

def arrangeLine (args impl : List String) : String :=
  match args with
  | [t, wp, wq] =>
    match Wire.parseProject wp, Wire.parseProject wq with
    | some p, some q => " ".intercalate (arrangeAnswer p q impl) ++ "\t" ++ arrangeVerdict t impl
    | _, _ => "bad-wire\tok"
  | _ => "bad-op\tok"

end Drv

def handle (fs : List String) : String :=
  let (req, impl) := Drv.splitArrow fs
  match req with
  | "validate" :: args => Drv.validateLine args impl
  | "arrange" :: args => Drv.arrangeLine args impl
  | _ => "bad-op\tok"

def main : IO Unit := IsoVerif.Util.runDriver handle
