/-
Line-protocol driver of the `merge` family (C15, C16).

Input line:   <op> \t arg… \t => \t impl-answer-field…
Output line:  model-answer \t oracle-verdict

ops
* `validate \t <tag> \t <wire project>`: model answer `ok` | `diag k1 k2 …` (sorted, de-duplicated
  kinds of `Validate.validate`).  Oracle (on the IMPLEMENTATION's answer): tag `valid` ⇒ `ok`;
  tag `fault:<kind>` / `defect:<name>` with the program being ill-formed ⇒ at least one diagnostic.
* `arrange \t <T> \t <wire P> \t <wire T(P)>`: see `Driver.Merge.arrangeLine`.
-/
import IsoVerif.Model.Core.Wire
import IsoVerif.Model.Core.Validate
import IsoVerif.Model.Util

open IsoVerif IsoVerif.Core

namespace Drv

def splitArrow (fs : List String) : List String × List String :=
  (fs.takeWhile (· != "=>"), (fs.dropWhile (· != "=>")).drop 1)

/-- insertion sort + dedup on strings (bytewise order on ASCII) -/
def insertSorted (x : String) : List String → List String
  | [] => [x]
  | y :: ys => if x < y then x :: y :: ys else if x == y then y :: ys else y :: insertSorted x ys

def sortDedup (xs : List String) : List String := xs.foldl (fun acc x => insertSorted x acc) []

def validateAnswer (p : Project) : String :=
  let ks := sortDedup ((Validate.validate p).map Validate.Kind.name)
  if ks.isEmpty then "ok"
  else if ks.contains "panic" then "panic"
  else " ".intercalate ("diag" :: ks)

/-- oracle of C16 on the implementation's answer -/
def validateVerdict (tag : String) (impl : List String) : String :=
  let accepted := impl == ["ok"]
  let rejected := impl.head? == some "diag" && impl.length ≥ 2
  if tag == "valid" then
    if accepted then "ok" else "bad:valid-rejected:" ++ "+".intercalate (impl.drop 1)
  else if tag.startsWith "fault:" then
    if rejected then "ok" else "bad:mutant-accepted:" ++ (tag.drop 6).toString
  else if tag == "defect:nullable-list-variable" then
    -- a VALID program
    if accepted then "ok" else "bad:valid-rejected:nullable-list-variable:" ++ "+".intercalate (impl.drop 1)
  else if tag.startsWith "defect:" then
    if rejected then "ok" else "bad:mutant-accepted:" ++ (tag.drop 7).toString
  else "ok"

def validateLine (args impl : List String) : String :=
  match args with
  | [tag, wire] =>
    match Wire.parseProject wire with
    | none => "bad-wire\tok"
    | some p => validateAnswer p ++ "\t" ++ validateVerdict tag impl
  | _ => "bad-op\tok"

end Drv

def handle (fs : List String) : String :=
  let (req, impl) := Drv.splitArrow fs
  match req with
  | "validate" :: args => Drv.validateLine args impl
  | _ => "bad-op\tok"

def main : IO Unit := IsoVerif.Util.runDriver handle
