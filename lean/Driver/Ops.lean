/-
Line-protocol driver of the `ops` family (C09, C10, C25).  Stateful: a `case` line sets the schema
(read from the SDL the compiler was given) and the client-pointer table; `casegraph` sets the
artifact graph; the other lines refer to the current case.

Input line:   op \t arg… \t => \t impl-answer-field…
Output line:  model-answer \t oracle-verdict
-/
import IsoVerif.Model.Util
import IsoVerif.Model.Core.OpsC09
import IsoVerif.Model.Core.Refetch
import IsoVerif.Model.Core.OpsC10
import IsoVerif.Model.Core.OpsTie

open IsoVerif IsoVerif.Util IsoVerif.Core IsoVerif.Ops IsoVerif.GqlValid

structure St where
  schema : Option VSchema := none
  pointers : List (Str × Str × Str) := []
  graph : Option Graph := none

def splitArrow (fs : List String) : List String × List String :=
  (fs.takeWhile (· != "=>"), (fs.dropWhile (· != "=>")).drop 1)

def parsePointers (field : String) : List (Str × Str × Str) :=
  if field == "-" then [] else
  (field.splitOn " ").filterMap fun item =>
    match item.splitOn "=" with
    | [lhs, to] =>
      match lhs.splitOn "." with
      | [t, f] =>
        match hexStr t, hexStr f, hexStr to with
        | some t, some f, some to => some (t, f, to)
        | _, _, _ => none
      | _ => none
    | _ => none

def step (st : St) (fs : List String) : St × String :=
  let (req, impl) := splitArrow fs
  -- `case` / `casegraph` lines carry inputs of the case (schema, artifact graph): echoed, not modelled
  let echo := " ".intercalate impl
  match req with
  | "case" :: _ =>
    match impl with
    | ["ok", sdlH, ptrs] =>
      match (hexStr sdlH).bind parseSchema with
      | some sch => ({ schema := some sch, pointers := parsePointers ptrs }, echo ++ "\tok")
      | none => ({}, echo ++ "\tbad:machinery:schema-unparsed")
    | _ => ({}, echo ++ "\tok")
  | "c09" :: _ => (st, c09Line st.schema impl)
  | "casegraph" :: _ =>
    match impl with
    | [w] =>
      if w.startsWith "e:" then
        -- a module that is not JavaScript is C09's finding (F13); anything else is reported
        let msg := ((hexStr (w.drop 2).toString).map stringOfStr).getD ""
        ({ st with graph := none },
          if msg.startsWith "syntax-error" then echo ++ "\tok" else echo ++ "\tbad:artifacts-do-not-evaluate")
      else match parseGraph w with
        | some g => ({ st with graph := some g }, echo ++ "\tok")
        | none => ({ st with graph := none }, echo ++ "\tbad:machinery:graph-unparsed")
    | _ => ({ st with graph := none }, echo ++ "\tbad:machinery:graph-fields")
  | ["c25", _, entry] => (st, c25Line st.graph entry)
  | ["c25dbg", _, entry] => (st, c25Debug st.graph entry)
  | ["c10dbg", _, entry] =>
    (st, match st.graph.bind (fun g => (g.entry? (strOfString entry)).bind fun e => (g.reader? e.reader).map fun r => (g, e, r)) with
      | some (g, e, r) =>
        " | ".intercalate (coverTrace g 400 (if e.atRoot then e.op.norm else lastLevel (unwrapLevels 8 e.op.norm)) r.ast none []) ++ "\tok"
      | none => "noentry\tok")
  | "c10m" :: _ => (st, IsoVerif.Ops.Tie.c10mLine st.graph req impl)
  | "c10" :: _ =>
    let possible : Str → List Str := fun t =>
      match st.schema with
      | some sch => (match sch.possibleTypes t with | [] => [t] | ps => ps)
      | none => [t]
    let isAbstract : Str → Bool := fun t =>
      match st.schema with
      | some sch => (match sch.get? t with | some (.interface _) | some (.union _) => true | _ => false)
      | none => false
    (st, c10Line st.graph (pointerReaders possible st.pointers) isAbstract req impl)
  | _ => (st, "?\tbad:machinery:unknown-op")

def main : IO Unit := runDriverS step {}
