//! The node coprocess (`/verif/js/ops_eval.mjs`): one JSON request per line, one JSON answer per line.
use serde_json::Value;
use std::collections::BTreeMap;
use std::io::{BufRead, BufReader, Write};
use std::process::{Child, ChildStdin, ChildStdout, Command, Stdio};

pub struct Node {
    child: Child,
    stdin: ChildStdin,
    stdout: BufReader<ChildStdout>,
}

pub fn js_dir() -> String {
    std::env::var("HX_JS_DIR").unwrap_or_else(|_| concat!(env!("CARGO_MANIFEST_DIR"), "/../../js").to_string())
}

impl Node {
    pub fn spawn(script: &str, args: &[&str]) -> Node {
        let mut child = Command::new("node")
            .arg(format!("{}/{}", js_dir(), script))
            .args(args)
            .stdin(Stdio::piped())
            .stdout(Stdio::piped())
            .stderr(Stdio::inherit())
            .spawn()
            .expect("spawn node");
        let stdin = child.stdin.take().unwrap();
        let stdout = BufReader::new(child.stdout.take().unwrap());
        Node { child, stdin, stdout }
    }

    pub fn call(&mut self, req: &Value) -> Value {
        let line = serde_json::to_string(req).unwrap();
        self.stdin.write_all(line.as_bytes()).expect("write to node");
        self.stdin.write_all(b"\n").unwrap();
        self.stdin.flush().unwrap();
        let mut out = String::new();
        self.stdout.read_line(&mut out).expect("read from node");
        if out.is_empty() {
            panic!("node coprocess closed its output");
        }
        serde_json::from_str(&out).expect("node answer is JSON")
    }
}

impl Drop for Node {
    fn drop(&mut self) {
        let _ = self.child.kill();
        let _ = self.child.wait();
    }
}

/// artifact files as a JSON object (text files; lossy for non-UTF-8, which the compiler never writes)
pub fn files_json(artifacts: &BTreeMap<String, Vec<u8>>) -> Value {
    let mut m = serde_json::Map::new();
    for (k, v) in artifacts {
        m.insert(k.clone(), Value::String(String::from_utf8_lossy(v).to_string()));
    }
    Value::Object(m)
}
