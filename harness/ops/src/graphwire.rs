//! The artifact graph that `ops_eval.mjs` returns (JSON) as space-separated wire tokens for the Lean
//! driver (`IsoVerif.Core.Ops.Graph`).  Strings are lower-case hex of the UTF-8 bytes (`-` = empty).
//!
//! ```text
//! graph   := "G" seq(entry) seq(refetch) seq(reader)
//! entry   := "E" str(rel) str(concreteType) bool(lazyReader) str(readerRel) seq(nested) op
//! nested  := str(artifactRel) seq(str)                       -- allowedVariables
//! op      := ("T" str(text) | "P" str(operationId)) seq(nnode)
//! refetch := "R" str(rel) str(concreteType) op
//! reader  := "D" str(rel) str(kind) optstr(fieldName) bool(hasUpdatable) optstr(userResolver)
//!                optstr(conditionType) seq(rnode)
//! nnode   := "s" bool str args | "l" bool str args conc seq(nnode) | "f" str seq(nnode)
//! conc    := "C" str | "A"
//! args    := "N" | "S" seq(arg)         arg := str value
//! value   := "V" str | "I" str | "B" bool | "U" | "S" str | "E" str | "O" seq(arg)
//! rnode   := "s" str optstr args bool bool
//!          | "k" str
//!          | "l" str optstr args bool bool optstr(conditionRel) optnat(refetchQueryIndex) seq(rnode)
//!          | "r" str args str(readerRel) seq(nat)
//!          | "i" str str str(refetchReaderRel) nat
//!          | "a" str str args seq(rnode) bool(lazy) str(entryRel)
//! seq(x)  := nat x*     optstr := "N" | "S" str     optnat := "N" | "S" nat     bool := "0" | "1"
//! ```
use hx_common::hex;
use serde_json::Value;

pub struct W(pub Vec<String>);

impl W {
    fn t(&mut self, s: &str) {
        self.0.push(s.to_string());
    }
    fn s(&mut self, s: &str) {
        self.0.push(hex(s.as_bytes()));
    }
    fn n(&mut self, n: usize) {
        self.0.push(n.to_string());
    }
    fn b(&mut self, b: bool) {
        self.t(if b { "1" } else { "0" });
    }
    fn opt_s(&mut self, v: &Value) {
        match v.as_str() {
            Some(s) => {
                self.t("S");
                self.s(s);
            }
            None => self.t("N"),
        }
    }
}

fn st(v: &Value) -> &str {
    v.as_str().unwrap_or("")
}

fn value(w: &mut W, v: &Value) {
    match st(&v["k"]) {
        "var" => {
            w.t("V");
            w.s(st(&v["name"]));
        }
        "num" => {
            w.t("I");
            w.s(st(&v["text"]));
        }
        "bool" => {
            w.t("B");
            w.b(v["value"].as_bool().unwrap_or(false));
        }
        "null" => w.t("U"),
        "str" => {
            w.t("S");
            w.s(st(&v["value"]));
        }
        "enum" => {
            w.t("E");
            w.s(st(&v["value"]));
        }
        "obj" => {
            w.t("O");
            arg_list(w, v["fields"].as_array().map(|a| a.as_slice()).unwrap_or(&[]));
        }
        other => panic!("argument value kind {other}"),
    }
}

fn arg_list(w: &mut W, items: &[Value]) {
    w.n(items.len());
    for a in items {
        w.s(st(&a[0]));
        value(w, &a[1]);
    }
}

fn args(w: &mut W, v: &Value) {
    match v.as_array() {
        None => w.t("N"),
        Some(items) => {
            w.t("S");
            arg_list(w, items);
        }
    }
}

fn nnodes(w: &mut W, v: &Value) {
    let items = v.as_array().map(|a| a.as_slice()).unwrap_or(&[]);
    w.n(items.len());
    for n in items {
        match st(&n["k"]) {
            "scalar" => {
                w.t("s");
                w.b(n["fallible"].as_bool().unwrap_or(false));
                w.s(st(&n["name"]));
                args(w, &n["args"]);
            }
            "linked" => {
                w.t("l");
                w.b(n["fallible"].as_bool().unwrap_or(false));
                w.s(st(&n["name"]));
                args(w, &n["args"]);
                match n["concrete"].as_str() {
                    Some(c) => {
                        w.t("C");
                        w.s(c);
                    }
                    None => w.t("A"),
                }
                nnodes(w, &n["sel"]);
            }
            "frag" => {
                w.t("f");
                w.s(st(&n["type"]));
                nnodes(w, &n["sel"]);
            }
            other => panic!("normalization node kind {other}"),
        }
    }
}

fn rnodes(w: &mut W, v: &Value) {
    let items = v.as_array().map(|a| a.as_slice()).unwrap_or(&[]);
    w.n(items.len());
    for n in items {
        match st(&n["k"]) {
            "scalar" => {
                w.t("s");
                w.s(st(&n["name"]));
                w.opt_s(&n["alias"]);
                args(w, &n["args"]);
                w.b(n["fallible"].as_bool().unwrap_or(false));
                w.b(n["updatable"].as_bool().unwrap_or(false));
            }
            "link" => {
                w.t("k");
                w.s(st(&n["alias"]));
            }
            "linked" => {
                w.t("l");
                w.s(st(&n["name"]));
                w.opt_s(&n["alias"]);
                args(w, &n["args"]);
                w.b(n["fallible"].as_bool().unwrap_or(false));
                w.b(n["updatable"].as_bool().unwrap_or(false));
                w.opt_s(&n["condition"]);
                match n["refetchQueryIndex"].as_u64() {
                    Some(i) => {
                        w.t("S");
                        w.n(i as usize);
                    }
                    None => w.t("N"),
                }
                rnodes(w, &n["sel"]);
            }
            "resolver" => {
                w.t("r");
                w.s(st(&n["alias"]));
                args(w, &n["args"]);
                w.s(st(&n["reader"]));
                let used = n["used"].as_array().map(|a| a.as_slice()).unwrap_or(&[]);
                w.n(used.len());
                for u in used {
                    w.n(u.as_u64().unwrap_or(9999) as usize);
                }
            }
            "imperative" => {
                w.t("i");
                w.s(st(&n["alias"]));
                w.s(st(&n["name"]));
                w.s(st(&n["refetchReader"]));
                w.n(n["refetchQueryIndex"].as_u64().unwrap_or(9999) as usize);
            }
            "loadable" => {
                w.t("a");
                w.s(st(&n["alias"]));
                w.s(st(&n["name"]));
                args(w, &n["queryArgs"]);
                rnodes(w, &n["refetchAst"]);
                w.b(n["entrypoint"]["lazy"].as_bool().unwrap_or(false));
                w.s(st(&n["entrypoint"]["rel"]));
            }
            other => panic!("reader node kind {other}"),
        }
    }
}

fn op(w: &mut W, v: &Value) {
    if st(&v["opKind"]) == "text" {
        w.t("T");
        w.s(st(&v["text"]));
    } else {
        w.t("P");
        w.s(st(&v["operationId"]));
    }
    nnodes(w, &v["normalizationAst"]);
}

/// `__typename === "Cat"` in the resolver of a condition artifact
fn condition_type(text: &str) -> Option<String> {
    let k = "__typename === \"";
    let i = text.find(k)? + k.len();
    let j = text[i..].find('"')? + i;
    Some(text[i..j].to_string())
}

pub fn graph_wire(g: &Value) -> String {
    let mut w = W(vec![]);
    w.t("G");
    let empty = serde_json::Map::new();
    let eps = g["entrypoints"].as_object().unwrap_or(&empty);
    w.n(eps.len());
    for (rel, e) in eps {
        w.t("E");
        w.s(rel);
        w.s(st(&e["concreteType"]));
        w.b(e["lazyReader"].as_bool().unwrap_or(false));
        w.s(st(&e["reader"]));
        let nested = e["nested"].as_array().map(|a| a.as_slice()).unwrap_or(&[]);
        w.n(nested.len());
        for q in nested {
            w.s(st(&q["artifact"]));
            let vars = q["allowedVariables"].as_array().map(|a| a.as_slice()).unwrap_or(&[]);
            w.n(vars.len());
            for v in vars {
                w.s(st(v));
            }
        }
        op(&mut w, e);
    }
    let rfs = g["refetch"].as_object().unwrap_or(&empty);
    w.n(rfs.len());
    for (rel, r) in rfs {
        w.t("R");
        w.s(rel);
        w.s(st(&r["concreteType"]));
        op(&mut w, r);
    }
    let rds = g["readers"].as_object().unwrap_or(&empty);
    w.n(rds.len());
    for (rel, r) in rds {
        w.t("D");
        w.s(rel);
        w.s(st(&r["kind"]));
        w.opt_s(&r["fieldName"]);
        w.b(r["hasUpdatable"].as_bool().unwrap_or(false));
        w.opt_s(&r["userResolver"]);
        match r["conditionResolver"].as_str().and_then(condition_type) {
            Some(t) => {
                w.t("S");
                w.s(&t);
            }
            None => w.t("N"),
        }
        rnodes(&mut w, &r["ast"]);
    }
    w.0.join(" ")
}
