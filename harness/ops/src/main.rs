//! Harness of the `ops` family (C09, C10, C25): whole projects through the REAL compiler
//! (in-process, via hx_projgen), the generated artifacts evaluated as JavaScript modules under node
//! (`js/ops_eval.mjs`) and the runtime's own normalize / read functions run on them
//! (`js/ops_runtime.mjs`).
//!
//! Line protocol (a case is a `case` line followed by the lines that refer to it; both the harness
//! and the Lean driver keep the state of the current case):
//!
//! ```text
//! case \t <id> \t <tag> \t <wire project | demo:<name>>
//!        => ok \t <hex schema SDL> \t <pointer table> | diag \t <kinds> | panic \t <hex message>
//! c09 \t <id> \t <artifact path>
//!        => <hex file content> \t v:<hex string value under node> | e:<why>      (or `missing`)
//! casegraph \t <id>
//!        => <graph wire (graphwire.rs)> | e:<hex message>
//! c25 \t <id> \t <entrypoint artifact path>
//!        => <n> (\t <hex trail> = <hex selected artifact | !missing | entry:…>)*
//! c10 \t <id> \t <entrypoint artifact path> \t <response seed> \t <shape>
//!        => <hex variables JSON> \t <hex response JSON> \t <runtime outcome>
//! ```
//!
//! `HX_ENGINE` = c09 | c10 | c25 selects what `gen` emits; `run` answers every kind of line.
mod graphwire;
mod node;
mod resp;
mod tie;
mod witness;

use hx_common::*;
use hx_projgen::compile::{compile_files, load_demo, CompileResult, Outcome, DEMOS};
use hx_projgen::gen::{generate, Alphabet, GenOpts};
use hx_projgen::model::*;
use hx_projgen::render::{render, render_schema, RenderOpts};
use hx_projgen::wire::{from_wire, to_wire};
use node::{files_json, Node};
use serde_json::{json, Value};
use std::collections::BTreeMap;

fn engine() -> String {
    std::env::var("HX_ENGINE").unwrap_or_else(|_| "c09".to_string())
}

// ---------------------------------------------------------------------------------------------
// streams
// ---------------------------------------------------------------------------------------------

pub fn opts_for(tag: &str) -> GenOpts {
    match tag {
        "safe" => GenOpts::safe(),
        // the subset of the compiler-side model (OpsCover): no abstract types, pointers, special fields
        "subset" => GenOpts {
            pct_node_interface: 0,
            pct_second_interface: 0,
            pct_union: 0,
            pct_pointer: 0,
            pct_loadable: 0,
            pct_special_fields: 0,
            pct_expose_field: 0,
            pct_var_in_object: 40,
            pct_input_object: 80,
            pct_field_args: 70,
            pct_variable: 55,
            pct_var_default: 50,
            pct_optional_arg_given: 40,
            max_decls: 7,
            negative_ints: false,
            strings: Alphabet::Word,
            pct_empty_selection_set: 0,
            ..GenOpts::default()
        },
        "missingarg" => GenOpts { pct_field_args: 80, ..GenOpts::safe() },
        "nested" => GenOpts::safe(),
        "objvar" => GenOpts { pct_var_in_object: 70, pct_input_object: 90, pct_field_args: 70, pct_variable: 60, ..GenOpts::default() },
        "risky" => GenOpts { strings: Alphabet::Risky, pct_field_args: 70, pct_variable: 20, ..GenOpts::default() },
        "refetch" => GenOpts {
            pct_special_fields: 45,
            pct_loadable: 30,
            pct_pointer: 40,
            pct_expose_field: 90,
            pct_mutation: 70,
            pct_node_interface: 95,
            max_decls: 8,
            pct_var_in_object: 0,
            negative_ints: false,
            strings: Alphabet::Word,
            pct_field_args: 60,
            ..GenOpts::default()
        },
        "suffix" => GenOpts {
            pct_special_fields: 30,
            pct_node_interface: 100,
            pct_field_args: 10,
            max_fields: 6,
            max_decls: 8,
            pct_var_in_object: 0,
            pct_loadable: 0,
            ..GenOpts::safe()
        },
        "saferefetch" => GenOpts {
            pct_special_fields: 45,
            pct_pointer: 40,
            pct_expose_field: 90,
            pct_mutation: 70,
            pct_node_interface: 95,
            max_decls: 8,
            ..GenOpts::safe()
        },
        _ => GenOpts::default(),
    }
}

fn tag_for(r: &mut Rng, engine: &str) -> &'static str {
    let k = r.below(100);
    match engine {
        "c25" => {
            if k < 35 { "refetch" } else if k < 52 { "saferefetch" } else if k < 70 { "suffix" } else if k < 88 { "default" } else { "safe" }
        }
        "c10" => {
            if k < 25 { "default" } else if k < 40 { "safe" } else if k < 55 { "refetch" } else if k < 62 { "saferefetch" } else if k < 72 { "objvar" } else { "subset" }
        }
        _ => {
            if k < 30 { "default" } else if k < 38 { "nested" } else if k < 56 { "safe" } else if k < 68 { "objvar" } else if k < 80 { "risky" } else if k < 94 { "refetch" } else { "missingarg" }
        }
    }
}

// ---------------------------------------------------------------------------------------------
// the current case
// ---------------------------------------------------------------------------------------------

pub struct Current {
    pub project: Option<Project>,
    pub schema_sdl: String,
    pub pointers: Vec<(String, String, String)>, // (parent type, field, target type)
    pub outcome: Outcome,
    pub values: Option<Value>,
    pub graph: Option<Value>,
}

fn demo_pointers(files: &BTreeMap<std::path::PathBuf, Vec<u8>>) -> Vec<(String, String, String)> {
    // `pointer Type.field to Target` inside iso literals
    let mut out = vec![];
    for (_, bytes) in files {
        let text = String::from_utf8_lossy(bytes);
        let toks: Vec<&str> = text.split(|c: char| c.is_whitespace() || c == '`').filter(|t| !t.is_empty()).collect();
        for w in toks.windows(4) {
            if w[0] == "pointer" && w[2] == "to" {
                if let Some((t, f)) = w[1].split_once('.') {
                    let target: String = w[3].chars().take_while(|c| c.is_alphanumeric() || *c == '_').collect();
                    out.push((t.to_string(), f.to_string(), target));
                }
            }
        }
    }
    out
}

pub fn compile_spec(spec: &str) -> Option<Current> {
    if let Some(name) = spec.strip_prefix("demo:") {
        let files = load_demo(name)?;
        let cfg: Value = serde_json::from_slice(files.get(std::path::Path::new("isograph.config.json"))?).ok()?;
        let schema_rel = cfg["schema"].as_str()?.trim_start_matches("./").to_string();
        let schema_sdl = String::from_utf8_lossy(files.get(std::path::Path::new(&schema_rel))?).to_string();
        let pointers = demo_pointers(&files);
        let outcome = compile_files(&files);
        Some(Current { project: None, schema_sdl, pointers, outcome, values: None, graph: None })
    } else {
        let p = from_wire(spec)?;
        let files = render(&p, &RenderOpts::default());
        let outcome = compile_files(&files);
        let pointers = p
            .decls
            .iter()
            .filter_map(|(_, d)| match d {
                Decl::ClientPointer(c) => Some((c.parent.clone(), c.name.clone(), c.to.inner().to_string())),
                _ => None,
            })
            .collect();
        let schema_sdl = render_schema(&p.schema);
        Some(Current { project: Some(p), schema_sdl, pointers, outcome, values: None, graph: None })
    }
}

fn case_answer(c: &Current) -> String {
    match &c.outcome.result {
        CompileResult::Ok(_) => {
            let ptrs: Vec<String> =
                c.pointers.iter().map(|(t, f, to)| format!("{}.{}={}", hex(t.as_bytes()), hex(f.as_bytes()), hex(to.as_bytes()))).collect();
            format!("ok\t{}\t{}", hex(c.schema_sdl.as_bytes()), if ptrs.is_empty() { "-".to_string() } else { ptrs.join(" ") })
        }
        CompileResult::Diagnostics(ds) => {
            let mut kinds: Vec<String> = ds.iter().map(|d| d.kind.clone()).collect();
            kinds.sort();
            kinds.dedup();
            format!("diag\t{}", kinds.join(","))
        }
        CompileResult::Panic(m) => format!("panic\t{}", hex(m.as_bytes())),
    }
}

fn is_query_text(path: &str) -> bool {
    let b = path.rsplit('/').next().unwrap_or(path);
    b == "query_text.ts" || (b.starts_with("__refetch__query_text__") && b.ends_with(".ts"))
}

fn ensure_values<'a>(c: &'a mut Current, node: &mut Node) -> &'a Value {
    if c.values.is_none() {
        let ans = node.call(&json!({"op": "values", "files": files_json(&c.outcome.artifacts)}));
        c.values = Some(ans);
    }
    c.values.as_ref().unwrap()
}

fn ensure_graph<'a>(c: &'a mut Current, node: &mut Node) -> &'a Value {
    if c.graph.is_none() {
        let ans = node.call(&json!({"op": "graph", "files": files_json(&c.outcome.artifacts)}));
        c.graph = Some(ans);
    }
    c.graph.as_ref().unwrap()
}

fn c09_answer(c: &mut Current, node: &mut Node, path: &str) -> String {
    let Some(content) = c.outcome.artifacts.get(path).cloned() else { return "missing".to_string() };
    let values = ensure_values(c, node);
    let v = &values["values"][path];
    let value = if let Some(s) = v["ok"].as_str() {
        format!("v:{}", hex(s.as_bytes()))
    } else {
        format!("e:{}", v["err"].as_str().unwrap_or("no-answer").replace(['\t', '\n'], " "))
    };
    format!("{}\t{}", hex(&content), value)
}

fn graph_answer(c: &mut Current, node: &mut Node) -> String {
    let g = ensure_graph(c, node);
    if let Some(e) = g["err"].as_str() {
        return format!("e:{}", hex(e.as_bytes()));
    }
    graphwire::graph_wire(&g["graph"])
}

fn c25_answer(c: &mut Current, node: &mut Node, entry: &str) -> String {
    let g = ensure_graph(c, node).clone();
    if g["err"].is_string() {
        return "nograph".to_string();
    }
    let ans = node.call(&json!({"op": "walk", "graph": g["graph"], "entry": entry}));
    let Some(items) = ans["walk"].as_array() else {
        return format!("e:{}", hex(ans["err"].as_str().unwrap_or("no-answer").as_bytes()));
    };
    let mut out = vec![items.len().to_string()];
    for it in items {
        out.push(format!("{}={}", hex(it[0].as_str().unwrap_or("").as_bytes()), hex(it[1].as_str().unwrap_or("").as_bytes())));
    }
    out.join("\t")
}

// ---------------------------------------------------------------------------------------------
// gen / run
// ---------------------------------------------------------------------------------------------

fn lines_for_case(engine: &str, i: u64, tag: &str, spec: &str, r: &mut Rng) -> Vec<String> {
    let mut lines = vec![format!("case\t{i}\t{tag}\t{spec}")];
    let Some(c) = compile_spec(spec) else { return lines };
    if !c.outcome.result.is_ok() {
        return lines;
    }
    let entrypoints: Vec<&String> = c.outcome.artifacts.keys().filter(|k| k.ends_with("/entrypoint.ts")).collect();
    match engine {
        "c09" => {
            for k in c.outcome.artifacts.keys().filter(|k| is_query_text(k)) {
                lines.push(format!("c09\t{i}\t{k}"));
            }
        }
        "c25" => {
            lines.push(format!("casegraph\t{i}"));
            for e in entrypoints {
                lines.push(format!("c25\t{i}\t{e}"));
            }
        }
        "c10" => {
            lines.push(format!("casegraph\t{i}"));
            for e in entrypoints.iter() {
                lines.push(format!("c10m\t{i}\t{e}"));
            }
            for e in entrypoints {
                for shape in ["full", "random", "random", "sparse"] {
                    lines.push(format!("c10\t{i}\t{e}\t{}\t{shape}", r.next() % 1_000_000));
                }
            }
        }
        _ => {}
    }
    lines
}

pub fn lines_for_case_pub(engine: &str, i: u64, tag: &str, spec: &str) -> Vec<String> {
    let mut r = Rng::new(1, i);
    lines_for_case(engine, i, tag, spec, &mut r)
}

/// Every object type T that has `__refetch` and a client field gets two schema fields `sfxa: T`, `sfxb: T`, and
/// every client field on T additionally selects `sfxa { __refetch sfxb { __refetch } } sfxb { __refetch sfxa {
/// __refetch } }` — refetch paths [sfxa], [sfxa, sfxb], [sfxb], [sfxb, sfxa]: [sfxb] is a proper suffix of
/// [sfxa, sfxb], which sorts before it, and the selections at the two positions differ.
fn inject_suffix_paths(p: &mut Project) -> usize {
    use hx_projgen::env::{Env, SelKind};
    let mut types: Vec<String> = Vec::new();
    {
        let env = Env::new(p);
        for (_, d) in p.decls.iter() {
            let Decl::ClientField(f) = d else { continue };
            if types.contains(&f.parent) {
                continue;
            }
            if env.lookup(&f.parent, "__refetch").map(|s| s.kind) != Some(SelKind::Refetch) {
                continue;
            }
            if matches!(p.schema.get(&f.parent).map(|t| &t.kind), Some(TypeKind::Object { .. })) {
                types.push(f.parent.clone());
            }
        }
    }
    for t in p.schema.types.iter_mut() {
        if !types.contains(&t.name) {
            continue;
        }
        let name = t.name.clone();
        if let TypeKind::Object { fields, .. } = &mut t.kind {
            for n in ["sfxa", "sfxb"] {
                fields.push(FieldDef { name: n.to_string(), description: None, args: vec![], ty: TypeRef::Named(name.clone()) });
            }
        }
    }
    let ln = |name: &str, kids: Vec<Selection>| {
        Selection::Linked(SelHead { alias: None, name: name.to_string(), args: vec![], directives: vec![] }, kids)
    };
    let rf = || Selection::Scalar(SelHead { alias: None, name: "__refetch".to_string(), args: vec![], directives: vec![] });
    let mut n = 0;
    for (_, d) in p.decls.iter_mut() {
        let Decl::ClientField(f) = d else { continue };
        if !types.contains(&f.parent) {
            continue;
        }
        f.selections.push(ln("sfxa", vec![rf(), ln("sfxb", vec![rf()])]));
        f.selections.push(ln("sfxb", vec![rf(), ln("sfxa", vec![rf()])]));
        n += 1;
    }
    n
}

/// Every entrypoint's client field gets a variable `$nstv: ID` whose only use is at depth 2 of an object argument:
/// `nst(f: { inner: { id: $nstv } })` (schema: `nst(f: NstOuter): String` on the entrypoint's type, `input NstOuter {
/// inner: NstInner }`, `input NstInner { id: ID }`).
fn inject_nested_object_var(p: &mut Project) -> usize {
    let eps: Vec<(String, String)> = p
        .decls
        .iter()
        .filter_map(|(_, d)| if let Decl::Entrypoint(e) = d { Some((e.parent.clone(), e.name.clone())) } else { None })
        .collect();
    let mut types: Vec<String> = Vec::new();
    let mut n = 0;
    for (_, d) in p.decls.iter_mut() {
        let Decl::ClientField(f) = d else { continue };
        if !eps.contains(&(f.parent.clone(), f.name.clone())) || f.vars.iter().any(|v| v.name == "nstv") {
            continue;
        }
        if !matches!(p.schema.get(&f.parent).map(|t| &t.kind), Some(TypeKind::Object { .. })) {
            continue;
        }
        f.vars.push(VarDef { name: "nstv".to_string(), ty: TypeRef::Named("ID".to_string()), default: None });
        let inner = hx_projgen::model::Value::Object(vec![("id".to_string(), hx_projgen::model::Value::var("nstv"))]);
        let outer = hx_projgen::model::Value::Object(vec![("inner".to_string(), inner)]);
        f.selections.push(Selection::Scalar(SelHead { alias: None, name: "nst".to_string(), args: vec![("f".to_string(), outer)], directives: vec![] }));
        if !types.contains(&f.parent) {
            types.push(f.parent.clone());
        }
        n += 1;
    }
    if n == 0 {
        return 0;
    }
    for t in p.schema.types.iter_mut() {
        if !types.contains(&t.name) {
            continue;
        }
        if let TypeKind::Object { fields, .. } = &mut t.kind {
            fields.push(FieldDef {
                name: "nst".to_string(),
                description: None,
                args: vec![ArgDef { name: "f".to_string(), description: None, ty: TypeRef::Named("NstOuter".to_string()), default: None }],
                ty: TypeRef::Named("String".to_string()),
            });
        }
    }
    let input = |name: &str, field: &str, ty: &str| TypeDef {
        name: name.to_string(),
        description: None,
        kind: TypeKind::Input { fields: vec![ArgDef { name: field.to_string(), description: None, ty: TypeRef::Named(ty.to_string()), default: None }] },
    };
    p.schema.types.push(input("NstInner", "id", "ID"));
    p.schema.types.push(input("NstOuter", "inner", "NstInner"));
    n
}

fn gen_case(r: &mut Rng, i: u64) -> Vec<String> {
    let engine = engine();
    if (i as usize) < DEMOS.len() {
        let spec = format!("demo:{}", DEMOS[i as usize]);
        return lines_for_case(&engine, i, "demo", &spec, r);
    }
    let tag = tag_for(r, &engine);
    let mut p = generate(r, &opts_for(tag));
    if tag == "suffix" {
        inject_suffix_paths(&mut p);
    }
    if tag == "nested" {
        inject_nested_object_var(&mut p);
    }
    if tag == "missingarg" {
        // a required argument removed from a selection WITH a selection set: the compiler accepts it
        if let Some(q) = hx_projgen::mutate::mutate_fault(r, &p, hx_projgen::mutate::FaultKind::MissingRequiredArgumentLinked) {
            p = q;
        }
    }
    lines_for_case(&engine, i, tag, &to_wire(&p), r)
}

fn main() {
    let args: Vec<String> = std::env::args().collect();
    if args.get(1).map(|s| s.as_str()) == Some("witness") {
        witness::main(&args[2..]);
        return;
    }
    if args.get(1).map(|s| s.as_str()) == Some("show") {
        // show <wire>: print the rendered project files (debugging aid)
        let p = from_wire(&args[2]).expect("wire");
        for (path, bytes) in render(&p, &RenderOpts::default()) {
            println!("=== {}\n{}", path.display(), String::from_utf8_lossy(&bytes));
        }
        return;
    }
    let mut node: Option<Node> = None;
    let mut rt: Option<Node> = None;
    let mut current: Option<Current> = None;
    main_loop(&gen_case, &mut |f| {
        let r = std::panic::catch_unwind(std::panic::AssertUnwindSafe(|| match f[0] {
            "case" => {
                if f.len() < 4 {
                    return "bad-case".to_string();
                }
                current = compile_spec(f[3]);
                match &current {
                    Some(c) => case_answer(c),
                    None => "bad-spec".to_string(),
                }
            }
            "c09" | "casegraph" | "c25" | "c10" | "c10m" => {
                let Some(c) = current.as_mut() else { return "nocase".to_string() };
                if !c.outcome.result.is_ok() {
                    return "notcompiled".to_string();
                }
                let n = node.get_or_insert_with(|| Node::spawn("ops_eval.mjs", &[]));
                match f[0] {
                    "c09" => c09_answer(c, n, f.get(2).copied().unwrap_or("")),
                    "casegraph" => graph_answer(c, n),
                    "c25" => c25_answer(c, n, f.get(2).copied().unwrap_or("")),
                    "c10m" => {
                        let entry = f.get(2).copied().unwrap_or("");
                        let mut seg = entry.split('/');
                        let (parent, name) = (seg.next().unwrap_or(""), seg.next().unwrap_or(""));
                        match c.project.as_ref() {
                            None => "out:no-project".to_string(),
                            Some(_) if !["Query", "Mutation", "Subscription"].contains(&parent) => "out:non-root-entrypoint".to_string(),
                            Some(p) => match tie::tie_wire(p, parent, name) {
                                Ok(w) => format!("in\t{w}"),
                                Err(why) => format!("out:{}", why.replace(['\t', ' '], "-")),
                            },
                        }
                    }
                    _ => {
                        let values = ensure_values(c, n).clone();
                        let rtn = rt.get_or_insert_with(|| Node::spawn("ops_runtime.mjs", &["/repo/libs/isograph-react/src/core"]));
                        resp::c10_answer(c, &values, rtn, f)
                    }
                }
            }
            _ => "bad-op".to_string(),
        }));
        match r {
            Ok(s) => s,
            Err(_) => {
                node = None;
                rt = None;
                "harness-panic".to_string()
            }
        }
    });
}
