//! Hand-written witness projects for the known defects (F11, F12, F12b, F13, F18) and a few plain
//! projects.  `hx_ops witness <name> [engine]` prints the request lines of the case (as `gen` would),
//! so that they can be kept under corpus/.
use crate::lines_for_case_pub;
use hx_projgen::model::*;
use hx_projgen::wire::to_wire;

fn fd(name: &str, args: Vec<ArgDef>, ty: TypeRef) -> FieldDef {
    FieldDef { name: name.to_string(), description: None, args, ty }
}
fn ad(name: &str, ty: TypeRef) -> ArgDef {
    ArgDef { name: name.to_string(), description: None, ty, default: None }
}
fn named(n: &str) -> TypeRef {
    TypeRef::named(n)
}

pub fn base_schema() -> Schema {
    let user_args = || vec![ad("name", named("String")), ad("n", named("Int")), ad("filter", named("UserFilter"))];
    Schema {
        types: vec![
            TypeDef {
                name: "Query".into(),
                description: None,
                kind: TypeKind::Object {
                    implements: vec![],
                    fields: vec![
                        fd("node", vec![ad("id", named("ID").non_null())], named("Node")),
                        fd("user", user_args(), named("User")),
                        fd("me", vec![], named("User").non_null()),
                        fd("users", vec![ad("ids", named("ID").non_null().list().non_null())], named("User").non_null().list().non_null()),
                    ],
                },
            },
            TypeDef {
                name: "Node".into(),
                description: None,
                kind: TypeKind::Interface { implements: vec![], fields: vec![fd("id", vec![], named("ID").non_null())] },
            },
            TypeDef {
                name: "User".into(),
                description: None,
                kind: TypeKind::Object {
                    implements: vec!["Node".into()],
                    fields: vec![
                        fd("id", vec![], named("ID").non_null()),
                        fd("name", vec![], named("String")),
                        fd("age", vec![], named("Int")),
                        fd("friend", user_args(), named("User")),
                        fd("best", vec![], named("User")),
                    ],
                },
            },
            TypeDef {
                name: "UserFilter".into(),
                description: None,
                kind: TypeKind::Input { fields: vec![ad("id", named("ID")), ad("name", named("String"))] },
            },
        ],
    }
}

fn head(name: &str, args: Vec<(&str, Value)>) -> SelHead {
    SelHead { alias: None, name: name.into(), args: args.into_iter().map(|(k, v)| (k.to_string(), v)).collect(), directives: vec![] }
}
fn aliased(alias: &str, mut h: SelHead) -> SelHead {
    h.alias = Some(alias.into());
    h
}
fn sc(name: &str) -> Selection {
    Selection::scalar(name)
}
fn cf(parent: &str, name: &str, vars: Vec<(&str, TypeRef)>, selections: Vec<Selection>) -> (String, Decl) {
    (
        format!("src/{name}.ts"),
        Decl::ClientField(ClientField {
            parent: parent.into(),
            name: name.into(),
            vars: vars.into_iter().map(|(n, t)| VarDef { name: n.into(), ty: t, default: None }).collect(),
            directives: vec![],
            description: None,
            selections,
        }),
    )
}
fn ep(parent: &str, name: &str) -> (String, Decl) {
    ("src/entrypoints.ts".to_string(), Decl::Entrypoint(Entrypoint { parent: parent.into(), name: name.into(), directives: vec![] }))
}
fn project(decls: Vec<(String, Decl)>) -> Project {
    Project { schema: base_schema(), extensions: vec![], decls, options: Options::default(), extra_files: vec![] }
}
fn obj(fields: Vec<(&str, Value)>) -> Value {
    Value::Object(fields.into_iter().map(|(k, v)| (k.to_string(), v)).collect())
}

pub fn witness(name: &str) -> Option<Project> {
    Some(match name {
        // a plain project: variables, literals, nested selections
        "plain" => project(vec![
            cf(
                "Query",
                "Home",
                vec![("q", named("String")), ("k", named("Int"))],
                vec![
                    Selection::Linked(head("user", vec![("name", Value::var("q")), ("n", Value::Int(3))]), vec![sc("name"), sc("age")]),
                    Selection::Linked(head("me", vec![]), vec![sc("name"), Selection::Linked(head("friend", vec![("n", Value::var("k"))]), vec![sc("age")])]),
                ],
            ),
            ep("Query", "Home"),
        ]),
        // F12: a variable used inside an object argument is not declared by the operation
        "f12" => project(vec![
            cf(
                "Query",
                "Home",
                vec![("id", named("ID"))],
                vec![Selection::Linked(head("user", vec![("filter", obj(vec![("id", Value::var("id"))]))]), vec![sc("name")])],
            ),
            ep("Query", "Home"),
        ]),
        // F12b: an object argument containing a variable, passed to a client field, is replaced
        // wholesale by the parent's value of that variable
        "f12b" => project(vec![
            cf(
                "User",
                "Inner",
                vec![("f", named("UserFilter"))],
                vec![Selection::Linked(head("friend", vec![("filter", Value::var("f"))]), vec![sc("name")])],
            ),
            cf(
                "Query",
                "Home",
                vec![("uid", named("ID"))],
                vec![Selection::Linked(
                    head("me", vec![]),
                    vec![Selection::Scalar(head("Inner", vec![("f", obj(vec![("id", Value::var("uid"))]))]))],
                )],
            ),
            ep("Query", "Home"),
        ]),
        // F13: an apostrophe in a string argument ends the JavaScript string literal
        "f13" => project(vec![
            cf("Query", "Home", vec![], vec![Selection::Linked(head("user", vec![("name", Value::str("it's"))]), vec![sc("name")])]),
            ep("Query", "Home"),
        ]),
        // F11: a negative integer makes the response alias an illegal Name
        "f11neg" => project(vec![
            cf("Query", "Home", vec![], vec![Selection::Linked(head("user", vec![("n", Value::Int(-5))]), vec![sc("name")])]),
            ep("Query", "Home"),
        ]),
        // F11: two different string arguments collapse to one response alias
        "f11collide" => project(vec![
            cf(
                "Query",
                "Home",
                vec![],
                vec![
                    Selection::Linked(head("user", vec![("name", Value::str("a b"))]), vec![sc("name")]),
                    Selection::Linked(aliased("u2", head("user", vec![("name", Value::str("a_b"))])), vec![sc("age")]),
                ],
            ),
            ep("Query", "Home"),
        ]),
        // F18: refetch indices of a reused client field flip after variable substitution
        "f18" | "f18sorted" => {
            let (a, b) = if name == "f18" { ("zzz", "aaa") } else { ("aaa", "zzz") };
            project(vec![
                cf(
                    "User",
                    "G",
                    vec![("a", named("String")), ("b", named("String"))],
                    vec![
                        Selection::Linked(head("friend", vec![("name", Value::var("a"))]), vec![sc("name"), sc("__refetch")]),
                        Selection::Linked(aliased("f2", head("friend", vec![("name", Value::var("b"))])), vec![sc("age"), sc("__refetch")]),
                    ],
                ),
                cf(
                    "Query",
                    "Home",
                    vec![],
                    vec![Selection::Linked(
                        head("me", vec![]),
                        vec![Selection::Scalar(head("G", vec![("a", Value::str(a)), ("b", Value::str(b))]))],
                    )],
                ),
                ep("Query", "Home"),
            ])
        }
        // the same client field with refetchable selections reused at two positions / by two entrypoints
        "reuse" => project(vec![
            cf("User", "Card", vec![], vec![sc("name"), sc("__refetch"), Selection::Linked(head("best", vec![]), vec![sc("age"), sc("__refetch")])]),
            cf(
                "Query",
                "Home",
                vec![],
                vec![
                    Selection::Linked(head("me", vec![]), vec![sc("Card"), Selection::Linked(head("best", vec![]), vec![sc("Card")])]),
                    Selection::Linked(head("user", vec![("n", Value::Int(1))]), vec![sc("Card"), sc("age")]),
                ],
            ),
            cf("Query", "Other", vec![], vec![Selection::Linked(head("user", vec![("n", Value::Int(2))]), vec![sc("Card")])]),
            ep("Query", "Home"),
            ep("Query", "Other"),
        ]),
        // fixed e06371c: a `[ID!]!` variable was declared as `[ID!]`
        "nonnull-list-var" => project(vec![
            cf(
                "Query",
                "Home",
                vec![("ids", named("ID").non_null().list().non_null())],
                vec![Selection::Linked(head("users", vec![("ids", Value::var("ids"))]), vec![sc("name")])],
            ),
            ep("Query", "Home"),
        ]),
        // fixed 31b992f: a variable used only below a client pointer was declared and never used
        "pointer-var" => project(vec![
            (
                "src/Buddy.ts".to_string(),
                Decl::ClientPointer(ClientPointer {
                    parent: "User".into(),
                    name: "Buddy".into(),
                    to: named("User"),
                    vars: vec![],
                    directives: vec![],
                    description: None,
                    selections: vec![Selection::Linked(head("best", vec![]), vec![sc("__link")])],
                }),
            ),
            cf(
                "Query",
                "Home",
                vec![("q", named("String"))],
                vec![Selection::Linked(
                    head("me", vec![]),
                    vec![sc("name"), Selection::Linked(head("Buddy", vec![]), vec![Selection::Linked(head("friend", vec![("name", Value::var("q"))]), vec![sc("age")])])],
                )],
            ),
            ep("Query", "Home"),
        ]),
        // a client field variable with a default value: the query gets the default, the reader does not
        "var-default" => {
            let mut inner = cf("User", "WithDefault", vec![("n", named("Int"))], vec![Selection::Linked(head("friend", vec![("n", Value::var("n"))]), vec![sc("name")])]);
            if let Decl::ClientField(f) = &mut inner.1 {
                f.vars[0].default = Some(Value::Int(0));
            }
            project(vec![
                inner,
                cf("Query", "Home", vec![], vec![Selection::Linked(head("me", vec![]), vec![sc("WithDefault")])]),
                ep("Query", "Home"),
            ])
        }
        // a loadable client field of an INTERFACE type: its entrypoint is `node(id:) { ... on Node {`,
        // and the runtime's inline-fragment test is `__typename === "Node"`
        "abstract-loadable" => {
            let mut sel = head("Named", vec![]);
            sel.directives.push(Directive::loadable(false));
            project(vec![
                cf("Node", "Named", vec![], vec![sc("id")]),
                cf(
                    "Query",
                    "Home",
                    vec![("id", named("ID").non_null())],
                    vec![Selection::Linked(head("node", vec![("id", Value::var("id"))]), vec![sc("id"), Selection::Scalar(sel)])],
                ),
                ep("Query", "Home"),
            ])
        }
        // two refetchable selections of one field name in ONE reader at paths P = [friend] and
        // Q = [best, friend]: P is a proper suffix of Q and Q sorts before P, so an index lookup that
        // matches path suffixes instead of whole paths picks Q's query for P
        "suffix-paths" => project(vec![
            cf(
                "User",
                "Card",
                vec![],
                vec![
                    Selection::Linked(head("best", vec![]), vec![sc("name"), sc("__refetch"), Selection::Linked(head("friend", vec![]), vec![sc("age"), sc("__refetch")])]),
                    Selection::Linked(head("friend", vec![]), vec![sc("name"), sc("age"), sc("__refetch"), Selection::Linked(head("best", vec![]), vec![sc("__refetch")])]),
                ],
            ),
            cf("Query", "Home", vec![], vec![Selection::Linked(head("me", vec![]), vec![sc("Card")])]),
            ep("Query", "Home"),
        ]),
        // a variable at depth 2 of an object argument, used nowhere else in the operation: the query's
        // variable definitions must come from a recursive walk of object values
        "nested-object-var" => {
            let mut p = project(vec![
                cf(
                    "Query",
                    "Home",
                    vec![("ownerId", named("ID"))],
                    vec![Selection::Linked(
                        head("pets", vec![("filter", obj(vec![("owner", obj(vec![("id", Value::var("ownerId"))]))]))]),
                        vec![sc("name")],
                    )],
                ),
                ep("Query", "Home"),
            ]);
            p.schema.types.push(TypeDef {
                name: "OwnerFilter".into(),
                description: None,
                kind: TypeKind::Input { fields: vec![ad("id", named("ID"))] },
            });
            p.schema.types.push(TypeDef {
                name: "PetFilter".into(),
                description: None,
                kind: TypeKind::Input { fields: vec![ad("owner", named("OwnerFilter"))] },
            });
            if let TypeKind::Object { fields, .. } = &mut p.schema.types[0].kind {
                fields.push(fd("pets", vec![ad("filter", named("PetFilter"))], named("User").non_null().list()));
            }
            p
        }
        _ => return None,
    })
}

pub const NAMES: &[&str] =
    &["plain", "f12", "f12b", "f13", "f11neg", "f11collide", "f18", "f18sorted", "reuse", "nonnull-list-var", "pointer-var", "var-default", "abstract-loadable", "suffix-paths", "nested-object-var"];

pub fn main(args: &[String]) {
    let name = args.first().map(|s| s.as_str()).unwrap_or("");
    let engine = args.get(1).map(|s| s.as_str()).unwrap_or("c09");
    let names: Vec<&str> = if name == "all" { NAMES.to_vec() } else { vec![name] };
    for (k, n) in names.iter().enumerate() {
        let Some(p) = witness(n) else {
            eprintln!("unknown witness {n}; known: {NAMES:?}");
            std::process::exit(2);
        };
        println!("# witness {n}");
        for l in lines_for_case_pub(engine, 900_000 + k as u64, &format!("w-{n}"), &to_wire(&p)) {
            println!("{l}");
        }
    }
}
