//! C10: conforming responses for an entrypoint's query and the runtime's normalize / read on them.
use crate::node::Node;
use crate::Current;
use serde_json::Value;

pub fn c10_answer(_c: &mut Current, _graph: &Value, _rt: &mut Node, _f: &[&str]) -> String {
    "todo".to_string()
}
