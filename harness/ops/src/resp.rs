//! C10: conforming responses for an entrypoint's query, generated from the QUERY TEXT (what a server
//! sees) and the schema, and the runtime's own normalize / read run on them (js/ops_runtime.mjs).
//!
//! `c10 \t <case id> \t <entrypoint.ts path> \t <seed> \t <shape>`; shapes: `full` (no nulls, lists of 2, concrete
//! types of abstract fields cycled), `random` (nulls 20 %, lists 0–3), `sparse` (nulls 50 %, lists 0–1,
//! nullable variables omitted half of the time).
//!
//! answer: `<variables wire> \t <response wire> \t norm:<ok|throw:hex> \t out:<ok|missing:hex|throw:hex>
//!          \t cm:<n>[:hex,hex…] \t <store dump> \t <selected: hex=hex,…|->`
//! JSON as wire tokens: `o n (hexkey val)*` | `a n val*` | `s hex` | `d text` | `t` | `f` | `z`.
use crate::node::{files_json, Node};
use crate::Current;
use hx_common::{hex, Rng};
use hx_projgen::model::*;
use serde_json::{json, Map, Value as J};

// ---------------------------------------------------------------------------------------------
// the operation text as the compiler prints it
// ---------------------------------------------------------------------------------------------

#[derive(Debug, Clone)]
pub enum Sel {
    Field { key: String, name: String, args: Vec<(String, Arg)>, sub: Option<Vec<Sel>> },
    Frag { ty: String, sub: Vec<Sel> },
}

/// an argument value as written in the operation text
#[derive(Debug, Clone)]
pub enum Arg {
    Var(String),
    Lit(J),
    Obj(Vec<(String, Arg)>),
    List(Vec<Arg>),
}

impl Arg {
    /// the value the server sees (an absent variable is null)
    pub fn eval(&self, vars: &Map<String, J>) -> J {
        match self {
            Arg::Var(n) => vars.get(n).cloned().unwrap_or(J::Null),
            Arg::Lit(j) => j.clone(),
            Arg::Obj(fs) => {
                let mut m = Map::new();
                for (k, v) in fs {
                    m.insert(k.clone(), v.eval(vars));
                }
                J::Object(m)
            }
            Arg::List(xs) => J::Array(xs.iter().map(|x| x.eval(vars)).collect()),
        }
    }
}

/// `node(id: 7)` and `node(id: "7")` ask the same question (an Int literal is coerced to the ID "7"), and
/// the store keeps ONE value for both (`node____id___7`): numbers and their decimal strings are one key
fn coerce_numbers(v: J) -> J {
    match v {
        J::Number(n) => J::String(n.to_string()),
        J::Array(a) => J::Array(a.into_iter().map(coerce_numbers).collect()),
        J::Object(m) => J::Object(m.into_iter().map(|(k, x)| (k, coerce_numbers(x))).collect()),
        other => other,
    }
}

#[derive(Debug)]
pub struct Operation {
    pub kind: String,
    pub vars: Vec<(String, TypeRef)>,
    pub sel: Vec<Sel>,
}

fn tokenize(text: &str) -> Option<Vec<String>> {
    let cs: Vec<char> = text.chars().collect();
    let mut i = 0;
    let mut out = vec![];
    while i < cs.len() {
        let c = cs[i];
        if c.is_whitespace() || c == ',' {
            i += 1;
        } else if c == '.' && cs.get(i + 1) == Some(&'.') && cs.get(i + 2) == Some(&'.') {
            out.push("...".to_string());
            i += 3;
        } else if "{}()[]:$!=".contains(c) {
            out.push(c.to_string());
            i += 1;
        } else if c == '"' {
            let mut s = String::from("\"");
            i += 1;
            while i < cs.len() && cs[i] != '"' {
                if cs[i] == '\\' {
                    s.push(cs[i]);
                    i += 1;
                }
                if i < cs.len() {
                    s.push(cs[i]);
                }
                i += 1;
            }
            if i >= cs.len() {
                return None;
            }
            i += 1;
            out.push(s);
        } else {
            let mut s = String::new();
            while i < cs.len() && !(cs[i].is_whitespace() || ",{}()[]:$!=\"".contains(cs[i])) {
                s.push(cs[i]);
                i += 1;
            }
            out.push(s);
        }
    }
    Some(out)
}

struct P {
    t: Vec<String>,
    i: usize,
}

impl P {
    fn peek(&self) -> Option<&str> {
        self.t.get(self.i).map(|s| s.as_str())
    }
    fn next(&mut self) -> Option<String> {
        let x = self.t.get(self.i).cloned();
        self.i += 1;
        x
    }
    fn eat(&mut self, s: &str) -> Option<()> {
        if self.peek() == Some(s) {
            self.i += 1;
            Some(())
        } else {
            None
        }
    }
    fn skip_balanced(&mut self, open: &str, close: &str) -> Option<()> {
        // current token is `open`
        let mut depth = 0;
        loop {
            let t = self.next()?;
            if t == open || t == "{" || t == "[" || (t == "(" && open != "(") {
                depth += 1;
            } else if t == close || t == "}" || t == "]" || (t == ")" && close != ")") {
                depth -= 1;
                if depth == 0 {
                    return Some(());
                }
            }
        }
    }
    fn ty(&mut self) -> Option<TypeRef> {
        let base = if self.peek() == Some("[") {
            self.i += 1;
            let inner = self.ty()?;
            self.eat("]")?;
            inner.list()
        } else {
            TypeRef::named(&self.next()?)
        };
        if self.peek() == Some("!") {
            self.i += 1;
            Some(base.non_null())
        } else {
            Some(base)
        }
    }
    fn arg(&mut self) -> Option<Arg> {
        let t = self.next()?;
        Some(match t.as_str() {
            "$" => Arg::Var(self.next()?),
            "{" => {
                let mut fs = vec![];
                while self.peek()? != "}" {
                    let n = self.next()?;
                    self.eat(":")?;
                    fs.push((n, self.arg()?));
                }
                self.i += 1;
                Arg::Obj(fs)
            }
            "[" => {
                let mut xs = vec![];
                while self.peek()? != "]" {
                    xs.push(self.arg()?);
                }
                self.i += 1;
                Arg::List(xs)
            }
            "true" => Arg::Lit(J::Bool(true)),
            "false" => Arg::Lit(J::Bool(false)),
            "null" => Arg::Lit(J::Null),
            _ if t.starts_with('"') => Arg::Lit(J::String(t[1..].to_string())),
            _ => match t.parse::<i64>() {
                Ok(i) => Arg::Lit(json!(i)),
                Err(_) => match t.parse::<f64>() {
                    Ok(f) => Arg::Lit(json!(f)),
                    Err(_) => Arg::Lit(J::String(format!("enum:{t}"))),
                },
            },
        })
    }
    fn selset(&mut self) -> Option<Vec<Sel>> {
        self.eat("{")?;
        let mut out = vec![];
        loop {
            match self.peek()? {
                "}" => {
                    self.i += 1;
                    return Some(out);
                }
                "..." => {
                    self.i += 1;
                    if self.next()? != "on" {
                        return None;
                    }
                    let ty = self.next()?;
                    let sub = self.selset()?;
                    out.push(Sel::Frag { ty, sub });
                }
                _ => {
                    let first = self.next()?;
                    let (key, name) = if self.peek() == Some(":") {
                        self.i += 1;
                        (first, self.next()?)
                    } else {
                        (first.clone(), first)
                    };
                    let mut args = vec![];
                    if self.peek() == Some("(") {
                        self.i += 1;
                        while self.peek()? != ")" {
                            let n = self.next()?;
                            self.eat(":")?;
                            args.push((n, self.arg()?));
                        }
                        self.i += 1;
                    }
                    let sub = if self.peek() == Some("{") { Some(self.selset()?) } else { None };
                    out.push(Sel::Field { key, name, args, sub });
                }
            }
        }
    }
}

pub fn parse_operation(text: &str) -> Option<Operation> {
    let mut p = P { t: tokenize(text)?, i: 0 };
    let kind = p.next()?;
    let _name = p.next()?;
    let mut vars = vec![];
    if p.peek() == Some("(") {
        p.i += 1;
        while p.peek()? != ")" {
            p.eat("$")?;
            let n = p.next()?;
            p.eat(":")?;
            let t = p.ty()?;
            if p.peek() == Some("=") {
                p.i += 1;
                // a constant: one token, or a balanced bracket group
                match p.peek()? {
                    "{" => p.skip_balanced("{", "}")?,
                    "[" => p.skip_balanced("[", "]")?,
                    _ => {
                        p.i += 1;
                    }
                }
            }
            vars.push((n, t));
        }
        p.i += 1;
    }
    let sel = p.selset()?;
    if p.i != p.t.len() {
        return None;
    }
    Some(Operation { kind, vars, sel })
}

// ---------------------------------------------------------------------------------------------
// generation
// ---------------------------------------------------------------------------------------------

#[derive(Clone, Copy, PartialEq)]
enum Shape {
    Full,
    Random,
    Sparse,
}

struct Gen<'a> {
    schema: &'a Schema,
    r: Rng,
    shape: Shape,
    counter: usize,
    vars: Map<String, J>,
}

/// one field of a collected selection set: response keys that ask for the same field with the same
/// (evaluated) arguments get ONE value — a server answers the same question the same way, and the
/// store keeps one value per field + arguments
struct Collected {
    keys: Vec<String>,
    name: String,
    args_key: String,
    sub: Option<Vec<Sel>>,
}

impl<'a> Gen<'a> {
    fn null_now(&mut self) -> bool {
        match self.shape {
            Shape::Full => false,
            Shape::Random => self.r.below(100) < 20,
            Shape::Sparse => self.r.below(100) < 50,
        }
    }
    fn list_len(&mut self) -> usize {
        match self.shape {
            Shape::Full => 2,
            Shape::Random => self.r.below(4),
            Shape::Sparse => self.r.below(2),
        }
    }
    fn fresh(&mut self) -> usize {
        self.counter += 1;
        self.counter
    }

    fn applies(&self, concrete: &str, frag: &str) -> bool {
        if concrete == frag {
            return true;
        }
        match self.schema.get(frag).map(|t| &t.kind) {
            Some(TypeKind::Union { members }) => members.iter().any(|m| m == concrete),
            Some(TypeKind::Interface { .. }) => match self.schema.get(concrete).map(|t| &t.kind) {
                Some(TypeKind::Object { implements, .. }) => implements.iter().any(|i| i == frag),
                _ => false,
            },
            _ => false,
        }
    }

    /// CollectFields, grouped by field name + evaluated arguments, in order of first appearance
    fn collect(&self, concrete: &str, sels: &[Sel], out: &mut Vec<Collected>) {
        for s in sels {
            match s {
                Sel::Field { key, name, args, sub } => {
                    let mut evaluated = Map::new();
                    for (k, v) in args {
                        evaluated.insert(k.clone(), coerce_numbers(v.eval(&self.vars)));
                    }
                    // serde_json's Map is sorted by key (no `preserve_order`), so this is canonical
                    let args_key = serde_json::to_string(&J::Object(evaluated)).unwrap_or_default();
                    if let Some(e) = out.iter_mut().find(|e| &e.name == name && e.args_key == args_key) {
                        if !e.keys.contains(key) {
                            e.keys.push(key.clone());
                        }
                        if let (Some(a), Some(b)) = (e.sub.as_mut(), sub.as_ref()) {
                            a.extend(b.iter().cloned());
                        }
                    } else {
                        out.push(Collected { keys: vec![key.clone()], name: name.clone(), args_key, sub: sub.clone() });
                    }
                }
                Sel::Frag { ty, sub } => {
                    if self.applies(concrete, ty) {
                        self.collect(concrete, sub, out);
                    }
                }
            }
        }
    }

    fn scalar(&mut self, name: &str) -> J {
        let k = self.fresh();
        match name {
            "String" => json!(format!("s{k}")),
            "ID" => json!(format!("i{k}")),
            "Int" => json!(k as i64),
            "Float" => json!(k as f64 + 0.5),
            "Boolean" => json!(k % 2 == 0),
            _ => match self.schema.get(name).map(|t| &t.kind) {
                Some(TypeKind::Enum { values }) if !values.is_empty() => json!(values[k % values.len()].clone()),
                _ => json!(format!("c{k}")),
            },
        }
    }

    fn object(&mut self, type_name: &str, sels: &[Sel], depth: usize) -> J {
        // resolve an abstract type to one of its concrete types
        let concrete: String = match self.schema.get(type_name) {
            Some(t) if t.is_abstract() => {
                let mut subs = self.schema.concrete_subtypes(type_name);
                // A selection without a direct `__typename` is one of the compiler's own wrappers
                // (`node(id: $id) { ... on T { … } }`): the id that is passed is the id of a T, so
                // the server answers with a T.
                let direct_typename = sels.iter().any(|s| matches!(s, Sel::Field { name, .. } if name == "__typename"));
                if !direct_typename {
                    let frag_types: Vec<String> = sels
                        .iter()
                        .filter_map(|s| match s {
                            Sel::Frag { ty, .. } => Some(ty.clone()),
                            _ => None,
                        })
                        .collect();
                    let narrowed: Vec<String> =
                        subs.iter().filter(|c| frag_types.iter().any(|f| self.applies(c, f))).cloned().collect();
                    if !narrowed.is_empty() {
                        subs = narrowed;
                    }
                }
                if subs.is_empty() {
                    return J::Null;
                }
                let k = if self.shape == Shape::Full { self.fresh() } else { self.r.below(1000) };
                subs[k % subs.len()].clone()
            }
            _ => type_name.to_string(),
        };
        let mut fields = vec![];
        self.collect(&concrete, sels, &mut fields);
        let tdef = self.schema.get(&concrete);
        let id: String = {
            let k = self.fresh();
            format!("{concrete}_{k}")
        };
        let mut obj = Map::new();
        for Collected { keys, name, sub, .. } in fields {
            let v = if name == "__typename" {
                json!(concrete.clone())
            } else {
                let fdef = tdef.and_then(|t| t.field(&name)).cloned();
                match fdef {
                    None => J::Null, // not a field of this type: the query is invalid; give nothing
                    Some(fd) => {
                        if name == "id" && fd.ty.inner() == "ID" && !fd.ty.is_list() {
                            json!(id.clone())
                        } else {
                            self.value(&fd.ty, sub.as_deref(), depth)
                        }
                    }
                }
            };
            for key in keys {
                obj.insert(key, v.clone());
            }
        }
        J::Object(obj)
    }

    fn value(&mut self, ty: &TypeRef, sub: Option<&[Sel]>, depth: usize) -> J {
        match ty {
            TypeRef::NonNull(inner) => self.value_nn(inner, sub, depth),
            _ => {
                if self.null_now() {
                    J::Null
                } else {
                    self.value_nn(ty, sub, depth)
                }
            }
        }
    }

    fn value_nn(&mut self, ty: &TypeRef, sub: Option<&[Sel]>, depth: usize) -> J {
        match ty {
            TypeRef::NonNull(inner) => self.value_nn(inner, sub, depth),
            TypeRef::List(item) => {
                let n = self.list_len();
                J::Array((0..n).map(|_| self.value(item, sub, depth)).collect())
            }
            TypeRef::Named(n) => match sub {
                Some(s) if self.schema.is_composite(n) => {
                    if depth > 12 {
                        J::Null
                    } else {
                        self.object(n, s, depth + 1)
                    }
                }
                _ => self.scalar(n),
            },
        }
    }

    fn input(&mut self, ty: &TypeRef, depth: usize) -> J {
        match ty {
            TypeRef::NonNull(inner) => self.input(inner, depth),
            TypeRef::List(item) => {
                let n = 1 + self.r.below(2);
                J::Array((0..n).map(|_| self.input(item, depth)).collect())
            }
            TypeRef::Named(n) => match self.schema.get(n).map(|t| &t.kind) {
                Some(TypeKind::Input { fields }) => {
                    let mut m = Map::new();
                    if depth < 4 {
                        for f in fields {
                            if f.ty.is_non_null() || self.r.below(100) < 60 {
                                m.insert(f.name.clone(), self.input(&f.ty, depth + 1));
                            }
                        }
                    }
                    J::Object(m)
                }
                _ => self.scalar(n),
            },
        }
    }
}

// ---------------------------------------------------------------------------------------------
// wire
// ---------------------------------------------------------------------------------------------

pub fn json_wire(v: &J, out: &mut Vec<String>) {
    match v {
        J::Null => out.push("z".into()),
        J::Bool(true) => out.push("t".into()),
        J::Bool(false) => out.push("f".into()),
        J::Number(n) => {
            out.push("d".into());
            // JavaScript prints 3.0 as 3; the generator only makes integers and x.5
            let s = n.to_string();
            out.push(s.strip_suffix(".0").unwrap_or(&s).to_string());
        }
        J::String(s) => {
            out.push("s".into());
            out.push(hex(s.as_bytes()));
        }
        J::Array(a) => {
            out.push("a".into());
            out.push(a.len().to_string());
            for x in a {
                json_wire(x, out);
            }
        }
        J::Object(m) => {
            out.push("o".into());
            out.push(m.len().to_string());
            for (k, x) in m {
                out.push(hex(k.as_bytes()));
                json_wire(x, out);
            }
        }
    }
}

fn wire(v: &J) -> String {
    let mut out = vec![];
    json_wire(v, &mut out);
    out.join(" ")
}

fn hx(s: &str) -> String {
    hex(s.as_bytes())
}

pub fn c10_answer(c: &mut Current, values: &J, rt: &mut Node, f: &[&str]) -> String {
    let (Some(entry), Some(seed), Some(shape)) = (f.get(2), f.get(3).and_then(|s| s.parse::<u64>().ok()), f.get(4)) else {
        return "bad-request".to_string();
    };
    let Some(project) = c.project.as_ref() else { return "noschema".to_string() };
    let dir = entry.strip_suffix("/entrypoint.ts").unwrap_or(entry);
    let text_path = format!("{dir}/query_text.ts");
    let Some(text) = values["values"][&text_path]["ok"].as_str() else { return "noquerytext".to_string() };
    let Some(op) = parse_operation(text) else { return "unparsed-query".to_string() };
    let root = match op.kind.as_str() {
        "query" => "Query",
        "mutation" => "Mutation",
        "subscription" => "Subscription",
        _ => return "unparsed-query".to_string(),
    };
    let shape = match *shape {
        "full" => Shape::Full,
        "sparse" => Shape::Sparse,
        _ => Shape::Random,
    };
    let mut g = Gen { schema: &project.schema, r: Rng::new(seed, 77), shape, counter: 0, vars: Map::new() };
    let mut vars = Map::new();
    for (n, t) in &op.vars {
        if t.is_nullable() && shape == Shape::Sparse && g.r.below(2) == 0 {
            continue;
        }
        if t.is_nullable() && shape == Shape::Random && g.r.below(5) == 0 {
            vars.insert(n.clone(), J::Null);
            continue;
        }
        let v = g.input(t, 0);
        vars.insert(n.clone(), v);
    }
    g.vars = vars.clone();
    let response = g.object(root, &op.sel, 0);
    let mut pointers = Map::new();
    for (t, fld, to) in &c.pointers {
        let types: Vec<String> = match project.schema.get(to) {
            Some(td) if td.is_abstract() => project.schema.concrete_subtypes(to),
            _ => vec![to.clone()],
        };
        pointers.insert(format!("{t}/{fld}/resolver_reader.ts"), json!(types));
    }
    // where the read starts: the root record for an entrypoint of a root type; for the entrypoint the
    // compiler generates for a loadable field of another type (`node(id: $id) { ... on T { … } }`) the
    // record of the object that was fetched (read.ts passes the link the field was selected on)
    let entry_type = entry.split('/').next().unwrap_or("");
    let root: Option<(String, String)> = if ["Query", "Mutation", "Subscription"].contains(&entry_type) {
        None
    } else {
        let obj = response.as_object().and_then(|m| if m.len() == 1 { m.values().next() } else { None });
        match obj.and_then(|o| Some((o.get("__typename")?.as_str()?.to_string(), o.get("id")?.as_str()?.to_string()))) {
            Some((t, id)) => {
                if op.vars.iter().any(|(n, _)| n == "id") {
                    vars.insert("id".to_string(), json!(id.clone()));
                }
                Some((t, id))
            }
            None => return format!("{}\t{}\tnoroot", wire(&J::Object(vars)), wire(&response)),
        }
    };
    let vars = J::Object(vars);
    let root_field = match &root {
        Some((t, id)) => format!("root:{}:{}", hx(t), hx(id)),
        None => "root:-".to_string(),
    };
    let ans = rt.call(&json!({
        "op": "read", "files": files_json(&c.outcome.artifacts), "entry": entry,
        "variables": vars, "response": response, "pointers": J::Object(pointers),
        "root": root.as_ref().map(|(t, id)| json!({"__typename": t, "__link": id})),
    }));
    if let Some(e) = ans["err"].as_str() {
        return format!("{}\t{}\t{}\trt-error:{}", wire(&vars), wire(&response), root_field, hx(e));
    }
    let norm = match ans["normalize"].as_str().unwrap_or("?") {
        "ok" => "norm:ok".to_string(),
        other => format!("norm:throw:{}", hx(other.strip_prefix("throw:").unwrap_or(other))),
    };
    let out = match ans["outcome"].as_str().unwrap_or("?") {
        "ok" => "out:ok".to_string(),
        "missing" => format!("out:missing:{}", hx(ans["reason"].as_str().unwrap_or(""))),
        other => format!("out:throw:{}", hx(other.strip_prefix("throw:").unwrap_or(other))),
    };
    let cm: Vec<String> = ans["componentMissing"].as_array().map(|a| a.iter().map(|x| hx(x.as_str().unwrap_or(""))).collect()).unwrap_or_default();
    let cm = if cm.is_empty() { "cm:0".to_string() } else { format!("cm:{}:{}", cm.len(), cm.join(",")) };
    let store = ans["store"].as_str().unwrap_or("").to_string();
    let selected: Vec<String> = ans["selected"]
        .as_array()
        .map(|a| a.iter().map(|x| format!("{}={}", hx(x[0].as_str().unwrap_or("")), hx(x[1].as_str().unwrap_or("")))).collect())
        .unwrap_or_default();
    if norm != "norm:ok" {
        return format!("{}\t{}\t{}\t{}", wire(&vars), wire(&response), root_field, norm);
    }
    format!(
        "{}\t{}\t{}\t{}\t{}\t{}\t{}\t{}",
        wire(&vars),
        wire(&response),
        root_field,
        norm,
        out,
        cm,
        if store.is_empty() { "-".to_string() } else { store },
        if selected.is_empty() { "-".to_string() } else { selected.join(",") }
    )
}
