//! C10 model tie: a project of the modelled subset as the mini program of `IsoVerif.Ops.Cover`
//! (lean/IsoVerif/Model/Core/OpsCover.lean), so that the model's merged keys / read keys can be compared
//! with the normalization AST / reader ASTs the real compiler generates.
//!
//! Subset: server scalar and linked fields, `__typename`, client fields selected without `@loadable`
//! (arguments: int, bool, string, enum, null, variable, object of these).  Anything else (client
//! pointers, `__link`, `__refetch`, exposed fields, `asConcreteType`, `@loadable`, float / list values)
//! is `out:<reason>`.
//!
//! wire:  T seq(hex name) nat(entry field) seq(clientdef)
//!   clientdef := "c" seq(nat ("N" | "S" val)) seq(sel)
//!   sel := "s" nat args | "l" nat args seq(sel) | "c" nat args        args := seq(nat val)
//!   val := "v" nat | "l" nat | "z" | "o" seq(nat val)
//! names hold field / argument / variable names as they are and literals as `i:<int>`, `b:<bool>`,
//! `s:<text>`, `e:<enum>`.
use hx_common::hex;
use hx_projgen::env::{Env, SelKind};
use hx_projgen::model::*;

struct Tr<'a> {
    env: Env<'a>,
    names: Vec<String>,
    fields: Vec<&'a ClientField>,
}

impl<'a> Tr<'a> {
    fn intern(&mut self, s: &str) -> usize {
        if let Some(i) = self.names.iter().position(|n| n == s) {
            i
        } else {
            self.names.push(s.to_string());
            self.names.len() - 1
        }
    }
    fn val(&mut self, v: &Value, out: &mut Vec<String>) -> Result<(), String> {
        match v {
            Value::Var(n) => {
                let i = self.intern(n);
                out.push("v".into());
                out.push(i.to_string());
            }
            Value::Null => out.push("z".into()),
            Value::Int(i) => {
                let k = self.intern(&format!("i:{i}"));
                out.push("l".into());
                out.push(k.to_string());
            }
            Value::Bool(b) => {
                let k = self.intern(&format!("b:{b}"));
                out.push("l".into());
                out.push(k.to_string());
            }
            Value::Str(s) => {
                if s.contains('\\') {
                    return Err("string-with-backslash".into());
                }
                let k = self.intern(&format!("s:{s}"));
                out.push("l".into());
                out.push(k.to_string());
            }
            Value::Enum(e) => {
                let k = self.intern(&format!("e:{e}"));
                out.push("l".into());
                out.push(k.to_string());
            }
            Value::Object(fs) => {
                out.push("o".into());
                out.push(fs.len().to_string());
                for (k, x) in fs {
                    let i = self.intern(k);
                    out.push(i.to_string());
                    self.val(x, out)?;
                }
            }
            Value::Float(_) | Value::List(_) => return Err("float-or-list-value".into()),
        }
        Ok(())
    }
    fn args(&mut self, args: &[(String, Value)], out: &mut Vec<String>) -> Result<(), String> {
        out.push(args.len().to_string());
        for (k, v) in args {
            let i = self.intern(k);
            out.push(i.to_string());
            self.val(v, out)?;
        }
        Ok(())
    }
    fn sels(&mut self, parent: &str, sels: &[Selection], out: &mut Vec<String>) -> Result<(), String> {
        out.push(sels.len().to_string());
        for s in sels {
            let h = s.head();
            let Some(target) = self.env.lookup(parent, &h.name) else { return Err("unknown-selectable".into()) };
            if h.has_directive("loadable") {
                return Err("loadable".into());
            }
            match target.kind {
                SelKind::ServerScalar | SelKind::Typename => {
                    let i = self.intern(&h.name);
                    out.push("s".into());
                    out.push(i.to_string());
                    self.args(&h.args, out)?;
                }
                SelKind::ServerObject => {
                    let i = self.intern(&h.name);
                    out.push("l".into());
                    out.push(i.to_string());
                    self.args(&h.args, out)?;
                    let t = target.target.clone().ok_or("no-target")?;
                    let kids = s.kids().ok_or("scalar-selection-of-object")?;
                    self.sels(&t, kids, out)?;
                }
                SelKind::ClientField => {
                    let idx = self
                        .fields
                        .iter()
                        .position(|f| f.name == h.name && self.env.lookup(parent, &f.name).is_some() && self.owner_matches(f, parent))
                        .ok_or("client-field-not-found")?;
                    out.push("c".into());
                    out.push(idx.to_string());
                    self.args(&h.args, out)?;
                }
                other => return Err(format!("{other:?}")),
            }
        }
        Ok(())
    }
    /// the client field `f` is the one selectable on `parent` (declared on it)
    fn owner_matches(&self, f: &ClientField, parent: &str) -> bool {
        f.parent == parent
    }
}

/// `Ok(wire)` or `Err(reason)`
pub fn tie_wire(p: &Project, entry_parent: &str, entry_name: &str) -> Result<String, String> {
    let fields: Vec<&ClientField> = p
        .decls
        .iter()
        .filter_map(|(_, d)| match d {
            Decl::ClientField(f) => Some(f),
            _ => None,
        })
        .collect();
    let mut t = Tr { env: Env::new(p), names: vec![], fields };
    let entry = t.fields.iter().position(|f| f.parent == entry_parent && f.name == entry_name).ok_or("entry-not-found")?;
    let mut defs: Vec<String> = vec![];
    let all: Vec<&ClientField> = t.fields.clone();
    defs.push(all.len().to_string());
    for f in all {
        defs.push("c".into());
        defs.push(f.vars.len().to_string());
        for v in &f.vars {
            let i = t.intern(&v.name);
            defs.push(i.to_string());
            match &v.default {
                None => defs.push("N".into()),
                Some(d) => {
                    defs.push("S".into());
                    t.val(d, &mut defs)?;
                }
            }
        }
        // a field outside the subset is only a problem when it is reachable; translate lazily: an
        // untranslatable body becomes an empty one and is remembered
        let mut body = vec![];
        match t.sels(&f.parent, &f.selections, &mut body) {
            Ok(()) => defs.extend(body),
            Err(why) => {
                if reachable(p, entry_parent, entry_name, &f.parent, &f.name) {
                    return Err(why);
                }
                defs.push("0".into());
            }
        }
    }
    let mut out = vec!["T".to_string(), t.names.len().to_string()];
    out.extend(t.names.iter().map(|n| hex(n.as_bytes())));
    out.push(entry.to_string());
    out.extend(defs);
    Ok(out.join(" "))
}

/// is client field `parent.name` reachable from the entry through client-field selections?
fn reachable(p: &Project, entry_parent: &str, entry_name: &str, parent: &str, name: &str) -> bool {
    let env = Env::new(p);
    let mut todo = vec![(entry_parent.to_string(), entry_name.to_string())];
    let mut seen: Vec<(String, String)> = vec![];
    while let Some((tp, tn)) = todo.pop() {
        if seen.contains(&(tp.clone(), tn.clone())) {
            continue;
        }
        seen.push((tp.clone(), tn.clone()));
        if tp == parent && tn == name {
            return true;
        }
        let Some(Decl::ClientField(f)) = p.decls.iter().map(|(_, d)| d).find(|d| matches!(d, Decl::ClientField(f) if f.parent == tp && f.name == tn)) else {
            continue;
        };
        fn walk(env: &Env, ty: &str, sels: &[Selection], todo: &mut Vec<(String, String)>) {
            for s in sels {
                let h = s.head();
                if let Some(t) = env.lookup(ty, &h.name) {
                    match t.kind {
                        SelKind::ClientField => todo.push((ty.to_string(), h.name.clone())),
                        _ => {}
                    }
                    if let (Some(k), Some(tt)) = (s.kids(), t.target.as_ref()) {
                        walk(env, tt, k, todo);
                    }
                }
            }
        }
        walk(&env, &f.parent, &f.selections, &mut todo);
    }
    false
}
