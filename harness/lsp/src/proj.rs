//! A tiny isograph project on disk (under /tmp/hx_lsp_<pid>/) and helpers that drive the real
//! language-server handlers over it.
use common_lang_types::{CurrentWorkingDirectory, RelativePathToSourceFile};
use graphql_network_protocol::GraphQLAndJavascriptProfile;
use hx_common::hex;
use intern::string_key::Intern;
use isograph_compiler::CompilerState;
use isograph_config::create_config;
use isograph_lang_types::{semantic_token_legend::IndentChange, IsographSemanticToken, LineBehavior};
use isograph_lsp::verif as lv;
use isograph_schema::{
    extract_iso_literals_from_file_content, process_iso_literal_extraction, validate_entire_schema,
    IsoLiteralExtraction, IsographDatabase,
};
use lsp_types::{
    DocumentFormattingParams, FormattingOptions, GotoDefinitionParams, HoverParams, Position,
    SemanticTokensParams, SemanticTokensResult, TextDocumentIdentifier, TextDocumentPositionParams,
    TextEdit, Uri,
};
use prelude::ErrClone;
use std::collections::BTreeSet;
use std::panic::{catch_unwind, AssertUnwindSafe};
use std::path::PathBuf;
use std::str::FromStr;

pub type P = GraphQLAndJavascriptProfile;
pub type Db = IsographDatabase<P>;
pub type Lsp<'a> = lv::LspState<'a, P>;

pub const SCHEMA: &str = "type Query {\n  me: User!\n  node(id: ID!): User\n  pets: [Pet!]!\n}\n\ntype User {\n  id: ID!\n  name: String\n  age: Int\n  friend(first: Int): User\n  pet: Pet\n}\n\ntype Pet {\n  id: ID!\n  nickname: String\n  owner: User\n}\n";

pub struct Proj {
    pub base: PathBuf,
    pub root: PathBuf,
    pub cwd: CurrentWorkingDirectory,
}

pub fn base_dir() -> PathBuf {
    PathBuf::from(format!("/tmp/hx_lsp_{}", std::process::id()))
}

impl Proj {
    pub fn new(tag: &str) -> Proj {
        let base = base_dir();
        let root = base.join(tag);
        let _ = std::fs::remove_dir_all(&root);
        std::fs::create_dir_all(root.join("src")).expect("mkdir");
        std::fs::write(
            root.join("isograph.config.json"),
            "{\n  \"project_root\": \"./src\",\n  \"schema\": \"./schema.graphql\"\n}\n",
        )
        .unwrap();
        std::fs::write(root.join("schema.graphql"), SCHEMA).unwrap();
        let root = root.canonicalize().unwrap();
        let cwd: CurrentWorkingDirectory = root.to_str().unwrap().intern().into();
        Proj { base, root, cwd }
    }

    pub fn state(&self) -> CompilerState<P> {
        let config = create_config(&self.root.join("isograph.config.json"), self.cwd);
        match CompilerState::new(config, self.cwd) { Ok(s) => s, Err(e) => panic!("compiler state: {}", e) }
    }

    pub fn abs(&self, rel: &str) -> PathBuf {
        self.root.join(rel)
    }

    pub fn uri(&self, rel: &str) -> Uri {
        Uri::from_str(&format!("file://{}", self.abs(rel).to_str().unwrap())).unwrap()
    }

    pub fn rel(&self, rel: &str) -> RelativePathToSourceFile {
        rel.intern().into()
    }
}

pub fn cleanup() {
    let _ = std::fs::remove_dir_all(base_dir());
}

pub fn guarded<T>(f: impl FnOnce() -> T) -> Option<T> {
    catch_unwind(AssertUnwindSafe(f)).ok()
}

// ------------------------------------------------------------------------------------------
// legend codes

pub fn code(t: &IsographSemanticToken) -> String {
    let b = |x: bool| if x { '1' } else { '0' };
    let lb = match t.line_behavior {
        LineBehavior::StartsNewLine(s) => format!("S{}", b(*s.space_after)),
        LineBehavior::EndsLine(e) => format!("E{}", b(*e.space_before)),
        LineBehavior::Inline(i) => format!("I{}{}", b(*i.space_before), b(*i.space_after)),
        LineBehavior::IsOwnLine => "O".to_string(),
        LineBehavior::Remove => "R".to_string(),
    };
    let ic = match t.indent_change {
        IndentChange::Indent => "i",
        IndentChange::Dedent => "d",
        IndentChange::Same => "s",
    };
    format!("{}.{}.{}", t.lsp_semantic_token.0, lb, ic)
}

#[derive(Clone, Debug, PartialEq, Eq)]
pub struct Lit {
    pub start: usize,
    pub len: usize,
    pub accepted: bool,
    /// (relative start, relative end, legend code)
    pub toks: Vec<(u32, u32, String)>,
    /// location-free rendering of the declaration (only for accepted literals)
    pub decl: String,
}

pub fn lits_string(lits: &[Lit]) -> String {
    if lits.is_empty() {
        return "-".to_string();
    }
    lits.iter()
        .map(|l| {
            format!(
                "{}:{}:{}:{}",
                l.start,
                l.len,
                if l.accepted { "A" } else { "R" },
                l.toks.iter().map(|(s, e, c)| format!("{}-{}-{}", s, e, c)).collect::<Vec<_>>().join(",")
            )
        })
        .collect::<Vec<_>>()
        .join(";")
}

fn erase_spans(s: &str) -> String {
    // `Span { start: 1, end: 2 }` -> `Span`
    let mut out = String::new();
    let mut rest = s;
    while let Some(i) = rest.find("Span {") {
        out.push_str(&rest[..i]);
        out.push_str("Span");
        match rest[i..].find('}') {
            Some(j) => rest = &rest[i + j + 1..],
            None => {
                rest = "";
            }
        }
    }
    out.push_str(rest);
    out
}

fn decl_string(r: &isograph_lang_parser::IsoLiteralExtractionResult) -> String {
    use isograph_lang_parser::IsoLiteralExtractionResult as R;
    let mut r = r.clone();
    match &mut r {
        R::ClientPointerDeclaration(d) => d.item.semantic_tokens.clear(),
        R::ClientFieldDeclaration(d) => d.item.semantic_tokens.clear(),
        R::EntrypointDeclaration(d) => {
            d.item.semantic_tokens.clear();
            d.item.iso_literal_text = "".intern().into();
        }
    }
    erase_spans(&format!("{:?}", r))
}

/// The literals of the file as the real extraction + parser see them.
pub fn lits_of(db: &Db, rel: RelativePathToSourceFile) -> Vec<Lit> {
    let exts: Vec<IsoLiteralExtraction> = extract_iso_literals_from_file_content(db, rel).to_vec();
    exts.iter()
        .map(|e| match process_iso_literal_extraction(db, e, rel) {
            Ok((res, _ts)) => Lit {
                start: e.iso_literal_start_index,
                len: e.iso_literal_text.len(),
                accepted: true,
                toks: res
                    .semantic_tokens()
                    .iter()
                    .map(|t| (t.location.span.start, t.location.span.end, code(&t.item)))
                    .collect(),
                decl: decl_string(&res),
            },
            Err(d) => {
              if std::env::var("HX_DEBUG").is_ok() {
                  eprintln!("REJECT {:?}", d.0.message);
              }
              Lit {
                start: e.iso_literal_start_index,
                len: e.iso_literal_text.len(),
                accepted: false,
                toks: vec![],
                decl: String::new(),
            }},
        })
        .collect()
}

// ------------------------------------------------------------------------------------------
// per-file observations through the real request handlers

pub fn sem_tokens(lsp: &Lsp, uri: &Uri) -> String {
    match guarded(|| {
        lv::on_semantic_token_full_request(
            lsp,
            SemanticTokensParams {
                work_done_progress_params: Default::default(),
                partial_result_params: Default::default(),
                text_document: TextDocumentIdentifier { uri: uri.clone() },
            },
        )
    }) {
        None => "panic".to_string(),
        Some(Err(e)) => format!("err:{:?}", e).replace([' ', '\t'], "_"),
        Some(Ok(None)) => "none".to_string(),
        Some(Ok(Some(SemanticTokensResult::Tokens(t)))) => {
            let mut s = format!("T {}", t.data.len());
            for d in &t.data {
                s.push_str(&format!(
                    " {} {} {} {} {}",
                    d.delta_line, d.delta_start, d.length, d.token_type, d.token_modifiers_bitset
                ));
            }
            s
        }
        Some(Ok(Some(_))) => "partial".to_string(),
    }
}

pub fn format_edits(lsp: &Lsp, uri: &Uri) -> Result<Option<Vec<TextEdit>>, String> {
    match guarded(|| {
        lv::on_format(
            lsp,
            DocumentFormattingParams {
                text_document: TextDocumentIdentifier { uri: uri.clone() },
                options: FormattingOptions { tab_size: 2, insert_spaces: true, ..Default::default() },
                work_done_progress_params: Default::default(),
            },
        )
    }) {
        None => Err("panic".to_string()),
        Some(Err(e)) => Err(format!("err:{:?}", e).replace([' ', '\t'], "_")),
        Some(Ok(x)) => Ok(x),
    }
}

pub fn edits_string(e: &Result<Option<Vec<TextEdit>>, String>) -> String {
    match e {
        Err(s) => s.clone(),
        Ok(None) => "none".to_string(),
        Ok(Some(v)) => {
            let mut s = format!("E {}", v.len());
            for t in v {
                s.push_str(&format!(
                    " {} {} {} {} {}",
                    t.range.start.line,
                    t.range.start.character,
                    t.range.end.line,
                    t.range.end.character,
                    hex(t.new_text.as_bytes())
                ));
            }
            s
        }
    }
}

fn tdp(uri: &Uri, line: u32, character: u32) -> TextDocumentPositionParams {
    TextDocumentPositionParams {
        text_document: TextDocumentIdentifier { uri: uri.clone() },
        position: Position { line, character },
    }
}

pub fn hover(lsp: &Lsp, uri: &Uri, line: u32, character: u32) -> String {
    match guarded(|| {
        lv::on_hover(
            lsp,
            HoverParams {
                text_document_position_params: tdp(uri, line, character),
                work_done_progress_params: Default::default(),
            },
        )
    }) {
        None => "panic".to_string(),
        Some(r) => hex(format!("{:?}", r).as_bytes()),
    }
}

pub fn goto(lsp: &Lsp, uri: &Uri, line: u32, character: u32) -> String {
    match guarded(|| {
        lv::on_goto_definition(
            lsp,
            GotoDefinitionParams {
                text_document_position_params: tdp(uri, line, character),
                work_done_progress_params: Default::default(),
                partial_result_params: Default::default(),
            },
        )
    }) {
        None => "panic".to_string(),
        Some(r) => hex(format!("{:?}", r).as_bytes()),
    }
}

/// `validate_entire_schema` + the conversion to publishDiagnostics parameters, as the server's
/// debounce branch does it.
pub fn diagnostics(db: &Db) -> String {
    match guarded(|| {
        let diags = validate_entire_schema(db).clone_err().err().unwrap_or_default();
        let (params, _uris) = lv::iso_diagnostics_to_params(db, &diags, BTreeSet::new());
        let mut v: Vec<String> = params.iter().map(|p| serde_json::to_string(p).unwrap()).collect();
        v.sort();
        // diagnostics without a convertible location are dropped by the server; keep their count
        // second line: the same diagnostics without their file (sorted), to recognise "the same
        // error reported in another of several identical files"
        let mut anon: Vec<String> = params
            .iter()
            .flat_map(|p| p.diagnostics.iter().map(|d| serde_json::to_string(d).unwrap()))
            .collect();
        anon.sort();
        format!("{}|{}\n{}", diags.len(), v.join("|"), anon.join("|"))
    }) {
        None => "panic".to_string(),
        Some(s) => s,
    }
}
