//! Compact grammar-directed generator of iso literals and of documents embedding them.
//! Every selection is followed by a comma or a line break (the parser requires one of them).
use hx_common::Rng;

#[derive(Clone, Copy, PartialEq, Eq)]
enum K {
    Word, // identifier or integer
    Str,  // string / block string
    Punct,
    Dot,
}

pub struct G<'a> {
    pub r: &'a mut Rng,
    /// (separator before, token text)
    pub toks: Vec<(String, String)>,
    last: Option<K>,
    pending_newline: bool,
    messy: usize, // 0 = tidy, 1 = random, 2 = minimal whitespace
}

const NAMES: &[&str] = &[
    "name", "id", "me", "friend", "Avatar", "pet", "x", "node", "first", "a1", "_b", "nickname",
    "age", "owner", "pets", "Home",
];
const TYPES: &[&str] = &["Query", "User", "Pet", "Node"];
const SCALARS: &[&str] = &["Int", "String", "ID", "Boolean", "User"];
const WS_NEED: &[&str] = &[" ", " ", " ", "  ", "\n", "\n  ", "\t", " \r\n ", "\n\n    "];
const WS_OPT: &[&str] = &["", "", "", " ", " ", "\n", "  ", "\n  ", "\r\n"];
const STR_CH: &[&str] = &[
    "a", "b", "Z", " ", "é", "漢", "ö", "!", "#", "\\n", "\\\"", "\\u00e9", "→", "0", ",", "{",
];
const BLOCK_CH: &[&str] = &["a", "b", " ", " ", "\n", "\n  ", "é", "漢", "→", "z", "\r\n", "'", ","];

impl<'a> G<'a> {
    pub fn new(r: &'a mut Rng) -> Self {
        let messy = r.below(3);
        G { r, toks: vec![], last: None, pending_newline: false, messy }
    }

    fn sep_for(&mut self, k: K) -> String {
        let need = match (self.last, k) {
            (Some(K::Word), K::Word) => true,
            (Some(K::Str), K::Str) => true,
            (Some(K::Word), K::Dot) | (Some(K::Dot), K::Word) => false,
            _ => false,
        };
        if self.pending_newline {
            self.pending_newline = false;
            let mut s = String::from("\n");
            if self.messy != 2 {
                for _ in 0..self.r.below(5) {
                    s.push(' ');
                }
            }
            return s;
        }
        if self.last.is_none() {
            return (*self.r.pick(&["", "", "\n  ", " ", "\n"])).to_string();
        }
        match self.messy {
            0 => {
                if need || k != K::Dot && self.last != Some(K::Dot) && self.r.chance(2, 3) {
                    " ".to_string()
                } else {
                    String::new()
                }
            }
            1 => {
                if need {
                    (*self.r.pick(WS_NEED)).to_string()
                } else {
                    (*self.r.pick(WS_OPT)).to_string()
                }
            }
            _ => {
                if need {
                    " ".to_string()
                } else {
                    String::new()
                }
            }
        }
    }

    fn t(&mut self, s: &str, k: K) {
        let sep = self.sep_for(k);
        self.toks.push((sep, s.to_string()));
        self.last = Some(k);
    }
    fn word(&mut self, s: &str) {
        self.t(s, K::Word)
    }
    fn p(&mut self, s: &str) {
        self.t(s, if s == "." { K::Dot } else { K::Punct })
    }
    fn name(&mut self) {
        let n = *self.r.pick(NAMES);
        self.word(n)
    }

    /// comma and/or line break
    fn sep(&mut self) {
        match self.r.below(6) {
            0 | 1 => self.p(","),
            2 | 3 => self.pending_newline = true,
            4 => {
                self.p(",");
                self.pending_newline = true
            }
            _ => {
                self.pending_newline = true;
                let s = self.sep_for(K::Punct);
                self.toks.push((s, ",".to_string()));
                self.last = Some(K::Punct);
            }
        }
    }

    fn string(&mut self) {
        let n = self.r.below(7);
        let mut s = String::from("\"");
        for _ in 0..n {
            s.push_str(*self.r.pick(STR_CH));
        }
        s.push('"');
        self.t(&s, K::Str)
    }

    fn block_string(&mut self) {
        let n = self.r.below(14);
        let mut s = String::from("\"\"\"");
        for _ in 0..n {
            s.push_str(*self.r.pick(BLOCK_CH));
        }
        s.push_str("\"\"\"");
        self.t(&s, K::Str)
    }

    fn int(&mut self) {
        let v = match self.r.below(6) {
            0 => "0".to_string(),
            1 => format!("-{}", self.r.range(1, 99)),
            2 => "2147483647".to_string(),
            _ => format!("{}", self.r.range(1, 9999)),
        };
        self.word(&v)
    }

    fn value(&mut self, depth: usize, allow_var: bool) {
        match self.r.below(if depth > 1 { 6 } else { 8 }) {
            0 | 1 if allow_var => {
                self.p("$");
                self.name()
            }
            0 | 1 | 2 => self.string(),
            3 => self.int(),
            4 => {
                let w = *self.r.pick(&["true", "false", "null"]);
                self.word(w)
            }
            5 => self.int(),
            _ => {
                self.p("{");
                let n = self.r.below(3);
                for i in 0..n {
                    self.name();
                    self.p(":");
                    self.value(depth + 1, allow_var);
                    if i + 1 < n || self.r.chance(1, 3) {
                        self.sep();
                    }
                }
                self.p("}");
            }
        }
    }

    fn args(&mut self, depth: usize) {
        self.p("(");
        let n = self.r.below(4);
        for i in 0..n {
            self.name();
            self.p(":");
            self.value(depth, true);
            if i + 1 < n || self.r.chance(1, 3) {
                self.sep();
            }
        }
        self.p(")");
    }

    /// declaration-level directives: any name, optional arguments
    fn directives(&mut self, depth: usize) {
        let n = *self.r.pick(&[0, 0, 0, 1, 1, 2]);
        for _ in 0..n {
            self.p("@");
            let d = *self.r.pick(&["component", "loadable", "updatable", "lazyLoad", "foo"]);
            self.word(d);
            if self.r.chance(1, 4) {
                self.args(depth + 1);
            }
        }
    }

    /// selection-level directives: the parser deserialises them (at most one known directive)
    fn selection_directives(&mut self, object: bool) {
        match self.r.below(12) {
            0 | 1 => {
                self.p("@");
                self.word("updatable");
            }
            2 if !object => {
                self.p("@");
                self.word("loadable");
            }
            3 if !object => {
                self.p("@");
                self.word("loadable");
                self.p("(");
                self.word("lazyLoadArtifact");
                self.p(":");
                let b = *self.r.pick(&["true", "false"]);
                self.word(b);
                if self.r.chance(1, 3) {
                    self.sep();
                }
                self.p(")");
            }
            4 if self.r.chance(1, 3) => {
                self.p("@");
                self.word("foo"); // unknown directive: rejected
            }
            _ => {}
        }
    }

    fn type_ann(&mut self, depth: usize) {
        if depth < 2 && self.r.chance(1, 3) {
            self.p("[");
            self.type_ann(depth + 1);
            self.p("]");
        } else {
            let s = *self.r.pick(SCALARS);
            self.word(s);
        }
        if self.r.chance(1, 2) {
            self.p("!");
        }
    }

    fn var_defs(&mut self) {
        self.p("(");
        let n = self.r.below(3);
        for i in 0..n {
            self.p("$");
            self.name();
            self.p(":");
            self.type_ann(0);
            if self.r.chance(1, 4) {
                self.p("=");
                self.value(1, false);
            }
            if i + 1 < n || self.r.chance(1, 3) {
                self.sep();
            }
        }
        self.p(")");
    }

    fn selection_set(&mut self, depth: usize) {
        self.p("{");
        let n = if depth >= 3 { self.r.below(2) } else { self.r.below(4) };
        for _ in 0..n {
            if self.r.chance(1, 5) {
                self.name();
                self.p(":");
            }
            self.name();
            if self.r.chance(1, 4) {
                self.args(depth);
            }
            let object = depth < 3 && self.r.chance(1, 3);
            self.selection_directives(object);
            if object {
                self.selection_set(depth + 1);
            }
            self.sep();
        }
        self.p("}");
    }

    fn description(&mut self) {
        match self.r.below(5) {
            0 => self.string(),
            1 | 2 => self.block_string(),
            _ => {}
        }
    }

    pub fn declaration(&mut self) {
        match self.r.below(8) {
            0 | 1 => {
                self.word("entrypoint");
                let t = *self.r.pick(TYPES);
                self.word(t);
                self.p(".");
                self.name();
                self.directives(0);
            }
            2 => {
                self.word("pointer");
                let t = *self.r.pick(TYPES);
                self.word(t);
                self.p(".");
                self.name();
                if self.r.chance(1, 3) {
                    self.var_defs();
                }
                self.word("to");
                self.type_ann(0);
                self.directives(0);
                self.description();
                self.selection_set(0);
            }
            _ => {
                self.word("field");
                let t = *self.r.pick(TYPES);
                self.word(t);
                self.p(".");
                self.name();
                if self.r.chance(1, 3) {
                    self.var_defs();
                }
                self.directives(0);
                self.description();
                self.selection_set(0);
            }
        }
    }

    /// malformed stream: token deletion / duplication / swap / junk insertion / truncation
    pub fn mutate(&mut self) {
        if self.toks.is_empty() {
            return;
        }
        let n = self.toks.len();
        let i = self.r.below(n);
        match self.r.below(6) {
            0 => {
                self.toks.remove(i);
            }
            1 => {
                let t = self.toks[i].clone();
                self.toks.insert(i, t);
            }
            2 => {
                let j = self.r.below(n);
                self.toks.swap(i, j);
            }
            3 => {
                let junk = *self.r.pick(&["😀", "%", "...", "\"", "1a", "007", "\u{1}", "é", ".5"]);
                self.toks.insert(i, (" ".to_string(), junk.to_string()));
            }
            4 => self.toks.truncate(i),
            _ => {
                self.toks[i].0 = String::new();
            }
        }
    }

    pub fn render(&self) -> String {
        let mut s = String::new();
        for (sep, t) in &self.toks {
            s.push_str(sep);
            s.push_str(t);
        }
        s
    }
}

/// One iso literal text (no backtick inside), mostly accepted by the parser.
pub fn gen_literal(r: &mut Rng) -> String {
    let malformed = r.chance(1, 8);
    let trailing = *r.pick(&["", "", "\n", " ", "\n  ", "\r\n"]);
    let mut g = G::new(r);
    g.declaration();
    if malformed {
        g.mutate();
    }
    let mut s = g.render();
    s.push_str(trailing);
    if s.is_empty() {
        s.push(' ');
    }
    s.replace('`', "")
}

const AROUND: &[&str] = &[
    "a", "Z", "0", " ", " ", "\n", "\n", "\t", "é", "漢", "😀", "𝒳", "\r\n", ";", "{", "}", "(",
    ")", "'", "\"", "/", "=", ".", "x",
];

pub fn gen_around(r: &mut Rng, max: usize) -> String {
    let n = r.below(max + 1);
    let mut s = String::new();
    for _ in 0..n {
        s.push_str(*r.pick(AROUND));
    }
    s
}

/// A document with several iso literals and arbitrary (incl. non-ASCII, astral) text around them.
pub fn gen_doc(r: &mut Rng) -> String {
    let n = *r.pick(&[0usize, 1, 1, 1, 2, 2, 3]);
    let mut s = gen_around(r, 12);
    for i in 0..n {
        if r.chance(1, 12) {
            s.push_str("// ");
        }
        if r.chance(9, 10) {
            s.push_str(&format!("export const C{} ={}", i, *r.pick(&[" ", " ", "\n  ", "  "])));
        }
        s.push_str("iso");
        let paren = !r.chance(1, 25);
        if paren {
            s.push('(');
        }
        s.push_str(*r.pick(&["", "", "\n", " "]));
        s.push('`');
        s.push_str(&gen_literal(r));
        s.push('`');
        if r.chance(1, 8) {
            s.push(',');
        }
        s.push_str(*r.pick(&["", "", "\n", " "]));
        if paren {
            s.push(')');
        }
        if r.chance(11, 12) {
            s.push_str("(function C() { return 1 })");
        }
        // text between literals: sometimes on the same line (non-ASCII before the next literal)
        if r.chance(1, 3) {
            let t = gen_around(r, 6).replace('\n', " ").replace('\r', " ");
            s.push_str(&t);
        } else {
            s.push_str(&gen_around(r, 14));
        }
    }
    s
}
