//! Engines `pos` (C23), `format` (C22), `lspstate` (C21): the real isograph language-server code
//! driven in-process through the `isograph_lsp::verif` hook.
mod gen_iso;
mod proj;

use common_lang_types::{EmbeddedLocation, Span, TextSource};
use gen_iso::{gen_around, gen_doc, gen_literal};
use hx_common::*;
use isograph_compiler::{
    update_sources,
    watch::{ChangedFileKind, SourceEventKind},
};
use isograph_lsp::text_document::{
    on_did_change_text_document, on_did_close_text_document, on_did_open_text_document,
};
use isograph_lsp::verif as lv;
use isograph_schema::{
    extract_iso_literals_from_file_content, read_iso_literals_source_from_relative_path,
    IsoLiteralExtraction,
};
use lsp_types::{
    DidChangeTextDocumentParams, DidCloseTextDocumentParams, DidOpenTextDocumentParams,
    TextDocumentContentChangeEvent, TextDocumentIdentifier, TextDocumentItem,
    VersionedTextDocumentIdentifier,
};
use proj::*;
use std::cell::RefCell;
use std::collections::BTreeMap;

const CASE_FILE: &str = "src/case.ts";

// ------------------------------------------------------------------------------------------
// shared context: one project + one long-lived server for the stateless engines

struct Ctx {
    proj: Proj,
    lsp: Lsp<'static>,
    uses: usize,
}

fn new_lsp(proj: &Proj) -> Lsp<'static> {
    let (tx, rx) = crossbeam::channel::unbounded::<lsp_server::Message>();
    std::mem::forget(rx);
    let tx: &'static crossbeam::channel::Sender<lsp_server::Message> = Box::leak(Box::new(tx));
    lv::LspState::new(proj.state(), tx)
}

thread_local! {
    static CTX: RefCell<Option<Ctx>> = const { RefCell::new(None) };
}

fn with_ctx<R>(f: impl FnOnce(&mut Ctx) -> R) -> R {
    CTX.with(|c| {
        let mut c = c.borrow_mut();
        let stale = match c.as_ref() {
            None => true,
            Some(x) => x.uses > 400,
        };
        if stale {
            let proj = Proj::new("doc");
            let lsp = new_lsp(&proj);
            *c = Some(Ctx { proj, lsp, uses: 0 });
        }
        let ctx = c.as_mut().unwrap();
        ctx.uses += 1;
        f(ctx)
    })
}

fn drop_ctx() {
    CTX.with(|c| {
        if let Ok(mut c) = c.try_borrow_mut() {
            if let Some(x) = c.take() {
                std::mem::forget(x); // a panic may have left it half-updated
            }
        }
    })
}

fn set_doc(ctx: &mut Ctx, content: &str) {
    let rel = ctx.proj.rel(CASE_FILE);
    ctx.lsp.compiler_state.db.insert_iso_literal(rel, content.to_string());
}

fn extraction(content: &str, start: usize, len: usize) -> IsoLiteralExtraction {
    IsoLiteralExtraction {
        const_export_name: None,
        iso_literal_text: content[start..start + len].to_string(),
        iso_literal_start_index: start,
        has_associated_js_function: true,
        iso_function_called_with_paren: true,
    }
}

/// reference computation used only by the generators (to aim at meaningful positions)
fn utf16_pos(content: &str, off: usize) -> (u32, u32) {
    let before = &content[..off];
    let line = before.matches('\n').count() as u32;
    let ls = before.rfind('\n').map(|i| i + 1).unwrap_or(0);
    (line, before[ls..].encode_utf16().count() as u32)
}

fn boundaries(s: &str) -> Vec<usize> {
    (0..=s.len()).filter(|i| s.is_char_boundary(*i)).collect()
}

fn text_arg(f: &[&str], i: usize) -> String {
    String::from_utf8(unhex(f[i]).expect("hex")).expect("utf8")
}

fn spans_string(lits: &[Lit]) -> String {
    if lits.is_empty() {
        "-".to_string()
    } else {
        lits.iter().map(|l| format!("{}:{}", l.start, l.len)).collect::<Vec<_>>().join(",")
    }
}

fn parse_spans(s: &str) -> Vec<(usize, usize)> {
    if s == "-" {
        return vec![];
    }
    s.split(',')
        .map(|p| {
            let (a, b) = p.split_once(':').unwrap();
            (a.parse().unwrap(), b.parse().unwrap())
        })
        .collect()
}

// ------------------------------------------------------------------------------------------
// engine pos

fn small_text(r: &mut Rng) -> String {
    match r.below(4) {
        0 => gen_literal(r),
        1 => gen_text(r, 30, MIXED_ALPHABET),
        2 => gen_text(r, 24, &["a", "b", "\n", "\n", " ", "é", "😀", "漢", "\r\n", "x"]),
        _ => gen_around(r, 30),
    }
}

fn gen_pos(r: &mut Rng) -> Vec<String> {
    match r.below(13) {
        0..=3 => {
            let content = gen_doc(r);
            let lits = with_ctx(|ctx| {
                set_doc(ctx, &content);
                let rel = ctx.proj.rel(CASE_FILE);
                lits_of(&ctx.lsp.compiler_state.db, rel)
            });
            vec![format!("pos.doc\t{}\t{}", hex(content.as_bytes()), lits_string(&lits))]
        }
        4 => {
            let content = if r.chance(1, 2) { gen_doc(r) } else { small_text(r) };
            let off = if r.chance(1, 10) {
                r.below(content.len() + 3)
            } else {
                *r.pick(&boundaries(&content))
            };
            vec![format!("pos.loc\t{}\t{}", hex(content.as_bytes()), off)]
        }
        5 => {
            let t = small_text(r);
            vec![format!("pos.dlds\t{}", hex(t.as_bytes()))]
        }
        6 | 7 => {
            let src = small_text(r);
            let (line, ch) = if r.chance(1, 8) {
                (r.below(4) as u32, r.below(12) as u32)
            } else {
                let o = *r.pick(&boundaries(&src));
                utf16_pos(&src, o)
            };
            vec![format!("pos.idx\t{}\t{}\t{}", hex(src.as_bytes()), line, ch)]
        }
        8..=10 => {
            let content = gen_doc(r);
            let lits = with_ctx(|ctx| {
                set_doc(ctx, &content);
                let rel = ctx.proj.rel(CASE_FILE);
                lits_of(&ctx.lsp.compiler_state.db, rel)
            });
            let (line, ch) = if lits.is_empty() || r.chance(1, 6) {
                let o = *r.pick(&boundaries(&content));
                utf16_pos(&content, o)
            } else {
                let l = r.pick(&lits).clone();
                let inner: Vec<usize> = (l.start..=l.start + l.len).filter(|i| content.is_char_boundary(*i)).collect();
                utf16_pos(&content, *r.pick(&inner))
            };
            vec![format!("pos.hover\t{}\t{}\t{}\t{}", hex(content.as_bytes()), spans_string(&lits), line, ch)]
        }
        11 => {
            // end-to-end go-to-definition: `entrypoint Query.<name>` in c.ts, the field in a.ts
            let name = *r.pick(&["Home", "Avatar", "x1", "_p"]);
            let pre_a = gen_around(r, 14);
            let pre_c = gen_around(r, 14);
            let a = format!(
                "{}export const {} = iso(`{}field Query.{} @component {{\n    me {{ name, }}\n  }}\n`)(function H() {{ return null }}){}\n",
                pre_a,
                name,
                *r.pick(&["\n  ", "", " ", "\r\n"]),
                name,
                gen_around(r, 6)
            );
            let c = format!("{}iso(`{}entrypoint Query.{}`){}", pre_c, *r.pick(&["", "\n", " "]), name, gen_around(r, 6));
            let off = c.find(&format!("Query.{}", name)).unwrap() + 6 + r.below(name.len());
            let (line, ch) = utf16_pos(&c, off);
            vec![format!("pos.goto\t{}\t{}\t{}\t{}\t{}", hex(a.as_bytes()), hex(c.as_bytes()), line, ch, hex(name.as_bytes()))]
        }
        _ => {
            let content = gen_doc(r);
            let b = boundaries(&content);
            let mut v = [*r.pick(&b), *r.pick(&b), *r.pick(&b)];
            v.sort();
            vec![format!("pos.range\t{}\t{}\t{}\t{}", hex(content.as_bytes()), v[0], v[1] - v[0], v[2] - v[0])]
        }
    }
}

fn run_pos_doc(f: &[&str]) -> String {
    let content = text_arg(f, 1);
    with_ctx(|ctx| {
        set_doc(ctx, &content);
        let rel = ctx.proj.rel(CASE_FILE);
        let uri = ctx.proj.uri(CASE_FILE);
        let lits = lits_of(&ctx.lsp.compiler_state.db, rel);
        let ls = lits_string(&lits);
        if ls != f[2] {
            return format!("lits-mismatch\t{}", ls);
        }
        let toks = sem_tokens(&ctx.lsp, &uri);
        let exts = extract_iso_literals_from_file_content(&ctx.lsp.compiler_state.db, rel).to_vec();
        let mut rs = format!("R {}", exts.len());
        for e in &exts {
            let r = lv::get_range_of_extraction(e, &content);
            rs.push_str(&format!(" {} {} {} {}", r.start.line, r.start.character, r.end.line, r.end.character));
        }
        format!("{}\t{}", toks, rs)
    })
}

fn run_pos(f: &[&str]) -> String {
    match f[0] {
        "pos.doc" => run_pos_doc(f),
        "pos.loc" => {
            let content = text_arg(f, 1);
            let off: usize = f[2].parse().unwrap();
            let p = lv::char_index_to_position(&content, off);
            format!("{}\t{}", p.line, p.character)
        }
        "pos.dlds" => {
            let t = text_arg(f, 1);
            let (a, b) = lv::delta_line_delta_start(&t);
            format!("{}\t{}", a, b)
        }
        "pos.idx" => {
            let src = text_arg(f, 1);
            let lc = lv::LineChar { line: f[2].parse().unwrap(), character: f[3].parse().unwrap() };
            format!("{}", lv::get_index_of_line_char(&src, lc))
        }
        "pos.hover" => {
            let content = text_arg(f, 1);
            let spans = parse_spans(f[2]);
            let exts: Vec<IsoLiteralExtraction> = spans.iter().map(|(s, l)| extraction(&content, *s, *l)).collect();
            let lc = lv::LineChar { line: f[3].parse().unwrap(), character: f[4].parse().unwrap() };
            match lv::find_iso_literal_extraction_under_cursor(lc, &content, &exts) {
                None => "none".to_string(),
                Some((e, off)) => {
                    let k = exts.iter().position(|x| x.iso_literal_start_index == e.iso_literal_start_index).unwrap();
                    format!("{}\t{}", k, off)
                }
            }
        }
        "pos.range" => {
            let content = text_arg(f, 1);
            let base: u32 = f[2].parse().unwrap();
            let s: u32 = f[3].parse().unwrap();
            let e: u32 = f[4].parse().unwrap();
            with_ctx(|ctx| {
                let loc = EmbeddedLocation {
                    text_source: TextSource {
                        relative_path_to_source_file: ctx.proj.rel(CASE_FILE),
                        span: Some(Span { start: base, end: content.len() as u32 }),
                    },
                    span: Span { start: s, end: e },
                };
                match lv::isograph_location_to_lsp_location(&ctx.lsp.compiler_state.db, loc, &content) {
                    None => "none".to_string(),
                    Some(l) => format!(
                        "{}\t{}\t{}\t{}",
                        l.range.start.line, l.range.start.character, l.range.end.line, l.range.end.character
                    ),
                }
            })
        }
        "pos.goto" => {
            let a = text_arg(f, 1);
            let c = text_arg(f, 2);
            let line: u32 = f[3].parse().unwrap();
            let ch: u32 = f[4].parse().unwrap();
            with_ctx(|ctx| {
                let db = &mut ctx.lsp.compiler_state.db;
                // no other definitions around (a document of an earlier case may define the same field)
                db.insert_iso_literal(ctx.proj.rel(CASE_FILE), String::new());
                db.insert_iso_literal(ctx.proj.rel("src/ga.ts"), a.clone());
                db.insert_iso_literal(ctx.proj.rel("src/gc.ts"), c.clone());
                let uri = ctx.proj.uri("src/gc.ts");
                let r = lv::on_goto_definition(
                    &ctx.lsp,
                    lsp_types::GotoDefinitionParams {
                        text_document_position_params: lsp_types::TextDocumentPositionParams {
                            text_document: TextDocumentIdentifier { uri },
                            position: lsp_types::Position { line, character: ch },
                        },
                        work_done_progress_params: Default::default(),
                        partial_result_params: Default::default(),
                    },
                );
                let ans = match r {
                    Ok(Some(lsp_types::GotoDefinitionResponse::Scalar(l))) => {
                        let path = l.uri.path().as_str().to_string();
                        let file = path.rsplit("/src/").next().unwrap_or("").to_string();
                        format!(
                            "src/{}\t{}\t{}\t{}\t{}",
                            file, l.range.start.line, l.range.start.character, l.range.end.line, l.range.end.character
                        )
                    }
                    Ok(Some(_)) => "other".to_string(),
                    Ok(None) => "none".to_string(),
                    Err(e) => format!("err:{:?}", e).replace([' ', '\t'], "_"),
                };
                // leave no second definition behind for the next case
                let db = &mut ctx.lsp.compiler_state.db;
                db.remove_iso_literal(ctx.proj.rel("src/ga.ts"));
                db.remove_iso_literal(ctx.proj.rel("src/gc.ts"));
                ans
            })
        }
        _ => "bad-op".to_string(),
    }
}

// ------------------------------------------------------------------------------------------
// engine format

fn gen_fmt(r: &mut Rng) -> Vec<String> {
    let content = gen_doc(r);
    let lits = with_ctx(|ctx| {
        set_doc(ctx, &content);
        let rel = ctx.proj.rel(CASE_FILE);
        lits_of(&ctx.lsp.compiler_state.db, rel)
    });
    vec![format!("fmt.doc\t{}\t{}", hex(content.as_bytes()), lits_string(&lits))]
}

fn run_fmt_doc(f: &[&str]) -> String {
    let content = text_arg(f, 1);
    with_ctx(|ctx| {
        set_doc(ctx, &content);
        let rel = ctx.proj.rel(CASE_FILE);
        let uri = ctx.proj.uri(CASE_FILE);
        let lits = lits_of(&ctx.lsp.compiler_state.db, rel);
        let ls = lits_string(&lits);
        if ls != f[2] {
            return format!("lits-mismatch\t{}", ls);
        }
        let edits = format_edits(&ctx.lsp, &uri);
        let es = edits_string(&edits);
        let edits = match edits {
            Ok(Some(v)) => v,
            _ => return es,
        };
        let accepted: Vec<usize> = (0..lits.len()).filter(|i| lits[*i].accepted).collect();
        if accepted.len() != edits.len() {
            return format!("{}\tO edit-count-mismatch", es);
        }
        // apply the edits by the literals' byte extents
        let mut content2 = String::new();
        let mut pos = 0;
        for (k, j) in accepted.iter().enumerate() {
            let l = &lits[*j];
            content2.push_str(&content[pos..l.start]);
            content2.push_str(&edits[k].new_text);
            pos = l.start + l.len;
        }
        content2.push_str(&content[pos..]);
        set_doc(ctx, &content2);
        let db = &ctx.lsp.compiler_state.db;
        let lits2 = lits_of(db, rel);
        let exts2 = extract_iso_literals_from_file_content(db, rel).to_vec();
        let mut obs = vec![];
        for (k, j) in accepted.iter().enumerate() {
            if lits2.len() != lits.len() {
                obs.push("lost,-,-,-".to_string());
                continue;
            }
            let l2 = &lits2[*j];
            let e2 = &exts2[*j];
            if e2.iso_literal_text != edits[k].new_text {
                obs.push("moved,-,-,-".to_string());
                continue;
            }
            let again = lv::format_extraction(db, e2, rel);
            let idem = match &again {
                Some(t) if *t == e2.iso_literal_text => "idem",
                Some(_) => "non",
                None => "none",
            };
            let toks = if l2.toks.is_empty() {
                "-".to_string()
            } else {
                l2.toks
                    .iter()
                    .map(|(s, e, c)| {
                        format!("{}.{}", hex(e2.iso_literal_text[*s as usize..*e as usize].as_bytes()), c)
                    })
                    .collect::<Vec<_>>()
                    .join("+")
            };
            obs.push(format!(
                "{},{},{},{}",
                if l2.accepted { "ok" } else { "err" },
                if l2.accepted && l2.decl == lits[*j].decl { "same" } else { "diff" },
                idem,
                toks
            ));
        }
        format!("{}\tO {}", es, if obs.is_empty() { "-".to_string() } else { obs.join(" ") })
    })
}

// ------------------------------------------------------------------------------------------
// engine lspstate

const FILES: &[&str] = &["src/a.ts", "src/b.ts", "src/c.ts"];

const POOL_A: &[&str] = &[
    "export const Home = iso(`\n  field Query.Home @component {\n    me {\n      name\n      Avatar\n    }\n  }\n`)(function H() { return null })\n",
    "export const Home = iso(`\n  field Query.Home @component {\n    me {\n      nickname\n    }\n  }\n`)(function H() { return null })\n",
    "// héllo 😀 wörld\nconst é = '漢'; export const Home = iso(`\n  field Query.Home @component {\n    me { name, age, Avatar }\n  }\n`)(function H() { return null })\n",
    "export const Home = iso(`\n  field Query.Home {\n    me {\n      name\n`)(function H() { return null })\n",
    "export const Home = iso(`field Query.Home { pets { nickname, owner { name } } }`)(function H() { return 1 })\n",
];
const POOL_B: &[&str] = &[
    "export const Avatar = iso(`field User.Avatar { name, age }`)(function A() { return 2 })\n",
    "export const Avatar2 = iso(`field User.Avatar2 { name }`)(function A() { return 2 })\n",
    "export const Avatar = iso(`\n  field User.Avatar {\n    name\n    friend(first: 1) { name }\n  }\n`)(function A() { return 2 })\n",
    "/* 😀 */ export const Avatar = iso(`field User.Avatar \"\"\"dé\nsc\"\"\" { id }`)(function A() { return 2 })\n",
    "",
];
const POOL_C: &[&str] = &[
    "iso(`entrypoint Query.Home`)\n",
    "",
    "iso(`entrypoint Query.Missing`)\n",
    "iso(`entrypoint Query.Home`); iso(`entrypoint User.Avatar`)\n",
    "const x = 1;\n",
];

fn pool_content(r: &mut Rng, file: usize) -> String {
    if r.chance(1, 7) {
        return gen_doc(r);
    }
    let pool = match file {
        0 => POOL_A,
        1 => POOL_B,
        _ => POOL_C,
    };
    // occasionally content of another file's pool (cross-definitions, duplicates)
    if r.chance(1, 10) {
        let k = r.below(3);
        return (*r.pick([POOL_A, POOL_B, POOL_C][k])).to_string();
    }
    (*r.pick(pool)).to_string()
}

fn gen_state(r: &mut Rng, i: u64) -> Vec<String> {
    let mut v = vec![format!("case\t{}", i)];
    let mut init = "init".to_string();
    let keep = r.below(3); // at least one source file at start-up (see Model/LspState.lean)
    for f in 0..3 {
        if f != keep && r.chance(1, 5) {
            init.push_str("\t~");
        } else {
            init.push_str(&format!("\t{}", hex(pool_content(r, f).as_bytes())));
        }
    }
    v.push(init);
    if r.chance(2, 3) {
        { let k = v.len(); v.push(format!("check\t{}.{}", i, k)); }
    }
    let n = r.range(2, 8);
    for _ in 0..n {
        let f = r.below(3);
        let line = match r.below(10) {
            0..=2 => format!("open\t{}\t{}", FILES[f], hex(pool_content(r, f).as_bytes())),
            3..=4 => format!("change\t{}\t{}", FILES[f], hex(pool_content(r, f).as_bytes())),
            5..=6 => format!("close\t{}", FILES[f]),
            7..=8 => format!("write\t{}\t{}", FILES[f], hex(pool_content(r, f).as_bytes())),
            _ => format!("remove\t{}", FILES[f]),
        };
        v.push(line);
        if r.chance(2, 3) {
            { let k = v.len(); v.push(format!("check\t{}.{}", i, k)); }
        }
    }
    if !v.last().map(|s| s.starts_with("check")).unwrap_or(false) {
        { let k = v.len(); v.push(format!("check\t{}.{}", i, k)); }
    }
    v
}

struct St {
    proj: Proj,
    lsp: Option<Lsp<'static>>,
    open: BTreeMap<String, String>,
}

thread_local! {
    static ST: RefCell<Option<St>> = const { RefCell::new(None) };
}

fn effective(lsp: &Lsp, proj: &Proj, file: &str) -> Option<String> {
    guarded(|| {
        read_iso_literals_source_from_relative_path(&lsp.compiler_state.db, proj.rel(file))
            .as_ref()
            .map(|s| s.content.clone())
    })
    .unwrap_or(Some("<panic>".to_string()))
}

/// `(entrypoint?, Type, name)` of every iso literal header in the text
fn decl_heads(text: &str) -> Vec<(bool, String, String)> {
    let mut out = vec![];
    for (i, _) in text.match_indices('`') {
        let rest = text[i + 1..].trim_start();
        let word = |s: &str| -> (String, usize) {
            let n = s.find(|c: char| !(c.is_ascii_alphanumeric() || c == '_')).unwrap_or(s.len());
            (s[..n].to_string(), n)
        };
        let (kw, n) = word(rest);
        if kw != "field" && kw != "pointer" && kw != "entrypoint" {
            continue;
        }
        let rest = rest[n..].trim_start();
        let (ty, n) = word(rest);
        let rest = rest[n..].trim_start();
        if ty.is_empty() || !rest.starts_with('.') {
            continue;
        }
        let rest = rest[1..].trim_start();
        let (name, _) = word(rest);
        if !name.is_empty() {
            out.push((kw == "entrypoint", ty, name));
        }
    }
    out
}

/// Several literals declare the same thing: which one the compiler reports or resolves to depends
/// on hash-map iteration order, so two servers on identical contents may answer differently.
fn ambiguous(effs: &[Option<String>]) -> bool {
    let mut seen = std::collections::BTreeSet::new();
    for t in effs.iter().flatten() {
        for h in decl_heads(t) {
            if !seen.insert(h) {
                return true;
            }
        }
    }
    false
}

/// everything a client can observe for one server: effective contents first, then the
/// diagnostics pass, then the per-file requests
fn observe(lsp: &Lsp, proj: &Proj) -> Vec<(String, String)> {
    let mut out = vec![];
    let mut effs = vec![];
    for f in FILES {
        let eff = effective(lsp, proj, f);
        out.push((format!("eff:{}", f), eff.clone().unwrap_or("~".to_string())));
        effs.push(eff);
    }
    let d = diagnostics(&lsp.compiler_state.db);
    let dead = d == "panic";
    out.push(("diag".to_string(), d));
    if dead {
        // the diagnostics pass panicked inside a memoised function: a real server is gone
        return out;
    }
    for (f, eff) in FILES.iter().zip(effs) {
        let uri = proj.uri(f);
        // a semantic-token request for a file the server does not know panics inside the memoised
        // function ("Expected source to exist"), which kills a real server; not asked here
        if eff.is_some() {
            out.push((format!("tokens:{}", f), sem_tokens(lsp, &uri)));
        } else {
            out.push((format!("tokens:{}", f), "skipped".to_string()));
        }
        out.push((format!("format:{}", f), edits_string(&format_edits(lsp, &uri))));
        if let Some(text) = eff {
            // a few positions inside / around the first literal
            let probe: Vec<usize> = match text.find('`') {
                Some(i) => vec![i + 1, i + 3, i + 9, i + 16, i + 24, i + 40],
                None => vec![0],
            };
            for p in probe {
                let mut p = p.min(text.len());
                while !text.is_char_boundary(p) {
                    p -= 1;
                }
                let (l, c) = utf16_pos(&text, p);
                out.push((format!("hover:{}", f), hover(lsp, &uri, l, c)));
                out.push((format!("goto:{}", f), goto(lsp, &uri, l, c)));
            }
        }
    }
    out
}

fn run_state(f: &[&str]) -> String {
    if std::env::var("HX_DEBUG").is_ok() {
        std::panic::set_hook(Box::new(|info| eprintln!("PANIC {}", info)));
    }
    ST.with(|cell| {
        let mut cell = cell.borrow_mut();
        if cell.is_none() {
            *cell = Some(St { proj: Proj::new("st"), lsp: None, open: BTreeMap::new() });
        }
        let st = cell.as_mut().unwrap();
        match f[0] {
            "case" => {
                if let Some(l) = st.lsp.take() {
                    std::mem::forget(l);
                }
                st.open.clear();
                if std::env::var("HX_DEBUG").is_ok() {
                    eprintln!("CASE {}", f.get(1).unwrap_or(&""));
                }
                "-".to_string()
            }
            "init" => {
                for (i, file) in FILES.iter().enumerate() {
                    let p = st.proj.abs(file);
                    let _ = std::fs::remove_file(&p);
                    if f[1 + i] != "~" {
                        std::fs::write(&p, unhex(f[1 + i]).unwrap()).unwrap();
                    }
                }
                st.lsp = Some(new_lsp(&st.proj));
                "ok".to_string()
            }
            "open" | "change" | "close" | "write" | "remove" => {
                let file = f[1];
                let uri = st.proj.uri(file);
                let abs = st.proj.abs(file);
                let lsp = st.lsp.as_mut().expect("init first");
                let res = guarded(|| match f[0] {
                    "open" => {
                        let text = text_arg(f, 2);
                        st.open.insert(file.to_string(), text.clone());
                        on_did_open_text_document(
                            lsp,
                            DidOpenTextDocumentParams {
                                text_document: TextDocumentItem {
                                    uri,
                                    language_id: "typescript".to_string(),
                                    version: 1,
                                    text,
                                },
                            },
                        )
                        .map_err(|e| format!("{:?}", e))
                    }
                    "change" => {
                        let text = text_arg(f, 2);
                        st.open.insert(file.to_string(), text.clone());
                        on_did_change_text_document(
                            lsp,
                            DidChangeTextDocumentParams {
                                text_document: VersionedTextDocumentIdentifier { uri, version: 2 },
                                content_changes: vec![TextDocumentContentChangeEvent {
                                    range: None,
                                    range_length: None,
                                    text,
                                }],
                            },
                        )
                        .map_err(|e| format!("{:?}", e))
                    }
                    "close" => {
                        st.open.remove(file);
                        on_did_close_text_document(
                            lsp,
                            DidCloseTextDocumentParams { text_document: TextDocumentIdentifier { uri } },
                        )
                        .map_err(|e| format!("{:?}", e))
                    }
                    "write" => {
                        std::fs::write(&abs, unhex(f[2]).unwrap()).unwrap();
                        update_sources(
                            &mut lsp.compiler_state.db,
                            &[(SourceEventKind::CreateOrModify(abs.clone()), ChangedFileKind::JavaScriptSourceFile)],
                        )
                        .map_err(|e| e.iter().map(|x| x.to_string()).collect::<Vec<_>>().join(";"))
                    }
                    _ => {
                        let _ = std::fs::remove_file(&abs);
                        update_sources(
                            &mut lsp.compiler_state.db,
                            &[(SourceEventKind::Remove(abs.clone()), ChangedFileKind::JavaScriptSourceFile)],
                        )
                        .map_err(|e| e.iter().map(|x| x.to_string()).collect::<Vec<_>>().join(";"))
                    }
                });
                match res {
                    None => "panic".to_string(),
                    Some(Ok(())) => "ok".to_string(),
                    Some(Err(e)) => format!("err:{}", e.replace([' ', '\t', '\n'], "_")),
                }
            }
            "check" => {
                let lsp = st.lsp.as_ref().expect("init first");
                let inc = observe(lsp, &st.proj);
                let mut fresh = new_lsp(&st.proj);
                for (file, text) in &st.open {
                    fresh.compiler_state.db.insert_open_file(st.proj.rel(file), text.clone());
                }
                let fr = observe(&fresh, &st.proj);
                std::mem::forget(fresh);
                // a panic in the running server (it would have died): report it and restart it
                let panicked: Vec<String> = {
                    let mut v: Vec<String> = vec![];
                    for (k, x) in &inc {
                        if x == "panic" || x == "<panic>" {
                            let kind = k.split(':').next().unwrap().to_string();
                            if !v.contains(&kind) {
                                v.push(kind);
                            }
                        }
                    }
                    v
                };
                let mut eff = String::from("eff");
                for (k, v) in &inc {
                    if let Some(file) = k.strip_prefix("eff:") {
                        eff.push_str(&format!(" {}={}", file, if v == "~" { "~".to_string() } else { hex(v.as_bytes()) }));
                    }
                }
                let diff_kinds = |a: &Vec<(String, String)>, b: &Vec<(String, String)>| -> Vec<String> {
                    let mut kinds: Vec<String> = vec![];
                    for ((k, x), (_, y)) in a.iter().zip(b.iter()) {
                        if x != y {
                            let kind = k.split(':').next().unwrap().to_string();
                            if !kinds.contains(&kind) {
                                kinds.push(kind);
                            }
                        }
                    }
                    if a.len() != b.len() && kinds.is_empty() {
                        kinds.push("shape".to_string());
                    }
                    kinds
                };
                let mut kinds = diff_kinds(&inc, &fr);
                let mut nondet = false;
                let diag_of = |o: &Vec<(String, String)>| o.iter().find(|(k, _)| k == "diag").map(|(_, v)| v.clone()).unwrap_or_default();
                let anon = |d: &str| d.split('\n').nth(1).unwrap_or("").to_string();
                let effs_now: Vec<Option<String>> = inc
                    .iter()
                    .filter(|(k, _)| k.starts_with("eff:"))
                    .map(|(_, v)| if v == "~" { None } else { Some(v.clone()) })
                    .collect();
                if !kinds.is_empty() && !kinds.contains(&"eff".to_string()) && panicked.is_empty() && ambiguous(&effs_now) {
                    // duplicate declarations: the answers are not a function of the contents
                    nondet = true;
                }
                if kinds == vec!["diag".to_string()] && anon(&diag_of(&inc)) == anon(&diag_of(&fr)) {
                    // the same diagnostics, attributed to another of several identical files
                    nondet = true;
                }
                if !nondet && panicked.is_empty() && !kinds.is_empty() && !kinds.contains(&"eff".to_string()) {
                    // Two servers started on identical contents can disagree with each other (which
                    // of two equal declarations is reported depends on hash-map order).  If the
                    // running server agrees with *some* fresh server, that is what happened.
                    for _ in 0..8 {
                        let mut other = new_lsp(&st.proj);
                        for (file, text) in &st.open {
                            other.compiler_state.db.insert_open_file(st.proj.rel(file), text.clone());
                        }
                        let o = observe(&other, &st.proj);
                        std::mem::forget(other);
                        if diff_kinds(&inc, &o).is_empty() {
                            nondet = true;
                            break;
                        }
                    }
                }
                if std::env::var("HX_DEBUG").is_ok() {
                    for ((k, a), (_, b)) in inc.iter().zip(fr.iter()) {
                        if a != b {
                            eprintln!("DIFF {}\n  inc  ={}\n  fresh={}", k, a, b);
                        }
                    }
                }
                if !panicked.is_empty() {
                    let both = diag_of(&inc) == "panic" && diag_of(&fr) == "panic";
                    if let Some(l) = st.lsp.take() {
                        std::mem::forget(l);
                    }
                    let mut restarted = new_lsp(&st.proj);
                    for (file, text) in &st.open {
                        restarted.compiler_state.db.insert_open_file(st.proj.rel(file), text.clone());
                    }
                    st.lsp = Some(restarted);
                    if both {
                        // the compiler itself panics on these contents (fresh server too): nothing to compare
                        return format!("{}\tbothpanic", eff);
                    }
                    return format!("{}\tpanic:{}", eff, panicked.join(","));
                }
                format!(
                    "{}\t{}",
                    eff,
                    if kinds.is_empty() {
                        "agree".to_string()
                    } else if nondet {
                        format!("nondet:{}", kinds.join(","))
                    } else {
                        kinds.sort();
                        format!("differ:{}", kinds.join(","))
                    }
                )
            }
            _ => "bad-op".to_string(),
        }
    })
}

// ------------------------------------------------------------------------------------------

fn main() {
    let which = std::env::var("HX_ENGINE").unwrap_or_default();
    main_loop(
        &|r, i| match which.as_str() {
            "format" => gen_fmt(r),
            "lspstate" => gen_state(r, i),
            _ => gen_pos(r),
        },
        &mut |f| {
            let op = f[0];
            let r = if op.starts_with("pos.") {
                guarded(|| run_pos(f))
            } else if op == "fmt.doc" {
                guarded(|| run_fmt_doc(f))
            } else {
                Some(run_state(f))
            };
            match r {
                Some(s) => s,
                None => {
                    drop_ctx();
                    "panic".to_string()
                }
            }
        },
    );
    cleanup();
}
