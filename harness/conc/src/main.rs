//! Engine family `conc`: the vendored relay `intern` crate (C05, C06) against the real code.
//!
//!   arena.consts                         constants seen by the compiled crate (ties translator T6)
//!   arena.index  i                       private `index(i)` + `bucket_capacity(a)`
//!   arena.cap    a                       `bucket_capacity(a)`
//!   arena.sched  zero prefill progs sch  2–3 real threads on one `AtomicArena` under a schedule
//!   intern.sched zero progs sch          2–3 real threads on one `InternTable` under a schedule
//!   intern.seq   hex,hex,…               BytesId/StringId: ids, lookup, Ord
//!   small.bytes  hex hex                 SmallBytes across the inline boundary
//!   path.cmp     hexpath hexpath         PathId Ord / Eq
//!   serde.rt     pool nodes tree         InternSerdes back references (JSON wire + bincode)
mod sched;

use hx_common::*;
use intern::intern::InternTable;
use intern::path::PathId;
use intern::string::{intern_bytes, BytesId, StringId};
use intern::verif_hook as vh;
use intern::intern_struct;
use intern::{AsInterned, InternId, InternSerdes, WithIntern};
use sched::{run_scheduled, Ctl};
use serde_derive::{Deserialize, Serialize};
use std::borrow::Borrow;
use std::cmp::Ordering as Ord_;
use std::panic::{catch_unwind, AssertUnwindSafe};
use std::rc::Rc;
use std::sync::atomic::{AtomicPtr, AtomicU32, Ordering};
use std::sync::Arc;

// ------------------------------------------------------------------ bit level

fn run_consts() -> String {
    let (min_shift, u32_bits, min_size, num_sizes, max_index) = vh::verif_consts();
    let (shard_shift, shards) = vh::verif_shard_consts();
    format!(
        "{}\t{}\t{}\t{}\t{}\t{}\t{}\t{}",
        min_shift, u32_bits, min_size, num_sizes, max_index, shard_shift, shards, vh::verif_small_max_len()
    )
}

fn run_index(f: &[&str]) -> String {
    let i: u32 = f[1].parse().unwrap();
    match catch_unwind(|| {
        let (a, b) = vh::verif_index(i);
        (a, b, vh::verif_bucket_capacity(a))
    }) {
        Ok((a, b, c)) => format!("{}\t{}\t{}", a, b, c),
        Err(_) => "panic".into(),
    }
}

fn run_cap(f: &[&str]) -> String {
    let a: usize = f[1].parse().unwrap();
    match catch_unwind(|| vh::verif_bucket_capacity(a)) {
        Ok(c) => format!("{}", c),
        Err(_) => "panic".into(),
    }
}

fn gen_index(r: &mut Rng) -> String {
    let i: u64 = match r.below(10) {
        0 => r.below(130) as u64,
        1..=5 => {
            let k = r.range(0, 32) as u32;
            let base: i64 = if k == 32 { 1i64 << 32 } else { 1i64 << k };
            let d = r.range(0, 4) as i64 - 2;
            (base + d).clamp(0, u32::MAX as i64) as u64
        }
        6 => (u32::MAX as u64) - r.below(3) as u64,
        _ => r.next() & 0xFFFF_FFFF,
    };
    format!("arena.index\t{}", i)
}

// ------------------------------------------------------------------ arena under a schedule

struct El {
    val: u64,
    slot: usize,
    drops: Arc<Vec<AtomicU32>>,
}
impl Drop for El {
    fn drop(&mut self) {
        self.drops[self.slot].fetch_add(1, Ordering::SeqCst);
    }
}

#[derive(Clone, Debug)]
enum AOp {
    Add(u64),
    /// get of the thread's own j-th add
    GetOwn(usize),
    /// get of the k-th prefilled element
    GetPre(usize),
    /// get of the zero element
    GetZero,
    Len,
}

fn parse_aprogs(s: &str) -> Vec<Vec<AOp>> {
    s.split(';')
        .map(|p| {
            p.split(',')
                .filter(|x| !x.is_empty() && *x != "-")
                .map(|x| {
                    let (h, t) = x.split_at(1);
                    match h {
                        "a" => AOp::Add(t.parse().unwrap()),
                        "o" => AOp::GetOwn(t.parse().unwrap()),
                        "p" => AOp::GetPre(t.parse().unwrap()),
                        "z" => AOp::GetZero,
                        "l" => AOp::Len,
                        _ => panic!("bad op {}", x),
                    }
                })
                .collect()
        })
        .collect()
}

fn parse_schedule(s: &str) -> Vec<usize> {
    s.chars().filter_map(|c| c.to_digit(10)).map(|d| d as usize).collect()
}

fn fmt_threads(labels: &[Vec<String>], results: &[Vec<String>]) -> String {
    let mut out = Vec::new();
    for (i, l) in labels.iter().enumerate() {
        let r = if results[i].is_empty() { "-".to_string() } else { results[i].join(",") };
        out.push(format!("t{}:{}:{}", i, l.join("."), r));
    }
    out.join("\t")
}

const ZERO_VAL: u64 = 777_777;
const PRE_BASE: u64 = 100_000;

fn run_arena_sched(f: &[&str]) -> String {
    let zero = f[1] == "1";
    let prefill: usize = f[2].parse().unwrap();
    let progs = parse_aprogs(f[3]);
    let schedule = parse_schedule(f[4]);
    let total: usize = 1 + prefill + progs.iter().map(|p| p.iter().filter(|o| matches!(o, AOp::Add(_))).count()).sum::<usize>();
    let drops: Arc<Vec<AtomicU32>> = Arc::new((0..total).map(|_| AtomicU32::new(0)).collect());
    let mut next_slot = 0usize;
    let mk = |val: u64, next_slot: &mut usize| {
        let e = El { val, slot: *next_slot, drops: drops.clone() };
        *next_slot += 1;
        e
    };
    let arena: Arc<vh::AtomicArena<'static, El>> = if zero {
        let z: &'static intern::Zero<El> = Box::leak(Box::new(intern::Zero::new(mk(ZERO_VAL, &mut next_slot))));
        Arc::new(vh::AtomicArena::with_zero(z))
    } else {
        next_slot += 1;
        Arc::new(vh::AtomicArena::new())
    };
    // prefill from this (uncontrolled) thread
    let mut pre_refs = Vec::new();
    for k in 0..prefill {
        pre_refs.push(arena.add(mk(PRE_BASE + k as u64, &mut next_slot)));
    }
    let pre_refs = Arc::new(pre_refs);
    let mut bodies: Vec<Box<dyn FnOnce(Rc<Ctl>) -> Vec<String> + Send>> = Vec::new();
    for prog in progs.iter().cloned() {
        let arena = arena.clone();
        let pre_refs = pre_refs.clone();
        // elements are created up front so that slot numbers do not depend on the schedule
        let mut elems: Vec<Option<El>> = prog
            .iter()
            .map(|o| if let AOp::Add(v) = o { Some(mk(*v, &mut next_slot)) } else { None })
            .collect();
        bodies.push(Box::new(move |ctl: Rc<Ctl>| {
            let mut res = Vec::new();
            let mut own = Vec::new();
            for (k, op) in prog.iter().enumerate() {
                ctl.arrive("op", 0);
                match op {
                    AOp::Add(_) => {
                        let r = arena.add(elems[k].take().unwrap());
                        res.push(format!("r{}", r.index()));
                        own.push(r);
                    }
                    AOp::GetOwn(j) => res.push(format!("v{}", arena.get(own[*j]).val)),
                    AOp::GetPre(j) => res.push(format!("v{}", arena.get(pre_refs[*j]).val)),
                    AOp::GetZero => res.push(format!("v{}", arena.get(intern::Zero::<El>::zero()).val)),
                    AOp::Len => res.push(format!("n{}", arena.len())),
                }
            }
            res
        }));
    }
    let out = run_scheduled(bodies, &schedule);
    if out.hang {
        return "hang".into();
    }
    let len = arena.len();
    let mut s = fmt_threads(&out.labels, &out.results);
    s.push_str(&format!("\tlen={}", len));
    if zero {
        // a static arena is never dropped
        std::mem::forget(arena);
        s.push_str("\tdrop=static");
    } else {
        drop(pre_refs);
        match Arc::try_unwrap(arena) {
            Ok(a) => drop(a),
            Err(_) => return "arena-still-shared".into(),
        }
        let counts: Vec<u32> = drops.iter().skip(1).map(|c| c.load(Ordering::SeqCst)).collect();
        let dropped = counts.iter().filter(|c| **c > 0).count();
        let bad = counts.iter().filter(|c| **c != 1).count();
        s.push_str(&format!("\tdrop={}/{}", dropped, bad));
    }
    s
}

fn gen_schedule(r: &mut Rng, n: usize, len: usize) -> String {
    let mut s = String::new();
    let mut cur = r.below(n);
    for _ in 0..len {
        // runs of the same thread, with preemptions
        if r.chance(2, 5) {
            cur = r.below(n);
        }
        s.push(char::from_digit(cur as u32, 10).unwrap());
    }
    s
}

fn gen_arena_sched(r: &mut Rng) -> String {
    let zero = r.chance(1, 5);
    let z = if zero { 1 } else { 0 };
    // prefill so that the threads' additions cross a bucket boundary / race to allocate a bucket
    let prefill = match r.below(8) {
        0 => 0,
        1 => r.range(0, 3),
        2 | 3 => 128 - z - r.range(0, 3),
        4 => 128 - z,
        5 => 384 - z - r.range(0, 3),
        6 => 896 - z - r.range(0, 2),
        _ => r.range(100, 140),
    };
    let n = r.range(2, 3);
    let mut progs = Vec::new();
    for t in 0..n {
        let k = r.range(1, 4);
        let mut ops = Vec::new();
        let mut adds = 0;
        for j in 0..k {
            match r.below(8) {
                0 if adds > 0 => ops.push(format!("o{}", r.below(adds))),
                1 if prefill > 0 => ops.push(format!("p{}", r.below(prefill))),
                2 => ops.push("l".to_string()),
                3 if zero => ops.push("z".to_string()),
                _ => {
                    ops.push(format!("a{}", 1000 * (t + 1) + j));
                    adds += 1;
                }
            }
        }
        progs.push(ops.join(","));
    }
    let sl = r.range(0, 40);
    let sch = gen_schedule(r, n, sl);
    format!("arena.sched\t{}\t{}\t{}\t{}", z, prefill, progs.join(";"), if sch.is_empty() { "-".into() } else { sch })
}

// ------------------------------------------------------------------ uncontrolled stress (OS schedule)

fn run_arena_stress(f: &[&str]) -> String {
    let threads: usize = f[1].parse().unwrap();
    let per: usize = f[2].parse().unwrap();
    let total = threads * per;
    let drops: Arc<Vec<AtomicU32>> = Arc::new((0..total).map(|_| AtomicU32::new(0)).collect());
    let arena: Arc<vh::AtomicArena<'static, El>> = Arc::new(vh::AtomicArena::new());
    let mut hs = Vec::new();
    for t in 0..threads {
        let arena = arena.clone();
        let drops = drops.clone();
        hs.push(std::thread::spawn(move || {
            let mut out = Vec::new();
            let mut ok = true;
            let mut last_len = 0usize;
            for j in 0..per {
                let slot = t * per + j;
                let r = arena.add(El { val: slot as u64, slot, drops: drops.clone() });
                ok &= arena.get(r).val == slot as u64;
                let l = arena.len();
                ok &= l >= last_len && l > r.index() as usize;
                last_len = l;
                if j > 0 {
                    let (pr, pv): (vh::Ref<'static, El>, u64) = out[j / 2];
                    ok &= arena.get(pr).val == pv;
                }
                out.push((r, slot as u64));
            }
            (out, ok)
        }));
    }
    let mut all: Vec<u32> = Vec::new();
    let mut ok = true;
    let mut pairs = Vec::new();
    for h in hs {
        let (out, o) = h.join().unwrap();
        ok &= o;
        for (r, v) in out {
            all.push(r.index());
            pairs.push((r, v));
        }
    }
    // read back everything from this thread after all additions completed
    for (r, v) in &pairs {
        ok &= arena.get(*r).val == *v;
    }
    all.sort();
    let uniq = all.windows(2).all(|w| w[0] != w[1]) && all.iter().enumerate().all(|(i, r)| *r as usize == i);
    let len = arena.len();
    drop(pairs);
    match Arc::try_unwrap(arena) {
        Ok(a) => drop(a),
        Err(_) => return "arena-still-shared".into(),
    }
    let dropped = drops.iter().filter(|c| c.load(Ordering::SeqCst) > 0).count();
    let bad = drops.iter().filter(|c| c.load(Ordering::SeqCst) != 1).count();
    format!("uniq={}\treadback={}\tlen={}\tdrop={}/{}", uniq, ok, len, dropped, bad)
}

fn run_intern_stress(f: &[&str]) -> String {
    let threads: usize = f[1].parse().unwrap();
    let per: usize = f[2].parse().unwrap();
    let distinct: u64 = f[3].parse().unwrap();
    let table: &'static InternTable<HId, HVal> = Box::leak(Box::new(InternTable::new()));
    CUR_TABLE.store(table as *const _ as *mut _, Ordering::SeqCst);
    let mut hs = Vec::new();
    for t in 0..threads {
        hs.push(std::thread::spawn(move || {
            let mut out = Vec::new();
            let mut ok = true;
            for j in 0..per {
                let v = ((t * 7919 + j * 104729) as u64) % distinct;
                let id = HId::intern(HVal(v));
                ok &= id.get().0 == v;
                ok &= HId::get_interned(&HVal(v)) == Some(id);
                out.push((v, id.index()));
            }
            (out, ok)
        }));
    }
    let mut ok = true;
    let mut map: std::collections::BTreeMap<u64, u32> = std::collections::BTreeMap::new();
    let mut eq_ok = true;
    for h in hs {
        let (out, o) = h.join().unwrap();
        ok &= o;
        for (v, i) in out {
            if let Some(p) = map.insert(v, i) {
                eq_ok &= p == i;
            }
        }
    }
    let mut ids: Vec<u32> = map.values().cloned().collect();
    ids.sort();
    let dense = ids.iter().enumerate().all(|(k, i)| *i as usize == k) && table.len() == map.len();
    format!("eq={}\tlookup={}\tdense={}\tlen={}", eq_ok, ok, dense, table.len())
}

// ------------------------------------------------------------------ intern table under a schedule

#[derive(Hash, PartialEq, Eq, Debug)]
struct HVal(u64);

#[derive(Copy, Clone, PartialEq, Eq, Hash)]
struct HId(intern::intern::Ref<HVal>);

static CUR_TABLE: AtomicPtr<InternTable<HId, HVal>> = AtomicPtr::new(std::ptr::null_mut());

impl InternId for HId {
    type Intern = HVal;
    type Lookup = HVal;
    fn table() -> &'static InternTable<Self, HVal> {
        unsafe { &*CUR_TABLE.load(Ordering::SeqCst) }
    }
    fn wrap(r: intern::intern::Ref<HVal>) -> Self {
        HId(r)
    }
    fn unwrap(self) -> intern::intern::Ref<HVal> {
        self.0
    }
}

impl Borrow<HVal> for AsInterned<HId> {
    fn borrow(&self) -> &HVal {
        self.0.get()
    }
}

#[derive(Clone, Debug)]
enum IOp {
    Intern(u64),
    Query(u64),
    GetOwn(usize),
    Len,
}

fn parse_iprogs(s: &str) -> Vec<Vec<IOp>> {
    s.split(';')
        .map(|p| {
            p.split(',')
                .filter(|x| !x.is_empty() && *x != "-")
                .map(|x| {
                    let (h, t) = x.split_at(1);
                    match h {
                        "i" => IOp::Intern(t.parse().unwrap()),
                        "q" => IOp::Query(t.parse().unwrap()),
                        "o" => IOp::GetOwn(t.parse().unwrap()),
                        "l" => IOp::Len,
                        _ => panic!("bad op {}", x),
                    }
                })
                .collect()
        })
        .collect()
}

fn fnv1a(v: u64) -> u64 {
    let mut h: u64 = 0xcbf29ce484222325;
    for b in v.to_le_bytes() {
        h ^= b as u64;
        h = h.wrapping_mul(0x100000001b3);
    }
    h
}

fn shard_of(v: u64) -> u64 {
    (fnv1a(v) >> 51) & 63
}

fn run_intern_sched(f: &[&str]) -> String {
    let zero = f[1] == "1";
    let progs = parse_iprogs(f[2]);
    let schedule = parse_schedule(f[3]);
    let table: &'static InternTable<HId, HVal> = if zero {
        let z: &'static intern::Zero<HVal> = Box::leak(Box::new(intern::Zero::new(HVal(ZERO_VAL))));
        Box::leak(Box::new(InternTable::with_zero(z)))
    } else {
        Box::leak(Box::new(InternTable::new()))
    };
    CUR_TABLE.store(table as *const _ as *mut _, Ordering::SeqCst);
    // OnceCell initialisation of the shards happens here, outside the schedule
    let _ = HId::get_interned(&HVal(u64::MAX));
    let mut bodies: Vec<Box<dyn FnOnce(Rc<Ctl>) -> Vec<String> + Send>> = Vec::new();
    for prog in progs.iter().cloned() {
        bodies.push(Box::new(move |ctl: Rc<Ctl>| {
            let mut res = Vec::new();
            let mut own: Vec<HId> = Vec::new();
            for op in prog.iter() {
                ctl.arrive("op", 0);
                match op {
                    IOp::Intern(v) => {
                        ctl.quiet_reads.set(true);
                        let id = HId::intern(HVal(*v));
                        ctl.quiet_reads.set(false);
                        res.push(format!("i{}", id.index()));
                        own.push(id);
                    }
                    IOp::Query(v) => {
                        ctl.quiet_reads.set(true);
                        let r = HId::get_interned(&HVal(*v));
                        ctl.quiet_reads.set(false);
                        res.push(match r {
                            Some(id) => format!("s{}", id.index()),
                            None => "none".to_string(),
                        });
                    }
                    IOp::GetOwn(j) => res.push(format!("v{}", own[*j].get().0)),
                    IOp::Len => res.push(format!("n{}", HId::table().len())),
                }
            }
            res
        }));
    }
    let out = run_scheduled(bodies, &schedule);
    if out.hang {
        return "hang".into();
    }
    let len = table.len();
    let mut tbl = Vec::new();
    for i in 0..len {
        match HId::from_index_checked(i as u32) {
            Some(id) => tbl.push(format!("{}", id.get().0)),
            None => tbl.push("?".into()),
        }
    }
    format!(
        "{}\tlen={}\ttbl={}",
        fmt_threads(&out.labels, &out.results),
        len,
        if tbl.is_empty() { "-".to_string() } else { tbl.join(",") }
    )
}

fn gen_intern_sched(r: &mut Rng) -> String {
    let zero = r.chance(1, 4);
    // a small pool of values; some of them share a shard (searched deterministically)
    let base = 1 + r.below(50) as u64;
    let mut pool = vec![base, base + 1, base + 2];
    let target = shard_of(base);
    let mut c = base + 3;
    let mut found = 0;
    while found < 2 && c < base + 2000 {
        if shard_of(c) == target {
            pool.push(c);
            found += 1;
        }
        c += 1;
    }
    if zero && r.chance(1, 3) {
        pool.push(ZERO_VAL);
    }
    let n = r.range(2, 3);
    let mut progs = Vec::new();
    for _t in 0..n {
        let k = r.range(1, 4);
        let mut ops = Vec::new();
        let mut interns = 0;
        for _ in 0..k {
            match r.below(8) {
                0 if interns > 0 => ops.push(format!("o{}", r.below(interns))),
                1 => ops.push(format!("q{}", r.pick(&pool))),
                2 => ops.push("l".to_string()),
                _ => {
                    ops.push(format!("i{}", r.pick(&pool)));
                    interns += 1;
                }
            }
        }
        progs.push(ops.join(","));
    }
    let sl = r.range(0, 60);
    let sch = gen_schedule(r, n, sl);
    format!("intern.sched\t{}\t{}\t{}", if zero { 1 } else { 0 }, progs.join(";"), if sch.is_empty() { "-".into() } else { sch })
}

// ------------------------------------------------------------------ sequential: ids, lookup, Ord

fn ord_char(o: Ord_) -> char {
    match o {
        Ord_::Less => '<',
        Ord_::Equal => '=',
        Ord_::Greater => '>',
    }
}

fn run_intern_seq(f: &[&str]) -> String {
    let items: Vec<Vec<u8>> = f[1].split(',').map(|h| unhex(h).unwrap()).collect();
    let ids: Vec<BytesId> = items.iter().map(|b| intern_bytes(&b[..])).collect();
    let ids2: Vec<BytesId> = items.iter().map(|b| intern_bytes(b.clone())).collect();
    let mut eq = String::new();
    let mut cmp = String::new();
    let mut scmp = String::new();
    for i in 0..ids.len() {
        for j in 0..ids.len() {
            eq.push(if ids[i] == ids[j] { '1' } else { '0' });
            cmp.push(ord_char(ids[i].cmp(&ids[j])));
            match (StringId::from_bytes(ids[i]), StringId::from_bytes(ids[j])) {
                (Ok(a), Ok(b)) => scmp.push(ord_char(a.cmp(&b))),
                _ => scmp.push('x'),
            }
        }
    }
    let look: String = ids
        .iter()
        .zip(items.iter())
        .map(|(id, b)| if id.as_bytes() == &b[..] { '1' } else { '0' })
        .collect();
    let stable = ids == ids2;
    let len = <BytesId as InternId>::table().len();
    let dense = ids.iter().all(|id| (id.index() as usize) < len)
        && ids.iter().all(|id| BytesId::from_index_checked(id.index()) == Some(*id));
    let empty_ok = items.iter().zip(ids.iter()).all(|(b, id)| (b.is_empty()) == (*id == BytesId::EMPTY));
    format!("{}\t{}\t{}\t{}\t{}\t{}\t{}", eq, cmp, scmp, look, stable, dense, empty_ok)
}

const STR_ALPHABET: &[&str] = &["a", "b", "ab", "z", "", "é", "😀", "\u{0}", "A", "aa", "0"];

fn gen_bytes(r: &mut Rng) -> Vec<u8> {
    match r.below(10) {
        0 => vec![],
        1 => (0..r.range(20, 25)).map(|_| *r.pick(&[b'a', b'b'])).collect(),
        2 => (0..r.range(1, 5)).map(|_| r.below(256) as u8).collect(),
        3 => (0..r.range(21, 60)).map(|_| r.below(256) as u8).collect(),
        _ => gen_text(r, 6, STR_ALPHABET).into_bytes(),
    }
}

fn gen_intern_seq(r: &mut Rng) -> String {
    let n = r.range(2, 5);
    let mut items: Vec<Vec<u8>> = Vec::new();
    for _ in 0..n {
        if !items.is_empty() && r.chance(1, 4) {
            let c = r.pick(&items).clone();
            // repeat, or a neighbour (prefix / one byte changed)
            let v = match r.below(3) {
                0 => c,
                1 => {
                    let mut d = c.clone();
                    d.push(r.below(256) as u8);
                    d
                }
                _ => {
                    let mut d = c.clone();
                    if !d.is_empty() {
                        let k = r.below(d.len());
                        d[k] = d[k].wrapping_add(1);
                    }
                    d
                }
            };
            items.push(v);
        } else {
            items.push(gen_bytes(r));
        }
    }
    format!("intern.seq\t{}", items.iter().map(|b| hex(b)).collect::<Vec<_>>().join(","))
}

// ------------------------------------------------------------------ SmallBytes

fn run_small(f: &[&str]) -> String {
    let a = unhex(f[1]).unwrap();
    let b = unhex(f[2]).unwrap();
    let sa = vh::SmallBytes::from(&a[..]);
    let sb = vh::SmallBytes::from(b.clone());
    let kind = if format!("{:?}", sa).starts_with("Small") { "small" } else { "large" };
    let rt: vh::SmallBytes = bincode::deserialize(&bincode::serialize(&sa).unwrap()).unwrap();
    let rtj: vh::SmallBytes = serde_json::from_str(&serde_json::to_string(&sa).unwrap()).unwrap();
    let rt_kind_same = format!("{:?}", rt) == format!("{:?}", sa) && format!("{:?}", rtj) == format!("{:?}", sa);
    fn h(x: &vh::SmallBytes) -> u64 {
        use std::hash::{Hash, Hasher};
        let mut s = std::collections::hash_map::DefaultHasher::new();
        x.hash(&mut s);
        s.finish()
    }
    fn hb(x: &[u8]) -> u64 {
        use std::hash::{Hash, Hasher};
        let mut s = std::collections::hash_map::DefaultHasher::new();
        x.hash(&mut s);
        s.finish()
    }
    format!(
        "{}\t{}\t{}\t{}\t{}\t{}",
        kind,
        sa.len(),
        hex(&sa),
        sa == sb,
        rt == sa && rtj == sa && rt_kind_same,
        h(&sa) == hb(&a)
    )
}

fn gen_small(r: &mut Rng) -> String {
    let len = match r.below(6) {
        0 => r.range(0, 3),
        1 | 2 | 3 => r.range(20, 25),
        4 => r.range(250, 260),
        _ => r.range(0, 60),
    };
    let a: Vec<u8> = (0..len).map(|_| if r.chance(1, 3) { 0 } else { r.below(256) as u8 }).collect();
    let b = match r.below(4) {
        0 => a.clone(),
        1 => {
            let mut d = a.clone();
            d.push(0);
            d
        }
        2 => {
            let mut d = a.clone();
            d.pop();
            d
        }
        _ => {
            let mut d = a.clone();
            if !d.is_empty() {
                let k = r.below(d.len());
                d[k] ^= 1;
            }
            d
        }
    };
    format!("small.bytes\t{}\t{}", hex(&a), hex(&b))
}

// ------------------------------------------------------------------ PathId

fn run_path(f: &[&str]) -> String {
    let a = String::from_utf8(unhex(f[1]).unwrap()).unwrap();
    let b = String::from_utf8(unhex(f[2]).unwrap()).unwrap();
    match catch_unwind(|| {
        let pa = PathId::from(a.as_str());
        let pb = PathId::from(b.as_str());
        let back = pa.to_path_buf().to_string_lossy().to_string();
        format!("{}\t{}\t{}", ord_char(pa.cmp(&pb)), pa == pb, hex(back.as_bytes()))
    }) {
        Ok(s) => s,
        Err(_) => "panic".into(),
    }
}

fn gen_path_str(r: &mut Rng) -> String {
    let n = r.range(1, 4);
    let comps: Vec<&str> = (0..n).map(|_| *r.pick(&["a", "b", "ab", "a.b", "_", "z", "é", "aa"])).collect();
    let mut s = String::new();
    for (i, c) in comps.iter().enumerate() {
        if i > 0 {
            s.push_str(if r.chance(1, 6) { "//" } else { "/" });
        }
        s.push_str(c);
    }
    if r.chance(1, 6) {
        s.push('/');
    }
    s
}

fn gen_path(r: &mut Rng) -> String {
    let a = gen_path_str(r);
    let b = match r.below(4) {
        0 => a.clone(),
        1 => format!("{}/{}", a.trim_end_matches('/'), r.pick(&["a", "_", "b"])),
        _ => gen_path_str(r),
    };
    format!("path.cmp\t{}\t{}", hex(a.as_bytes()), hex(b.as_bytes()))
}

// ------------------------------------------------------------------ serde with intern sharing

#[derive(Debug, PartialEq, Eq, Hash, Serialize, Deserialize)]
enum Tree {
    Leaf(u32),
    Pair(Box<Tree>, Box<Tree>),
    My(MyId),
    Str(StringId),
}

intern_struct! {
    struct MyId = Intern<Tree> {
        serdes("InternSerdes<MyId>");
    }
}

/// description grammar: L<n> | P(<t>,<t>) | M<k> | S<k>
struct Desc<'a> {
    s: &'a [u8],
    i: usize,
}
#[derive(Clone, Debug)]
enum D {
    Leaf(u32),
    Pair(Box<D>, Box<D>),
    My(usize),
    Str(usize),
}
impl<'a> Desc<'a> {
    fn num(&mut self) -> usize {
        let st = self.i;
        while self.i < self.s.len() && self.s[self.i].is_ascii_digit() {
            self.i += 1;
        }
        std::str::from_utf8(&self.s[st..self.i]).unwrap().parse().unwrap()
    }
    fn parse(&mut self) -> D {
        let c = self.s[self.i];
        self.i += 1;
        match c {
            b'L' => D::Leaf(self.num() as u32),
            b'M' => D::My(self.num()),
            b'S' => D::Str(self.num()),
            b'P' => {
                self.i += 1; // (
                let a = self.parse();
                self.i += 1; // ,
                let b = self.parse();
                self.i += 1; // )
                D::Pair(Box::new(a), Box::new(b))
            }
            _ => panic!("bad desc"),
        }
    }
}
fn parse_desc(s: &str) -> D {
    Desc { s: s.as_bytes(), i: 0 }.parse()
}

fn build(d: &D, nodes: &[MyId], strs: &[StringId]) -> Tree {
    match d {
        D::Leaf(n) => Tree::Leaf(*n),
        D::Pair(a, b) => Tree::Pair(Box::new(build(a, nodes, strs)), Box::new(build(b, nodes, strs))),
        D::My(k) => Tree::My(nodes[*k]),
        D::Str(k) => Tree::Str(strs[*k]),
    }
}

/// JSON wire -> canonical wire string (L / P / V<ty>(..) / B<ty>:<k>)
fn wire_of(v: &serde_json::Value, pool: &[Vec<u8>]) -> String {
    let o = v.as_object().expect("object");
    let (k, x) = o.iter().next().unwrap();
    match k.as_str() {
        "Leaf" => format!("L{}", x.as_u64().unwrap()),
        "Pair" => {
            let a = x.as_array().unwrap();
            format!("P({},{})", wire_of(&a[0], pool), wire_of(&a[1], pool))
        }
        "My" => {
            let e = x.as_object().unwrap();
            let (ek, ex) = e.iter().next().unwrap();
            match ek.as_str() {
                "Value" => format!("V0({})", wire_of(ex, pool)),
                "Id" => format!("B0:{}", ex.as_u64().unwrap()),
                _ => panic!("bad intern enum"),
            }
        }
        "Str" => {
            let e = x.as_object().unwrap();
            let (ek, ex) = e.iter().next().unwrap();
            match ek.as_str() {
                "Value" => {
                    let bytes: Vec<u8> = ex.as_array().unwrap().iter().map(|b| b.as_u64().unwrap() as u8).collect();
                    let k = pool.iter().position(|p| *p == bytes).expect("string not in pool");
                    format!("V1(L{})", k)
                }
                "Id" => format!("B1:{}", ex.as_u64().unwrap()),
                _ => panic!("bad intern enum"),
            }
        }
        _ => panic!("bad tree"),
    }
}

fn run_serde(f: &[&str]) -> String {
    let pool: Vec<Vec<u8>> = if f[1] == "-" { vec![] } else { f[1].split(',').map(|h| unhex(h).unwrap()).collect() };
    let node_descs: Vec<D> = if f[2] == "-" { vec![] } else { f[2].split(';').map(parse_desc).collect() };
    let tree_desc = parse_desc(f[3]);
    match catch_unwind(AssertUnwindSafe(|| {
        let strs: Vec<StringId> = pool
            .iter()
            .map(|b| intern::string::intern(String::from_utf8(b.clone()).unwrap()))
            .collect();
        let mut nodes: Vec<MyId> = Vec::new();
        for d in &node_descs {
            let t = build(d, &nodes, &strs);
            nodes.push(MyId::intern(t));
        }
        let tree = build(&tree_desc, &nodes, &strs);
        let json = serde_json::to_string(&WithIntern(&tree)).unwrap();
        let wire = wire_of(&serde_json::from_str::<serde_json::Value>(&json).unwrap(), &pool);
        let back: Tree = WithIntern::strip(serde_json::from_str::<WithIntern<Tree>>(&json)).unwrap();
        let bin = bincode::serialize(&WithIntern(&tree)).unwrap();
        let back2: Tree = WithIntern::strip(bincode::deserialize::<WithIntern<Tree>>(&bin)).unwrap();
        // a second serialisation under a new guard must not see stale tables
        let json2 = serde_json::to_string(&WithIntern(&tree)).unwrap();
        format!("{}\t{}\t{}\t{}", wire, back == tree, back2 == tree, json2 == json)
    })) {
        Ok(s) => s,
        Err(_) => "panic".into(),
    }
}

fn gen_desc(r: &mut Rng, depth: usize, n_nodes: usize, n_strs: usize) -> String {
    let c = r.below(10);
    if depth == 0 || c < 2 {
        match r.below(4) {
            0 if n_nodes > 0 => format!("M{}", r.below(n_nodes)),
            1 if n_strs > 0 => format!("S{}", r.below(n_strs)),
            2 if n_nodes > 0 => format!("M{}", r.below(n_nodes)),
            _ => format!("L{}", r.below(5)),
        }
    } else if c < 7 {
        format!("P({},{})", gen_desc(r, depth - 1, n_nodes, n_strs), gen_desc(r, depth - 1, n_nodes, n_strs))
    } else if n_nodes > 0 && c < 9 {
        format!("M{}", r.below(n_nodes))
    } else if n_strs > 0 {
        format!("S{}", r.below(n_strs))
    } else {
        format!("L{}", r.below(5))
    }
}

fn gen_serde(r: &mut Rng, idx: u64) -> String {
    let n_strs = r.range(0, 3);
    // strings unique to this case index so that pool lookups are unambiguous
    let pool: Vec<String> = (0..n_strs)
        .map(|k| format!("{}{}-{}", r.pick(&["s", "long-string-over-the-inline-limit-", "é"]), idx, k))
        .collect();
    let n_nodes = r.range(0, 4);
    let mut nodes = Vec::new();
    for k in 0..n_nodes {
        nodes.push(gen_desc(r, 2, k, n_strs));
    }
    let tree = gen_desc(r, 4, n_nodes, n_strs);
    format!(
        "serde.rt\t{}\t{}\t{}",
        if pool.is_empty() { "-".to_string() } else { pool.iter().map(|s| hex(s.as_bytes())).collect::<Vec<_>>().join(",") },
        if nodes.is_empty() { "-".to_string() } else { nodes.join(";") },
        tree
    )
}

// ------------------------------------------------------------------ main

fn run(f: &[&str]) -> String {
    match f[0] {
        "arena.consts" => run_consts(),
        "arena.index" => run_index(f),
        "arena.cap" => run_cap(f),
        "arena.sched" => run_arena_sched(f),
        "arena.stress" => run_arena_stress(f),
        "intern.stress" => run_intern_stress(f),
        "intern.sched" => run_intern_sched(f),
        "intern.seq" => run_intern_seq(f),
        "small.bytes" => run_small(f),
        "path.cmp" => run_path(f),
        "serde.rt" => run_serde(f),
        _ => "bad-op".into(),
    }
}

fn main() {
    let which = std::env::var("HX_ENGINE").unwrap_or_default();
    main_loop(
        &|r, i| match which.as_str() {
            "arena" => match r.below(10) {
                0..=3 => vec![gen_index(r)],
                4 => vec![format!("arena.cap\t{}", r.below(40))],
                _ => vec![gen_arena_sched(r)],
            },
            "intern" => match r.below(10) {
                0..=3 => vec![gen_intern_sched(r)],
                4 | 5 => vec![gen_serde(r, i)],
                6 => vec![gen_intern_seq(r)],
                7 => vec![gen_small(r)],
                _ => vec![gen_path(r)],
            },
            _ => vec![gen_index(r), gen_arena_sched(r), gen_intern_sched(r), gen_serde(r, i)],
        },
        &mut |f| run(f),
    );
}
