//! Deterministic scheduler for 1–4 real threads.  A controlled thread blocks at every
//! `verif_hook::yield_point` until the main thread ticks it; one tick = the code between two
//! yield points, run while every other controlled thread is paused (sequential consistency by
//! construction).  The label a thread *arrives* at after each tick is recorded.
use std::cell::Cell;
use std::rc::Rc;
use std::sync::mpsc::{channel, Receiver, RecvTimeoutError, Sender};
use std::time::Duration;

pub enum Event {
    Arrive { tid: usize, code: String },
    Done { tid: usize, results: Vec<String>, panicked: bool },
}

pub struct Ctl {
    pub tid: usize,
    pub tx: Sender<Event>,
    pub go: Receiver<()>,
    /// labels to pass straight through (arena `get`/`len` called from inside a set operation)
    pub quiet_reads: Rc<Cell<bool>>,
}

pub fn code(label: &str, arg: u64) -> String {
    match label {
        "add.fetch_add" => "af".into(),
        "add.load_bucket" => "al".into(),
        "slow.lock" => "sl".into(),
        "slow.recheck" => "sr".into(),
        "slow.unlock_found" => "su".into(),
        "slow.store" => "ss".into(),
        "slow.unlock" => "sk".into(),
        "add.write" => "aw".into(),
        "get.check" => "gc".into(),
        "get.load_bucket" => "gl".into(),
        "get.read" => "gr".into(),
        "len.load" => "ll".into(),
        "set.try_write" => format!("tw{}", arg),
        "set.read" => "rd".into(),
        "set.read_found" => "rf".into(),
        "set.write" => "wr".into(),
        "set.check" => "ck".into(),
        "set.check_found" => "cf".into(),
        "intern.insert" => "in".into(),
        "intern.unlock" => "un".into(),
        "set.get" => "sg".into(),
        "op" => "op".into(),
        other => format!("?{}", other),
    }
}

impl Ctl {
    /// block until ticked
    pub fn arrive(&self, label: &'static str, arg: u64) {
        if self.quiet_reads.get() && (label.starts_with("get.") || label == "len.load") {
            return;
        }
        let _ = self.tx.send(Event::Arrive { tid: self.tid, code: code(label, arg) });
        let _ = self.go.recv();
    }
}

pub struct Outcome {
    pub labels: Vec<Vec<String>>,
    pub results: Vec<Vec<String>>,
    pub hang: bool,
}

/// Runs `bodies[i]` on thread i under `schedule`.  A body gets its `Ctl`, installs the hook
/// controller itself, calls `ctl.arrive("op", 0)` before each operation and returns its results.
pub fn run_scheduled(
    bodies: Vec<Box<dyn FnOnce(Rc<Ctl>) -> Vec<String> + Send>>,
    schedule: &[usize],
) -> Outcome {
    let n = bodies.len();
    let (tx, rx) = channel::<Event>();
    let mut gos: Vec<Sender<()>> = Vec::new();
    let mut handles = Vec::new();
    for (tid, body) in bodies.into_iter().enumerate() {
        let (gtx, grx) = channel::<()>();
        gos.push(gtx);
        let tx = tx.clone();
        handles.push(std::thread::spawn(move || {
            let ctl = Rc::new(Ctl { tid, tx: tx.clone(), go: grx, quiet_reads: Rc::new(Cell::new(false)) });
            let c2 = ctl.clone();
            intern::verif_hook::set_controller(Some(Box::new(move |l, a| c2.arrive(l, a))));
            let r = std::panic::catch_unwind(std::panic::AssertUnwindSafe(|| body(ctl.clone())));
            intern::verif_hook::set_controller(None);
            match r {
                Ok(results) => { let _ = tx.send(Event::Done { tid, results, panicked: false }); }
                Err(_) => { let _ = tx.send(Event::Done { tid, results: vec![], panicked: true }); }
            }
        }));
    }
    let mut labels: Vec<Vec<String>> = vec![Vec::new(); n];
    let mut results: Vec<Vec<String>> = vec![Vec::new(); n];
    let mut done = vec![false; n];
    let mut hang = false;
    let timeout = Duration::from_secs(20);
    // every thread first arrives at its first "op" yield (or finishes at once)
    let mut pending = n;
    while pending > 0 {
        match rx.recv_timeout(timeout) {
            Ok(Event::Arrive { tid, code }) => { labels[tid].push(code); pending -= 1; }
            Ok(Event::Done { tid, results: r, panicked }) => {
                done[tid] = true;
                labels[tid].push(if panicked { "panic".into() } else { "en".into() });
                results[tid] = r;
                pending -= 1;
            }
            Err(RecvTimeoutError::Timeout) | Err(RecvTimeoutError::Disconnected) => { hang = true; break; }
        }
    }
    let tick = |t: usize, labels: &mut Vec<Vec<String>>, results: &mut Vec<Vec<String>>, done: &mut Vec<bool>| -> bool {
        if t >= n || done[t] {
            return true;
        }
        if gos[t].send(()).is_err() {
            return false;
        }
        match rx.recv_timeout(timeout) {
            Ok(Event::Arrive { tid, code }) => { labels[tid].push(code); true }
            Ok(Event::Done { tid, results: r, panicked }) => {
                done[tid] = true;
                labels[tid].push(if panicked { "panic".into() } else { "en".into() });
                results[tid] = r;
                true
            }
            Err(_) => false,
        }
    };
    if !hang {
        for &t in schedule {
            if !tick(t, &mut labels, &mut results, &mut done) { hang = true; break; }
        }
    }
    // finishing phase: round robin over the unfinished threads
    let mut rounds = 0usize;
    while !hang && done.iter().any(|d| !d) {
        for t in 0..n {
            if !tick(t, &mut labels, &mut results, &mut done) { hang = true; break; }
        }
        rounds += 1;
        if rounds > 100_000 { hang = true; }
    }
    if hang {
        // cannot join threads that are stuck; leak them
        std::mem::forget(handles);
    } else {
        for h in handles { let _ = h.join(); }
    }
    Outcome { labels, results, hang }
}
