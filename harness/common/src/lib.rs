//! Shared pieces of the correspondence harness: one PRNG, hex, the line protocol.
use std::io::{BufRead, Write};

/// splitmix64 — every random choice of every generator derives from one of these, seeded from
/// (VERIF_SEED, case index), so that a disagreement replays exactly.
#[derive(Clone)]
pub struct Rng(pub u64);

impl Rng {
    pub fn new(seed: u64, index: u64) -> Self {
        let mut r = Rng(seed ^ index.wrapping_mul(0x9E37_79B9_7F4A_7C15) ^ 0xD1B5_4A32_D192_ED03);
        r.next();
        r.next();
        r
    }
    pub fn next(&mut self) -> u64 {
        self.0 = self.0.wrapping_add(0x9E37_79B9_7F4A_7C15);
        let mut z = self.0;
        z = (z ^ (z >> 30)).wrapping_mul(0xBF58_476D_1CE4_E5B9);
        z = (z ^ (z >> 27)).wrapping_mul(0x94D0_49BB_1331_11EB);
        z ^ (z >> 31)
    }
    pub fn below(&mut self, n: usize) -> usize {
        if n == 0 { 0 } else { (self.next() % (n as u64)) as usize }
    }
    pub fn range(&mut self, lo: usize, hi_incl: usize) -> usize {
        lo + self.below(hi_incl - lo + 1)
    }
    pub fn chance(&mut self, num: usize, den: usize) -> bool {
        self.below(den) < num
    }
    pub fn pick<'a, T>(&mut self, xs: &'a [T]) -> &'a T {
        &xs[self.below(xs.len())]
    }
}

pub fn hex(b: &[u8]) -> String {
    if b.is_empty() {
        return "-".to_string();
    }
    let mut s = String::with_capacity(b.len() * 2);
    for x in b {
        s.push_str(&format!("{:02x}", x));
    }
    s
}

pub fn unhex(s: &str) -> Option<Vec<u8>> {
    if s == "-" {
        return Some(vec![]);
    }
    if s.len() % 2 != 0 {
        return None;
    }
    (0..s.len() / 2).map(|i| u8::from_str_radix(&s[2 * i..2 * i + 2], 16).ok()).collect()
}

/// Random text biased towards what the text-level properties care about.
pub fn gen_text(r: &mut Rng, max_chars: usize, alphabet: &[&str]) -> String {
    let n = r.below(max_chars + 1);
    let mut s = String::new();
    for _ in 0..n {
        let p: &str = *r.pick(alphabet);
        s.push_str(p);
    }
    s
}

pub const MIXED_ALPHABET: &[&str] = &[
    "a", "b", "z", "0", "7", " ", " ", "\n", "\n", "\t", "é", "ö", "→", "漢", "😀", "\u{1}", "x", "_",
    "\"", "'", "\\", "*", "/", ">", "<",
];

/// Silence the default panic message (cases run under catch_unwind).
pub fn quiet_panics() {
    std::panic::set_hook(Box::new(|_| {}));
}

/// Standard main: `gen <seed> <n>` prints request lines; `run` reads request lines on stdin and
/// prints `request \t => \t answer`.
pub fn main_loop(
    gen: &dyn Fn(&mut Rng, u64) -> Vec<String>,
    run: &mut dyn FnMut(&[&str]) -> String,
) {
    let args: Vec<String> = std::env::args().collect();
    let out = std::io::stdout();
    let mut out = std::io::BufWriter::new(out.lock());
    match args.get(1).map(|s| s.as_str()) {
        Some("gen") => {
            let seed: u64 = args[2].parse().expect("seed");
            let n: u64 = args[3].parse().expect("n");
            let start: u64 = args.get(4).map(|s| s.parse().expect("start")).unwrap_or(0);
            for i in start..start + n {
                let mut r = Rng::new(seed, i);
                for line in gen(&mut r, i) {
                    writeln!(out, "{}", line).unwrap();
                }
            }
        }
        Some("run") => {
            quiet_panics();
            let stdin = std::io::stdin();
            for line in stdin.lock().lines() {
                let line = line.unwrap();
                if line.is_empty() || line.starts_with('#') {
                    continue;
                }
                let fields: Vec<&str> = line.split('\t').collect();
                let ans = run(&fields);
                writeln!(out, "{}\t=>\t{}", line, ans).unwrap();
            }
        }
        _ => {
            eprintln!("usage: gen <seed> <n> [start] | run < requests");
            std::process::exit(2);
        }
    }
    out.flush().unwrap();
}
