//! Merged selection maps of the REAL compiler, read back from the wire encoding of the dump hook
//! (`isograph_schema::verif::verif_wire_map`), and printed in the text form shared with
//! `lean/Driver/Merge.lean`:
//!
//! ```text
//! map   := "[" entry ("," entry)* "]" | "[]"
//! entry := "s(" key ";" f ";" name ";" args ")"
//!        | ("l"|"c") "(" key ";" f ";" name ";" args ";" conc ";" map ")"
//!        | "f(" key ";" type ";" map ")"
//! key   := "D" | "I" | "F." name args | "P." name args | "T." type
//! args  := "{" (name "=" value),* "}"
//! value := "$" hex | "i" int | "b0" | "b1" | "\"" hex | "n" | "e." hex | "f." hex
//!        | "o{" (name "=" value),* "}" | "l[" value,* "]"
//! conc  := "C." hex | "A"          f := "0" | "1"          name, type := hex of the UTF-8 bytes ("-" if empty)
//! ```
//!
//! Source locations inside object / list values (they are part of the compiler's keys) are not
//! printed.  `map_text(m, false)` keeps the `BTreeMap` iteration order (what the harness answers with);
//! `map_text(m, true)` sorts the entries of every map by their own text, bytewise, keeping duplicates.

#[derive(Clone, Debug, PartialEq, Eq)]
pub enum Sel {
    Scalar { f: bool, name: String, args: String },
    Linked { client: bool, f: bool, name: String, args: String, conc: String, map: Vec<(String, Sel)> },
    Frag { ty: String, map: Vec<(String, Sel)> },
}

pub type Map = Vec<(String, Sel)>;

struct P<'a> {
    t: Vec<&'a str>,
    i: usize,
}

impl<'a> P<'a> {
    fn tok(&mut self) -> Option<&'a str> {
        let x = self.t.get(self.i).copied();
        self.i += 1;
        x
    }
    fn nat(&mut self) -> Option<usize> {
        self.tok()?.parse().ok()
    }
    fn value(&mut self) -> Option<String> {
        Some(match self.tok()? {
            "V" => format!("${}", self.tok()?),
            "I" => format!("i{}", self.tok()?),
            "B" => format!("b{}", self.tok()?),
            "S" => format!("\"{}", self.tok()?),
            "F" => format!("f.{}", self.tok()?),
            "N" => "n".to_string(),
            "E" => format!("e.{}", self.tok()?),
            "L" => {
                let n = self.nat()?;
                let mut xs = vec![];
                for _ in 0..n {
                    xs.push(self.value()?);
                }
                format!("l[{}]", xs.join(","))
            }
            "O" => {
                let n = self.nat()?;
                let mut xs = vec![];
                for _ in 0..n {
                    let k = self.tok()?;
                    xs.push(format!("{}={}", k, self.value()?));
                }
                format!("o{{{}}}", xs.join(","))
            }
            _ => return None,
        })
    }
    fn args(&mut self) -> Option<String> {
        let n = self.nat()?;
        let mut xs = vec![];
        for _ in 0..n {
            let k = self.tok()?;
            xs.push(format!("{}={}", k, self.value()?));
        }
        Some(format!("{{{}}}", xs.join(",")))
    }
    fn key(&mut self) -> Option<String> {
        let _rank = self.tok()?;
        Some(match self.tok()? {
            "D" => "D".to_string(),
            "I" => "I".to_string(),
            "F" => format!("F.{}{}", self.tok()?, self.args()?),
            "P" => format!("P.{}{}", self.tok()?, self.args()?),
            "T" => format!("T.{}", self.tok()?),
            _ => return None,
        })
    }
    fn map(&mut self) -> Option<Map> {
        let n = self.nat()?;
        let mut out = vec![];
        for _ in 0..n {
            let key = self.key()?;
            let sel = match self.tok()? {
                "s" => {
                    let f = self.tok()? == "1";
                    let name = self.tok()?.to_string();
                    let args = self.args()?;
                    Sel::Scalar { f, name, args }
                }
                k @ ("l" | "c") => {
                    let f = self.tok()? == "1";
                    let name = self.tok()?.to_string();
                    let args = self.args()?;
                    let conc = match self.tok()? {
                        "C" => format!("C.{}", self.tok()?),
                        "A" => "A".to_string(),
                        _ => return None,
                    };
                    let map = self.map()?;
                    Sel::Linked { client: k == "c", f, name, args, conc, map }
                }
                "f" => {
                    let ty = self.tok()?.to_string();
                    let map = self.map()?;
                    Sel::Frag { ty, map }
                }
                _ => return None,
            };
            out.push((key, sel));
        }
        Some(out)
    }
}

/// Parse the value of a `qmap` / `nmap` event.
pub fn parse_wire_map(wire: &str) -> Option<Map> {
    let mut p = P { t: wire.split_whitespace().collect(), i: 0 };
    let m = p.map()?;
    if p.i == p.t.len() {
        Some(m)
    } else {
        None
    }
}

fn entry_text(key: &str, sel: &Sel, canonical: bool) -> String {
    let b = |x: bool| if x { "1" } else { "0" };
    match sel {
        Sel::Scalar { f, name, args } => format!("s({key};{};{name};{args})", b(*f)),
        Sel::Linked { client, f, name, args, conc, map } => {
            format!("{}({key};{};{name};{args};{conc};{})", if *client { "c" } else { "l" }, b(*f), map_text(map, canonical))
        }
        Sel::Frag { ty, map } => format!("f({key};{ty};{})", map_text(map, canonical)),
    }
}

pub fn map_text(m: &Map, canonical: bool) -> String {
    let mut xs: Vec<String> = m.iter().map(|(k, s)| entry_text(k, s, canonical)).collect();
    if canonical {
        xs.sort();
    }
    format!("[{}]", xs.join(","))
}

/// FNV-1a, 64 bit: only used to compare artifact bytes across processes.
pub fn fnv(bytes: &[u8]) -> String {
    let mut h: u64 = 0xcbf29ce484222325;
    for b in bytes {
        h ^= *b as u64;
        h = h.wrapping_mul(0x100000001b3);
    }
    format!("{h:016x}")
}
