//! Merged selection maps of the REAL compiler, read back from the wire encoding of the dump hook
//! (`isograph_schema::verif::verif_wire_map`), and printed in the text form shared with
//! `lean/Driver/Merge.lean`:
//!
//! ```text
//! map   := "[" entry ("," entry)* "]" | "[]"
//! entry := "s(" key ";" f ";" name ";" args ")"
//!        | ("l"|"c") "(" key ";" f ";" name ";" args ";" conc ";" map ")"
//!        | "f(" key ";" type ";" map ")"
//! key   := "D" | "I" | "F." name args | "P." name args | "T." type
//! args  := "{" (name "=" value),* "}"
//! value := "$" hex | "i" int | "b0" | "b1" | "\"" hex | "n" | "e." hex | "f." hex
//!        | "o{" (name "=" value),* "}" | "l[" value,* "]"
//! conc  := "C." hex | "A"          f := "0" | "1"          name, type := hex of the UTF-8 bytes ("-" if empty)
//! ```
//!
//! Source locations inside object / list values (they are part of the compiler's keys) are not
//! printed.  `ordered` keeps the `BTreeMap` iteration order; `canonical` sorts the entries of every
//! map by their own (canonical) text, bytewise, keeping duplicates.

#[derive(Clone, Debug, PartialEq, Eq)]
pub enum Sel {
    Scalar { f: bool, name: String, args: String },
    Linked { client: bool, f: bool, name: String, args: String, conc: String, map: Vec<(String, Sel)> },
    Frag { ty: String, map: Vec<(String, Sel)> },
}

pub type Map = Vec<(String, Sel)>;

struct P<'a> {
    t: Vec<&'a str>,
    i: usize,
}

impl<'a> P<'a> {
    fn tok(&mut self) -> Option<&'a str> {
        let x = self.t.get(self.i).copied();
        self.i += 1;
        x
    }
    fn nat(&mut self) -> Option<usize> {
        self.tok()?.parse().ok()
    }
    fn value(&mut self) -> Option<String> {
        Some(match self.tok()? {
            "V" => format!("${}", self.tok()?),
            "I" => format!("i{}", self.tok()?),
            "B" => format!("b{}", self.tok()?),
            "S" => format!("\"{}", self.tok()?),
            "F" => format!("f.{}", self.tok()?),
            "N" => "n".to_string(),
            "E" => format!("e.{}", self.tok()?),
            "L" => {
                let n = self.nat()?;
                let mut xs = vec![];
                for _ in 0..n {
                    xs.push(self.value()?);
                }
                format!("l[{}]", xs.join(","))
            }
            "O" => {
                let n = self.nat()?;
                let mut xs = vec![];
                for _ in 0..n {
                    let k = self.tok()?;
                    xs.push(format!("{}={}", k, self.value()?));
                }
                format!("o{{{}}}", xs.join(","))
            }
            _ => return None,
        })
    }
    fn args(&mut self) -> Option<String> {
        let n = self.nat()?;
        let mut xs = vec![];
        for _ in 0..n {
            let k = self.tok()?;
            xs.push(format!("{}={}", k, self.value()?));
        }
        Some(format!("{{{}}}", xs.join(",")))
    }
    fn key(&mut self) -> Option<String> {
        let _rank = self.tok()?;
        Some(match self.tok()? {
            "D" => "D".to_string(),
            "I" => "I".to_string(),
            "F" => format!("F.{}{}", self.tok()?, self.args()?),
            "P" => format!("P.{}{}", self.tok()?, self.args()?),
            "T" => format!("T.{}", self.tok()?),
            _ => return None,
        })
    }
    fn map(&mut self) -> Option<Map> {
        let n = self.nat()?;
        let mut out = vec![];
        for _ in 0..n {
            let key = self.key()?;
            let sel = match self.tok()? {
                "s" => {
                    let f = self.tok()? == "1";
                    let name = self.tok()?.to_string();
                    let args = self.args()?;
                    Sel::Scalar { f, name, args }
                }
                k @ ("l" | "c") => {
                    let f = self.tok()? == "1";
                    let name = self.tok()?.to_string();
                    let args = self.args()?;
                    let conc = match self.tok()? {
                        "C" => format!("C.{}", self.tok()?),
                        "A" => "A".to_string(),
                        _ => return None,
                    };
                    let map = self.map()?;
                    Sel::Linked { client: k == "c", f, name, args, conc, map }
                }
                "f" => {
                    let ty = self.tok()?.to_string();
                    let map = self.map()?;
                    Sel::Frag { ty, map }
                }
                _ => return None,
            };
            out.push((key, sel));
        }
        Some(out)
    }
}

/// Parse the value of a `qmap` / `nmap` event.
pub fn parse_wire_map(wire: &str) -> Option<Map> {
    let mut p = P { t: wire.split_whitespace().collect(), i: 0 };
    let m = p.map()?;
    if p.i == p.t.len() {
        Some(m)
    } else {
        None
    }
}

fn entry_text(key: &str, sel: &Sel, canonical: bool) -> String {
    let b = |x: bool| if x { "1" } else { "0" };
    match sel {
        Sel::Scalar { f, name, args } => format!("s({key};{};{name};{args})", b(*f)),
        Sel::Linked { client, f, name, args, conc, map } => {
            format!("{}({key};{};{name};{args};{conc};{})", if *client { "c" } else { "l" }, b(*f), map_text(map, canonical))
        }
        Sel::Frag { ty, map } => format!("f({key};{ty};{})", map_text(map, canonical)),
    }
}

pub fn map_text(m: &Map, canonical: bool) -> String {
    let mut xs: Vec<String> = m.iter().map(|(k, s)| entry_text(k, s, canonical)).collect();
    if canonical {
        xs.sort();
    }
    format!("[{}]", xs.join(","))
}

/// What kind of difference makes two maps with the same canonical text iterate differently: looks
/// at the first map (depth first) whose entry sequence differs and names the value kinds in which
/// the first swapped pair of keys differs.
pub fn order_difference_class(a: &Map, b: &Map) -> String {
    fn go(a: &Map, b: &Map) -> Option<String> {
        let ta: Vec<String> = a.iter().map(|(k, s)| entry_text(k, s, true)).collect();
        let tb: Vec<String> = b.iter().map(|(k, s)| entry_text(k, s, true)).collect();
        if ta != tb {
            // first position where they differ: the two keys found there
            for i in 0..ta.len().min(tb.len()) {
                if ta[i] != tb[i] {
                    return Some(key_difference(&a[i].0, &b[i].0));
                }
            }
            return Some("length".to_string());
        }
        for ((_, sa), (_, sb)) in a.iter().zip(b.iter()) {
            let (ma, mb) = match (sa, sb) {
                (Sel::Linked { map: ma, .. }, Sel::Linked { map: mb, .. }) => (ma, mb),
                (Sel::Frag { map: ma, .. }, Sel::Frag { map: mb, .. }) => (ma, mb),
                _ => continue,
            };
            if let Some(c) = go(ma, mb) {
                return Some(c);
            }
        }
        None
    }
    go(a, b).unwrap_or_else(|| "none".to_string())
}

/// Two keys that swapped places: which value kinds distinguish them?
fn key_difference(a: &str, b: &str) -> String {
    // same field name, different arguments?
    let head = |k: &str| k.split('{').next().unwrap_or("").to_string();
    if head(a) != head(b) {
        return "field-name".to_string();
    }
    let kinds = |k: &str| {
        let mut v = vec![];
        if k.contains("=\"") {
            v.push("string");
        }
        if k.contains("=$") {
            v.push("variable");
        }
        if k.contains("=o{") {
            v.push("object");
        }
        if k.contains("=l[") {
            v.push("list");
        }
        if k.contains("=e.") {
            v.push("enum");
        }
        if k.contains("=i") || k.contains("=b") || k.contains("=n") || k.contains("=f.") {
            v.push("literal");
        }
        v
    };
    let mut ks = kinds(a);
    for k in kinds(b) {
        if !ks.contains(&k) {
            ks.push(k);
        }
    }
    ks.sort();
    let composite = ks.contains(&"object") || ks.contains(&"list");
    if a == b {
        // identical printed keys: they differ only in embedded source locations
        format!("same-text:{}", ks.join("+"))
    } else if composite {
        // object / list literals: their embedded source locations take part in the comparison
        format!("composite-args:{}", ks.join("+"))
    } else {
        format!("plain-args:{}", ks.join("+"))
    }
}

/// FNV-1a, 64 bit: only used to compare artifact bytes across processes.
pub fn fnv(bytes: &[u8]) -> String {
    let mut h: u64 = 0xcbf29ce484222325;
    for b in bytes {
        h ^= *b as u64;
        h = h.wrapping_mul(0x100000001b3);
    }
    format!("{h:016x}")
}
