//! Harness of the `merge` family (C15, C16).
//!
//! Engines (env `HX_ENGINE`):
//!   `arrange`  — C15.  Request `arrange \t <T> \t <wire P> \t <wire T(P)>` where `T(P)` is one of the
//!                three rearrangements of `hx_projgen::arrange`.  P and T(P) are each compiled by the
//!                REAL compiler (in-process; `HX_MERGE_FRESH=1`: each in a fresh child process `one`).
//!                Answer: `st=<P>/<T(P)>` and per entrypoint of P
//!                `ep=<Type.field> P=<map> T=<map> ops=<same|diff>` (maps in their own iteration order).
//!   `validate` — C16.  Request `validate \t <tag> \t <wire>` where tag is `valid`, `fault:<kind>`,
//!                `defect:<name>`; compiled in-process; answer `ok` | `diag <kinds…>` | `panic`.
//! Sub-command `one`: reads one wire project on stdin, compiles it with the event sink of the
//! verification hook switched on and prints `status` + one `E` line per entrypoint.
//! Sub-command `show`: reads request lines, prints the rendered projects (debugging aid).
mod dump;

use hx_common::*;
use hx_projgen::arrange::*;
use hx_projgen::compile::*;
use hx_projgen::env::{Env, SelKind, SelPath};
use hx_projgen::gen::*;
use hx_projgen::model::*;
use hx_projgen::mutate::*;
use hx_projgen::render::render_default;
use hx_projgen::wire::{from_wire, to_wire};
use std::collections::BTreeMap;
use std::io::{Read, Write};
use std::process::{Command, Stdio};

// ---------------------------------------------------------------------------------------------
// child: one compile in a fresh process
// ---------------------------------------------------------------------------------------------

fn unhex_str(h: &str) -> String {
    String::from_utf8_lossy(&unhex(h).unwrap_or_default()).to_string()
}

fn status_of(r: &CompileResult) -> String {
    match r {
        CompileResult::Ok(_) => "ok".to_string(),
        CompileResult::Diagnostics(_) => format!("diag:{}", r.summary()),
        CompileResult::Panic(m) => format!("panic:{}", hex(m.as_bytes())),
    }
}

/// One compile with the event sink of the verification hook switched on: status + per declared
/// entrypoint the digests of its operation artifacts and the merged map its printers were given.
fn capture(p: &Project) -> (String, Vec<(String, String, String, String)>) {
    isograph_schema::verif::verif_start();
    let mut session = Session::from_project(p);
    let outcome = session.compile();
    let events = isograph_schema::verif::verif_take();
    let status = status_of(&outcome.result);
    let mut eps = vec![];
    if !outcome.result.is_ok() {
        return (status, eps);
    }
    let mut meta: Option<String> = None;
    let mut qmap: Option<String> = None;
    for (tag, value) in events {
        match tag.as_str() {
            "meta" => meta = Some(value),
            "qmap" => qmap = Some(value),
            "flush" => {
                if value == "E" {
                    if let (Some(m), Some(q)) = (&meta, &qmap) {
                        let t: Vec<&str> = m.split_whitespace().collect();
                        if t.len() >= 2 {
                            let ty = unhex_str(t[0]);
                            let field = unhex_str(t[1]);
                            // the same code path also emits the query of a `@loadable` field
                            let declared = p.decls.iter().any(|(_, d)| d.is_entrypoint() && d.parent() == ty && d.name() == field);
                            if declared {
                                let qt = outcome.artifacts.get(&format!("{ty}/{field}/query_text.ts"));
                                let na = outcome.artifacts.get(&format!("{ty}/{field}/normalization_ast.ts"));
                                eps.push((
                                    format!("{ty}.{field}"),
                                    qt.map_or("missing".to_string(), |b| dump::fnv(b)),
                                    na.map_or("missing".to_string(), |b| dump::fnv(b)),
                                    q.trim().to_string(),
                                ));
                            }
                        }
                    }
                }
                meta = None;
                qmap = None;
            }
            _ => {}
        }
    }
    (status, eps)
}

fn one() {
    let mut input = String::new();
    std::io::stdin().read_to_string(&mut input).unwrap();
    let out = std::io::stdout();
    let mut out = out.lock();
    let Some(p) = from_wire(input.trim()) else {
        writeln!(out, "status\tbad-wire").unwrap();
        return;
    };
    let (status, eps) = capture(&p);
    writeln!(out, "status\t{status}").unwrap();
    for (name, q, n, map) in eps {
        writeln!(out, "E\t{name}\t{q}\t{n}\t{map}").unwrap();
    }
}

struct Ep {
    q: String,
    n: String,
    map: Option<dump::Map>,
}

struct Captured {
    status: String,
    eps: BTreeMap<String, Ep>,
}

/// The order of the compiler's maps is by string CONTENT and embedded source locations (`StringId: Ord`
/// compares `as_str()`), not by interning order, so a compile does not depend on the history of the
/// process: compiles run in-process unless `HX_MERGE_FRESH=1` asks for a child process per compile.
fn run_compile(wire: &str) -> Captured {
    if std::env::var("HX_MERGE_FRESH").map_or(false, |v| v == "1") {
        return run_child(wire);
    }
    let Some(p) = from_wire(wire) else {
        return Captured { status: "bad-wire".to_string(), eps: BTreeMap::new() };
    };
    let (status, eps) = capture(&p);
    let mut cap = Captured { status, eps: BTreeMap::new() };
    for (name, q, n, map) in eps {
        cap.eps.insert(name, Ep { q, n, map: dump::parse_wire_map(&map) });
    }
    cap
}

fn run_child(wire: &str) -> Captured {
    let exe = std::env::current_exe().expect("current_exe");
    let mut child = Command::new(exe)
        .arg("one")
        .stdin(Stdio::piped())
        .stdout(Stdio::piped())
        .stderr(Stdio::null())
        .spawn()
        .expect("spawn one");
    child.stdin.take().unwrap().write_all(wire.as_bytes()).unwrap();
    let output = child.wait_with_output().expect("wait one");
    let text = String::from_utf8_lossy(&output.stdout);
    let mut cap = Captured { status: String::new(), eps: BTreeMap::new() };
    for line in text.lines() {
        let f: Vec<&str> = line.split('\t').collect();
        match f[0] {
            "status" if f.len() >= 2 => cap.status = f[1].to_string(),
            "E" if f.len() >= 5 => {
                cap.eps.insert(f[1].to_string(), Ep { q: f[2].to_string(), n: f[3].to_string(), map: dump::parse_wire_map(f[4]) });
            }
            _ => {}
        }
    }
    if cap.status.is_empty() {
        // the child died (stack overflow, abort): no status line
        cap.status = match output.status.code() {
            Some(c) => format!("died:exit{c}"),
            None => "died:signal".to_string(),
        };
    }
    cap
}

fn status_class(s: &str) -> &str {
    s.split(':').next().unwrap_or(s)
}

// ---------------------------------------------------------------------------------------------
// engine `arrange`
// ---------------------------------------------------------------------------------------------

fn gen_opts() -> GenOpts {
    let mut o = GenOpts::default();
    if let Ok(v) = std::env::var("HX_MERGE_SAFE") {
        if v == "1" {
            o = GenOpts::safe();
        }
    }
    o
}

fn project_with_entrypoint(r: &mut Rng, o: &GenOpts) -> Project {
    let mut p = generate(r, o);
    for _ in 0..10 {
        if p.decls.iter().any(|(_, d)| d.is_entrypoint()) {
            break;
        }
        p = generate(r, o);
    }
    p
}


// ---- the same type refinement reached twice at one place, with an overlapping linked field --------

/// Adds `interface ZzActor`, `type ZzUser implements ZzActor { name, age, bestFriend(first: Int): ZzUser }`,
/// `Query.zz_actor: ZzActor`, two client fields on `ZzActor` that refine to `ZzUser` and select
/// `bestFriend` with DIFFERENT sub-selections, and a host `field Query.ZzHost { zz_actor { … } }` with its
/// entrypoint.  `arrangement`: what stands inside `zz_actor { … }`:
///   0 field-then-direct  `ZzA, asZzUser { bestFriend { B } }`      1 direct-then-field  `asZzUser { bestFriend { B } }, ZzA`
///   2 fieldA-then-fieldB `ZzA, ZzB`                                 3 fieldB-then-fieldA `ZzB, ZzA`
/// All four must give the same operation (`bestFriend { age, name … }` inside `... on ZzUser`).
/// `deep`, `with_arg`, `extra` vary the shape (nested `bestFriend`, a literal argument, more scalars).
fn inject_overlap(p: &Project, arrangement: usize, deep: bool, with_arg: bool, extra: bool) -> Project {
    let named = TypeRef::named;
    let mut q = p.clone();
    q.schema.types.push(TypeDef {
        name: "ZzActor".into(),
        description: None,
        kind: TypeKind::Interface { implements: vec![], fields: vec![fd("name", vec![], named("String"))] },
    });
    q.schema.types.push(TypeDef {
        name: "ZzUser".into(),
        description: None,
        kind: TypeKind::Object {
            implements: vec!["ZzActor".into()],
            fields: vec![
                fd("name", vec![], named("String")),
                fd("age", vec![], named("Int")),
                fd("bestFriend", vec![ad("first", named("Int"))], named("ZzUser")),
            ],
        },
    });
    for t in q.schema.types.iter_mut() {
        if t.name == "Query" {
            if let TypeKind::Object { fields, .. } = &mut t.kind {
                fields.push(fd("zz_actor", vec![], named("ZzActor")));
            }
        }
    }
    let args = || if with_arg { vec![("first", Value::Int(1))] } else { vec![] };
    let friend = |leaf: &str| {
        let mut kids = vec![sel(None, leaf, vec![], None)];
        if deep {
            kids.push(sel(None, "bestFriend", args(), Some(vec![sel(None, leaf, vec![], None)])));
        }
        sel(None, "bestFriend", args(), Some(kids))
    };
    let refine = |leaf: &str| {
        let mut kids = vec![friend(leaf)];
        if extra {
            kids.insert(0, sel(None, leaf, vec![], None));
        }
        sel(None, "asZzUser", vec![], Some(kids))
    };
    let file = format!("{}/ZzOverlap.tsx", p.options.project_root.trim_start_matches("./").trim_end_matches('/'));
    let field = |parent: &str, name: &str, selections: Vec<Selection>| {
        (
            file.clone(),
            Decl::ClientField(ClientField { parent: parent.into(), name: name.into(), vars: vec![], directives: vec![], description: None, selections }),
        )
    };
    let call = |name: &str| sel(None, name, vec![], None);
    let inside = match arrangement {
        0 => vec![call("ZzA"), refine("age")],
        1 => vec![refine("age"), call("ZzA")],
        2 => vec![call("ZzA"), call("ZzB")],
        _ => vec![call("ZzB"), call("ZzA")],
    };
    q.decls.push(field("ZzActor", "ZzA", vec![refine("name")]));
    q.decls.push(field("ZzActor", "ZzB", vec![refine("age")]));
    q.decls.push(field("Query", "ZzHost", vec![sel(None, "zz_actor", vec![], Some(inside))]));
    q.decls.push((file.clone(), Decl::Entrypoint(Entrypoint { parent: "Query".into(), name: "ZzHost".into(), directives: vec![] })));
    q
}

/// (T, arrangement of P, arrangement of T(P))
const OVERLAP_PAIRS: &[(&str, usize, usize)] =
    &[("overlap-perm", 0, 1), ("overlap-perm", 2, 3), ("overlap-extract", 1, 3), ("overlap-extract", 0, 2)];

fn gen_arrange(r: &mut Rng, i: u64) -> Vec<String> {
    if i % 8 == 7 {
        let o = gen_opts();
        let p = generate(r, &o);
        let (t, a, b) = OVERLAP_PAIRS[((i / 8) % 4) as usize];
        let (deep, with_arg, extra) = (r.chance(1, 2), r.chance(1, 2), r.chance(1, 2));
        return vec![format!("arrange\t{t}\t{}\t{}", to_wire(&inject_overlap(&p, a, deep, with_arg, extra)), to_wire(&inject_overlap(&p, b, deep, with_arg, extra)))];
    }
    let o = gen_opts();
    let p = project_with_entrypoint(r, &o);
    let (name, q) = match i % 3 {
        0 => ("perm", permute_selections(r, &p)),
        1 => match duplicate_under_alias(r, &p) {
            Some(q) => ("dup", q),
            None => ("perm", permute_selections(r, &p)),
        },
        _ => match extract_client_field(r, &p) {
            Some(q) => ("extract", q),
            None => ("perm", permute_selections(r, &p)),
        },
    };
    vec![format!("arrange\t{name}\t{}\t{}", to_wire(&p), to_wire(&q))]
}

fn run_arrange(f: &[&str]) -> String {
    if f.len() < 4 {
        return "bad-op".to_string();
    }
    let a = run_compile(f[2]);
    let b = run_compile(f[3]);
    let mut out = vec![format!("st={}/{}", status_class(&a.status), status_class(&b.status))];
    if a.status != "ok" || b.status != "ok" {
        return out.join("\t");
    }
    for (name, ea) in &a.eps {
        out.push(format!("ep={name}"));
        let Some(ma) = &ea.map else {
            out.push("P=unparsed".to_string());
            continue;
        };
        out.push(format!("P={}", dump::map_text(ma, false)));
        match b.eps.get(name) {
            None => {
                out.push("T=missing".to_string());
                out.push("ops=diff".to_string());
            }
            Some(eb) => {
                let Some(mb) = &eb.map else {
                    out.push("T=unparsed".to_string());
                    continue;
                };
                out.push(format!("T={}", dump::map_text(mb, false)));
                out.push(format!("ops={}", if ea.q == eb.q && ea.n == eb.n { "same" } else { "diff" }));
            }
        }
    }
    out.join("\t")
}

// ---------------------------------------------------------------------------------------------
// engine `validate`
// ---------------------------------------------------------------------------------------------

struct Site {
    path: SelPath,
    /// type the selection is selected on
    ty: String,
    sel: Selection,
    target: hx_projgen::env::Selectable,
}

fn sites(p: &Project) -> Vec<Site> {
    let env = Env::new(p);
    let mut out = vec![];
    env.walk(|path, ty, sel, found| {
        if let Some(t) = found {
            out.push(Site { path: path.clone(), ty: ty.to_string(), sel: sel.clone(), target: t.clone() });
        }
    });
    out
}

// ---- duplicate response names, by the kinds of the two colliding selections -------------------

pub const DUP_CLASSES: &[&str] = &["scalar-scalar", "object-object", "scalar-alias-vs-object", "object-alias-vs-scalar"];

/// Two selections of one selection set with the same response name; `class` says what the two
/// selections are (without / with a selection set) and which one borrows the other's name as alias.
fn fault_duplicate_response_name(r: &mut Rng, p: &Project, class: &str) -> Option<Project> {
    let ss = sites(p);
    let env = Env::new(p);
    let well_shaped = |s: &&Site| s.sel.kids().is_some() == s.target.kind.is_linked();
    let mut q = p.clone();
    match class {
        "scalar-scalar" | "object-object" => {
            let want_linked = class == "object-object";
            let c: Vec<&Site> = ss.iter().filter(well_shaped).filter(|s| s.sel.kids().is_some() == want_linked).collect();
            if c.is_empty() {
                return None;
            }
            let s = *r.pick(&c);
            let last = *s.path.idx.last()?;
            let set = s.path.parent_set_mut(&mut q)?;
            let at = if r.chance(1, 2) { last } else { last + 1 };
            set.insert(at, s.sel.clone());
        }
        "scalar-alias-vs-object" => {
            // `R { … }` is there; add `R: __typename`
            let c: Vec<&Site> = ss.iter().filter(well_shaped).filter(|s| s.sel.kids().is_some()).collect();
            if c.is_empty() {
                return None;
            }
            let s = *r.pick(&c);
            let name = s.sel.response_name().to_string();
            let mut head = SelHead::new("__typename");
            if name != "__typename" {
                head.alias = Some(name);
            }
            let last = *s.path.idx.last()?;
            let set = s.path.parent_set_mut(&mut q)?;
            let at = if r.chance(1, 2) { last } else { last + 1 };
            set.insert(at, Selection::Scalar(head));
        }
        "object-alias-vs-scalar" => {
            // `R` (no selection set) is there; add `R: someObjectField { __typename }`
            let mut c: Vec<(&Site, String)> = vec![];
            for s in ss.iter().filter(well_shaped).filter(|s| s.sel.kids().is_none()) {
                for cand in env.selectables(&s.ty) {
                    if cand.kind == SelKind::ServerObject && cand.required_args().next().is_none() {
                        c.push((s, cand.name.clone()));
                    }
                }
            }
            if c.is_empty() {
                return None;
            }
            let (s, field) = r.pick(&c).clone();
            let name = s.sel.response_name().to_string();
            let mut head = SelHead::new(&field);
            if name != field {
                head.alias = Some(name);
            }
            let last = *s.path.idx.last()?;
            let set = s.path.parent_set_mut(&mut q)?;
            let at = if r.chance(1, 2) { last } else { last + 1 };
            set.insert(at, Selection::Linked(head, vec![Selection::scalar("__typename")]));
        }
        _ => return None,
    }
    Some(q)
}

// ---- required arguments of list type ------------------------------------------------------------

pub const LIST_ARG_CLASSES: &[&str] = &["list-scalar", "list-linked", "list-given"];

/// Adds to an object type of the schema a field with a REQUIRED list argument without default
/// (`zz_sizes(sizes: [Int!]!): Int` / `zz_users(ids: [ID!]!): <the type itself>`) and selects it in a
/// selection set on that type: `list-scalar` / `list-linked` WITHOUT the argument (one fault:
/// missing required argument), `list-given` with a variable of exactly that type (valid).
fn list_argument_case(r: &mut Rng, p: &Project, class: &str) -> Option<Project> {
    let ss = sites(p);
    // selection sets on object types, inside client fields (pointers are left alone)
    let c: Vec<&Site> = ss
        .iter()
        .filter(|s| matches!(p.schema.get(&s.ty).map(|t| &t.kind), Some(TypeKind::Object { .. })))
        .filter(|s| matches!(p.decls[s.path.decl].1, Decl::ClientField(_)))
        .collect();
    if c.is_empty() {
        return None;
    }
    let s = *r.pick(&c);
    let linked = match class {
        "list-linked" => true,
        "list-scalar" => false,
        _ => r.chance(1, 2),
    };
    let (field, arg, inner) = if linked { ("zz_users", "ids", "ID") } else { ("zz_sizes", "sizes", "Int") };
    let arg_ty = TypeRef::named(inner).non_null().list().non_null();
    let mut q = p.clone();
    for t in q.schema.types.iter_mut() {
        if t.name == s.ty {
            if let TypeKind::Object { fields, .. } = &mut t.kind {
                if fields.iter().any(|f| f.name == field) {
                    return None;
                }
                fields.push(FieldDef {
                    name: field.to_string(),
                    description: None,
                    args: vec![ArgDef { name: arg.to_string(), description: None, ty: arg_ty.clone(), default: None }],
                    ty: if linked { TypeRef::named(&s.ty) } else { TypeRef::named("Int") },
                });
            }
        }
    }
    let mut head = SelHead::new(field);
    if class == "list-given" {
        let var = "zz_list";
        if q.decls[s.path.decl].1.vars().iter().any(|v| v.name == var) {
            return None;
        }
        head.args.push((arg.to_string(), Value::var(var)));
        // nullable-free type, so every selection of this client field would have to pass it: only
        // declarations nobody selects get the new variable
        let (parent, name) = (q.decls[s.path.decl].1.parent().to_string(), q.decls[s.path.decl].1.name().to_string());
        let selected_somewhere = ss.iter().any(|x| x.ty == parent && x.sel.head().name == name);
        if selected_somewhere {
            return None;
        }
        q.decls[s.path.decl].1.vars_mut()?.push(VarDef { name: var.to_string(), ty: arg_ty, default: None });
    }
    let new_sel = if linked { Selection::Linked(head, vec![Selection::scalar("__typename")]) } else { Selection::Scalar(head) };
    let last = *s.path.idx.last()?;
    s.path.parent_set_mut(&mut q)?.insert(last + 1, new_sel);
    Some(q)
}

/// A VALID program the current compiler rejects (projgen finding 1): a variable whose type is
/// identical to the type of the argument it is passed to, where that type is a nullable list.
fn defect_nullable_list_variable(r: &mut Rng, p: &Project) -> Option<Project> {
    let ss = sites(p);
    let mut cands: Vec<(usize, VarDef)> = vec![];
    for (i, s) in ss.iter().enumerate() {
        if !matches!(s.target.kind, SelKind::ServerScalar | SelKind::ServerObject) {
            continue;
        }
        if s.sel.kids().is_some() != s.target.kind.is_linked() {
            continue;
        }
        for def in &s.target.args {
            let top_nullable_list = matches!(def.ty, TypeRef::List(_));
            let given = s.sel.head().args.iter().find(|(n, _)| *n == def.name);
            let replaceable = match given {
                None => true,
                Some((_, Value::Null)) => true,
                _ => false,
            };
            if top_nullable_list && replaceable {
                cands.push((i, def.clone()));
            }
        }
    }
    if cands.is_empty() {
        return None;
    }
    let (i, def) = r.pick(&cands).clone();
    let mut q = p.clone();
    let s = &ss[i];
    let head = s.path.get_mut(&mut q)?.head_mut();
    head.args.retain(|(n, _)| *n != def.name);
    head.args.push((def.name.clone(), Value::var("zz_nlv")));
    q.decls[s.path.decl].1.vars_mut()?.push(VarDef { name: "zz_nlv".to_string(), ty: def.ty.clone(), default: None });
    Some(q)
}

/// An argument named `id` that the selected field does not declare
/// (`validate_no_extraneous_arguments` skips every argument called `id`).
fn defect_undefined_argument_id(r: &mut Rng, p: &Project) -> Option<Project> {
    let ss = sites(p);
    let cands: Vec<&Site> = ss
        .iter()
        .filter(|s| {
            matches!(s.target.kind, SelKind::ServerScalar | SelKind::ServerObject | SelKind::ClientField | SelKind::ClientPointer)
                && s.sel.kids().is_some() == s.target.kind.is_linked()
                && !s.target.args.iter().any(|a| a.name == "id")
                && !s.sel.head().args.iter().any(|(n, _)| n == "id")
        })
        .collect();
    if cands.is_empty() {
        return None;
    }
    let s = *r.pick(&cands);
    let mut q = p.clone();
    s.path.get_mut(&mut q)?.head_mut().args.push(("id".to_string(), Value::Int(1)));
    Some(q)
}

const DEFECTS: &[&str] = &["missing-required-argument-linked", "nullable-list-variable", "undefined-argument-id"];

fn gen_validate(r: &mut Rng, i: u64) -> Vec<String> {
    let o = gen_opts();
    // blocks of 24 cases: 1 from the known-defect streams, 3 unmutated, 3 from the targeted classes
    // (duplicate response names by kind pair, required list arguments), 17 single-fault mutants of
    // hx_projgen, the kind chosen round-robin so that every kind is hit equally often
    let (block, slot) = (i / 24, i % 24);
    if slot == 4 || slot == 12 || slot == 20 {
        let p = generate(r, &o);
        return vec![format!("validate\tvalid\t{}", to_wire(&p))];
    }
    if slot == 0 {
        let name = DEFECTS[(block % DEFECTS.len() as u64) as usize];
        for _ in 0..40 {
            let p = generate(r, &o);
            let q = match name {
                "missing-required-argument-linked" => mutate_fault(r, &p, FaultKind::MissingRequiredArgumentLinked),
                "nullable-list-variable" => defect_nullable_list_variable(r, &p),
                _ => defect_undefined_argument_id(r, &p),
            };
            if let Some(q) = q {
                return vec![format!("validate\tdefect:{name}\t{}", to_wire(&q))];
            }
        }
        let p = generate(r, &o);
        return vec![format!("validate\tvalid\t{}", to_wire(&p))];
    }
    if slot == 8 || slot == 16 || slot == 23 {
        let j = block * 3 + match slot { 8 => 0, 16 => 1, _ => 2 };
        let n = (DUP_CLASSES.len() + LIST_ARG_CLASSES.len()) as u64;
        let k = (j % n) as usize;
        for _ in 0..60 {
            let p = generate(r, &o);
            if k < DUP_CLASSES.len() {
                if let Some(q) = fault_duplicate_response_name(r, &p, DUP_CLASSES[k]) {
                    return vec![format!("validate\tfault:duplicate-response-name:{}\t{}", DUP_CLASSES[k], to_wire(&q))];
                }
            } else {
                let class = LIST_ARG_CLASSES[k - DUP_CLASSES.len()];
                if let Some(q) = list_argument_case(r, &p, class) {
                    let tag = if class == "list-given" { "valid:list-argument".to_string() } else { format!("fault:missing-required-argument:{class}") };
                    return vec![format!("validate\t{tag}\t{}", to_wire(&q))];
                }
            }
        }
        let p = generate(r, &o);
        return vec![format!("validate\tvalid\t{}", to_wire(&p))];
    }
    // mutant slots: the 17 remaining ones
    let before = (0..slot).filter(|s| ![0u64, 4, 8, 12, 16, 20, 23].contains(s)).count() as u64;
    let k = block * 17 + before;
    let kind = FaultKind::ALL[(k % FaultKind::ALL.len() as u64) as usize];
    for _ in 0..40 {
        let p = generate(r, &o);
        if let Some(q) = mutate_fault(r, &p, kind) {
            return vec![format!("validate\tfault:{}\t{}", kind.name(), to_wire(&q))];
        }
    }
    let p = generate(r, &o);
    vec![format!("validate\tvalid\t{}", to_wire(&p))]
}

fn run_validate(f: &[&str]) -> String {
    if f.len() < 3 {
        return "bad-op".to_string();
    }
    let Some(p) = from_wire(f[2]) else { return "bad-wire".to_string() };
    let out = compile_project(&p);
    match &out.result {
        CompileResult::Ok(_) => "ok".to_string(),
        CompileResult::Panic(_) => "panic".to_string(),
        CompileResult::Diagnostics(ds) => {
            let mut k: Vec<&str> = ds.iter().map(|d| d.kind.as_str()).collect();
            k.sort();
            k.dedup();
            format!("diag\t{}", k.join("\t"))
        }
    }
}

// ---------------------------------------------------------------------------------------------


// ---------------------------------------------------------------------------------------------
// hand-built witnesses (`witness` prints their request lines; they live in corpus/C15, corpus/C16)
// ---------------------------------------------------------------------------------------------

fn obj_type(name: &str, fields: Vec<FieldDef>) -> TypeDef {
    TypeDef { name: name.into(), description: None, kind: TypeKind::Object { implements: vec![], fields } }
}
fn fd(name: &str, args: Vec<ArgDef>, ty: TypeRef) -> FieldDef {
    FieldDef { name: name.into(), description: None, args, ty }
}
fn ad(name: &str, ty: TypeRef) -> ArgDef {
    ArgDef { name: name.into(), description: None, ty, default: None }
}
fn sel(alias: Option<&str>, name: &str, args: Vec<(&str, Value)>, kids: Option<Vec<Selection>>) -> Selection {
    let head = SelHead {
        alias: alias.map(|s| s.to_string()),
        name: name.into(),
        args: args.into_iter().map(|(k, v)| (k.to_string(), v)).collect(),
        directives: vec![],
    };
    match kids {
        None => Selection::Scalar(head),
        Some(k) => Selection::Linked(head, k),
    }
}
fn home(schema: Vec<TypeDef>, vars: Vec<VarDef>, selections: Vec<Selection>) -> Project {
    Project {
        schema: Schema { types: schema },
        extensions: vec![],
        decls: vec![
            (
                "src/Home.tsx".into(),
                Decl::ClientField(ClientField { parent: "Query".into(), name: "Home".into(), vars, directives: vec![], description: None, selections }),
            ),
            ("src/Home.tsx".into(), Decl::Entrypoint(Entrypoint { parent: "Query".into(), name: "Home".into(), directives: vec![] })),
        ],
        options: Options::default(),
        extra_files: vec![],
    }
}

fn witnesses() -> Vec<(&'static str, String)> {
    let named = TypeRef::named;
    let pet = || obj_type("Pet", vec![fd("id", vec![], named("ID").non_null()), fd("name", vec![], named("String")), fd("age", vec![], named("Int"))]);
    let input = || TypeDef { name: "In".into(), description: None, kind: TypeKind::Input { fields: vec![ad("a", named("Int"))] } };
    let obj = |n: i64| Value::Object(vec![("a".to_string(), Value::Int(n))]);
    let mut out = vec![];
    // C15: the same field with the same object-literal argument, selected twice
    {
        let schema = || vec![obj_type("Query", vec![fd("score", vec![ad("by", named("In"))], named("Int"))]), input()];
        let p = home(schema(), vec![], vec![sel(None, "score", vec![("by", obj(1))], None)]);
        let q = home(schema(), vec![], vec![sel(None, "score", vec![("by", obj(1))], None), sel(Some("dup2_score"), "score", vec![("by", obj(1))], None)]);
        out.push(("C15 dup-object-argument", format!("arrange\tdup\t{}\t{}", to_wire(&p), to_wire(&q))));
    }
    // C15: two selections of one field that differ in a string argument, written in the other order
    {
        let schema = || vec![obj_type("Query", vec![fd("pet", vec![ad("name", named("String"))], named("Pet"))]), pet()];
        let a = || sel(Some("a"), "pet", vec![("name", Value::str("zz"))], Some(vec![sel(None, "name", vec![], None)]));
        let b = || sel(Some("b"), "pet", vec![("name", Value::str("aa"))], Some(vec![sel(None, "name", vec![], None)]));
        let p = home(schema(), vec![], vec![a(), b()]);
        let q = home(schema(), vec![], vec![b(), a()]);
        out.push(("C15 order-string-argument", format!("arrange\tperm\t{}\t{}", to_wire(&p), to_wire(&q))));
    }
    // C15: two selections with the SAME object-literal argument and different sub-selections, swapped
    {
        let schema = || vec![obj_type("Query", vec![fd("pet", vec![ad("by", named("In"))], named("Pet"))]), pet(), input()];
        let a = || sel(Some("a"), "pet", vec![("by", obj(1))], Some(vec![sel(None, "name", vec![], None)]));
        let b = || sel(Some("b"), "pet", vec![("by", obj(1))], Some(vec![sel(None, "age", vec![], None)]));
        let p = home(schema(), vec![], vec![a(), b()]);
        let q = home(schema(), vec![], vec![b(), a()]);
        out.push(("C15 order-same-object-argument", format!("arrange\tperm\t{}\t{}", to_wire(&p), to_wire(&q))));
    }
    // C15: variables inside object literals, passed along client fields (af3b32d substitutes at any depth)
    {
        let schema = || vec![obj_type("Query", vec![fd("score", vec![ad("by", named("In"))], named("Int"))]), input()];
        let var_obj = |v: &str| Value::Object(vec![("a".to_string(), Value::var(v))]);
        let inner = |name: &str, var: &str, ty: TypeRef, arg: Value| {
            (
                "src/Home.tsx".to_string(),
                Decl::ClientField(ClientField {
                    parent: "Query".into(),
                    name: name.into(),
                    vars: vec![VarDef { name: var.into(), ty, default: None }],
                    directives: vec![],
                    description: None,
                    selections: vec![sel(None, "score", vec![("by", arg)], None)],
                }),
            )
        };
        let build = |first: bool| {
            let a = sel(None, "Inner", vec![("f", var_obj("n"))], None);
            let b = sel(None, "Inner2", vec![("x", Value::var("n"))], None);
            let mut p = home(schema(), vec![VarDef { name: "n".into(), ty: named("Int"), default: None }], if first { vec![a, b] } else { vec![b, a] });
            p.decls.insert(0, inner("Inner", "f", named("In"), Value::var("f")));
            p.decls.insert(1, inner("Inner2", "x", named("Int"), var_obj("x")));
            p
        };
        out.push(("C15 nested-variable-through-client-field", format!("arrange\tperm\t{}\t{}", to_wire(&build(true)), to_wire(&build(false)))));
    }
    // C15: one type refinement reached twice at one place, `bestFriend` selected with different sub-selections
    {
        let base = Project { schema: Schema { types: vec![obj_type("Query", vec![])] }, extensions: vec![], decls: vec![], options: Options::default(), extra_files: vec![] };
        for (t, a, b) in OVERLAP_PAIRS {
            let name: &'static str = match (a, b) {
                (0, 1) => "C15 overlap field-then-direct vs direct-then-field",
                (2, 3) => "C15 overlap fieldA-then-fieldB vs fieldB-then-fieldA",
                (1, 3) => "C15 overlap direct-then-field vs fieldB-then-fieldA",
                _ => "C15 overlap field-then-direct vs fieldA-then-fieldB",
            };
            out.push((name, format!("arrange\t{t}\t{}\t{}", to_wire(&inject_overlap(&base, *a, false, false, false)), to_wire(&inject_overlap(&base, *b, false, false, false)))));
        }
    }
    // C16: duplicate response names across selection KINDS, and required LIST arguments without default
    {
        let user = || {
            obj_type(
                "User",
                vec![
                    fd("id", vec![], named("ID").non_null()),
                    fd("name", vec![], named("String")),
                    fd("email", vec![], named("String")),
                    fd("bestFriend", vec![], named("User")),
                    fd("avatar", vec![ad("sizes", named("Int").non_null().list().non_null())], named("String")),
                ],
            )
        };
        let schema = || {
            vec![
                obj_type("Query", vec![fd("me", vec![], named("User")), fd("users", vec![ad("ids", named("ID").non_null().list().non_null())], named("User"))]),
                user(),
            ]
        };
        let id = || sel(None, "id", vec![], None);
        let me = |kids: Vec<Selection>| home(schema(), vec![], vec![sel(None, "me", vec![], Some(kids))]);
        let p1 = me(vec![sel(Some("bestFriend"), "name", vec![], None), sel(None, "bestFriend", vec![], Some(vec![id()]))]);
        out.push(("C16 duplicate scalar-alias-vs-object", format!("validate\tfault:duplicate-response-name:scalar-alias-vs-object\t{}", to_wire(&p1))));
        let p2 = me(vec![sel(None, "email", vec![], None), sel(Some("email"), "bestFriend", vec![], Some(vec![id()]))]);
        out.push(("C16 duplicate object-alias-vs-scalar", format!("validate\tfault:duplicate-response-name:object-alias-vs-scalar\t{}", to_wire(&p2))));
        let p3 = me(vec![sel(None, "name", vec![], None), sel(Some("name"), "email", vec![], None)]);
        out.push(("C16 duplicate scalar-scalar", format!("validate\tfault:duplicate-response-name:scalar-scalar\t{}", to_wire(&p3))));
        let p4 = me(vec![sel(None, "bestFriend", vec![], Some(vec![id()])), sel(None, "bestFriend", vec![], Some(vec![sel(None, "name", vec![], None)]))]);
        out.push(("C16 duplicate object-object", format!("validate\tfault:duplicate-response-name:object-object\t{}", to_wire(&p4))));
        let p5 = home(schema(), vec![], vec![sel(None, "users", vec![], Some(vec![id()]))]);
        out.push(("C16 missing list argument linked", format!("validate\tfault:missing-required-argument:list-linked\t{}", to_wire(&p5))));
        let p6 = me(vec![sel(None, "avatar", vec![], None)]);
        out.push(("C16 missing list argument scalar", format!("validate\tfault:missing-required-argument:list-scalar\t{}", to_wire(&p6))));
        let ids = named("ID").non_null().list().non_null();
        let p7 = home(schema(), vec![VarDef { name: "ids".into(), ty: ids, default: None }], vec![sel(None, "users", vec![("ids", Value::var("ids"))], Some(vec![id()]))]);
        out.push(("C16 list argument given", format!("validate\tvalid:list-argument\t{}", to_wire(&p7))));
    }
    // C16: required argument missing on a selection WITH a selection set
    {
        let schema = vec![obj_type("Query", vec![fd("pet", vec![ad("id", named("ID").non_null())], named("Pet"))]), pet()];
        let p = home(schema, vec![], vec![sel(None, "pet", vec![], Some(vec![sel(None, "name", vec![], None)]))]);
        out.push(("C16 missing-required-argument-linked", format!("validate\tdefect:missing-required-argument-linked\t{}", to_wire(&p))));
    }
    // C16: undefined argument called `id`
    {
        let schema = vec![obj_type("Query", vec![fd("pet", vec![ad("id", named("ID").non_null())], named("Pet"))]), pet()];
        let p = home(
            schema,
            vec![],
            vec![sel(None, "pet", vec![("id", Value::Int(1))], Some(vec![sel(None, "name", vec![("id", Value::Int(2))], None)]))],
        );
        out.push(("C16 undefined-argument-id", format!("validate\tdefect:undefined-argument-id\t{}", to_wire(&p))));
    }
    // C16: a variable of exactly the argument's type, the type being a nullable list
    {
        let ids = || named("ID").non_null().list();
        let schema = vec![obj_type("Query", vec![fd("pets", vec![ad("ids", ids())], named("Pet"))]), pet()];
        let p = home(
            schema,
            vec![VarDef { name: "ids".into(), ty: ids(), default: None }],
            vec![sel(None, "pets", vec![("ids", Value::var("ids"))], Some(vec![sel(None, "name", vec![], None)]))],
        );
        out.push(("C16 nullable-list-variable", format!("validate\tdefect:nullable-list-variable\t{}", to_wire(&p))));
    }
    out
}

fn show() {
    let mut input = String::new();
    std::io::stdin().read_to_string(&mut input).unwrap();
    for line in input.lines() {
        let f: Vec<&str> = line.split('\t').collect();
        for w in f.iter().filter(|x| x.starts_with("P ")) {
            match from_wire(w) {
                None => println!("<bad wire>"),
                Some(p) => {
                    println!("==================== project");
                    for (path, bytes) in render_default(&p) {
                        println!("--- {}\n{}", path.display(), String::from_utf8_lossy(&bytes));
                    }
                    let out = compile_project(&p);
                    println!("--- result: {}", out.result.summary());
                    if let CompileResult::Diagnostics(ds) = &out.result {
                        for d in ds {
                            println!("    [{}] {}", d.kind, d.message);
                        }
                    }
                    if let CompileResult::Panic(m) = &out.result {
                        println!("    panic: {m}");
                    }
                    if std::env::var("SHOW_OPS").is_ok() {
                        for (k, v) in &out.artifacts {
                            if k.ends_with("query_text.ts") && !k.contains("__refetch__") {
                                println!("--- {k}\n{}", String::from_utf8_lossy(v));
                            }
                        }
                    }
                }
            }
        }
    }
}

fn main() {
    let args: Vec<String> = std::env::args().collect();
    match args.get(1).map(|s| s.as_str()) {
        Some("one") => {
            quiet_panics();
            one();
            return;
        }
        Some("show") => {
            show();
            return;
        }
        Some("demos") => {
            // the three demo projects of /repo/demos through the compiler this binary links
            for name in ["pet-demo", "github-demo", "vite-demo"] {
                match load_demo(name) {
                    None => println!("{name}: not found"),
                    Some(files) => {
                        let out = compile_files(&files);
                        println!("{name}: {}", out.result.summary());
                        if let CompileResult::Diagnostics(ds) = &out.result {
                            for d in ds.iter().take(10) {
                                println!("    [{}] {}", d.kind, d.message);
                            }
                        }
                    }
                }
            }
            return;
        }
        Some("witness") => {
            for (name, line) in witnesses() {
                println!("# {name}\n{line}");
            }
            return;
        }
        _ => {}
    }
    let engine = std::env::var("HX_ENGINE").unwrap_or_else(|_| "arrange".to_string());
    main_loop(
        &|r, i| match engine.as_str() {
            "validate" => gen_validate(r, i),
            _ => gen_arrange(r, i),
        },
        &mut |f| match f[0] {
            "arrange" => run_arrange(f),
            "validate" => run_validate(f),
            _ => "bad-op".to_string(),
        },
    );
}
