//! Harness of the `merge` family (C15, C16).
//!
//! Engines (env `HX_ENGINE`):
//!   `arrange`  — C15.  Request `arrange \t <T> \t <wire P> \t <wire T(P)>` where `T(P)` is one of the
//!                three rearrangements of `hx_projgen::arrange`.  P and T(P) are each compiled by the
//!                REAL compiler (in-process; `HX_MERGE_FRESH=1`: each in a fresh child process `one`).
//!                Answer: `st=<P>/<T(P)>` and per entrypoint of P
//!                `ep=<Type.field> P=<map> T=<map> ops=<same|diff>` (maps in their own iteration order).
//!   `validate` — C16.  Request `validate \t <tag> \t <wire>` where tag is `valid`, `fault:<kind>`,
//!                `defect:<name>`; compiled in-process; answer `ok` | `diag <kinds…>` | `panic`.
//! Sub-command `one`: reads one wire project on stdin, compiles it with the event sink of the
//! verification hook switched on and prints `status` + one `E` line per entrypoint.
//! Sub-command `show`: reads request lines, prints the rendered projects (debugging aid).
mod dump;

use hx_common::*;
use hx_projgen::arrange::*;
use hx_projgen::compile::*;
use hx_projgen::env::{Env, SelKind, SelPath};
use hx_projgen::gen::*;
use hx_projgen::model::*;
use hx_projgen::mutate::*;
use hx_projgen::render::render_default;
use hx_projgen::wire::{from_wire, to_wire};
use std::collections::BTreeMap;
use std::io::{Read, Write};
use std::process::{Command, Stdio};

// ---------------------------------------------------------------------------------------------
// child: one compile in a fresh process
// ---------------------------------------------------------------------------------------------

fn unhex_str(h: &str) -> String {
    String::from_utf8_lossy(&unhex(h).unwrap_or_default()).to_string()
}

fn status_of(r: &CompileResult) -> String {
    match r {
        CompileResult::Ok(_) => "ok".to_string(),
        CompileResult::Diagnostics(_) => format!("diag:{}", r.summary()),
        CompileResult::Panic(m) => format!("panic:{}", hex(m.as_bytes())),
    }
}

/// One compile with the event sink of the verification hook switched on: status + per declared
/// entrypoint the digests of its operation artifacts and the merged map its printers were given.
fn capture(p: &Project) -> (String, Vec<(String, String, String, String)>) {
    isograph_schema::verif::verif_start();
    let mut session = Session::from_project(p);
    let outcome = session.compile();
    let events = isograph_schema::verif::verif_take();
    let status = status_of(&outcome.result);
    let mut eps = vec![];
    if !outcome.result.is_ok() {
        return (status, eps);
    }
    let mut meta: Option<String> = None;
    let mut qmap: Option<String> = None;
    for (tag, value) in events {
        match tag.as_str() {
            "meta" => meta = Some(value),
            "qmap" => qmap = Some(value),
            "flush" => {
                if value == "E" {
                    if let (Some(m), Some(q)) = (&meta, &qmap) {
                        let t: Vec<&str> = m.split_whitespace().collect();
                        if t.len() >= 2 {
                            let ty = unhex_str(t[0]);
                            let field = unhex_str(t[1]);
                            // the same code path also emits the query of a `@loadable` field
                            let declared = p.decls.iter().any(|(_, d)| d.is_entrypoint() && d.parent() == ty && d.name() == field);
                            if declared {
                                let qt = outcome.artifacts.get(&format!("{ty}/{field}/query_text.ts"));
                                let na = outcome.artifacts.get(&format!("{ty}/{field}/normalization_ast.ts"));
                                eps.push((
                                    format!("{ty}.{field}"),
                                    qt.map_or("missing".to_string(), |b| dump::fnv(b)),
                                    na.map_or("missing".to_string(), |b| dump::fnv(b)),
                                    q.trim().to_string(),
                                ));
                            }
                        }
                    }
                }
                meta = None;
                qmap = None;
            }
            _ => {}
        }
    }
    (status, eps)
}

fn one() {
    let mut input = String::new();
    std::io::stdin().read_to_string(&mut input).unwrap();
    let out = std::io::stdout();
    let mut out = out.lock();
    let Some(p) = from_wire(input.trim()) else {
        writeln!(out, "status\tbad-wire").unwrap();
        return;
    };
    let (status, eps) = capture(&p);
    writeln!(out, "status\t{status}").unwrap();
    for (name, q, n, map) in eps {
        writeln!(out, "E\t{name}\t{q}\t{n}\t{map}").unwrap();
    }
}

struct Ep {
    q: String,
    n: String,
    map: Option<dump::Map>,
}

struct Captured {
    status: String,
    eps: BTreeMap<String, Ep>,
}

/// The order of the compiler's maps is by string CONTENT and embedded source locations (`StringId: Ord`
/// compares `as_str()`), not by interning order, so a compile does not depend on the history of the
/// process: compiles run in-process unless `HX_MERGE_FRESH=1` asks for a child process per compile.
fn run_compile(wire: &str) -> Captured {
    if std::env::var("HX_MERGE_FRESH").map_or(false, |v| v == "1") {
        return run_child(wire);
    }
    let Some(p) = from_wire(wire) else {
        return Captured { status: "bad-wire".to_string(), eps: BTreeMap::new() };
    };
    let (status, eps) = capture(&p);
    let mut cap = Captured { status, eps: BTreeMap::new() };
    for (name, q, n, map) in eps {
        cap.eps.insert(name, Ep { q, n, map: dump::parse_wire_map(&map) });
    }
    cap
}

fn run_child(wire: &str) -> Captured {
    let exe = std::env::current_exe().expect("current_exe");
    let mut child = Command::new(exe)
        .arg("one")
        .stdin(Stdio::piped())
        .stdout(Stdio::piped())
        .stderr(Stdio::null())
        .spawn()
        .expect("spawn one");
    child.stdin.take().unwrap().write_all(wire.as_bytes()).unwrap();
    let output = child.wait_with_output().expect("wait one");
    let text = String::from_utf8_lossy(&output.stdout);
    let mut cap = Captured { status: String::new(), eps: BTreeMap::new() };
    for line in text.lines() {
        let f: Vec<&str> = line.split('\t').collect();
        match f[0] {
            "status" if f.len() >= 2 => cap.status = f[1].to_string(),
            "E" if f.len() >= 5 => {
                cap.eps.insert(f[1].to_string(), Ep { q: f[2].to_string(), n: f[3].to_string(), map: dump::parse_wire_map(f[4]) });
            }
            _ => {}
        }
    }
    if cap.status.is_empty() {
        // the child died (stack overflow, abort): no status line
        cap.status = match output.status.code() {
            Some(c) => format!("died:exit{c}"),
            None => "died:signal".to_string(),
        };
    }
    cap
}

fn status_class(s: &str) -> &str {
    s.split(':').next().unwrap_or(s)
}

// ---------------------------------------------------------------------------------------------
// engine `arrange`
// ---------------------------------------------------------------------------------------------

fn gen_opts() -> GenOpts {
    let mut o = GenOpts::default();
    if let Ok(v) = std::env::var("HX_MERGE_SAFE") {
        if v == "1" {
            o = GenOpts::safe();
        }
    }
    o
}

fn project_with_entrypoint(r: &mut Rng, o: &GenOpts) -> Project {
    let mut p = generate(r, o);
    for _ in 0..10 {
        if p.decls.iter().any(|(_, d)| d.is_entrypoint()) {
            break;
        }
        p = generate(r, o);
    }
    p
}

fn gen_arrange(r: &mut Rng, i: u64) -> Vec<String> {
    let o = gen_opts();
    let p = project_with_entrypoint(r, &o);
    let (name, q) = match i % 3 {
        0 => ("perm", permute_selections(r, &p)),
        1 => match duplicate_under_alias(r, &p) {
            Some(q) => ("dup", q),
            None => ("perm", permute_selections(r, &p)),
        },
        _ => match extract_client_field(r, &p) {
            Some(q) => ("extract", q),
            None => ("perm", permute_selections(r, &p)),
        },
    };
    vec![format!("arrange\t{name}\t{}\t{}", to_wire(&p), to_wire(&q))]
}

fn run_arrange(f: &[&str]) -> String {
    if f.len() < 4 {
        return "bad-op".to_string();
    }
    let a = run_compile(f[2]);
    let b = run_compile(f[3]);
    let mut out = vec![format!("st={}/{}", status_class(&a.status), status_class(&b.status))];
    if a.status != "ok" || b.status != "ok" {
        return out.join("\t");
    }
    for (name, ea) in &a.eps {
        out.push(format!("ep={name}"));
        let Some(ma) = &ea.map else {
            out.push("P=unparsed".to_string());
            continue;
        };
        out.push(format!("P={}", dump::map_text(ma, false)));
        match b.eps.get(name) {
            None => {
                out.push("T=missing".to_string());
                out.push("ops=diff".to_string());
            }
            Some(eb) => {
                let Some(mb) = &eb.map else {
                    out.push("T=unparsed".to_string());
                    continue;
                };
                out.push(format!("T={}", dump::map_text(mb, false)));
                out.push(format!("ops={}", if ea.q == eb.q && ea.n == eb.n { "same" } else { "diff" }));
            }
        }
    }
    out.join("\t")
}

// ---------------------------------------------------------------------------------------------
// engine `validate`
// ---------------------------------------------------------------------------------------------

struct Site {
    path: SelPath,
    sel: Selection,
    target: hx_projgen::env::Selectable,
}

fn sites(p: &Project) -> Vec<Site> {
    let env = Env::new(p);
    let mut out = vec![];
    env.walk(|path, _ty, sel, found| {
        if let Some(t) = found {
            out.push(Site { path: path.clone(), sel: sel.clone(), target: t.clone() });
        }
    });
    out
}

/// A VALID program the current compiler rejects (projgen finding 1): a variable whose type is
/// identical to the type of the argument it is passed to, where that type is a nullable list.
fn defect_nullable_list_variable(r: &mut Rng, p: &Project) -> Option<Project> {
    let ss = sites(p);
    let mut cands: Vec<(usize, VarDef)> = vec![];
    for (i, s) in ss.iter().enumerate() {
        if !matches!(s.target.kind, SelKind::ServerScalar | SelKind::ServerObject) {
            continue;
        }
        if s.sel.kids().is_some() != s.target.kind.is_linked() {
            continue;
        }
        for def in &s.target.args {
            let top_nullable_list = matches!(def.ty, TypeRef::List(_));
            let given = s.sel.head().args.iter().find(|(n, _)| *n == def.name);
            let replaceable = match given {
                None => true,
                Some((_, Value::Null)) => true,
                _ => false,
            };
            if top_nullable_list && replaceable {
                cands.push((i, def.clone()));
            }
        }
    }
    if cands.is_empty() {
        return None;
    }
    let (i, def) = r.pick(&cands).clone();
    let mut q = p.clone();
    let s = &ss[i];
    let head = s.path.get_mut(&mut q)?.head_mut();
    head.args.retain(|(n, _)| *n != def.name);
    head.args.push((def.name.clone(), Value::var("zz_nlv")));
    q.decls[s.path.decl].1.vars_mut()?.push(VarDef { name: "zz_nlv".to_string(), ty: def.ty.clone(), default: None });
    Some(q)
}

/// An argument named `id` that the selected field does not declare
/// (`validate_no_extraneous_arguments` skips every argument called `id`).
fn defect_undefined_argument_id(r: &mut Rng, p: &Project) -> Option<Project> {
    let ss = sites(p);
    let cands: Vec<&Site> = ss
        .iter()
        .filter(|s| {
            matches!(s.target.kind, SelKind::ServerScalar | SelKind::ServerObject | SelKind::ClientField | SelKind::ClientPointer)
                && s.sel.kids().is_some() == s.target.kind.is_linked()
                && !s.target.args.iter().any(|a| a.name == "id")
                && !s.sel.head().args.iter().any(|(n, _)| n == "id")
        })
        .collect();
    if cands.is_empty() {
        return None;
    }
    let s = *r.pick(&cands);
    let mut q = p.clone();
    s.path.get_mut(&mut q)?.head_mut().args.push(("id".to_string(), Value::Int(1)));
    Some(q)
}

const DEFECTS: &[&str] = &["missing-required-argument-linked", "nullable-list-variable", "undefined-argument-id"];

fn gen_validate(r: &mut Rng, i: u64) -> Vec<String> {
    let o = gen_opts();
    // 1 in 4 unmutated; 1 in 16 from the known-defect streams; the rest single-fault mutants, the
    // kind chosen round-robin so that every kind is hit equally often
    let slot = i % 16;
    if slot % 4 == 0 && slot != 0 {
        let p = generate(r, &o);
        return vec![format!("validate\tvalid\t{}", to_wire(&p))];
    }
    if slot == 0 {
        let name = DEFECTS[((i / 16) % DEFECTS.len() as u64) as usize];
        for _ in 0..40 {
            let p = generate(r, &o);
            let q = match name {
                "missing-required-argument-linked" => mutate_fault(r, &p, FaultKind::MissingRequiredArgumentLinked),
                "nullable-list-variable" => defect_nullable_list_variable(r, &p),
                _ => defect_undefined_argument_id(r, &p),
            };
            if let Some(q) = q {
                return vec![format!("validate\tdefect:{name}\t{}", to_wire(&q))];
            }
        }
        let p = generate(r, &o);
        return vec![format!("validate\tvalid\t{}", to_wire(&p))];
    }
    // mutant slots: 1,2,3,5,6,7,9,10,11,13,14,15 → 12 per 16
    let k = (i / 16) * 12 + [0, 0, 1, 2, 0, 3, 4, 5, 0, 6, 7, 8, 0, 9, 10, 11][slot as usize];
    let kind = FaultKind::ALL[(k % FaultKind::ALL.len() as u64) as usize];
    for _ in 0..40 {
        let p = generate(r, &o);
        if let Some(q) = mutate_fault(r, &p, kind) {
            return vec![format!("validate\tfault:{}\t{}", kind.name(), to_wire(&q))];
        }
    }
    let p = generate(r, &o);
    vec![format!("validate\tvalid\t{}", to_wire(&p))]
}

fn run_validate(f: &[&str]) -> String {
    if f.len() < 3 {
        return "bad-op".to_string();
    }
    let Some(p) = from_wire(f[2]) else { return "bad-wire".to_string() };
    let out = compile_project(&p);
    match &out.result {
        CompileResult::Ok(_) => "ok".to_string(),
        CompileResult::Panic(_) => "panic".to_string(),
        CompileResult::Diagnostics(ds) => {
            let mut k: Vec<&str> = ds.iter().map(|d| d.kind.as_str()).collect();
            k.sort();
            k.dedup();
            format!("diag\t{}", k.join("\t"))
        }
    }
}

// ---------------------------------------------------------------------------------------------


// ---------------------------------------------------------------------------------------------
// hand-built witnesses (`witness` prints their request lines; they live in corpus/C15, corpus/C16)
// ---------------------------------------------------------------------------------------------

fn obj_type(name: &str, fields: Vec<FieldDef>) -> TypeDef {
    TypeDef { name: name.into(), description: None, kind: TypeKind::Object { implements: vec![], fields } }
}
fn fd(name: &str, args: Vec<ArgDef>, ty: TypeRef) -> FieldDef {
    FieldDef { name: name.into(), description: None, args, ty }
}
fn ad(name: &str, ty: TypeRef) -> ArgDef {
    ArgDef { name: name.into(), description: None, ty, default: None }
}
fn sel(alias: Option<&str>, name: &str, args: Vec<(&str, Value)>, kids: Option<Vec<Selection>>) -> Selection {
    let head = SelHead {
        alias: alias.map(|s| s.to_string()),
        name: name.into(),
        args: args.into_iter().map(|(k, v)| (k.to_string(), v)).collect(),
        directives: vec![],
    };
    match kids {
        None => Selection::Scalar(head),
        Some(k) => Selection::Linked(head, k),
    }
}
fn home(schema: Vec<TypeDef>, vars: Vec<VarDef>, selections: Vec<Selection>) -> Project {
    Project {
        schema: Schema { types: schema },
        extensions: vec![],
        decls: vec![
            (
                "src/Home.tsx".into(),
                Decl::ClientField(ClientField { parent: "Query".into(), name: "Home".into(), vars, directives: vec![], description: None, selections }),
            ),
            ("src/Home.tsx".into(), Decl::Entrypoint(Entrypoint { parent: "Query".into(), name: "Home".into(), directives: vec![] })),
        ],
        options: Options::default(),
        extra_files: vec![],
    }
}

fn witnesses() -> Vec<(&'static str, String)> {
    let named = TypeRef::named;
    let pet = || obj_type("Pet", vec![fd("id", vec![], named("ID").non_null()), fd("name", vec![], named("String")), fd("age", vec![], named("Int"))]);
    let input = || TypeDef { name: "In".into(), description: None, kind: TypeKind::Input { fields: vec![ad("a", named("Int"))] } };
    let obj = |n: i64| Value::Object(vec![("a".to_string(), Value::Int(n))]);
    let mut out = vec![];
    // C15: the same field with the same object-literal argument, selected twice
    {
        let schema = || vec![obj_type("Query", vec![fd("score", vec![ad("by", named("In"))], named("Int"))]), input()];
        let p = home(schema(), vec![], vec![sel(None, "score", vec![("by", obj(1))], None)]);
        let q = home(schema(), vec![], vec![sel(None, "score", vec![("by", obj(1))], None), sel(Some("dup2_score"), "score", vec![("by", obj(1))], None)]);
        out.push(("C15 dup-object-argument", format!("arrange\tdup\t{}\t{}", to_wire(&p), to_wire(&q))));
    }
    // C15: two selections of one field that differ in a string argument, written in the other order
    {
        let schema = || vec![obj_type("Query", vec![fd("pet", vec![ad("name", named("String"))], named("Pet"))]), pet()];
        let a = || sel(Some("a"), "pet", vec![("name", Value::str("zz"))], Some(vec![sel(None, "name", vec![], None)]));
        let b = || sel(Some("b"), "pet", vec![("name", Value::str("aa"))], Some(vec![sel(None, "name", vec![], None)]));
        let p = home(schema(), vec![], vec![a(), b()]);
        let q = home(schema(), vec![], vec![b(), a()]);
        out.push(("C15 order-string-argument", format!("arrange\tperm\t{}\t{}", to_wire(&p), to_wire(&q))));
    }
    // C15: two selections with the SAME object-literal argument and different sub-selections, swapped
    {
        let schema = || vec![obj_type("Query", vec![fd("pet", vec![ad("by", named("In"))], named("Pet"))]), pet(), input()];
        let a = || sel(Some("a"), "pet", vec![("by", obj(1))], Some(vec![sel(None, "name", vec![], None)]));
        let b = || sel(Some("b"), "pet", vec![("by", obj(1))], Some(vec![sel(None, "age", vec![], None)]));
        let p = home(schema(), vec![], vec![a(), b()]);
        let q = home(schema(), vec![], vec![b(), a()]);
        out.push(("C15 order-same-object-argument", format!("arrange\tperm\t{}\t{}", to_wire(&p), to_wire(&q))));
    }
    // C15: variables inside object literals, passed along client fields (af3b32d substitutes at any depth)
    {
        let schema = || vec![obj_type("Query", vec![fd("score", vec![ad("by", named("In"))], named("Int"))]), input()];
        let var_obj = |v: &str| Value::Object(vec![("a".to_string(), Value::var(v))]);
        let inner = |name: &str, var: &str, ty: TypeRef, arg: Value| {
            (
                "src/Home.tsx".to_string(),
                Decl::ClientField(ClientField {
                    parent: "Query".into(),
                    name: name.into(),
                    vars: vec![VarDef { name: var.into(), ty, default: None }],
                    directives: vec![],
                    description: None,
                    selections: vec![sel(None, "score", vec![("by", arg)], None)],
                }),
            )
        };
        let build = |first: bool| {
            let a = sel(None, "Inner", vec![("f", var_obj("n"))], None);
            let b = sel(None, "Inner2", vec![("x", Value::var("n"))], None);
            let mut p = home(schema(), vec![VarDef { name: "n".into(), ty: named("Int"), default: None }], if first { vec![a, b] } else { vec![b, a] });
            p.decls.insert(0, inner("Inner", "f", named("In"), Value::var("f")));
            p.decls.insert(1, inner("Inner2", "x", named("Int"), var_obj("x")));
            p
        };
        out.push(("C15 nested-variable-through-client-field", format!("arrange\tperm\t{}\t{}", to_wire(&build(true)), to_wire(&build(false)))));
    }
    // C16: required argument missing on a selection WITH a selection set
    {
        let schema = vec![obj_type("Query", vec![fd("pet", vec![ad("id", named("ID").non_null())], named("Pet"))]), pet()];
        let p = home(schema, vec![], vec![sel(None, "pet", vec![], Some(vec![sel(None, "name", vec![], None)]))]);
        out.push(("C16 missing-required-argument-linked", format!("validate\tdefect:missing-required-argument-linked\t{}", to_wire(&p))));
    }
    // C16: undefined argument called `id`
    {
        let schema = vec![obj_type("Query", vec![fd("pet", vec![ad("id", named("ID").non_null())], named("Pet"))]), pet()];
        let p = home(
            schema,
            vec![],
            vec![sel(None, "pet", vec![("id", Value::Int(1))], Some(vec![sel(None, "name", vec![("id", Value::Int(2))], None)]))],
        );
        out.push(("C16 undefined-argument-id", format!("validate\tdefect:undefined-argument-id\t{}", to_wire(&p))));
    }
    // C16: a variable of exactly the argument's type, the type being a nullable list
    {
        let ids = || named("ID").non_null().list();
        let schema = vec![obj_type("Query", vec![fd("pets", vec![ad("ids", ids())], named("Pet"))]), pet()];
        let p = home(
            schema,
            vec![VarDef { name: "ids".into(), ty: ids(), default: None }],
            vec![sel(None, "pets", vec![("ids", Value::var("ids"))], Some(vec![sel(None, "name", vec![], None)]))],
        );
        out.push(("C16 nullable-list-variable", format!("validate\tdefect:nullable-list-variable\t{}", to_wire(&p))));
    }
    out
}

fn show() {
    let mut input = String::new();
    std::io::stdin().read_to_string(&mut input).unwrap();
    for line in input.lines() {
        let f: Vec<&str> = line.split('\t').collect();
        for w in f.iter().filter(|x| x.starts_with("P ")) {
            match from_wire(w) {
                None => println!("<bad wire>"),
                Some(p) => {
                    println!("==================== project");
                    for (path, bytes) in render_default(&p) {
                        println!("--- {}\n{}", path.display(), String::from_utf8_lossy(&bytes));
                    }
                    let out = compile_project(&p);
                    println!("--- result: {}", out.result.summary());
                    if let CompileResult::Diagnostics(ds) = &out.result {
                        for d in ds {
                            println!("    [{}] {}", d.kind, d.message);
                        }
                    }
                    if let CompileResult::Panic(m) = &out.result {
                        println!("    panic: {m}");
                    }
                    if std::env::var("SHOW_OPS").is_ok() {
                        for (k, v) in &out.artifacts {
                            if k.ends_with("query_text.ts") && !k.contains("__refetch__") {
                                println!("--- {k}\n{}", String::from_utf8_lossy(v));
                            }
                        }
                    }
                }
            }
        }
    }
}

fn main() {
    let args: Vec<String> = std::env::args().collect();
    match args.get(1).map(|s| s.as_str()) {
        Some("one") => {
            quiet_panics();
            one();
            return;
        }
        Some("show") => {
            show();
            return;
        }
        Some("demos") => {
            // the three demo projects of /repo/demos through the compiler this binary links
            for name in ["pet-demo", "github-demo", "vite-demo"] {
                match load_demo(name) {
                    None => println!("{name}: not found"),
                    Some(files) => {
                        let out = compile_files(&files);
                        println!("{name}: {}", out.result.summary());
                        if let CompileResult::Diagnostics(ds) = &out.result {
                            for d in ds.iter().take(10) {
                                println!("    [{}] {}", d.kind, d.message);
                            }
                        }
                    }
                }
            }
            return;
        }
        Some("witness") => {
            for (name, line) in witnesses() {
                println!("# {name}\n{line}");
            }
            return;
        }
        _ => {}
    }
    let engine = std::env::var("HX_ENGINE").unwrap_or_else(|_| "arrange".to_string());
    main_loop(
        &|r, i| match engine.as_str() {
            "validate" => gen_validate(r, i),
            _ => gen_arrange(r, i),
        },
        &mut |f| match f[0] {
            "arrange" => run_arrange(f),
            "validate" => run_validate(f),
            _ => "bad-op".to_string(),
        },
    );
}
